(** C08: the energy entry of every user account equals the time-weighted sum of the locked tokens it
    holds, in every reachable state of the composed model (energy factory + token-unstake +
    lkmex-transfer + wrapper).  The algebra is linear; the content is that every endpoint updates the
    right account by the right amounts, and that every call site of [add_after_token_lock] (which
    silently drops a term when unlock <= now) has unlock >= now. *)
From MX Require Import Base.Prelude Gen.Params Model.Energy.

(** Break a hypothesis [H : <monadic computation> = Ok _] into its successful steps. *)
Ltac inv_ok H :=
  repeat (first
    [ match type of H with
      | Ok _ = Ok _ => inversion H; subst; clear H
      | Err _ = Ok _ => discriminate H
      | bind ?r ?f = Ok _ =>
          let a := fresh "a" in let Hb := fresh "Hb" in
          apply bind_ok in H; destruct H as (a & Hb & H)
      | (if ?b then _ else _) = Ok _ =>
          let E := fresh "E" in destruct b eqn:E
      | (let (_, _) := ?x in _) = Ok _ => destruct x
      | (match ?x with Some _ => _ | None => _ end) = Ok _ =>
          let E := fresh "E" in destruct x eqn:E
      end
    | progress cbv beta in H ]).

Ltac zb := repeat match goal with
  | H : (_ =? _) = true |- _ => apply Z.eqb_eq in H
  | H : (_ =? _) = false |- _ => apply Z.eqb_neq in H
  | H : (_ <? _) = true |- _ => apply Z.ltb_lt in H
  | H : (_ <? _) = false |- _ => apply Z.ltb_ge in H
  | H : (_ <=? _) = true |- _ => apply Z.leb_le in H
  | H : (_ <=? _) = false |- _ => apply Z.leb_gt in H
  | H : negb _ = true |- _ => apply negb_true_iff in H
  | H : negb _ = false |- _ => apply negb_false_iff in H
  | H : (_ && _) = true |- _ => apply andb_true_iff in H; destruct H
  end.

(** ------------------------------------------------------------------ the only facts about the constants *)
Lemma month_pos : 0 < EPOCHS_PER_MONTH.
Proof. vm_compute. reflexivity. Qed.
Lemma month_le_year : EPOCHS_PER_MONTH <= EPOCHS_PER_YEAR.
Proof. vm_compute. discriminate. Qed.

(** ------------------------------------------------------------------ energy algebra *)
(** [stored_ok en W T now]: a stored entry, last updated at [e_upd en] <= now, of an account whose
    tokens have sum(amount*unlock) = W and sum(amount) = T.
    [fresh en W T now]: the same entry brought to the current epoch. *)
Definition stored_ok (en : energy) (W T now : Z) : Prop :=
  e_amt en = W - e_upd en * T /\ e_tot en = T /\ e_upd en <= now /\ 0 <= T.

Definition fresh (en : energy) (W T now : Z) : Prop :=
  e_upd en = now /\ e_amt en = W - now * T /\ e_tot en = T /\ 0 <= T.

Lemma fresh_stored en W T now : fresh en W T now -> stored_ok en W T now.
Proof. unfold fresh, stored_ok. intros (U & A & To & P). rewrite U. repeat split; auto; lia. Qed.

Lemma fresh_ext en W T W' T' now : fresh en W T now -> W = W' -> T = T' -> fresh en W' T' now.
Proof. intros H -> ->. exact H. Qed.

Lemma deplete_fresh en W T now : stored_ok en W T now -> fresh (deplete en now) W T now.
Proof.
  unfold stored_ok, fresh, deplete. intros (A & To & U & P).
  destruct (e_upd en =? now) eqn:E; zb.
  - rewrite <- E. repeat split; auto.
  - destruct (0 <? e_tot en) eqn:Et; zb; simpl.
    + unfold en_subtract. destruct (now <=? e_upd en) eqn:E2; zb; [lia|]. simpl.
      repeat split; auto. rewrite A, To. ring.
    + assert (HT : T = 0) by lia. rewrite HT in *. repeat split; auto; lia.
Qed.

Lemma add_lock_fresh en W T now a e :
  fresh en W T now -> now <= e -> 0 <= a ->
  fresh (add_after_token_lock en a e now) (W + a * e) (T + a) now.
Proof.
  unfold fresh, add_after_token_lock, en_add. intros (U & A & To & P) He Ha.
  destruct (e <=? now) eqn:E; zb; simpl.
  - assert (e = now) by lia. subst e. repeat split; auto; try lia; rewrite A; ring.
  - repeat split; auto; try lia; rewrite A; ring.
Qed.

Lemma refund_fresh en W T now a e en' :
  fresh en W T now -> e <= now -> refund_after_token_unlock en a e now = Ok en' ->
  fresh en' (W - a * e) (T - a) now.
Proof.
  unfold fresh, refund_after_token_unlock, en_add. intros (U & A & To & P) He H.
  apply bind_ok in H. destruct H as (t & Hb & H). apply sub_chk_ok in Hb. destruct Hb as [Hle Ht].
  inversion H; subst en'; clear H. rewrite Ht. clear Ht.
  destruct (now <=? e) eqn:E; zb; simpl in *.
  - assert (e = now) by lia. subst e. repeat split; auto; try lia; nia.
  - repeat split; auto; try lia; nia.
Qed.

Lemma early_fresh en W T now a e en' :
  fresh en W T now -> now <= e -> deplete_after_early_unlock en a e now = Ok en' ->
  fresh en' (W - a * e) (T - a) now.
Proof.
  unfold fresh, deplete_after_early_unlock, en_subtract. intros (U & A & To & P) He H.
  apply bind_ok in H. destruct H as (t & Hb & H). apply sub_chk_ok in Hb. destruct Hb as [Hle Ht].
  inversion H; subst en'; clear H. rewrite Ht. clear Ht.
  destruct (e <=? now) eqn:E; zb; simpl in *.
  - assert (e = now) by lia. subst e. repeat split; auto; try lia; nia.
  - repeat split; auto; try lia; nia.
Qed.

Lemma any_fresh en W T now a e en' :
  fresh en W T now -> update_after_unlock_any en a e now = Ok en' ->
  fresh en' (W - a * e) (T - a) now.
Proof.
  unfold update_after_unlock_any. intros F H. destruct (e <? now) eqn:E; zb.
  - eapply refund_fresh; eauto. lia.
  - eapply early_fresh; eauto.
Qed.

Lemma change_fresh en W T now a e1 e2 en' :
  fresh en W T now -> now <= e2 -> 0 <= a ->
  update_after_unlock_epoch_change en a e1 e2 now = Ok en' ->
  fresh en' (W - a * e1 + a * e2) T now.
Proof.
  unfold update_after_unlock_epoch_change. intros F He Ha H. inv_ok H.
  eapply fresh_ext; [apply add_lock_fresh; [eapply any_fresh; eauto | assumption | assumption] | |]; lia.
Qed.

(** the "else" branches of cancelUnbond and add_energy_to_destination: tokens that are already
    unlockable carry a negative term *)
Lemma raw_add_first_fresh en W T now a e en' :
  fresh en W T now -> remove_energy_raw (add_energy_raw en a 0) 0 (a * (now - e)) = Ok en' ->
  fresh en' (W + a * e) (T + a) now.
Proof.
  unfold fresh, remove_energy_raw, add_energy_raw. intros (U & A & To & P) H. simpl in H.
  apply bind_ok in H. destruct H as (t & Hb & H). apply sub_chk_ok in Hb. destruct Hb as [Hle Ht].
  inversion H; subst en'; clear H. rewrite Ht. clear Ht. simpl.
  repeat split; auto; try lia; nia.
Qed.

Lemma raw_remove_first_fresh en W T now a e en1 :
  fresh en W T now -> 0 <= a -> remove_energy_raw en 0 (a * (now - e)) = Ok en1 ->
  fresh (add_energy_raw en1 a 0) (W + a * e) (T + a) now.
Proof.
  unfold fresh, remove_energy_raw, add_energy_raw. intros (U & A & To & P) Ha H.
  apply bind_ok in H. destruct H as (t & Hb & H). apply sub_chk_ok in Hb. destruct Hb as [Hle Ht].
  inversion H; subst en1; clear H. rewrite Ht. clear Ht. simpl.
  repeat split; auto; try lia; nia.
Qed.

(** ------------------------------------------------------------------ payment lists *)
Fixpoint wsum (ps : list (Z * Z)) : Z := match ps with [] => 0 | (e, a) :: t => a * e + wsum t end.
Fixpoint tsum (ps : list (Z * Z)) : Z := match ps with [] => 0 | (_, a) :: t => a + tsum t end.

Definition all_pos (ps : list (Z * Z)) : bool := forallb (fun p => 0 <? snd p) ps.

Lemma unlock_loop_fresh ps : forall en W T now en',
  fresh en W T now -> unlock_loop en now ps = Ok en' ->
  fresh en' (W - wsum ps) (T - tsum ps) now.
Proof.
  induction ps as [|[e a] t IH]; simpl; intros en W T now en' F H.
  - inv_ok H. eapply fresh_ext; eauto; lia.
  - inv_ok H. zb. eapply fresh_ext; [eapply IH; [eapply refund_fresh; eauto | eassumption] | |]; lia.
Qed.

Lemma deduct_loop_fresh ps : forall en W T now en',
  fresh en W T now -> deduct_loop en now ps = Ok en' ->
  fresh en' (W - wsum ps) (T - tsum ps) now.
Proof.
  induction ps as [|[e a] t IH]; simpl; intros en W T now en' F H.
  - inv_ok H. eapply fresh_ext; eauto; lia.
  - inv_ok H. zb. eapply fresh_ext; [eapply IH; [eapply early_fresh; eauto; lia | eassumption] | |]; lia.
Qed.

Lemma add_dest_loop_fresh ps : forall en W T now en',
  fresh en W T now -> all_pos ps = true -> add_dest_loop en now ps = Ok en' ->
  fresh en' (W + wsum ps) (T + tsum ps) now.
Proof.
  induction ps as [|[e a] t IH]; simpl; intros en W T now en' F P H.
  - inv_ok H. eapply fresh_ext; eauto; lia.
  - unfold all_pos in P. simpl in P. apply andb_true_iff in P. destruct P as [Pa Pt]. apply Z.ltb_lt in Pa.
    apply bind_ok in H. destruct H as (en1 & H1 & H).
    assert (F1 : fresh en1 (W + a * e) (T + a) now).
    { destruct (now <? e) eqn:E.
      - apply Z.ltb_lt in E. inversion H1; subst en1. apply add_lock_fresh; auto; lia.
      - apply bind_ok in H1. destruct H1 as (en0 & H0 & H1). inversion H1; subst en1.
        eapply raw_remove_first_fresh; eauto; lia. }
    eapply fresh_ext; [eapply IH; eauto | |]; lia.
Qed.

Definition ub_pay (ub : unbond) : Z * Z := (ub_e ub, ub_locked ub).

Lemma cancel_loop_fresh q : forall en W T now en',
  fresh en W T now -> Forall (fun ub => 0 < ub_locked ub) q -> cancel_loop en now q = Ok en' ->
  fresh en' (W + wsum (map ub_pay q)) (T + tsum (map ub_pay q)) now.
Proof.
  induction q as [|ub t IH]; simpl; intros en W T now en' F P H.
  - inv_ok H. eapply fresh_ext; eauto; lia.
  - inversion P as [|? ? P1 P2]; subst. apply bind_ok in H. destruct H as (en1 & H1 & H).
    assert (F1 : fresh en1 (W + ub_locked ub * ub_e ub) (T + ub_locked ub) now).
    { destruct (now <=? ub_e ub) eqn:E; zb.
      - inv_ok H1. apply add_lock_fresh; auto; lia.
      - eapply raw_add_first_fresh; eauto. }
    eapply fresh_ext; [eapply IH; eauto | |]; lia.
Qed.

(** ------------------------------------------------------------------ ledger *)
(** [ldelta l l' h dw dt]: l' differs from l by dw in sum(amount*unlock) and dt in sum(amount) of holder h *)
Definition ldelta (l l' : ledger) (h dw dt : Z) : Prop :=
  forall v, lweight l' v = lweight l v + (if h =? v then dw else 0) /\
            ltotal l' v = ltotal l v + (if h =? v then dt else 0).

Lemma ldelta_credit l h e a : ldelta l (credit l h e a) h (a * e) a.
Proof. intros v. simpl. destruct (h =? v); lia. Qed.

Lemma ldelta_debit l h e a l' : debit l h e a = Ok l' -> ldelta l l' h (- (a * e)) (- a).
Proof.
  unfold debit. intros H. inv_ok H. intros v. simpl. destruct (h =? v); lia.
Qed.

Lemma ldelta_credit_all ps : forall l h, ldelta l (credit_all l h ps) h (wsum ps) (tsum ps).
Proof.
  induction ps as [|[e a] t IH]; simpl; intros l h v.
  - destruct (h =? v); lia.
  - destruct (IH (credit l h e a) h v) as [A B]. rewrite A, B. simpl. destruct (h =? v); lia.
Qed.

Lemma ldelta_debit_all ps : forall l h l', debit_all l h ps = Ok l' -> ldelta l l' h (- wsum ps) (- tsum ps).
Proof.
  induction ps as [|[e a] t IH]; simpl; intros l h l' H.
  - inv_ok H. intros v. destruct (h =? v); lia.
  - inv_ok H. apply ldelta_debit in Hb. specialize (IH _ _ _ H). intros v.
    destruct (IH v) as [A B]. destruct (Hb v) as [C D]. rewrite A, B, C, D. destruct (h =? v); lia.
Qed.

Lemma lock_tokens_future l h e a now : now < e -> lock_tokens l h e a now = credit l h e a.
Proof. unfold lock_tokens. intros H. destruct (e <=? now) eqn:E; zb; [lia | reflexivity]. Qed.

(** ------------------------------------------------------------------ lock options, month rounding *)
Lemma som_bounds x : som x <= x < som x + EPOCHS_PER_MONTH.
Proof. unfold som. pose proof (Z.mod_pos_bound x _ month_pos). lia. Qed.

Lemma forallb_last {A} (f : A -> bool) l d : l <> [] -> forallb f l = true -> f (last l d) = true.
Proof.
  induction l as [|a t IH]; intros Hne H; [congruence|].
  simpl in H. apply andb_true_iff in H. destruct H as [Ha Ht].
  destruct t as [|b t']; [exact Ha|]. change (last (a :: b :: t') d) with (last (b :: t') d).
  apply IH; [discriminate | exact Ht].
Qed.

Lemma valid_opts_facts opts : valid_opts opts = true ->
  opts <> [] /\ EPOCHS_PER_YEAR <= last_lock opts /\
  (forall le, listed opts le = true -> EPOCHS_PER_YEAR <= le).
Proof.
  unfold valid_opts. intros H. zb.
  assert (Hne : opts <> []) by (destruct opts; [discriminate | discriminate]).
  split; [exact Hne|]. split.
  - unfold last_lock. pose proof (forallb_last _ opts (0, 0) Hne H1) as L. simpl in L. zb. lia.
  - intros le Hl. unfold listed in Hl. apply existsb_exists in Hl. destruct Hl as (o & Hin & Ho). zb.
    rewrite forallb_forall in H1. specialize (H1 _ Hin). zb. lia.
Qed.

Lemma som_upper_future opts now x : EPOCHS_PER_MONTH <= last_lock opts -> now < x -> now < som_upper opts now x.
Proof.
  intros HL Hx. unfold som_upper. pose proof (som_bounds x) as B.
  destruct (x =? som x) eqn:E1; zb; [lia|].
  destruct (som x + EPOCHS_PER_MONTH <=? now) eqn:E2; zb; [lia|].
  destruct (som x + EPOCHS_PER_MONTH - now <=? last_lock opts) eqn:E3; zb; lia.
Qed.

Lemma avg_up_future v1 w1 v2 w2 r now :
  avg_up v1 w1 v2 w2 = Ok r -> now < v1 -> now < v2 -> 0 < w1 -> 0 < w2 -> now < r.
Proof.
  unfold avg_up. intros H H1 H2 P1 P2. apply div_chk_ok in H. destruct H as [Hne ->].
  assert (now + 1 <= (v1 * w1 + v2 * w2 + (w1 + w2) - 1) / (w1 + w2)); [|lia].
  apply Z.div_le_lower_bound; [lia | nia].
Qed.

Lemma merge_loop_spec ps : forall en now acc_e acc_a W T en' me ma,
  fresh en W T now -> now < acc_e -> 0 < acc_a -> all_pos ps = true ->
  merge_loop en now acc_e acc_a ps = Ok (en', me, ma) ->
  fresh en' (W - wsum ps) (T - tsum ps) now /\ now < me /\ ma = acc_a + tsum ps /\ 0 < ma.
Proof.
  induction ps as [|[e a] t IH]; simpl; intros en now acc_e acc_a W T en' me ma F He Ha P H.
  - inv_ok H. split; [eapply fresh_ext; eauto; lia | lia].
  - zb. simpl in *. zb. inv_ok H. zb.
    pose proof (avg_up_future _ _ _ _ _ now Hb0 He E Ha H0) as Hne.
    assert (Hpos : 0 < acc_a + a) by lia.
    destruct (IH _ _ _ _ _ _ _ _ _ (any_fresh _ _ _ _ _ _ _ F Hb) Hne Hpos H1 H) as (F' & M1 & M2 & M3).
    split; [eapply fresh_ext; eauto; lia | lia].
Qed.

(** ------------------------------------------------------------------ the invariant *)
Definition user_ok (s : st) (u : Z) : Prop :=
  stored_ok (eget (s_en s) u) (lweight (s_bal s) u) (ltotal (s_bal s) u) (s_now s).

Record EnergyInv (s : st) : Prop := {
  inv_users : forall u, 0 < u -> user_ok s u;
  inv_nonusers : forall h, h <= 0 -> eget (s_en s) h = zero_energy;     (* contract accounts have no entry *)
  inv_opts : valid_opts (opts_of s) = true;
  inv_unb : Forall (fun p => 0 < ub_locked (snd p)) (s_unb s);
  inv_xf : Forall (fun x => all_pos (xf_funds x) = true) (s_xf s)
}.

Lemma entry_fresh s u : EnergyInv s -> 0 < u ->
  fresh (entry_now s u) (lweight (s_bal s) u) (ltotal (s_bal s) u) (s_now s).
Proof. intros I Hu. apply deplete_fresh. apply (inv_users _ I u Hu). Qed.

Lemma eget_eset_same l u v : eget (eset l u v) u = v.
Proof. unfold eset. simpl. rewrite Z.eqb_refl. reflexivity. Qed.

Lemma eget_eset_other l u v w : u <> w -> eget (eset l u v) w = eget l w.
Proof. unfold eset. simpl. intros H. destruct (u =? w) eqn:E; zb; [contradiction | reflexivity]. Qed.

(** one user's entry is rewritten with a fresh value matching its new holdings; every other user
    account's holdings are untouched *)
Lemma inv_update s s' u en' :
  EnergyInv s -> 0 < u ->
  s_cfg s' = s_cfg s -> s_now s' = s_now s -> s_en s' = eset (s_en s) u en' ->
  (forall v, 0 < v -> v <> u ->
     lweight (s_bal s') v = lweight (s_bal s) v /\ ltotal (s_bal s') v = ltotal (s_bal s) v) ->
  fresh en' (lweight (s_bal s') u) (ltotal (s_bal s') u) (s_now s) ->
  Forall (fun p => 0 < ub_locked (snd p)) (s_unb s') ->
  Forall (fun x => all_pos (xf_funds x) = true) (s_xf s') ->
  EnergyInv s'.
Proof.
  intros I Hu Hc Hn He Hfr Hf Hub Hxf. constructor; auto.
  - intros v Hv. unfold user_ok. rewrite He, Hn. destruct (Z.eq_dec u v) as [->|Hne].
    + rewrite eget_eset_same. apply fresh_stored. exact Hf.
    + rewrite eget_eset_other by assumption. destruct (Hfr v Hv ltac:(congruence)) as [A B].
      rewrite A, B. apply (inv_users _ I v Hv).
  - intros h Hh. rewrite He. rewrite eget_eset_other by lia. apply (inv_nonusers _ I h Hh).
  - unfold opts_of. rewrite Hc. apply (inv_opts _ I).
Qed.

(** no entry is written; user holdings are untouched; time may advance *)
Lemma inv_frame s s' :
  EnergyInv s ->
  s_cfg s' = s_cfg s -> s_now s <= s_now s' -> s_en s' = s_en s ->
  (forall v, 0 < v ->
     lweight (s_bal s') v = lweight (s_bal s) v /\ ltotal (s_bal s') v = ltotal (s_bal s) v) ->
  Forall (fun p => 0 < ub_locked (snd p)) (s_unb s') ->
  Forall (fun x => all_pos (xf_funds x) = true) (s_xf s') ->
  EnergyInv s'.
Proof.
  intros I Hc Hn He Hfr Hub Hxf. constructor; auto.
  - intros v Hv. unfold user_ok. rewrite He. destruct (Hfr v Hv) as [A B]. rewrite A, B.
    destruct (inv_users _ I v Hv) as (P1 & P2 & P3 & P4). repeat split; auto. lia.
  - intros h Hh. rewrite He. apply (inv_nonusers _ I h Hh).
  - unfold opts_of. rewrite Hc. apply (inv_opts _ I).
Qed.
