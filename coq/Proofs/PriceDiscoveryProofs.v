(** Lemmas for C17 (price discovery): the phase function against the documented schedule, the
    penalty schedule, per-endpoint characterisations, the ledger invariant over all histories,
    pro-rata redemption and the price floor. *)
From MX Require Import Base.Prelude Gen.Params Model.PriceDiscovery.
Set Warnings "-unused-intro-pattern".

(** ------------------------------------------------------------------ facts about the generated constants
    (the only ones the proofs use; re-checked against /repo on every build) *)
Lemma pd_phase_order :
  PD_PHASE_Idle < PD_PHASE_NoPenalty /\ PD_PHASE_NoPenalty < PD_PHASE_LinearIncreasingPenalty /\
  PD_PHASE_LinearIncreasingPenalty < PD_PHASE_OnlyWithdrawFixedPenalty /\
  PD_PHASE_OnlyWithdrawFixedPenalty < PD_PHASE_Redeem.
Proof. vm_compute. repeat split. Qed.

Lemma maxp_pos : 0 < MAXP.
Proof. vm_compute. reflexivity. Qed.

Lemma nonce_distinct : NL <> NA.
Proof. vm_compute. discriminate. Qed.

Lemma max_decimals_nonneg : 0 <= PD_MAX_TOKEN_DECIMALS.
Proof. vm_compute. discriminate. Qed.

(** q is floor(n/d) for d > 0, by cross-multiplication *)
Definition floor_of (q n d : Z) : Prop := q * d <= n < (q + 1) * d.

Lemma floor_of_div n d : 0 < d -> floor_of (n / d) n d.
Proof. intros. unfold floor_of. pose proof (div_lo n d H). pose proof (div_hi n d H). lia. Qed.

Lemma floor_of_unique q n d : 0 < d -> floor_of q n d -> q = n / d.
Proof. intros Hd [A B]. apply (proj2 (div_char n d q Hd)). lia. Qed.

(** ------------------------------------------------------------------ configuration accepted by [init] *)
Record wf_cfg (c : cfg) : Prop := {
  w_start : 0 <= c_start c;
  w_dn : 0 <= c_dn c; w_dl : 0 <= c_dl c; w_df : 0 <= c_df c;
  w_pmin : 0 <= c_pmin c;
  w_pmm : c_pmin c <= c_pmax c;
  w_pmax : c_pmax c < MAXP;
  w_pfix : 0 <= c_pfix c < MAXP;
  w_minp : 0 <= c_minp c;
  w_prec : 0 < c_prec c
}.

(** The documented schedule: phase boundaries as block heights. *)
Definition b_nl_end (c : cfg) : Z := c_start c + c_dn c.             (* end of "no restrictions" *)
Definition b_lin_end (c : cfg) : Z := b_nl_end c + c_dl c.           (* end of "linear increasing penalty" *)
Definition b_end (c : cfg) : Z := b_lin_end c + c_df c.              (* end of "fixed penalty" = end_block *)

(** The documented linear penalty at block [b]: min + floor((max-min) * blocks passed / (duration-1)),
    no increase when the phase lasts a single block. *)
Definition lin_pct_spec (c : cfg) (b pct : Z) : Prop :=
  exists inc, pct = c_pmin c + inc /\
    (c_dl c <= 1 -> inc = 0) /\
    (1 < c_dl c -> floor_of inc ((c_pmax c - c_pmin c) * (b - b_nl_end c)) (c_dl c - 1)).

Definition phase_doc (c : cfg) (b : Z) (ph : phase) : Prop :=
  match ph with
  | PhIdle => b < c_start c
  | PhNoPenalty => c_start c <= b < b_nl_end c
  | PhLinear pct => b_nl_end c <= b < b_lin_end c /\ lin_pct_spec c b pct /\ c_pmin c <= pct <= c_pmax c
  | PhFixed pct => b_lin_end c <= b < b_end c /\ pct = c_pfix c
  | PhRedeem => b_end c <= b
  end.

Lemma phase_char c b : wf_cfg c ->
  exists ph, get_current_phase c b = Ok ph /\ phase_doc c b ph.
Proof.
  intros W. destruct W. unfold get_current_phase.
  destruct (b <? c_start c) eqn:E1.
  { apply Z.ltb_lt in E1. exists PhIdle. split; [reflexivity | exact E1]. }
  apply Z.ltb_ge in E1. cbv zeta.
  destruct (b <? c_start c + c_dn c) eqn:E2.
  { apply Z.ltb_lt in E2. exists PhNoPenalty. split; [reflexivity | unfold phase_doc, b_nl_end; lia]. }
  apply Z.ltb_ge in E2.
  destruct (b <? c_start c + c_dn c + c_dl c) eqn:E3.
  { apply Z.ltb_lt in E3. unfold sub_chk.
    destruct (b <? c_start c + c_dn c) eqn:E4; [apply Z.ltb_lt in E4; lia|].
    destruct (c_pmax c <? c_pmin c) eqn:E5; [apply Z.ltb_lt in E5; lia|].
    cbn [bind]. eexists. split; [reflexivity|].
    unfold phase_doc, b_lin_end, b_nl_end, lin_pct_spec.
    split; [lia|].
    destruct (1 <? c_dl c) eqn:E6.
    - apply Z.ltb_lt in E6.
      assert (Hd : 0 < c_dl c - 1) by lia.
      pose proof (floor_of_div ((c_pmax c - c_pmin c) * (b - (c_start c + c_dn c))) (c_dl c - 1) Hd) as HF.
      assert (Hlo : 0 <= (c_pmax c - c_pmin c) * (b - (c_start c + c_dn c)) / (c_dl c - 1)).
      { apply div_nonneg; [nia | lia]. }
      assert (Hhi : (c_pmax c - c_pmin c) * (b - (c_start c + c_dn c)) / (c_dl c - 1) <= c_pmax c - c_pmin c).
      { apply Z.div_le_upper_bound; [lia | nia]. }
      split.
      + eexists. split; [reflexivity|]. split; [lia | intros _; exact HF].
      + lia.
    - apply Z.ltb_ge in E6. split.
      + exists 0. split; [reflexivity|]. split; [reflexivity | lia].
      + lia. }
  apply Z.ltb_ge in E3.
  destruct (b <? c_start c + c_dn c + c_dl c + c_df c) eqn:E7.
  { apply Z.ltb_lt in E7. eexists. split; [reflexivity|].
    unfold phase_doc, b_end, b_lin_end, b_nl_end. split; [lia | reflexivity]. }
  apply Z.ltb_ge in E7. exists PhRedeem. split; [reflexivity|].
  unfold phase_doc, b_end, b_lin_end, b_nl_end. lia.
Qed.

(** The documented schedule read the other way: which phase each block interval is in
    (durations 0 give empty intervals: the phase is skipped). *)
Lemma phase_by_block c b : wf_cfg c ->
  exists ph, get_current_phase c b = Ok ph /\
    (b < c_start c <-> ph = PhIdle) /\
    (c_start c <= b < b_nl_end c <-> ph = PhNoPenalty) /\
    (b_nl_end c <= b < b_lin_end c <-> exists pct, ph = PhLinear pct) /\
    (b_lin_end c <= b < b_end c <-> ph = PhFixed (c_pfix c)) /\
    (b_end c <= b <-> ph = PhRedeem).
Proof.
  intros W. destruct (phase_char c b W) as (ph & Hph & Hdoc).
  exists ph. split; [exact Hph|].
  destruct W.
  destruct ph; simpl in Hdoc; try (destruct Hdoc as (Hb & Hdoc)); try subst pct;
    unfold b_end, b_lin_end, b_nl_end in *;
    repeat match goal with |- _ /\ _ => split | |- _ <-> _ => split end; intros H;
    first [ reflexivity | discriminate H | (destruct H as [? H]; discriminate H) | lia
          | (exfalso; lia) | (eexists; reflexivity) ].
Qed.

(** phases only advance with block height *)
Lemma phase_mono c b b' ph ph' : wf_cfg c -> b <= b' ->
  get_current_phase c b = Ok ph -> get_current_phase c b' = Ok ph' ->
  phase_ix ph <= phase_ix ph'.
Proof.
  intros W Hb H1 H2.
  destruct (phase_char c b W) as (q & Hq & D1). rewrite H1 in Hq. inversion Hq; subst q.
  destruct (phase_char c b' W) as (q' & Hq' & D2). rewrite H2 in Hq'. inversion Hq'; subst q'.
  destruct W. pose proof pd_phase_order as (O1 & O2 & O3 & O4).
  destruct ph, ph'; simpl in *; unfold b_end, b_lin_end, b_nl_end in *; lia.
Qed.

(** the linear penalty is monotone in the block, starts at min and (for a phase longer than one
    block) reaches max exactly on the phase's last block *)
Lemma linear_pct_mono c b b' p p' : wf_cfg c -> b <= b' ->
  get_current_phase c b = Ok (PhLinear p) -> get_current_phase c b' = Ok (PhLinear p') -> p <= p'.
Proof.
  intros W Hb H1 H2.
  destruct (phase_char c b W) as (q & Hq & D1). rewrite H1 in Hq. inversion Hq; subst q.
  destruct (phase_char c b' W) as (q' & Hq' & D2). rewrite H2 in Hq'. inversion Hq'; subst q'.
  simpl in D1, D2. destruct D1 as (B1 & (i1 & -> & Z1 & F1) & _). destruct D2 as (B2 & (i2 & -> & Z2 & F2) & _).
  destruct W. destruct (Z_le_gt_dec (c_dl c) 1) as [Hd|Hd].
  - rewrite (Z1 Hd), (Z2 Hd). lia.
  - specialize (F1 ltac:(lia)). specialize (F2 ltac:(lia)).
    apply floor_of_unique in F1; [|lia]. apply floor_of_unique in F2; [|lia]. subst i1 i2.
    assert ((c_pmax c - c_pmin c) * (b - b_nl_end c) / (c_dl c - 1)
            <= (c_pmax c - c_pmin c) * (b' - b_nl_end c) / (c_dl c - 1)).
    { apply Z.div_le_mono; [lia | nia]. }
    lia.
Qed.

Lemma linear_pct_endpoints c : wf_cfg c -> 0 < c_dl c ->
  get_current_phase c (b_nl_end c) = Ok (PhLinear (c_pmin c)) /\
  (1 < c_dl c -> get_current_phase c (b_lin_end c - 1) = Ok (PhLinear (c_pmax c))).
Proof.
  intros W Hdl. split.
  - destruct (phase_by_block c (b_nl_end c) W) as (ph & Hph & _ & _ & HL & _).
    destruct (proj1 HL) as [pct ->]; [unfold b_lin_end; lia|].
    destruct (phase_char c (b_nl_end c) W) as (q & Hq & D). rewrite Hph in Hq. inversion Hq; subst q.
    simpl in D. destruct D as (_ & (i & -> & Z1 & F1) & _).
    destruct (Z_le_gt_dec (c_dl c) 1) as [Hd|Hd].
    + rewrite (Z1 Hd) in *. rewrite Hph. f_equal. f_equal. lia.
    + specialize (F1 ltac:(lia)). apply floor_of_unique in F1; [|lia].
      replace ((c_pmax c - c_pmin c) * (b_nl_end c - b_nl_end c)) with 0 in F1 by lia.
      rewrite Z.div_0_l in F1 by lia. subst i. rewrite Hph. f_equal. f_equal. lia.
  - intros Hd.
    destruct (phase_by_block c (b_lin_end c - 1) W) as (ph & Hph & _ & _ & HL & _).
    destruct (proj1 HL) as [pct ->]; [unfold b_lin_end; lia|].
    destruct (phase_char c (b_lin_end c - 1) W) as (q & Hq & D). rewrite Hph in Hq. inversion Hq; subst q.
    simpl in D. destruct D as (_ & (i & -> & Z1 & F1) & _).
    specialize (F1 Hd). apply floor_of_unique in F1; [|lia].
    replace ((c_pmax c - c_pmin c) * (b_lin_end c - 1 - b_nl_end c))
      with ((c_pmax c - c_pmin c) * (c_dl c - 1)) in F1 by (unfold b_lin_end; lia).
    rewrite Z.div_mul in F1 by lia. subst i. rewrite Hph. f_equal. f_equal. lia.
Qed.

(** the penalty percentage in force, per phase: 0 / linear in [min,max] / the fixed one — always below 100% *)
Lemma penalty_bounds c b ph : wf_cfg c -> get_current_phase c b = Ok ph ->
  0 <= penalty_of ph < MAXP.
Proof.
  intros W H. destruct (phase_char c b W) as (q & Hq & D). rewrite H in Hq. inversion Hq; subst q.
  destruct W. pose proof maxp_pos. destruct ph; simpl in *; lia.
Qed.

(** ------------------------------------------------------------------ gates: which blocks accept which endpoint *)
Lemma deposit_gate c b ph : wf_cfg c -> get_current_phase c b = Ok ph -> deposit_allowed ph = true ->
  c_start c <= b < b_lin_end c.
Proof.
  intros W H Ha. destruct (phase_char c b W) as (q & Hq & D). rewrite H in Hq. inversion Hq; subst q.
  destruct W. destruct ph; simpl in *; try discriminate; unfold b_lin_end, b_nl_end in *; lia.
Qed.

Lemma withdraw_gate c b ph : wf_cfg c -> get_current_phase c b = Ok ph -> withdraw_allowed ph = true ->
  c_start c <= b < b_end c.
Proof.
  intros W H Ha. destruct (phase_char c b W) as (q & Hq & D). rewrite H in Hq. inversion Hq; subst q.
  destruct W. destruct ph; simpl in *; try discriminate; unfold b_end, b_lin_end, b_nl_end in *; lia.
Qed.

Lemma redeem_gate c b ph : wf_cfg c -> get_current_phase c b = Ok ph -> redeem_allowed ph = true ->
  b_end c <= b.
Proof.
  intros W H Ha. destruct (phase_char c b W) as (q & Hq & D). rewrite H in Hq. inversion Hq; subst q.
  destruct ph; simpl in *; try discriminate; exact D.
Qed.

(** ------------------------------------------------------------------ small specs *)
Lemma side_of_nonce_spec n l : side_of_nonce n = Ok l -> (l = true /\ n = NL) \/ (l = false /\ n = NA).
Proof.
  unfold side_of_nonce. destruct (n =? NL) eqn:E1.
  - intros H; inversion H. apply Z.eqb_eq in E1. auto.
  - destruct (n =? NA) eqn:E2; [|discriminate]. intros H; inversion H. apply Z.eqb_eq in E2. auto.
Qed.

Lemma side_of_token_spec t l : side_of_token t = Ok l -> (l = true /\ t = TOK_L) \/ (l = false /\ t = TOK_A).
Proof.
  unfold side_of_token. destruct (t =? TOK_A) eqn:E1.
  - intros H; inversion H. apply Z.eqb_eq in E1. auto.
  - destruct (t =? TOK_L) eqn:E2; [|discriminate]. intros H; inversion H. apply Z.eqb_eq in E2. auto.
Qed.

Lemma calculate_price_spec s p : calculate_price s = Ok p ->
  0 < p_lb s /\ p = p_ab s * c_prec (p_cfg s) / p_lb s.
Proof.
  unfold calculate_price. destruct (0 <? p_lb s) eqn:E; [|discriminate]. apply Z.ltb_lt in E.
  intros H. apply div_chk_ok in H. tauto.
Qed.

Lemma aget_le_asum l a : all_nonneg l -> aget l a <= asum l.
Proof.
  induction l as [|[k v] t IH]; simpl; intros H; [lia|].
  inversion H as [|? ? Hh Ht]; subst. simpl in Hh.
  assert (0 <= asum t).
  { clear - Ht. induction t as [|[k' v'] t' IH']; simpl; [lia|]. inversion Ht; subst. simpl in *. specialize (IH' H2). lia. }
  specialize (IH Ht). destruct (k =? a); lia.
Qed.

(** ------------------------------------------------------------------ what one operation does to the ledger
    [delta s s' l c dtr dre dopp dsup dh]: on side [l] the tracked balance moves by [dtr], the real
    holding by [dre], the supply by [dsup], account [c]'s redeem tokens by [dh]; the real holding of the
    OPPOSITE token moves by [dopp]; everything else (configuration, block, the other side) is untouched. *)
Record delta (s s' : pd) (l : bool) (c dtr dre dopp dsup dh : Z) : Prop := {
  d_cfg : p_cfg s' = p_cfg s;
  d_block : p_block s' = p_block s;
  d_tr : bal_tr s' l = bal_tr s l + dtr;
  d_tr' : bal_tr s' (negb l) = bal_tr s (negb l);
  d_re : bal_re s' l = bal_re s l + dre;
  d_re' : bal_re s' (negb l) = bal_re s (negb l) + dopp;
  d_sup : supply s' l = supply s l + dsup;
  d_sup' : supply s' (negb l) = supply s (negb l);
  d_hold : hold s' l = aset (hold s l) c (held s l c + dh);
  d_hold' : hold s' (negb l) = hold s (negb l)
}.

Lemma ep_deposit_spec s c tok amt s' o :
  ep_deposit s c tok amt = Ok (s', o) ->
  exists ph l price,
    get_current_phase (p_cfg s) (p_block s) = Ok ph /\ deposit_allowed ph = true /\
    0 <= amt /\ side_of_token tok = Ok l /\ o = [amt] /\
    delta s s' l c amt amt 0 amt amt /\
    calculate_price s' = Ok price /\
    (l = true -> p_ab s = 0 \/ c_minp (p_cfg s) <= price).
Proof.
  unfold ep_deposit. intros H.
  apply bind_ok in H. destruct H as (ph & Hph & H).
  destruct (deposit_allowed ph) eqn:Ea; [|discriminate].
  destruct (0 <=? amt) eqn:E0; [|discriminate]. apply Z.leb_le in E0.
  apply bind_ok in H. destruct H as (l & Hl & H). cbv zeta in H.
  apply bind_ok in H. destruct H as (price & Hp & H).
  destruct ((p_ab (set_tr s l (bal_tr s l + amt)) =? 0) || (c_minp (p_cfg s) <=? price) || negb l) eqn:Ef; [|discriminate].
  inversion H; subst; clear H.
  exists ph, l, price.
  split; [exact Hph|]. split; [exact Ea|]. split; [exact E0|]. split; [exact Hl|]. split; [reflexivity|].
  split.
  { destruct l; constructor; simpl; unfold held; simpl; try reflexivity; lia. }
  split.
  { destruct l; exact Hp. }
  intros ->. rewrite orb_false_r in Ef. apply orb_prop in Ef.
  destruct Ef as [Ef|Ef]; [apply Z.eqb_eq in Ef; simpl in Ef; auto | apply Z.leb_le in Ef; auto].
Qed.

Lemma ep_withdraw_spec s c n amt s' o :
  ep_withdraw s c n amt = Ok (s', o) ->
  exists ph l w price,
    get_current_phase (p_cfg s) (p_block s) = Ok ph /\ withdraw_allowed ph = true /\
    0 <= amt /\ side_of_nonce n = Ok l /\ o = [w] /\
    w = amt - amt * penalty_of ph / MAXP /\
    amt <= held s l c /\ amt <= supply s l /\ 0 <= w /\ w <= bal_tr s l /\ w <= bal_re s l /\
    delta s s' l c (- w) (- w) 0 (- amt) (- amt) /\
    calculate_price s' = Ok price /\ c_minp (p_cfg s) <= price.
Proof.
  unfold ep_withdraw. intros H.
  apply bind_ok in H. destruct H as (ph & Hph & H).
  destruct (withdraw_allowed ph) eqn:Ea; [|discriminate].
  destruct (0 <=? amt) eqn:E0; [|discriminate]. apply Z.leb_le in E0.
  apply bind_ok in H. destruct H as (l & Hl & H).
  apply bind_ok in H. destruct H as (hb & Hhb & H). cbv zeta in H.
  apply bind_ok in H. destruct H as (sup & Hsup & H).
  apply bind_ok in H. destruct H as (w & Hw & H).
  apply bind_ok in H. destruct H as (nb & Hnb & H).
  apply bind_ok in H. destruct H as (price & Hp & H).
  destruct (c_minp (p_cfg s) <=? price) eqn:Ef; [|discriminate]. apply Z.leb_le in Ef.
  apply bind_ok in H. destruct H as (rb & Hrb & H).
  inversion H; subst; clear H.
  apply sub_chk_ok in Hhb. destruct Hhb as [Hh1 ->].
  apply sub_chk_ok in Hw. destruct Hw as [Hw1 ->].
  exists ph, l, (amt - amt * penalty_of ph / MAXP), price.
  split; [exact Hph|]. split; [exact Ea|]. split; [exact E0|]. split; [exact Hl|]. split; [reflexivity|].
  split; [reflexivity|]. split; [exact Hh1|].
  destruct l; simpl in *;
    apply sub_chk_ok in Hsup; destruct Hsup as [Hs1 ->];
    apply sub_chk_ok in Hnb; destruct Hnb as [Hn1 ->];
    apply sub_chk_ok in Hrb; destruct Hrb as [Hr1 ->];
    (split; [exact Hs1|]); (split; [lia|]); (split; [exact Hn1|]); (split; [exact Hr1|]);
    (split; [constructor; simpl; unfold held; simpl; try reflexivity; try lia;
             f_equal; lia |]);
    (split; [exact Hp | exact Ef]).
Qed.

(** ------------------------------------------------------------------ the ledger invariant *)
Record Inv (s : pd) : Prop := {
  i_cfg : wf_cfg (p_cfg s);
  i_nn : 0 <= p_lb s /\ 0 <= p_ab s /\ 0 <= p_rl s /\ 0 <= p_ra s /\ 0 <= p_s1 s /\ 0 <= p_s2 s;
  i_nd1 : NoDup (akeys (p_h1 s));
  i_nd2 : NoDup (akeys (p_h2 s));
  i_hn1 : all_nonneg (p_h1 s);
  i_hn2 : all_nonneg (p_h2 s);
  (* redeem tokens in circulation never exceed the recorded supply *)
  i_c1 : asum (p_h1 s) <= p_s1 s;
  i_c2 : asum (p_h2 s) <= p_s2 s;
  (* real holdings never exceed the tracked balances ... *)
  i_re : p_rl s <= p_lb s /\ p_ra s <= p_ab s;
  (* ... and before the redeem phase they are EQUAL, and the supply is exactly what circulates *)
  i_open : p_block s < b_end (p_cfg s) ->
           p_rl s = p_lb s /\ p_ra s = p_ab s /\ asum (p_h1 s) = p_s1 s /\ asum (p_h2 s) = p_s2 s;
  (* what has been paid out of a pool is at most the pool's share of the redeem tokens already burned:
     paid * supply <= pool * redeemed   (launched pool / nonce-2 tokens, accepted pool / nonce-1 tokens) *)
  i_payL : (p_lb s - p_rl s) * p_s2 s <= p_lb s * (p_s2 s - asum (p_h2 s));
  i_payA : (p_ab s - p_ra s) * p_s1 s <= p_ab s * (p_s1 s - asum (p_h1 s))
}.

Lemma inv_side s l : Inv s ->
  0 <= bal_tr s l /\ 0 <= bal_re s l /\ 0 <= supply s l /\ bal_re s l <= bal_tr s l /\
  NoDup (akeys (hold s l)) /\ all_nonneg (hold s l) /\ asum (hold s l) <= supply s l.
Proof. intros []. destruct l; simpl; repeat split; try tauto; lia. Qed.

Lemma ep_redeem_spec s c n amt s' o :
  Inv s -> ep_redeem s c n amt = Ok (s', o) ->
  exists ph l q,
    get_current_phase (p_cfg s) (p_block s) = Ok ph /\ redeem_allowed ph = true /\
    0 <= amt /\ side_of_nonce n = Ok l /\ o = [q] /\
    0 < supply s l /\ q = bal_tr s (negb l) * amt / supply s l /\ 0 <= q /\
    amt <= held s l c /\ q <= bal_re s (negb l) /\
    delta s s' l c 0 0 (- q) 0 (- amt).
Proof.
  unfold ep_redeem. intros HI H.
  apply bind_ok in H. destruct H as (ph & Hph & H).
  destruct (redeem_allowed ph) eqn:Ea; [|discriminate].
  destruct (0 <=? amt) eqn:E0; [|discriminate]. apply Z.leb_le in E0.
  apply bind_ok in H. destruct H as (l & Hl & H).
  apply bind_ok in H. destruct H as (hb & Hhb & H).
  apply bind_ok in H. destruct H as (q & Hq & H). cbv zeta in H.
  apply sub_chk_ok in Hhb. destruct Hhb as [Hh1 ->].
  apply div_chk_ok in Hq. destruct Hq as [Hs0 Hq].
  destruct (inv_side s l HI) as (_ & _ & Hsup & _).
  destruct (inv_side s (negb l) HI) as (Htr & Hre & _).
  assert (Hsp : 0 < supply s l) by lia.
  assert (Hq0 : 0 <= q) by (subst q; apply div_nonneg; [nia | lia]).
  exists ph, l, q.
  split; [exact Hph|]. split; [exact Ea|]. split; [exact E0|]. split; [exact Hl|].
  destruct (0 <? q) eqn:Eq.
  - apply bind_ok in H. destruct H as (rb & Hrb & H). inversion H; subst s' o; clear H.
    apply sub_chk_ok in Hrb.
    split; [reflexivity|]. split; [exact Hsp|]. split; [exact Hq|]. split; [exact Hq0|]. split; [exact Hh1|].
    destruct l; simpl in *; destruct Hrb as [Hr1 ->]; (split; [exact Hr1|]);
      constructor; simpl; unfold held; simpl; try reflexivity; try lia; f_equal; lia.
  - inversion H; subst s' o; clear H. apply Z.ltb_ge in Eq.
    assert (q = 0) by lia.
    split; [reflexivity|]. split; [exact Hsp|]. split; [exact Hq|]. split; [exact Hq0|]. split; [exact Hh1|].
    split; [lia|].
    destruct l; simpl in *; constructor; simpl; unfold held; simpl; try reflexivity; try lia; f_equal; lia.
Qed.

Lemma ep_xfer_spec s a b n amt s' o :
  ep_xfer s a b n amt = Ok (s', o) ->
  exists l, side_of_nonce n = Ok l /\ 0 <= amt <= held s l a /\ o = [] /\
    p_cfg s' = p_cfg s /\ p_block s' = p_block s /\
    p_lb s' = p_lb s /\ p_ab s' = p_ab s /\ p_rl s' = p_rl s /\ p_ra s' = p_ra s /\
    p_s1 s' = p_s1 s /\ p_s2 s' = p_s2 s /\
    hold s' (negb l) = hold s (negb l) /\
    hold s' l = aset (aset (hold s l) a (held s l a - amt)) b
                     (aget (aset (hold s l) a (held s l a - amt)) b + amt).
Proof.
  unfold ep_xfer. intros H.
  destruct (0 <=? amt) eqn:E0; [|discriminate]. apply Z.leb_le in E0.
  apply bind_ok in H. destruct H as (l & Hl & H).
  apply bind_ok in H. destruct H as (hb & Hhb & H). cbv zeta in H.
  apply sub_chk_ok in Hhb. destruct Hhb as [Hh1 ->].
  inversion H; subst; clear H. exists l.
  split; [exact Hl|]. split; [lia|]. split; [reflexivity|].
  destruct l; simpl; unfold held; simpl; repeat split; reflexivity.
Qed.

(** ------------------------------------------------------------------ preservation *)
Lemma inv_tick s d s' o : Inv s -> ep_tick s d = Ok (s', o) -> Inv s' /\ p_block s <= p_block s'.
Proof.
  unfold ep_tick. intros HI H. destruct (0 <=? d) eqn:E; [|discriminate]. apply Z.leb_le in E.
  inversion H; subst; clear H. split; [|simpl; lia].
  destruct HI. constructor; simpl; auto. intros Hb. apply i_open0. lia.
Qed.

(** holdings update: one account's entry moves by [dh], staying non-negative *)
Lemma hold_update h c dh : NoDup (akeys h) -> all_nonneg h -> 0 <= aget h c + dh ->
  NoDup (akeys (aset h c (aget h c + dh))) /\ all_nonneg (aset h c (aget h c + dh)) /\
  asum (aset h c (aget h c + dh)) = asum h + dh.
Proof.
  intros ND NN H. split; [apply nodup_aset; exact ND|]. split; [apply all_nonneg_aset; assumption|].
  rewrite asum_aset by exact ND. lia.
Qed.

Ltac fin U3 :=
  auto; try lia; try (rewrite ?U3; lia); try (intros _; rewrite ?U3; lia); try (rewrite ?U3; nia).

Lemma inv_deposit s c tok amt s' o : Inv s -> ep_deposit s c tok amt = Ok (s', o) -> Inv s'.
Proof.
  intros HI H. apply ep_deposit_spec in H.
  destruct H as (ph & l & price & Hph & Ha & Hamt & _ & _ & D & _).
  pose proof (deposit_gate _ _ _ (i_cfg _ HI) Hph Ha) as Hg.
  destruct D. destruct HI.
  assert (Hend : p_block s < b_end (p_cfg s)).
  { destruct i_cfg0. unfold b_end. lia. }
  destruct (i_open0 Hend) as (O1 & O2 & O3 & O4).
  destruct i_nn0 as (N1 & N2 & N3 & N4 & N5 & N6).
  destruct l; simpl in *; unfold held in *; simpl in *.
  - pose proof (aget_nonneg _ c i_hn3) as Hc.
    destruct (hold_update (p_h1 s) c amt i_nd3 i_hn3 ltac:(lia)) as (U1 & U2 & U3).
    constructor; rewrite ?d_cfg0, ?d_block0, ?d_hold0, ?d_hold'0; fin U3.
  - pose proof (aget_nonneg _ c i_hn4) as Hc.
    destruct (hold_update (p_h2 s) c amt i_nd4 i_hn4 ltac:(lia)) as (U1 & U2 & U3).
    constructor; rewrite ?d_cfg0, ?d_block0, ?d_hold0, ?d_hold'0; fin U3.
Qed.

Lemma inv_withdraw s c n amt s' o : Inv s -> ep_withdraw s c n amt = Ok (s', o) -> Inv s'.
Proof.
  intros HI H. apply ep_withdraw_spec in H.
  destruct H as (ph & l & w & price & Hph & Ha & Hamt & _ & _ & _ & Hheld & Hsup & Hw0 & Hwt & Hwr & D & _).
  pose proof (withdraw_gate _ _ _ (i_cfg _ HI) Hph Ha) as Hg.
  destruct D. destruct HI.
  assert (Hend : p_block s < b_end (p_cfg s)) by lia.
  destruct (i_open0 Hend) as (O1 & O2 & O3 & O4).
  destruct i_nn0 as (N1 & N2 & N3 & N4 & N5 & N6).
  destruct l; simpl in *; unfold held in *; simpl in *.
  - destruct (hold_update (p_h1 s) c (- amt) i_nd3 i_hn3 ltac:(lia)) as (U1 & U2 & U3).
    constructor; rewrite ?d_cfg0, ?d_block0, ?d_hold0, ?d_hold'0; fin U3.
  - destruct (hold_update (p_h2 s) c (- amt) i_nd4 i_hn4 ltac:(lia)) as (U1 & U2 & U3).
    constructor; rewrite ?d_cfg0, ?d_block0, ?d_hold0, ?d_hold'0; fin U3.
Qed.

Lemma inv_redeem s c n amt s' o : Inv s -> ep_redeem s c n amt = Ok (s', o) -> Inv s'.
Proof.
  intros HI H. apply ep_redeem_spec in H; [|exact HI].
  destruct H as (ph & l & q & Hph & Ha & Hamt & _ & _ & Hsp & Hq & Hq0 & Hheld & Hqr & D).
  pose proof (redeem_gate _ _ _ (i_cfg _ HI) Hph Ha) as Hg.
  pose proof (div_lo (bal_tr s (negb l) * amt) (supply s l) Hsp) as Hlo. rewrite <- Hq in Hlo.
  clear Hq.
  destruct D. destruct HI.
  destruct i_nn0 as (N1 & N2 & N3 & N4 & N5 & N6). destruct i_re0 as (R1 & R2).
  destruct l; simpl in *; unfold held in *; simpl in *.
  - pose proof (aget_le_asum _ c i_hn3) as Hle.
    destruct (hold_update (p_h1 s) c (- amt) i_nd3 i_hn3 ltac:(lia)) as (U1 & U2 & U3).
    constructor; rewrite ?d_cfg0, ?d_block0, ?d_hold0, ?d_hold'0; fin U3.
  - pose proof (aget_le_asum _ c i_hn4) as Hle.
    destruct (hold_update (p_h2 s) c (- amt) i_nd4 i_hn4 ltac:(lia)) as (U1 & U2 & U3).
    constructor; rewrite ?d_cfg0, ?d_block0, ?d_hold0, ?d_hold'0; fin U3.
Qed.

Lemma inv_xfer s a b n amt s' o : Inv s -> ep_xfer s a b n amt = Ok (s', o) -> Inv s'.
Proof.
  intros HI H. apply ep_xfer_spec in H.
  destruct H as (l & _ & Hamt & _ & C1 & C2 & C3 & C4 & C5 & C6 & C7 & C8 & Ho & Hh).
  destruct HI.
  destruct l; simpl in *; unfold held in *; simpl in *.
  - replace (aget (p_h1 s) a - amt) with (aget (p_h1 s) a + - amt) in Hh by lia.
    destruct (hold_update (p_h1 s) a (- amt) i_nd3 i_hn3 ltac:(lia)) as (U1 & U2 & U3).
    pose proof (aget_nonneg _ b U2) as Hb.
    destruct (hold_update _ b amt U1 U2 ltac:(lia)) as (V1 & V2 & V3).
    rewrite <- Hh in V1, V2, V3.
    assert (HS : asum (p_h1 s') = asum (p_h1 s)) by lia.
    constructor; rewrite ?C1, ?C2, ?C3, ?C4, ?C5, ?C6, ?C7, ?C8, ?Ho, ?HS; auto.
  - replace (aget (p_h2 s) a - amt) with (aget (p_h2 s) a + - amt) in Hh by lia.
    destruct (hold_update (p_h2 s) a (- amt) i_nd4 i_hn4 ltac:(lia)) as (U1 & U2 & U3).
    pose proof (aget_nonneg _ b U2) as Hb.
    destruct (hold_update _ b amt U1 U2 ltac:(lia)) as (V1 & V2 & V3).
    rewrite <- Hh in V1, V2, V3.
    assert (HS : asum (p_h2 s') = asum (p_h2 s)) by lia.
    constructor; rewrite ?C1, ?C2, ?C3, ?C4, ?C5, ?C6, ?C7, ?C8, ?Ho, ?HS; auto.
Qed.

(** every successful operation preserves the invariant, never changes the configuration and never
    moves the block height backwards *)
Lemma step_inv s op s' o : Inv s -> step s op = Ok (s', o) ->
  Inv s' /\ p_cfg s' = p_cfg s /\ p_block s <= p_block s'.
Proof.
  intros HI H. destruct op; simpl in H.
  - destruct (inv_tick _ _ _ _ HI H) as [I B]. split; [exact I|]. split; [|exact B].
    unfold ep_tick in H. destruct (0 <=? d); [|discriminate]. inversion H; reflexivity.
  - split; [eapply inv_deposit; eauto|]. apply ep_deposit_spec in H.
    destruct H as (? & ? & ? & _ & _ & _ & _ & _ & [] & _). split; [assumption | lia].
  - split; [eapply inv_withdraw; eauto|]. apply ep_withdraw_spec in H.
    destruct H as (? & ? & ? & ? & _ & _ & _ & _ & _ & _ & _ & _ & _ & _ & _ & [] & _). split; [assumption | lia].
  - split; [eapply inv_redeem; eauto|]. apply ep_redeem_spec in H; [|exact HI].
    destruct H as (? & ? & ? & _ & _ & _ & _ & _ & _ & _ & _ & _ & _ & []). split; [assumption | lia].
  - split; [eapply inv_xfer; eauto|]. apply ep_xfer_spec in H.
    destruct H as (? & _ & _ & _ & C1 & C2 & _). split; [assumption | lia].
Qed.

Lemma step_total_inv s op : Inv s ->
  Inv (step_total s op) /\ p_cfg (step_total s op) = p_cfg s /\ p_block s <= p_block (step_total s op).
Proof.
  intros HI. unfold step_total. destruct (step s op) as [[s' o]|] eqn:E.
  - eapply step_inv; eauto.
  - split; [exact HI|]. split; [reflexivity | lia].
Qed.

Lemma run_inv ops : forall s, Inv s ->
  Inv (run s ops) /\ p_cfg (run s ops) = p_cfg s /\ p_block s <= p_block (run s ops).
Proof.
  induction ops as [|op t IH]; intros s HI; simpl.
  - split; [exact HI|]. split; [reflexivity | lia].
  - destruct (step_total_inv s op HI) as (I1 & C1 & B1).
    destruct (IH _ I1) as (I2 & C2 & B2). unfold run in *.
    split; [exact I2|]. split; [congruence | lia].
Qed.

Lemma init_inv cur decimals minp start dn dl df pmin pmax pfix s :
  init_pd cur decimals minp start dn dl df pmin pmax pfix = Ok s ->
  Inv s /\ p_block s = cur /\ cur < c_start (p_cfg s) /\ p_lb s = 0 /\ p_ab s = 0 /\
  c_prec (p_cfg s) = 10 ^ decimals /\ 0 <= decimals <= PD_MAX_TOKEN_DECIMALS.
Proof.
  unfold init_pd. intros H.
  destruct (_ && _) eqn:E0 in H; [|discriminate].
  repeat (apply andb_prop in E0; destruct E0 as [E0 ?]).
  repeat match goal with Hx : (_ <=? _) = true |- _ => apply Z.leb_le in Hx end.
  destruct (decimals <=? PD_MAX_TOKEN_DECIMALS) eqn:E1; [|discriminate]. apply Z.leb_le in E1.
  destruct (cur <? start) eqn:E2; [|discriminate]. apply Z.ltb_lt in E2.
  destruct (pmin <=? pmax) eqn:E3; [|discriminate]. apply Z.leb_le in E3.
  destruct (pmax <? MAXP) eqn:E4; [|discriminate]. apply Z.ltb_lt in E4.
  destruct (pfix <? MAXP) eqn:E5; [|discriminate]. apply Z.ltb_lt in E5.
  inversion H; subst; clear H. simpl.
  split; [|repeat split; auto; lia].
  assert (0 < 10 ^ decimals) by (apply Z.pow_pos_nonneg; lia).
  constructor; simpl; try lia; try (constructor; simpl; lia); constructor.
Qed.

(** phases only advance along any history *)
Lemma run_phase_mono s ops ph ph' : Inv s ->
  view_phase s = Ok ph -> view_phase (run s ops) = Ok ph' -> phase_ix ph <= phase_ix ph'.
Proof.
  intros HI H1 H2. destruct (run_inv ops s HI) as (_ & C & B).
  unfold view_phase in *. rewrite C in H2.
  eapply phase_mono; eauto. apply (i_cfg _ HI).
Qed.

(** ------------------------------------------------------------------ characterisations (what the theorems of C17 cite) *)

(** gates, in terms of the documented block intervals *)
Lemma deposit_only_in_phase s c tok amt s' o : wf_cfg (p_cfg s) ->
  ep_deposit s c tok amt = Ok (s', o) -> c_start (p_cfg s) <= p_block s < b_lin_end (p_cfg s).
Proof.
  intros W H. apply ep_deposit_spec in H. destruct H as (ph & l & pr & Hph & Ha & _).
  eapply deposit_gate; eauto.
Qed.

Lemma withdraw_only_in_phase s c n amt s' o : wf_cfg (p_cfg s) ->
  ep_withdraw s c n amt = Ok (s', o) -> c_start (p_cfg s) <= p_block s < b_end (p_cfg s).
Proof.
  intros W H. apply ep_withdraw_spec in H. destruct H as (ph & l & w & pr & Hph & Ha & _).
  eapply withdraw_gate; eauto.
Qed.

Lemma redeem_only_in_phase s c n amt s' o : wf_cfg (p_cfg s) ->
  ep_redeem s c n amt = Ok (s', o) -> b_end (p_cfg s) <= p_block s.
Proof.
  intros W H. unfold ep_redeem in H.
  apply bind_ok in H. destruct H as (ph & Hph & H).
  destruct (redeem_allowed ph) eqn:Ea; [|discriminate].
  eapply redeem_gate; eauto.
Qed.

(** account [c]'s redeem tokens after a ledger delta; everybody else's are untouched *)
Lemma delta_held s s' l c dtr dre dopp dsup dh : delta s s' l c dtr dre dopp dsup dh ->
  held s' l c = held s l c + dh /\ (forall a, a <> c -> held s' l a = held s l a) /\
  (forall a, held s' (negb l) a = held s (negb l) a).
Proof.
  intros []. unfold held. rewrite d_hold0, d_hold'0.
  split; [apply aget_aset_same|]. split; [|reflexivity].
  intros a Ha. apply aget_aset_other. congruence.
Qed.

(** the penalty percentage in force at a block, against the documented schedule *)
Definition pct_doc (c : cfg) (b pct : Z) : Prop :=
  (c_start c <= b < b_nl_end c -> pct = 0) /\
  (b_nl_end c <= b < b_lin_end c -> lin_pct_spec c b pct /\ c_pmin c <= pct <= c_pmax c) /\
  (b_lin_end c <= b < b_end c -> pct = c_pfix c).

Lemma penalty_doc c b ph : wf_cfg c -> get_current_phase c b = Ok ph -> pct_doc c b (penalty_of ph).
Proof.
  intros W H. destruct (phase_char c b W) as (q & Hq & D). rewrite H in Hq. inversion Hq; subst q.
  destruct W. unfold pct_doc.
  destruct ph; simpl in *; unfold b_end, b_lin_end, b_nl_end in *;
    repeat split; intros; try reflexivity; try lia; try tauto.
Qed.

Lemma withdraw_char s c n amt s' o :
  Inv s -> ep_withdraw s c n amt = Ok (s', o) ->
  exists l pct pen,
    side_of_nonce n = Ok l /\ 0 <= amt <= held s l c /\
    c_start (p_cfg s) <= p_block s < b_end (p_cfg s) /\
    pct_doc (p_cfg s) (p_block s) pct /\ 0 <= pct < MAXP /\
    floor_of pen (amt * pct) MAXP /\ 0 <= pen <= amt /\
    o = [amt - pen] /\
    (* the penalty stays in the pool: tracked and real balances go down by amount - penalty only *)
    bal_tr s' l = bal_tr s l - (amt - pen) /\ bal_re s' l = bal_re s l - (amt - pen) /\
    bal_tr s' (negb l) = bal_tr s (negb l) /\ bal_re s' (negb l) = bal_re s (negb l) /\
    supply s' l = supply s l - amt /\ supply s' (negb l) = supply s (negb l) /\
    held s' l c = held s l c - amt /\ (forall a, a <> c -> held s' l a = held s l a) /\
    (forall a, held s' (negb l) a = held s (negb l) a).
Proof.
  intros HI H. pose proof (i_cfg _ HI) as W.
  pose proof (withdraw_only_in_phase _ _ _ _ _ _ W H) as Hg.
  apply ep_withdraw_spec in H.
  destruct H as (ph & l & w & price & Hph & Ha & Hamt & Hl & Ho & Hw & Hheld & Hsup & Hw0 & Hwt & Hwr & D & _).
  pose proof (penalty_bounds _ _ _ W Hph) as Hpb.
  pose proof (penalty_doc _ _ _ W Hph) as Hpd.
  pose proof maxp_pos as HM.
  pose proof (floor_of_div (amt * penalty_of ph) MAXP HM) as HF.
  assert (Hpen : 0 <= amt * penalty_of ph / MAXP <= amt).
  { split; [apply div_nonneg; [nia | lia]|]. apply Z.div_le_upper_bound; [lia | nia]. }
  destruct (delta_held _ _ _ _ _ _ _ _ _ D) as (H1 & H2 & H3).
  destruct D.
  exists l, (penalty_of ph), (amt * penalty_of ph / MAXP).
  split; [exact Hl|]. split; [lia|]. split; [exact Hg|]. split; [exact Hpd|]. split; [exact Hpb|].
  split; [exact HF|]. split; [exact Hpen|]. split; [subst w; exact Ho|].
  subst w. repeat (split; [lia|]). split; [exact H2 | exact H3].
Qed.

Lemma deposit_char s c tok amt s' o :
  Inv s -> ep_deposit s c tok amt = Ok (s', o) ->
  exists l,
    side_of_token tok = Ok l /\ 0 <= amt /\ o = [amt] /\
    c_start (p_cfg s) <= p_block s < b_lin_end (p_cfg s) /\
    bal_tr s' l = bal_tr s l + amt /\ bal_re s' l = bal_re s l + amt /\
    bal_tr s' (negb l) = bal_tr s (negb l) /\ bal_re s' (negb l) = bal_re s (negb l) /\
    supply s' l = supply s l + amt /\ supply s' (negb l) = supply s (negb l) /\
    held s' l c = held s l c + amt /\ (forall a, a <> c -> held s' l a = held s l a) /\
    (forall a, held s' (negb l) a = held s (negb l) a) /\
    0 < p_lb s'.
Proof.
  intros HI H. pose proof (i_cfg _ HI) as W.
  pose proof (deposit_only_in_phase _ _ _ _ _ _ W H) as Hg.
  apply ep_deposit_spec in H.
  destruct H as (ph & l & price & Hph & Ha & Hamt & Hl & Ho & D & Hp & _).
  destruct (delta_held _ _ _ _ _ _ _ _ _ D) as (H1 & H2 & H3).
  apply calculate_price_spec in Hp. destruct Hp as [Hp _].
  destruct D. exists l.
  split; [exact Hl|]. split; [exact Hamt|]. split; [exact Ho|]. split; [exact Hg|].
  repeat (split; [lia|]). split; [exact H2|]. split; [exact H3 | exact Hp].
Qed.

Lemma redeem_char s c n amt s' o :
  Inv s -> ep_redeem s c n amt = Ok (s', o) ->
  exists l q,
    side_of_nonce n = Ok l /\ 0 <= amt <= held s l c /\
    b_end (p_cfg s) <= p_block s /\
    (* pays the floor of (opposite pool * amount / total redeem supply of the nonce) *)
    0 < supply s l /\ floor_of q (bal_tr s (negb l) * amt) (supply s l) /\ 0 <= q /\
    o = [q] /\
    (* pools and supplies are frozen *)
    p_lb s' = p_lb s /\ p_ab s' = p_ab s /\ p_s1 s' = p_s1 s /\ p_s2 s' = p_s2 s /\
    (* the payment leaves the real holding of the opposite token, nothing else moves *)
    bal_re s' (negb l) = bal_re s (negb l) - q /\ bal_re s' l = bal_re s l /\
    (* the redeem tokens are gone: each pays exactly once *)
    held s' l c = held s l c - amt /\ (forall a, a <> c -> held s' l a = held s l a) /\
    (forall a, held s' (negb l) a = held s (negb l) a).
Proof.
  intros HI H. pose proof (i_cfg _ HI) as W.
  pose proof (redeem_only_in_phase _ _ _ _ _ _ W H) as Hg.
  apply ep_redeem_spec in H; [|exact HI].
  destruct H as (ph & l & q & Hph & Ha & Hamt & Hl & Ho & Hsp & Hq & Hq0 & Hheld & Hqr & D).
  pose proof (floor_of_div (bal_tr s (negb l) * amt) (supply s l) Hsp) as HF. rewrite <- Hq in HF.
  destruct (delta_held _ _ _ _ _ _ _ _ _ D) as (H1 & H2 & H3).
  destruct D. exists l, q.
  split; [exact Hl|]. split; [lia|]. split; [exact Hg|]. split; [exact Hsp|]. split; [exact HF|].
  split; [exact Hq0|]. split; [exact Ho|].
  destruct l; simpl in *; repeat (split; [lia|]); (split; [exact H2 | exact H3]).
Qed.

(** redemption can always be honoured: a holder's redeem never fails for lack of funds *)
Lemma redeem_succeeds s c n amt l :
  Inv s -> b_end (p_cfg s) <= p_block s -> side_of_nonce n = Ok l -> 0 < amt <= held s l c ->
  is_ok (ep_redeem s c n amt) = true.
Proof.
  intros HI Hb Hl Hamt. pose proof (i_cfg _ HI) as W.
  destruct (phase_by_block (p_cfg s) (p_block s) W) as (ph & Hph & _ & _ & _ & _ & HR).
  apply (proj1 HR) in Hb. subst ph.
  unfold ep_redeem. rewrite Hph. cbn [bind redeem_allowed].
  destruct (0 <=? amt) eqn:E0; [|apply Z.leb_gt in E0; lia].
  rewrite Hl. cbn [bind].
  unfold sub_chk at 1. destruct (held s l c <? amt) eqn:E1; [apply Z.ltb_lt in E1; lia|]. cbn [bind].
  destruct (inv_side s l HI) as (_ & _ & Hsup & _ & _ & Hnn & Hc).
  pose proof (aget_le_asum (hold s l) c Hnn) as Hle. unfold held in Hamt.
  assert (Hsp : 0 < supply s l) by lia.
  unfold div_chk. destruct (supply s l =? 0) eqn:E2; [apply Z.eqb_eq in E2; lia|]. cbn [bind].
  destruct (0 <? bal_tr s (negb l) * amt / supply s l) eqn:E3; [|reflexivity].
  (* the payout fits into the real holding: paid*supply <= pool*redeemed *)
  assert (Hfit : bal_tr s (negb l) * amt / supply s l <= bal_re s (negb l)).
  { pose proof (div_lo (bal_tr s (negb l) * amt) (supply s l) Hsp) as Hlo.
    set (q := bal_tr s (negb l) * amt / supply s l) in *. clearbody q.
    destruct HI. destruct i_nn0 as (N1 & N2 & N3 & N4 & N5 & N6).
    destruct l; simpl in *; nia. }
  unfold sub_chk.
  destruct l; simpl in *;
    match goal with |- context [?a <? ?b] => destruct (a <? b) eqn:E4 end;
    try reflexivity; apply Z.ltb_lt in E4; lia.
Qed.

(** ------------------------------------------------------------------ total payouts over any history *)
(** what has left a pool so far: tracked minus real *)
Definition deficit (s : pd) (l : bool) : Z := bal_tr s l - bal_re s l.

Definition payout_of (op : pdop) (o : outs) (n : Z) : Z :=
  match op with Redeem _ n' _ => if n' =? n then hd 0 o else 0 | _ => 0 end.

Lemma step_deficit s op s' o : Inv s -> step s op = Ok (s', o) ->
  deficit s' true - deficit s true = payout_of op o NA /\
  deficit s' false - deficit s false = payout_of op o NL.
Proof.
  intros HI H. unfold deficit. destruct op; simpl in H; unfold payout_of.
  - unfold ep_tick in H. destruct (0 <=? d); [|discriminate]. inversion H; subst. simpl. lia.
  - apply ep_deposit_spec in H. destruct H as (? & l & ? & _ & _ & _ & _ & _ & [] & _).
    destruct l; simpl in *; lia.
  - apply ep_withdraw_spec in H.
    destruct H as (? & l & ? & ? & _ & _ & _ & _ & _ & _ & _ & _ & _ & _ & _ & [] & _).
    destruct l; simpl in *; lia.
  - apply ep_redeem_spec in H; [|exact HI].
    destruct H as (? & l & q & _ & _ & _ & Hl & -> & _ & _ & _ & _ & _ & []).
    apply side_of_nonce_spec in Hl. pose proof nonce_distinct as ND.
    assert (E1 : (NL =? NA) = false) by (apply Z.eqb_neq; exact ND).
    assert (E2 : (NA =? NL) = false) by (apply Z.eqb_neq; congruence).
    destruct Hl as [[-> ->]|[-> ->]]; rewrite ?Z.eqb_refl, ?E1, ?E2; cbn [bal_tr bal_re negb hd] in *; lia.
  - apply ep_xfer_spec in H. destruct H as (l & _ & _ & _ & _ & _ & C3 & C4 & C5 & C6 & _).
    simpl. lia.
Qed.

Lemma paid_run ops : forall s, Inv s ->
  paid s ops NA = deficit (run s ops) true - deficit s true /\
  paid s ops NL = deficit (run s ops) false - deficit s false.
Proof.
  induction ops as [|op t IH]; intros s HI; simpl.
  - lia.
  - unfold run in *. simpl. unfold step_total at 2 4.
    destruct (step s op) as [[s' o]|] eqn:E.
    + destruct (step_inv _ _ _ _ HI E) as (I' & _ & _).
      destruct (step_deficit _ _ _ _ HI E) as (D1 & D2). unfold payout_of in D1, D2.
      destruct (IH _ I') as (P1 & P2). rewrite P1, P2. lia.
    + apply IH. exact HI.
Qed.

(** Over ANY history (deposits, withdrawals, block advances, transfers and redemptions in any order,
    by any accounts): what redemptions have paid out of a pool, plus what had left it before, is
    bounded by the pool's share of the redeem tokens burned so far, hence by the pool itself. *)
Lemma redeem_total s ops : Inv s ->
  let s' := run s ops in
  (paid s ops NA + deficit s true) * p_s2 s' <= p_lb s' * (p_s2 s' - asum (p_h2 s')) /\
  (paid s ops NL + deficit s false) * p_s1 s' <= p_ab s' * (p_s1 s' - asum (p_h1 s')) /\
  paid s ops NA + deficit s true <= p_lb s' /\
  paid s ops NL + deficit s false <= p_ab s' /\
  0 <= p_rl s' /\ 0 <= p_ra s'.
Proof.
  intros HI s'. destruct (paid_run ops s HI) as (P1 & P2).
  destruct (run_inv ops s HI) as (I' & _ & _). fold s' in I', P1, P2.
  destruct I'. unfold deficit in *. simpl in *.
  replace (paid s ops NA + (p_lb s - p_rl s)) with (p_lb s' - p_rl s') by lia.
  replace (paid s ops NL + (p_ab s - p_ra s)) with (p_ab s' - p_ra s') by lia.
  repeat split; try assumption; lia.
Qed.

(** the arithmetic core, by induction over the list of redeemed amounts: the floors of the
    pro-rata shares of amounts that together do not exceed the supply never add up to more than the pool *)
Definition zsum (l : list Z) : Z := fold_right Z.add 0 l.

Lemma sum_floors_le P S l : 0 <= P -> 0 < S -> Forall (fun a => 0 <= a) l -> zsum l <= S ->
  zsum (map (fun a => P * a / S) l) <= P.
Proof.
  intros HP HS Hnn Hsum.
  assert (Hmul : zsum (map (fun a => P * a / S) l) * S <= P * zsum l).
  { clear Hsum. induction l as [|a t IH]; simpl; [lia|].
    inversion Hnn; subst. specialize (IH H2).
    pose proof (div_lo (P * a) S HS). lia. }
  assert (P * zsum l <= P * S) by nia.
  nia.
Qed.

(** ------------------------------------------------------------------ price and price floor *)
Lemma price_view_char s p : view_price s = Ok p ->
  0 < p_lb s /\ floor_of p (p_ab s * c_prec (p_cfg s)) (p_lb s).
Proof.
  intros H. apply calculate_price_spec in H. destruct H as [Hl ->].
  split; [exact Hl | apply floor_of_div; exact Hl].
Qed.

Lemma price_view_fails s : p_lb s <= 0 -> is_ok (view_price s) = false.
Proof.
  intros H. unfold view_price, calculate_price. destruct (0 <? p_lb s) eqn:E; [apply Z.ltb_lt in E; lia | reflexivity].
Qed.

(** an accepted launched-token deposit leaves the price at/above the minimum whenever accepted tokens
    are present; with no accepted tokens at all the price is 0 by definition *)
Lemma deposit_floor s c amt s' o :
  ep_deposit s c TOK_L amt = Ok (s', o) ->
  exists p, view_price s' = Ok p /\ p_ab s' = p_ab s /\
    (0 < p_ab s' -> c_minp (p_cfg s') <= p) /\ (p_ab s' = 0 -> p = 0).
Proof.
  intros H. apply ep_deposit_spec in H.
  destruct H as (ph & l & price & _ & _ & _ & Hl & _ & D & Hp & Hf).
  apply side_of_token_spec in Hl. destruct Hl as [[-> _]|[_ Hc]]; [|discriminate Hc].
  exists price. split; [exact Hp|]. destruct D. simpl in *. split; [exact d_tr'0|].
  rewrite d_cfg0, d_tr'0. split.
  - intros Hpos. destruct (Hf eq_refl) as [Hz|Hm]; [lia | exact Hm].
  - intros Hz. apply calculate_price_spec in Hp. destruct Hp as [_ ->]. rewrite d_tr'0, Hz. reflexivity.
Qed.

(** ... and one that would leave it below the minimum while accepted tokens are present is rejected *)
Lemma deposit_floor_rejects s c amt :
  0 < p_ab s ->
  p_ab s * c_prec (p_cfg s) / (p_lb s + amt) < c_minp (p_cfg s) ->
  is_ok (ep_deposit s c TOK_L amt) = false.
Proof.
  intros Hab Hlt. destruct (ep_deposit s c TOK_L amt) as [[s' o]|] eqn:E; [|reflexivity].
  exfalso. apply ep_deposit_spec in E.
  destruct E as (ph & l & price & _ & _ & _ & Hl & _ & D & Hp & Hf).
  apply side_of_token_spec in Hl. destruct Hl as [[-> _]|[_ Hc]]; [|discriminate Hc].
  apply calculate_price_spec in Hp. destruct Hp as [_ Hp]. destruct D. simpl in *.
  rewrite d_cfg0, d_tr0, d_tr'0 in Hp. destruct (Hf eq_refl); lia.
Qed.

(** the bootstrap case, precisely: while NO accepted tokens are deposited the price is 0 by definition and
    a launched-token deposit is accepted in the deposit phases whatever the minimum price is (it only has
    to leave a positive launched balance, otherwise no price is defined) *)
Lemma deposit_bootstrap s c amt ph :
  get_current_phase (p_cfg s) (p_block s) = Ok ph -> deposit_allowed ph = true ->
  0 <= amt -> 0 < p_lb s + amt -> p_ab s = 0 ->
  exists s', ep_deposit s c TOK_L amt = Ok (s', [amt]) /\ view_price s' = Ok 0 /\ p_ab s' = 0.
Proof.
  intros Hph Ha Hamt Hlb Hab. unfold ep_deposit. rewrite Hph. cbn [bind]. rewrite Ha.
  destruct (0 <=? amt) eqn:E0; [|apply Z.leb_gt in E0; lia].
  change (side_of_token TOK_L) with (@Ok bool true). cbn [bind]. cbv zeta.
  unfold calculate_price at 1. cbn [set_tr bal_tr p_lb p_ab p_cfg].
  destruct (0 <? p_lb s + amt) eqn:E1; [|apply Z.ltb_ge in E1; lia].
  unfold div_chk. destruct (p_lb s + amt =? 0) eqn:E2; [apply Z.eqb_eq in E2; lia|]. cbn [bind].
  rewrite Hab. cbn [Z.eqb orb].
  eexists. split; [reflexivity|].
  unfold view_price, calculate_price. cbn. rewrite E1. unfold div_chk. rewrite E2. split; reflexivity.
Qed.

(** any accepted withdrawal leaves the price at/above the minimum *)
Lemma withdraw_floor s c n amt s' o :
  ep_withdraw s c n amt = Ok (s', o) ->
  exists p, view_price s' = Ok p /\ c_minp (p_cfg s') <= p.
Proof.
  intros H. apply ep_withdraw_spec in H.
  destruct H as (ph & l & w & price & _ & _ & _ & _ & _ & _ & _ & _ & _ & _ & _ & D & Hp & Hf).
  exists price. split; [exact Hp|]. destruct D. rewrite d_cfg0. exact Hf.
Qed.

(** ... and one that would leave it below the minimum is rejected, whichever token is withdrawn *)
Lemma withdraw_floor_rejects s c n amt ph l :
  get_current_phase (p_cfg s) (p_block s) = Ok ph -> side_of_nonce n = Ok l ->
  let w := amt - amt * penalty_of ph / MAXP in
  let lb' := if l then p_lb s - w else p_lb s in
  let ab' := if l then p_ab s else p_ab s - w in
  ab' * c_prec (p_cfg s) / lb' < c_minp (p_cfg s) ->
  is_ok (ep_withdraw s c n amt) = false.
Proof.
  intros Hph Hl w lb' ab' Hlt.
  destruct (ep_withdraw s c n amt) as [[s' o]|] eqn:E; [|reflexivity].
  exfalso. apply ep_withdraw_spec in E.
  destruct E as (ph' & l' & w' & price & Hph' & _ & _ & Hl' & _ & Hw & _ & _ & _ & _ & _ & D & Hp & Hf).
  rewrite Hph in Hph'. inversion Hph'; subst ph'. rewrite Hl in Hl'. inversion Hl'; subst l'.
  apply calculate_price_spec in Hp. destruct Hp as [_ Hp]. destruct D.
  rewrite d_cfg0 in Hp. subst w'. fold w in d_tr0.
  destruct l; simpl in *; subst lb' ab'; rewrite d_tr0, d_tr'0 in Hp;
    replace (p_lb s + - w) with (p_lb s - w) in Hp by lia;
    replace (p_ab s + - w) with (p_ab s - w) in Hp by lia; lia.
Qed.

(** ------------------------------------------------------------------ tracked balances = real holdings *)
Lemma tracked_eq s : Inv s -> p_block s < b_end (p_cfg s) ->
  p_lb s = p_rl s /\ p_ab s = p_ra s /\ p_s1 s = asum (p_h1 s) /\ p_s2 s = asum (p_h2 s).
Proof. intros HI Hb. destruct (i_open _ HI Hb) as (A & B & C & D). repeat split; congruence. Qed.

(** every state reachable from a deployment that [init] accepts, by any history *)
Lemma reach_inv cur decimals minp start dn dl df pmin pmax pfix s0 ops :
  init_pd cur decimals minp start dn dl df pmin pmax pfix = Ok s0 -> Inv (run s0 ops).
Proof. intros H. apply run_inv. apply (init_inv _ _ _ _ _ _ _ _ _ _ _ H). Qed.

Lemma reach_tracked cur decimals minp start dn dl df pmin pmax pfix s0 ops :
  init_pd cur decimals minp start dn dl df pmin pmax pfix = Ok s0 ->
  let s := run s0 ops in
  p_block s < b_end (p_cfg s) ->
  p_lb s = p_rl s /\ p_ab s = p_ra s /\ p_s1 s = asum (p_h1 s) /\ p_s2 s = asum (p_h2 s).
Proof. intros H s. apply tracked_eq. eapply reach_inv; eauto. Qed.

Lemma reach_redeem_total cur decimals minp start dn dl df pmin pmax pfix s0 ops :
  init_pd cur decimals minp start dn dl df pmin pmax pfix = Ok s0 ->
  let s := run s0 ops in
  paid s0 ops NA * p_s2 s <= p_lb s * (p_s2 s - asum (p_h2 s)) /\
  paid s0 ops NL * p_s1 s <= p_ab s * (p_s1 s - asum (p_h1 s)) /\
  paid s0 ops NA <= p_lb s /\ paid s0 ops NL <= p_ab s /\
  paid s0 ops NA = p_lb s - p_rl s /\ paid s0 ops NL = p_ab s - p_ra s.
Proof.
  intros H s. destruct (init_inv _ _ _ _ _ _ _ _ _ _ _ H) as (HI & _ & _ & L0 & A0 & _).
  pose proof (redeem_total s0 ops HI) as T. cbv zeta in T. fold s in T.
  destruct (paid_run ops s0 HI) as (P1 & P2). fold s in P1, P2.
  destruct HI. destruct i_nn0 as (N1 & N2 & N3 & N4 & _). destruct i_re0 as (R1 & R2).
  assert (D1 : deficit s0 true = 0) by (unfold deficit; simpl; lia).
  assert (D2 : deficit s0 false = 0) by (unfold deficit; simpl; lia).
  rewrite D1, D2 in *. rewrite !Z.add_0_r in T. unfold deficit in P1, P2. simpl in P1, P2.
  destruct T as (T1 & T2 & T3 & T4 & _). repeat split; try assumption; lia.
Qed.

(** ------------------------------------------------------------------ regression: the former zero-price escape
    Before /repo commit 398b115 the deposit guard read [current_price == 0 || ...], so with accepted
    liquidity present a launched-token deposit large enough to make the price ROUND to zero skipped the
    floor (history below: price 10 >= minimum 5, then a deposit of 1000 launched tokens left price 0).
    The guard now reads [accepted_token_balance == 0 || ...]; the same deposit is rejected. *)
Definition wit_s0 : pd := mkPd (mkCfg 2 5 5 5 0 0 0 5 1) 1 0 0 0 0 0 0 [] [].
Definition wit_ops : list pdop := [Tick 1; Deposit 1 TOK_L 10; Deposit 1 TOK_A 100].

Lemma wit_init : init_pd 1 0 5 2 5 5 5 0 0 0 = Ok wit_s0.
Proof. vm_compute. reflexivity. Qed.

(** ------------------------------------------------------------------ packaged statements cited by Props/C17.v *)
Lemma phases_only_advance s ops ph ph' : Inv s ->
  view_phase s = Ok ph -> view_phase (run s ops) = Ok ph' ->
  phase_ix ph <= phase_ix ph' /\ p_block s <= p_block (run s ops) /\ p_cfg (run s ops) = p_cfg s.
Proof.
  intros HI H1 H2. split; [eapply run_phase_mono; eauto|].
  destruct (run_inv ops s HI) as (_ & C & B). split; assumption.
Qed.

Lemma gates s : wf_cfg (p_cfg s) ->
  (forall c tok amt s' o, ep_deposit s c tok amt = Ok (s', o) ->
     c_start (p_cfg s) <= p_block s < b_lin_end (p_cfg s)) /\
  (forall c n amt s' o, ep_withdraw s c n amt = Ok (s', o) ->
     c_start (p_cfg s) <= p_block s < b_end (p_cfg s)) /\
  (forall c n amt s' o, ep_redeem s c n amt = Ok (s', o) ->
     b_end (p_cfg s) <= p_block s).
Proof.
  intros W. split; [|split]; intros.
  - eapply deposit_only_in_phase; eauto.
  - eapply withdraw_only_in_phase; eauto.
  - eapply redeem_only_in_phase; eauto.
Qed.

Lemma penalty_linear c b pct : wf_cfg c -> get_current_phase c b = Ok (PhLinear pct) ->
  b_nl_end c <= b < b_lin_end c /\
  (exists inc, pct = c_pmin c + inc /\
     (c_dl c <= 1 -> inc = 0) /\
     (1 < c_dl c -> floor_of inc ((c_pmax c - c_pmin c) * (b - b_nl_end c)) (c_dl c - 1))) /\
  c_pmin c <= pct <= c_pmax c.
Proof.
  intros W H. destruct (phase_char c b W) as (q & Hq & D).
  rewrite H in Hq. inversion Hq; subst q. exact D.
Qed.

Lemma penalty_linear_shape c : wf_cfg c -> 0 < c_dl c ->
  get_current_phase c (b_nl_end c) = Ok (PhLinear (c_pmin c)) /\
  (1 < c_dl c -> get_current_phase c (b_lin_end c - 1) = Ok (PhLinear (c_pmax c))) /\
  (forall b b' p p', b <= b' -> get_current_phase c b = Ok (PhLinear p) ->
     get_current_phase c b' = Ok (PhLinear p') -> p <= p').
Proof.
  intros W Hd. destruct (linear_pct_endpoints c W Hd) as [A B].
  split; [exact A|]. split; [exact B|]. intros. eapply linear_pct_mono; eauto.
Qed.

Lemma tracked_inv s : Inv s ->
  (p_block s < b_end (p_cfg s) ->
     p_lb s = p_rl s /\ p_ab s = p_ra s /\ p_s1 s = asum (p_h1 s) /\ p_s2 s = asum (p_h2 s)) /\
  0 <= p_rl s <= p_lb s /\ 0 <= p_ra s <= p_ab s /\
  asum (p_h1 s) <= p_s1 s /\ asum (p_h2 s) <= p_s2 s.
Proof.
  intros HI. split; [apply tracked_eq; exact HI|].
  destruct (i_nn _ HI) as (N1 & N2 & N3 & N4 & _). destruct (i_re _ HI).
  pose proof (i_c1 _ HI). pose proof (i_c2 _ HI). repeat split; assumption.
Qed.

Lemma frozen_in_redeem s : wf_cfg (p_cfg s) -> b_end (p_cfg s) <= p_block s ->
  (forall c tok amt, is_ok (ep_deposit s c tok amt) = false) /\
  (forall c n amt, is_ok (ep_withdraw s c n amt) = false).
Proof.
  intros W Hb. split; intros.
  - destruct (ep_deposit s c tok amt) as [[s' o]|] eqn:E; [|reflexivity].
    pose proof (deposit_only_in_phase _ _ _ _ _ _ W E). pose proof (w_df _ W). unfold b_end in *. lia.
  - destruct (ep_withdraw s c n amt) as [[s' o]|] eqn:E; [|reflexivity].
    pose proof (withdraw_only_in_phase _ _ _ _ _ _ W E). lia.
Qed.

Lemma price_precision cur decimals minp start dn dl df pmin pmax pfix s0 ops :
  init_pd cur decimals minp start dn dl df pmin pmax pfix = Ok s0 ->
  c_prec (p_cfg (run s0 ops)) = 10 ^ decimals /\ 0 <= decimals <= PD_MAX_TOKEN_DECIMALS.
Proof.
  intros H. destruct (init_inv _ _ _ _ _ _ _ _ _ _ _ H) as (HI & _ & _ & _ & _ & P & D).
  destruct (run_inv ops s0 HI) as (_ & C & _). rewrite C. split; assumption.
Qed.

Lemma step_preserves s op s' o : Inv s -> step s op = Ok (s', o) -> Inv s'.
Proof. intros HI H. exact (proj1 (step_inv s op s' o HI H)). Qed.
