(** Quotes equal execution (C20): each view of Model/Quotes.v against the operation it quotes, for
    every state satisfying the subsystem's invariant and every argument. *)
From MX Require Import Base.Prelude Gen.Params Model.Quotes.
From MX Require Model.Pair Model.Farm Model.Staking Model.Penalty Model.PriceDiscovery.
From MX Require Proofs.ParamFacts Proofs.PairMath Proofs.PairInv Proofs.PairChar.
From MX Require Proofs.FarmInv Proofs.FarmSolv Proofs.FarmRps.
From MX Require Proofs.PenaltyProofs Proofs.PriceDiscoveryProofs.

(** ================================================================== dex/pair *)
Module PairQ.
Import MX.Model.Pair MX.Proofs.ParamFacts MX.Proofs.PairInv MX.Proofs.PairChar QPair.

Lemma rin_rout_true p : rin p true = p_r1 p /\ rout p true = p_r2 p.
Proof. split; reflexivity. Qed.
Lemma rin_rout_false p : rin p false = p_r2 p /\ rout p false = p_r1 p.
Proof. split; reflexivity. Qed.

(** the view, written by direction *)
Lemma get_amount_out_ord p ord ain :
  get_amount_out p (tok_in ord) ain =
  (check (0 <? ain) else EGuard;
   check (0 <? rout p ord) else EGuard;
   do out <- amount_out (p_fee p) ain (rin p ord) (rout p ord);
   check (out <? rout p ord) else EGuard; Ok out).
Proof. destruct ord; reflexivity. Qed.

Lemma get_amount_in_ord p ord aout :
  get_amount_in p (tok_out ord) aout =
  (check (0 <? aout) else EGuard;
   check (aout <? rout p ord) else EGuard;
   amount_in (p_fee p) aout (rin p ord) (rout p ord)).
Proof. destruct ord; reflexivity. Qed.

(** getAmountOut versus swapTokensFixedInput: whenever the swap executes (any caller, any minimum)
    it delivers exactly the quoted amount *)
Lemma amount_out_exec p c tin ain tout mn p' outs e :
  PairInv p -> ep_swap_in p c tin ain tout mn = Ok (p', outs, e) ->
  exists y, get_amount_out p tin ain = Ok y /\ outs = [y] /\ 0 < mn <= y.
Proof.
  intros Hinv H. apply swap_in_char in H; auto.
  destruct H as (ord & out & sp & Hord & -> & _ & Hain & HF & Hmn & Hout & _).
  destruct (swap_order_spec _ _ _ Hord) as [-> _].
  destruct (fee_lt_M _ Hinv) as (Fs & FM).
  destruct (pool_positive p ord out Hinv ltac:(lia)) as (HS & Hri & Hro).
  assert (HD : 0 < rin p ord * M + ain * (M - p_fee p)) by (pose proof M_pos; nia).
  apply is_floor_unique in HF; [|exact HD].
  exists out. split; [|split; [reflexivity | exact Hmn]].
  rewrite get_amount_out_ord.
  assert (E1 : (0 <? ain) = true) by (apply Z.ltb_lt; lia). rewrite E1.
  assert (E2 : (0 <? rout p ord) = true) by (apply Z.ltb_lt; lia). rewrite E2.
  unfold amount_out, div_chk. cbv zeta.
  assert (E3 : (rin p ord * M + ain * (M - p_fee p) =? 0) = false) by (apply Z.eqb_neq; lia). rewrite E3.
  cbn [bind]. rewrite <- HF.
  assert (E4 : (out <? rout p ord) = true) by (apply Z.ltb_lt; lia). rewrite E4. reflexivity.
Qed.

(** view errors are swap errors: zero input, zero reserve, unknown token, quoted amount not below the reserve *)
Lemma amount_out_err p c tin ain tout mn er :
  PairInv p -> get_amount_out p tin ain = Err er -> is_ok (ep_swap_in p c tin ain tout mn) = false.
Proof.
  intros Hinv Hv. destruct (ep_swap_in p c tin ain tout mn) as [[[p' o] e]|] eqn:E; [|reflexivity].
  apply amount_out_exec in E; auto. destruct E as (y & Hy & _). congruence.
Qed.

(** a quote of 0 promises nothing and the swap delivers nothing: it fails *)
Lemma amount_out_zero p c tin ain tout mn :
  PairInv p -> get_amount_out p tin ain = Ok 0 -> is_ok (ep_swap_in p c tin ain tout mn) = false.
Proof.
  intros Hinv Hv. destruct (ep_swap_in p c tin ain tout mn) as [[[p' o] e]|] eqn:E; [|reflexivity].
  apply amount_out_exec in E; auto. destruct E as (y & Hy & _ & Hm). rewrite Hv in Hy. inversion Hy. lia.
Qed.

(** getAmountIn versus swapTokensFixedOutput: the amount actually charged is the quote, the rest of
    the maximum comes back *)
Lemma amount_in_exec p c tin amax tout aout p' outs e :
  PairInv p -> ep_swap_out p c tin amax tout aout = Ok (p', outs, e) ->
  exists x, get_amount_in p tout aout = Ok x /\ outs = [aout; amax - x] /\ 0 < x <= amax.
Proof.
  intros Hinv H. apply swap_out_char in H; auto.
  destruct H as (ord & ch & sp & Hord & -> & _ & Hao & HF & Hch & _).
  destruct (swap_order_spec _ _ _ Hord) as [_ ->].
  destruct (fee_lt_M _ Hinv) as (Fs & FM).
  destruct (pool_positive p ord aout Hinv ltac:(lia)) as (HS & Hri & Hro).
  assert (HD : 0 < (rout p ord - aout) * (M - p_fee p)) by (pose proof M_pos; nia).
  apply is_floor_unique in HF; [|exact HD].
  exists ch. split; [|split; [reflexivity | exact Hch]].
  rewrite get_amount_in_ord.
  assert (E1 : (0 <? aout) = true) by (apply Z.ltb_lt; lia). rewrite E1.
  assert (E2 : (aout <? rout p ord) = true) by (apply Z.ltb_lt; lia). rewrite E2.
  unfold amount_in, sub_chk, div_chk.
  assert (E3 : (rout p ord <? aout) = false) by (apply Z.ltb_ge; lia). rewrite E3. cbn [bind].
  assert (E4 : ((rout p ord - aout) * (M - p_fee p) =? 0) = false) by (apply Z.eqb_neq; lia). rewrite E4.
  cbn [bind]. rewrite <- HF. f_equal. lia.
Qed.

Lemma amount_in_err p c tin amax tout aout er :
  PairInv p -> get_amount_in p tout aout = Err er -> is_ok (ep_swap_out p c tin amax tout aout) = false.
Proof.
  intros Hinv Hv. destruct (ep_swap_out p c tin amax tout aout) as [[[p' o] e]|] eqn:E; [|reflexivity].
  apply amount_in_exec in E; auto. destruct E as (y & Hy & _). congruence.
Qed.

(** getTokensForGivenPosition versus removeLiquidity *)
Lemma tokens_for_position_exec p c lp m1 m2 p' outs e :
  PairInv p -> ep_remove p c lp m1 m2 = Ok (p', outs, e) ->
  outs = [fst (get_tokens_for_given_position p lp); snd (get_tokens_for_given_position p lp)].
Proof.
  intros Hinv H. apply remove_char in H; auto.
  destruct H as (x1 & x2 & -> & Hlp & HS & F1 & F2 & _).
  pose proof min_liq_pos as HM.
  assert (HSp : 0 < p_S p) by lia.
  apply is_floor_unique in F1; [|exact HSp]. apply is_floor_unique in F2; [|exact HSp].
  unfold get_tokens_for_given_position, token_for_position.
  assert (E : (p_S p =? 0) = false) by (apply Z.eqb_neq; lia). rewrite E. cbn [fst snd]. congruence.
Qed.

(** ---- the converse: when does the operation deliver the quote?
    Beyond the view's own guards the endpoints require: the right pair of tokens, an active contract,
    a positive minimum not above the quote, and - only while a special fee is configured - that
    forwarding the fee succeeds (send_fee: trusted-pair / burn / collector plumbing, which the view
    does not look at).  With no fee destination configured the quote is always delivered. *)
Lemma bool_true_eq (b : bool) : b = true -> forall (A : Type) (x y : A), (if b then x else y) = x.
Proof. intros ->. reflexivity. Qed.

Lemma amount_out_live p c tin ain tout mn y ord :
  PairInv p -> get_amount_out p tin ain = Ok y -> 0 < y ->
  swap_order tin tout = Ok ord -> p_state p = ST_Active -> 0 < mn <= y -> fee_enabled p = false ->
  exists p', ep_swap_in p c tin ain tout mn = Ok (p', [y], no_eff).
Proof.
  intros Hinv Hv Hy Hord Hst Hmn Hfe.
  destruct (swap_order_spec _ _ _ Hord) as [Htin Htout].
  rewrite Htin in Hv. rewrite get_amount_out_ord in Hv.
  destruct (0 <? ain) eqn:E1; [|discriminate]. destruct (0 <? rout p ord) eqn:E2; [|discriminate].
  apply bind_ok in Hv. destruct Hv as (out & Hout & Hv).
  destruct (out <? rout p ord) eqn:E3; [|discriminate]. inversion Hv; subst out; clear Hv.
  apply Z.ltb_lt in E1, E2, E3.
  destruct (fee_lt_M _ Hinv) as (Fs & FM).
  destruct (pool_positive p ord y Hinv ltac:(lia)) as (HS & Hri & Hro).
  pose proof Hout as Hout'. unfold amount_out in Hout'. cbv zeta in Hout'. apply div_chk_ok in Hout'.
  destruct Hout' as [_ Hyeq].
  pose proof (PairMath.swap_in_K M M_pos ain (rin p ord) (rout p ord) (p_fee p) 0 E1 Hri Hro ltac:(lia) FM) as HK.
  rewrite Z.mul_0_r, Z.div_0_l in HK by (pose proof M_pos; lia). rewrite <- Hyeq in HK.
  unfold ep_swap_in. rewrite Hord. cbn [bind].
  assert (G1 : (0 <? mn) = true) by (apply Z.ltb_lt; lia). rewrite G1.
  assert (G2 : (0 <? ain) = true) by (apply Z.ltb_lt; lia). rewrite G2.
  assert (G3 : can_swap (p_state p) = true) by (unfold can_swap; rewrite Hst; apply Z.eqb_refl). rewrite G3.
  assert (G4 : (mn <? rout p ord) = true) by (apply Z.ltb_lt; lia). rewrite G4.
  rewrite Hout. cbn [bind].
  assert (G5 : (mn <=? y) = true) by (apply Z.leb_le; lia). rewrite G5.
  assert (G6 : (y <? rout p ord) = true) by (apply Z.ltb_lt; lia). rewrite G6.
  assert (G7 : negb (y =? 0) = true) by (apply negb_true_iff, Z.eqb_neq; lia). rewrite G7.
  rewrite Hfe. cbv zeta. unfold sub_chk.
  assert (G8 : (ain <? 0) = false) by (apply Z.ltb_ge; lia). rewrite G8. cbn [bind].
  assert (G9 : (rout p ord <? y) = false) by (apply Z.ltb_ge; lia). rewrite G9. cbn [bind].
  assert (G10 : k_check p (set_rs p ord (rin p ord + (ain - 0)) (rout p ord - y)) = true).
  { unfold k_check. apply Z.leb_le. clear - HK. unfold rin, rout, set_rs in *. destruct ord; cbn in *; lia. }
  rewrite G10. rewrite Z.ltb_irrefl. cbn [bind].
  pose proof (i_b1 _ Hinv) as B1. pose proof (i_b2 _ Hinv) as B2.
  rewrite Htin, Htout.
  unfold sub_bal, sub_chk.
  assert (G11 : (bal (add_bal (set_rs p ord (rin p ord + (ain - 0)) (rout p ord - y)) (tok_in ord) ain) (tok_out ord) <? y) = false).
  { apply Z.ltb_ge. clear - B1 B2 E3. unfold bal, add_bal, set_rs, rin, rout, tok_in, tok_out in *.
    destruct ord; cbn in *; lia. }
  rewrite G11. cbn [bind]. eexists. reflexivity.
Qed.

Lemma amount_in_live p c tin amax tout aout x ord :
  PairInv p -> get_amount_in p tout aout = Ok x ->
  swap_order tin tout = Ok ord -> p_state p = ST_Active -> x <= amax -> fee_enabled p = false ->
  exists p', ep_swap_out p c tin amax tout aout = Ok (p', [aout; amax - x], no_eff).
Proof.
  intros Hinv Hv Hord Hst Hmax Hfe.
  destruct (swap_order_spec _ _ _ Hord) as [Htin Htout].
  rewrite Htout in Hv. rewrite get_amount_in_ord in Hv.
  destruct (0 <? aout) eqn:E1; [|discriminate]. destruct (aout <? rout p ord) eqn:E2; [|discriminate].
  apply Z.ltb_lt in E1, E2.
  destruct (fee_lt_M _ Hinv) as (Fs & FM).
  destruct (pool_positive p ord aout Hinv ltac:(lia)) as (HS & Hri & Hro).
  pose proof Hv as Hv'. unfold amount_in in Hv'.
  apply bind_ok in Hv'. destruct Hv' as (d & Hd & Hv'). apply bind_ok in Hv'. destruct Hv' as (q & Hq & Hv').
  inversion Hv'; subst x; clear Hv'.
  apply sub_chk_ok in Hd. destruct Hd as [_ ->]. apply div_chk_ok in Hq. destruct Hq as [_ Hqeq].
  pose proof (PairMath.swap_out_K M M_pos aout (rin p ord) (rout p ord) (p_fee p) 0 ltac:(lia) Hri ltac:(lia) FM) as HK.
  cbv zeta in HK. rewrite Z.mul_0_r, Z.div_0_l in HK by (pose proof M_pos; lia). rewrite <- Hqeq in HK.
  assert (Hq0 : 0 <= q).
  { rewrite Hqeq. apply div_nonneg; pose proof M_pos; nia. }
  unfold ep_swap_out. rewrite Hord. cbn [bind].
  assert (G1 : (0 <? aout) = true) by (apply Z.ltb_lt; lia). rewrite G1.
  assert (G2 : (0 <? amax) = true) by (apply Z.ltb_lt; lia). rewrite G2.
  assert (G3 : can_swap (p_state p) = true) by (unfold can_swap; rewrite Hst; apply Z.eqb_refl). rewrite G3.
  assert (G4 : (aout <? rout p ord) = true) by (apply Z.ltb_lt; lia). rewrite G4.
  rewrite Hv. cbn [bind].
  assert (G5 : (q + 1 <=? amax) = true) by (apply Z.leb_le; lia). rewrite G5.
  assert (G7 : negb (q + 1 =? 0) = true) by (apply negb_true_iff, Z.eqb_neq; lia). rewrite G7.
  rewrite Hfe. cbv zeta. unfold sub_chk.
  assert (G8 : (q + 1 <? 0) = false) by (apply Z.ltb_ge; lia). rewrite G8. cbn [bind].
  assert (G9 : (rout p ord <? aout) = false) by (apply Z.ltb_ge; lia). rewrite G9. cbn [bind].
  assert (G10 : k_check p (set_rs p ord (rin p ord + (q + 1 - 0)) (rout p ord - aout)) = true).
  { unfold k_check. apply Z.leb_le. clear - HK. unfold rin, rout, set_rs in *. destruct ord; cbn in *; lia. }
  rewrite G10. rewrite Z.ltb_irrefl. cbn [bind].
  pose proof (i_b1 _ Hinv) as B1. pose proof (i_b2 _ Hinv) as B2.
  rewrite Htin, Htout.
  unfold sub_bal, sub_chk.
  assert (G11 : (bal (add_bal (set_rs p ord (rin p ord + (q + 1 - 0)) (rout p ord - aout)) (tok_in ord) (q + 1)) (tok_out ord) <? aout) = false).
  { apply Z.ltb_ge. clear - B1 B2 E2. unfold bal, add_bal, set_rs, rin, rout, tok_in, tok_out in *.
    destruct ord; cbn in *; lia. }
  rewrite G11. cbn [bind]. eexists. reflexivity.
Qed.

(** removeLiquidity with minimum amounts 1 pays the quoted pair exactly when: the contract is active,
    the caller (not the pair itself) holds the LP, the locked minimum liquidity stays, and each
    quoted side is positive and below its reserve.  In every other case the view still answers
    (it has no guards) and the removal is rejected. *)
Definition remove_guards (p : pair) (c lp : Z) : Prop :=
  is_state_active (p_state p) = true /\ c <> SELF /\ 0 < lp <= lp_of p c /\
  lp + MINIMUM_LIQUIDITY <= p_S p /\
  0 < fst (get_tokens_for_given_position p lp) < p_r1 p /\
  0 < snd (get_tokens_for_given_position p lp) < p_r2 p.

Lemma tokens_for_position_live p c lp :
  PairInv p -> remove_guards p c lp ->
  exists p', ep_remove p c lp 1 1 =
    Ok (p', [fst (get_tokens_for_given_position p lp); snd (get_tokens_for_given_position p lp)], no_eff).
Proof.
  intros Hinv (Hst & Hc & Hlp & HS & H1 & H2).
  pose proof min_liq_pos as HM.
  unfold get_tokens_for_given_position, token_for_position in *.
  assert (E : (p_S p =? 0) = false) by (apply Z.eqb_neq; lia). rewrite E in *. cbn [fst snd] in *.
  set (x1 := lp * p_r1 p / p_S p) in *. set (x2 := lp * p_r2 p / p_S p) in *.
  pose proof (i_b1 _ Hinv) as B1. pose proof (i_b2 _ Hinv) as B2.
  unfold ep_remove. cbn [Z.ltb Z.compare andb]. rewrite Hst.
  assert (G1 : (0 <? lp) = true) by (apply Z.ltb_lt; lia). rewrite G1.
  unfold lp_debit. assert (G2 : negb (c =? SELF) = true) by (apply negb_true_iff, Z.eqb_neq; exact Hc). rewrite G2.
  unfold sub_chk at 1. assert (G3 : (lp_of p c <? lp) = false) by (apply Z.ltb_ge; lia). rewrite G3. cbn [bind].
  unfold pool_remove. cbn [p_S p_r1 p_r2 set_lp].
  assert (G4 : (lp + MINIMUM_LIQUIDITY <=? p_S p) = true) by (apply Z.leb_le; lia). rewrite G4.
  unfold div_chk. rewrite E. cbn [bind]. fold x1 x2.
  assert (G5 : (0 <? x1) = true) by (apply Z.ltb_lt; lia). rewrite G5.
  assert (G6 : (1 <=? x1) = true) by (apply Z.leb_le; lia). rewrite G6.
  assert (G7 : (x1 <? p_r1 p) = true) by (apply Z.ltb_lt; lia). rewrite G7.
  assert (G8 : (0 <? x2) = true) by (apply Z.ltb_lt; lia). rewrite G8.
  assert (G9 : (1 <=? x2) = true) by (apply Z.leb_le; lia). rewrite G9.
  assert (G10 : (x2 <? p_r2 p) = true) by (apply Z.ltb_lt; lia). rewrite G10.
  unfold sub_chk.
  assert (G11 : (p_S p <? lp) = false) by (apply Z.ltb_ge; lia). rewrite G11. cbn [bind].
  assert (G12 : (p_r1 p <? x1) = false) by (apply Z.ltb_ge; lia). rewrite G12. cbn [bind].
  assert (G13 : (p_r2 p <? x2) = false) by (apply Z.ltb_ge; lia). rewrite G13. cbn [bind].
  cbn [p_r1 p_r2 set_pool set_lp].
  assert (G14 : ((p_r1 p - x1) * (p_r2 p - x2) <=? p_r1 p * p_r2 p) = true) by (apply Z.leb_le; nia). rewrite G14.
  unfold sub_bal, bal, sub_chk. cbn.
  assert (G15 : (p_bal1 p <? x1) = false) by (apply Z.ltb_ge; lia). rewrite G15. cbn.
  assert (G16 : (p_bal2 p <? x2) = false) by (apply Z.ltb_ge; lia). rewrite G16. cbn.
  eexists. reflexivity.
Qed.

Lemma tokens_for_position_guards p c lp p' outs e :
  PairInv p -> ep_remove p c lp 1 1 = Ok (p', outs, e) -> remove_guards p c lp.
Proof.
  intros Hinv H. pose proof H as H0. apply remove_char in H0; auto.
  destruct H0 as (x1 & x2 & _ & Hlp & HS & F1 & F2 & _ & _ & Hx1 & Hx2 & _ & _ & _ & _ & _ & _ & Hle).
  pose proof min_liq_pos as HM. assert (HSp : 0 < p_S p) by lia.
  apply is_floor_unique in F1; [|exact HSp]. apply is_floor_unique in F2; [|exact HSp].
  unfold remove_guards, get_tokens_for_given_position, token_for_position.
  assert (E : (p_S p =? 0) = false) by (apply Z.eqb_neq; lia). rewrite E. cbn [fst snd].
  unfold ep_remove in H. cbn [Z.ltb Z.compare andb] in H.
  destruct (is_state_active (p_state p)) eqn:Est; [|discriminate].
  destruct (0 <? lp); [|discriminate].
  apply bind_ok in H. destruct H as (p0 & Hdeb & _).
  unfold lp_debit in Hdeb. destruct (negb (c =? SELF)) eqn:Ec; [|discriminate].
  apply negb_true_iff, Z.eqb_neq in Ec.
  split; [reflexivity|]. split; [exact Ec|]. split; [lia|]. split; [exact HS|]. subst x1 x2. split; assumption.
Qed.

Lemma tokens_for_position_iff p c lp :
  PairInv p -> (is_ok (ep_remove p c lp 1 1) = true <-> remove_guards p c lp).
Proof.
  intros Hinv. split.
  - destruct (ep_remove p c lp 1 1) as [[[p' o] e]|] eqn:E; [|discriminate].
    intros _. eapply tokens_for_position_guards; eauto.
  - intros G. destruct (tokens_for_position_live p c lp Hinv G) as (p' & ->). reflexivity.
Qed.

Lemma amount_out_refuses p c tin ain tout mn :
  PairInv p -> (forall y, get_amount_out p tin ain = Ok y -> y = 0) ->
  is_ok (ep_swap_in p c tin ain tout mn) = false.
Proof.
  intros Hinv H. destruct (get_amount_out p tin ain) as [y|er] eqn:E.
  - rewrite (H y eq_refl) in E. eapply amount_out_zero; eauto.
  - eapply amount_out_err; eauto.
Qed.

End PairQ.

(** ================================================================== dex/farm *)
Module FarmQ.
Import MX.Model.Farm MX.Proofs.FarmInv MX.Proofs.FarmSolv MX.Proofs.FarmRps QFarm.

(** generate_aggregated_rewards never fails: its only division is guarded by supply != 0 *)
Definition settle_fn (f : farm) (blk : Z) : farm :=
  if blk <=? f_last f then f else
  let to_mint := if f_produce f then f_rate f * (blk - f_last f) else 0 in
  if to_mint =? 0 then upd_core f (f_supply f) (f_reserve f) (f_rps f) blk else
  let cut := boosted_cut f to_mint in
  let inc := if f_supply f =? 0 then 0 else (to_mint - cut) * f_dsc f / f_supply f in
  upd_money (upd_core f (f_supply f) (f_reserve f + to_mint) (f_rps f + inc) blk)
            (f_bal_rew f + to_mint) (f_bal_farming f) (f_pool f + cut) (f_gen f + to_mint) (f_paid f).

Lemma settle_total f blk : settle f blk = Ok (settle_fn f blk).
Proof.
  unfold settle, settle_fn. destruct (blk <=? f_last f); [reflexivity|]. cbv zeta.
  destruct ((if f_produce f then f_rate f * (blk - f_last f) else 0) =? 0); [reflexivity|].
  destruct (f_supply f =? 0) eqn:E; [reflexivity|]. unfold div_chk. rewrite E. reflexivity.
Qed.

(** the settlement reads and writes only reward-accounting fields: burning position tokens first
    (as claimRewards does with its payments) does not change what it computes *)
Lemma settle_fn_sbt f g blk : same_but_toks f g -> same_but_toks (settle_fn f blk) (settle_fn g blk).
Proof.
  intros (Cc & Cg & Cm). unfold core in Cc. inj Cc. unfold cfgt in Cg. inj Cg. unfold money in Cm. inj Cm.
  unfold settle_fn, boosted_cut.
  repeat match goal with E : ?x = ?y |- context[?x] => rewrite E end.
  destruct (blk <=? f_last f).
  { unfold same_but_toks, core, cfgt, money. repeat split; congruence. }
  cbv zeta.
  destruct ((if f_produce f then f_rate f * (blk - f_last f) else 0) =? 0);
    unfold same_but_toks, core, cfgt, money; cbn; repeat split; congruence.
Qed.

Lemma base_reward_sbt f g a x : same_but_toks f g -> base_reward g a x = base_reward f a x.
Proof.
  intros H. destruct (sbt_fields _ _ H) as (_ & _ & Er & Ed & _). unfold base_reward. rewrite Er, Ed. reflexivity.
Qed.

(** under the accounting invariant the view always answers *)
Lemma calc_rewards_total f blk x a b : MI f -> exists v, calc_rewards f blk x a b = Ok v.
Proof.
  intros HM. unfold calc_rewards, query_cache. rewrite settle_total. cbn [bind].
  pose proof (settle_total f blk) as Hs. apply settle_MI in Hs; auto. destruct Hs as (M' & _).
  pose proof (dsc_pos _ M') as Hd.
  unfold base_reward. destruct (a_rps a <? f_rps (settle_fn f blk)); [|cbn [bind]; eauto].
  unfold div_chk. destruct (f_dsc (settle_fn f blk) =? 0) eqn:E; [apply Z.eqb_eq in E; lia|]. cbn [bind]. eauto.
Qed.

(** calculateRewardsForGivenPosition(caller, amount, attributes of the nonce) queried at block [blk]
    = the reward claimRewards pays at block [blk] for that payment (base + the caller's boosted part) *)
Lemma farm_rewards_exec f blk ep c n0 x0 adds b f' o :
  FarmAcc f -> ep_claim f blk ep c (n0, x0) adds b = Ok (f', o) ->
  exists a nn amt v,
    find_attrs (f_attrs f) n0 = Some a /\ calc_rewards f blk x0 a b = Ok v /\ o = [nn; amt; v].
Proof.
  intros A H. pose proof A as [HM _ _].
  unfold ep_claim in H.
  destruct (active f); [|discriminate].
  apply bind_ok in H. destruct H as (f1 & H1 & H).
  apply bind_ok in H. destruct H as (f2 & H2 & H).
  apply bind_ok in H. destruct H as (a & Ha & H).
  apply bind_ok in H. destruct H as (part & Hpart & H).
  apply bind_ok in H. destruct H as (base & Hbase & H).
  apply bind_ok in H. destruct H as (f3 & H3 & H).
  apply bind_ok in H. destruct H as (f4 & H4 & H).
  apply bind_ok in H. destruct H as (m & Hm & H).
  destruct (mint_pos f4 m c) as [f5 n] eqn:Hmint. inversion H; subst; clear H.
  cbn [fst snd] in *.
  apply pay_all_MI in H1; auto. destruct H1 as (M1 & SB1 & _ & A1 & _).
  rewrite settle_total in H2. inversion H2; subst f2; clear H2.
  pose proof (settle_total f1 blk) as Hs1. apply settle_MI in Hs1; auto.
  destruct Hs1 as (_ & _ & _ & T2 & _). destruct (toks_fields _ _ T2) as (_ & At2 & _).
  apply get_attrs_some in Ha. rewrite At2, A1 in Ha.
  apply into_part_amt in Hpart. destruct Hpart as (_ & Pr & _).
  exists a, n, (a_amt m), (base + b).
  split; [exact Ha|]. split; [|reflexivity].
  unfold calc_rewards, query_cache. rewrite settle_total. cbn [bind].
  pose proof (settle_fn_sbt f f1 blk SB1) as SB2.
  rewrite <- (base_reward_sbt _ _ a x0 SB2).
  assert (Hb : base_reward (settle_fn f1 blk) a x0 = Ok base).
  { unfold base_reward in *. rewrite <- Pr. exact Hbase. }
  rewrite Hb. reflexivity.
Qed.

(** the cache the query settles and drops is, field for field on the reward accounting, the cache
    claimRewards settles and commits in the same block *)
Lemma farm_query_settlement f blk ep c n0 x0 adds b f' o :
  FarmAcc f -> ep_claim f blk ep c (n0, x0) adds b = Ok (f', o) ->
  exists f1 f2 fv,
    pay_all f c ((n0, x0) :: adds) = Ok f1 /\ settle f1 blk = Ok f2 /\
    query_cache f blk = Ok fv /\ same_but_toks fv f2.
Proof.
  intros A H. pose proof A as [HM _ _].
  unfold ep_claim in H. destruct (active f); [|discriminate].
  apply bind_ok in H. destruct H as (f1 & H1 & H).
  apply bind_ok in H. destruct H as (f2 & H2 & _).
  exists f1, f2, (settle_fn f blk). split; [exact H1|]. split; [exact H2|].
  split; [apply settle_total|].
  rewrite settle_total in H2. inversion H2; subst f2.
  apply pay_all_MI in H1; auto. destruct H1 as (_ & SB1 & _).
  apply settle_fn_sbt. exact SB1.
Qed.

End FarmQ.

(** ================================================================== farm-staking *)
Module StkQ.
Import MX.Model.Staking QStk.

(** what claimRewards pays, in terms of the query's own cache and helpers *)
Lemma claim_paid s blk ep c x arps bo s' o :
  claim s blk ep c x arps bo = Ok (s', o) ->
  exists s1 base nn, query_cache s blk = Ok s1 /\ base_rewards s1 x arps = Ok base /\
                     o = [nn; x; base + bo c] /\ 0 <= bo c.
Proof.
  unfold claim, query_cache. intros H.
  apply bind_ok in H. destruct H as (s1 & H1 & H).
  apply bind_ok in H. destruct H as (base & Hb & H).
  cbn [sstep] in H.
  destruct (active s); [|discriminate].
  destruct ((0 <? x) && (x <=? s_supply s)); [|discriminate].
  rewrite H1 in H. cbn [bind] in H.
  apply bind_ok in H. destruct H as (s2 & H2 & H). inversion H; subst; clear H.
  unfold pay in H2. destruct ((0 <=? bo c) && (bo c <=? base + bo c)) eqn:E; [|discriminate].
  apply andb_prop in E. destruct E as [E _]. apply Z.leb_le in E.
  exists s1, base, (s_next s2). auto.
Qed.

(** calculateRewardsForGivenPosition(x, attributes, Some claimer) - whatever owner the attributes record -
    and calculateRewardsForGivenPosition(x, attributes, None) when the claimer IS the recorded original
    owner are exactly the reward claimRewards pays to that claimer in the same state and block *)
Lemma staking_rewards_exec s blk ep c x arps bo s' o :
  claim s blk ep c x arps bo = Ok (s', o) ->
  exists nn v,
    o = [nn; x; v] /\
    (forall owner, calc_rewards s blk x arps owner (Some c) bo = Ok v) /\
    calc_rewards s blk x arps c None bo = Ok v.
Proof.
  intros H. apply claim_paid in H. destruct H as (s1 & base & nn & H1 & Hb & -> & _).
  exists nn, (base + bo c). split; [reflexivity|].
  unfold calc_rewards. rewrite H1. cbn [bind]. rewrite Hb. cbn [bind view_user]. split; [intros _|]; reflexivity.
Qed.

(** the default (no user argument) on a position whose recorded original owner is NOT the claimer quotes
    the OWNER's boosted part: the quote then differs from the payment by exactly
    boosted(claimer) - boosted(owner), and by nothing else *)
Lemma staking_default_user s blk ep c x arps owner bo s' nn amt paid v :
  claim s blk ep c x arps bo = Ok (s', [nn; amt; paid]) ->
  calc_rewards s blk x arps owner None bo = Ok v ->
  paid - v = bo c - bo owner /\ (owner = c -> v = paid) /\ (v = paid <-> bo owner = bo c).
Proof.
  intros H Hv. apply claim_paid in H. destruct H as (s1 & base & n2 & H1 & Hb & Ho & _).
  inversion Ho; subst; clear Ho.
  unfold calc_rewards in Hv. rewrite H1 in Hv. cbn [bind] in Hv. rewrite Hb in Hv. cbn [bind view_user] in Hv.
  inversion Hv; subst v; clear Hv.
  split; [lia|]. split; [intros ->; reflexivity | lia].
Qed.

(** the view fails only where the claim fails too *)
Lemma staking_rewards_err s blk ep c x arps owner ou bo er :
  calc_rewards s blk x arps owner ou bo = Err er -> is_ok (claim s blk ep c x arps bo) = false.
Proof.
  intros Hv. destruct (claim s blk ep c x arps bo) as [[s' o]|] eqn:E; [|reflexivity].
  apply claim_paid in E. destruct E as (s1 & base & nn & H1 & Hb & _).
  unfold calc_rewards in Hv. rewrite H1 in Hv. cbn [bind] in Hv. rewrite Hb in Hv. discriminate.
Qed.

(** claimRewards continues from exactly the cache the query computed and dropped *)
Lemma staking_query_settlement s blk ep c x arps bo s' o :
  claim s blk ep c x arps bo = Ok (s', o) ->
  exists s1 s2 r, query_cache s blk = Ok s1 /\ pay s1 r (bo c) = Ok s2 /\ s' = bump s2 /\ o = [s_next s2; x; r].
Proof.
  unfold claim, query_cache. intros H.
  apply bind_ok in H. destruct H as (s1 & H1 & H).
  apply bind_ok in H. destruct H as (base & Hb & H).
  cbn [sstep] in H.
  destruct (active s); [|discriminate].
  destruct ((0 <? x) && (x <=? s_supply s)); [|discriminate].
  rewrite H1 in H. cbn [bind] in H.
  apply bind_ok in H. destruct H as (s2 & H2 & H). inversion H; subst; clear H.
  exists s1, s2, (base + bo c). auto.
Qed.

(** The history of the former finding F3 (executed on the real farm-staking contract by
    tools/props/c20.py, corpus entry "f3-pending-boosted": two stakers of 10^8, boosted yields 25 %,
    energies 9800/100 and 4900/350, both claim at block 20 in week 1).  At block 30 in week 2 user 2
    has 1041 boosted rewards pending; since /repo e810a71 the real view answers 4791 for user 2's
    position and claimRewards pays 4791 (before: 3750 versus 4791). *)
Definition f3_state : stk :=
  srun (init_stk 1000000000000 1000000 10)
       [SSetRate 10 OWNER 1000; SSetState OWNER 1; STopUp OWNER 1000000000; SStart 10 OWNER;
        SSetPct 10 OWNER 2500; SSetFactors OWNER;
        SStake 10 5 1 100000000 0 0; SStake 10 5 2 100000000 0 0;
        SClaim 20 5 1 100000000 3750 0; SClaim 20 5 2 100000000 3750 0].

End StkQ.

(** ================================================================== energy-factory *)
Module PenQ.
Import MX.Model.Penalty MX.Proofs.PenaltyProofs QPen.

(** getPenaltyAmount(amount, remaining epochs, 0) versus unlockEarly: the penalty actually charged
    (locked amount parked minus base asset minted for the user) is the quote *)
Lemma penalty_unlock_early s c e amt s' o :
  ep_unlock_early s c e amt = Ok (s', o) ->
  exists pen,
    get_penalty_amount s amt (prev_epochs s e) 0 = Ok pen /\ pen < amt /\
    l_q s' = l_q s ++ [mkE c (l_now s + c_unbond (l_cfg s)) e amt (amt - pen)] /\
    g_bmint (l_g s') = g_bmint (l_g s) + (amt - pen) /\
    bal (l_led s') UNSTAKE 0 = bal (l_led s) UNSTAKE 0 + (amt - pen).
Proof.
  intros H. apply ep_unlock_early_nf in H.
  destruct H as (Hc & _ & He & _ & _ & _ & _ & _ & pen & Hpen & Hlt & ->).
  exists pen. unfold get_penalty_amount, prev_epochs. split; [exact Hpen|]. split; [exact Hlt|].
  red_state. split; [reflexivity|]. split; [reflexivity|].
  rewrite !bal_cons. rewrite !Z.eqb_refl. cbn [andb].
  destruct (Z.eqb_spec e 0); [lia|]. destruct (Z.eqb_spec c UNSTAKE); [contradiction|]. cbn [andb]. lia.
Qed.

(** getPenaltyAmount(amount, remaining epochs, remaining epochs of the token received) versus
    reduceLockPeriod: outputs = [new unlock epoch; amount - quote] *)
Lemma penalty_reduce b0 s c e amt le s' o :
  Inv b0 s -> ep_reduce s c e amt le = Ok (s', o) ->
  exists pen,
    get_penalty_amount s amt (prev_epochs s e) (new_epochs_reduce s le) = Ok pen /\ 0 <= pen < amt /\
    o = [l_now s + new_epochs_reduce s le; amt - pen] /\
    0 < new_epochs_reduce s le < prev_epochs s e.
Proof.
  intros HI H. pose proof HI as [Io Ic _ _ _ _ _ _ _ _ _ _].
  apply ep_reduce_nf in H; try tauto. cbv zeta in H.
  destruct H as (_ & _ & _ & _ & _ & _ & _ & _ & Hnu & Hnue & pen & b & Hpen & Hpr & _ & _ & -> & _).
  exists pen. unfold get_penalty_amount, prev_epochs, new_epochs_reduce.
  split; [exact Hpen|]. split; [exact Hpr|]. split; [f_equal; lia | lia].
Qed.

Lemma penalty_err_unlock_early s c e amt er :
  get_penalty_amount s amt (prev_epochs s e) 0 = Err er -> is_ok (ep_unlock_early s c e amt) = false.
Proof.
  intros Hv. destruct (ep_unlock_early s c e amt) as [[s' o]|] eqn:E; [|reflexivity].
  apply penalty_unlock_early in E. destruct E as (pen & Hp & _). congruence.
Qed.

Lemma penalty_err_reduce b0 s c e amt le er :
  Inv b0 s -> get_penalty_amount s amt (prev_epochs s e) (new_epochs_reduce s le) = Err er ->
  is_ok (ep_reduce s c e amt le) = false.
Proof.
  intros HI Hv. destruct (ep_reduce s c e amt le) as [[s' o]|] eqn:E; [|reflexivity].
  apply (penalty_reduce b0) in E; auto. destruct E as (pen & Hp & _). congruence.
Qed.

(** conversely: a quote below the amount IS what unlockEarly charges whenever the caller holds the
    token, it is still locked and the factory is not paused *)
Lemma penalty_unlock_early_live b0 s c e amt pen :
  Inv b0 s -> c <> UNSTAKE -> paused s = false -> 0 < e -> l_now s < e -> 0 < amt <= bal (l_led s) c e ->
  get_penalty_amount s amt (prev_epochs s e) 0 = Ok pen -> pen < amt ->
  exists s', ep_unlock_early s c e amt = Ok (s', []) /\
    l_q s' = l_q s ++ [mkE c (l_now s + c_unbond (l_cfg s)) e amt (amt - pen)].
Proof.
  intros HI Hc Hp He Hn Ha Hv Hlt. pose proof HI as [Io Ic Inn Ieb Iel Iet Ien Itl Isu Iba Ilo Ipo].
  unfold get_penalty_amount, prev_epochs in Hv.
  assert (Htl : amt <= tl_of s c).
  { rewrite (Itl c Hc). unfold held_locked.
    assert (Hle : bal (l_led s) c e <= tot (fun h' t => (h' =? c) && (0 <? t)) (l_led s)).
    { unfold bal. apply tot_le; [exact Inn|]. intros h t E. apply andb_prop in E. destruct E as [E1 E2].
      apply Z.eqb_eq in E2. subst t. rewrite E1. simpl. apply Z.ltb_lt. lia. }
    lia. }
  unfold ep_unlock_early, is_user. destruct (Z.eqb_spec c UNSTAKE); [contradiction|]. rewrite Hp. cbn [negb].
  assert (E1 : (0 <? e) && (0 <? amt) = true) by (apply andb_true_intro; split; apply Z.ltb_lt; lia). rewrite E1.
  unfold s_debit, debit.
  assert (E2 : (amt <=? bal (l_led s) c e) = true) by (apply Z.leb_le; lia). rewrite E2. cbn [bind].
  unfold reduce_common. red_state. unfold paused, opts. red_state. fold (paused s). rewrite Hp. cbn [negb].
  assert (E3 : (l_now s <? e) = true) by (apply Z.ltb_lt; lia). rewrite E3. cbv zeta.
  assert (E4 : (0 <? e - l_now s) = true) by (apply Z.ltb_lt; lia). rewrite E4.
  unfold tl_sub, sub_chk, tl_of in *. red_state.
  assert (E5 : (bal (l_tl s) c 0 <? amt) = false) by (apply Z.ltb_ge; lia). rewrite E5. cbn [bind].
  fold (opts s). rewrite Hv. cbn [bind].
  assert (E6 : (0 <? amt) = true) by (apply Z.ltb_lt; lia). rewrite E6.
  assert (E7 : (pen <? amt) = true) by (apply Z.ltb_lt; lia). rewrite E7.
  eexists. split; [reflexivity|]. red_state. reflexivity.
Qed.

Lemma penalty_quote :
  (forall s c e amt s' o, ep_unlock_early s c e amt = Ok (s', o) ->
     exists pen,
       get_penalty_amount s amt (prev_epochs s e) 0 = Ok pen /\ pen < amt /\
       l_q s' = l_q s ++ [mkE c (l_now s + c_unbond (l_cfg s)) e amt (amt - pen)] /\
       g_bmint (l_g s') = g_bmint (l_g s) + (amt - pen) /\
       bal (l_led s') UNSTAKE 0 = bal (l_led s) UNSTAKE 0 + (amt - pen)) /\
  (forall b0 s c e amt le s' o, Inv b0 s -> ep_reduce s c e amt le = Ok (s', o) ->
     exists pen,
       get_penalty_amount s amt (prev_epochs s e) (new_epochs_reduce s le) = Ok pen /\ 0 <= pen < amt /\
       o = [l_now s + new_epochs_reduce s le; amt - pen] /\
       0 < new_epochs_reduce s le < prev_epochs s e).
Proof. split; [exact penalty_unlock_early | exact penalty_reduce]. Qed.

Lemma penalty_errors :
  (forall s c e amt er, get_penalty_amount s amt (prev_epochs s e) 0 = Err er ->
     is_ok (ep_unlock_early s c e amt) = false) /\
  (forall b0 s c e amt le er, Inv b0 s ->
     get_penalty_amount s amt (prev_epochs s e) (new_epochs_reduce s le) = Err er ->
     is_ok (ep_reduce s c e amt le) = false).
Proof. split; [exact penalty_err_unlock_early | exact penalty_err_reduce]. Qed.

End PenQ.

(** ================================================================== price-discovery *)
Module PdQ.
Import MX.Model.PriceDiscovery MX.Proofs.PriceDiscoveryProofs QPd.

Lemma phase_same_block s s' : p_cfg s' = p_cfg s -> p_block s' = p_block s -> current_phase s' = current_phase s.
Proof. intros Hc Hb. unfold current_phase. rewrite Hc, Hb. reflexivity. Qed.

(** deposit: the gate is the phase getCurrentPhase reports in that block; the price checked against
    the floor is what getCurrentPrice reports right AFTER the deposit (same block) *)
Lemma deposit_quote s c tok amt s' o :
  ep_deposit s c tok amt = Ok (s', o) ->
  exists ph price,
    current_phase s = Ok ph /\ deposit_allowed ph = true /\ current_phase s' = Ok ph /\
    current_price s' = Ok price /\
    (tok = TOK_L -> p_ab s = 0 \/ c_minp (p_cfg s) <= price).
Proof.
  intros H. apply ep_deposit_spec in H.
  destruct H as (ph & l & price & Hph & Ha & _ & Hl & _ & D & Hp & Hf).
  exists ph, price. split; [exact Hph|]. split; [exact Ha|].
  split; [rewrite (phase_same_block s s' (d_cfg _ _ _ _ _ _ _ _ _ D) (d_block _ _ _ _ _ _ _ _ _ D)); exact Hph|].
  split; [exact Hp|]. intros ->. apply Hf.
  apply side_of_token_spec in Hl. destruct Hl as [[-> _]|[_ Hc]]; [reflexivity | discriminate Hc].
Qed.

(** withdraw: gate and penalty use exactly the phase (and percentage) the view reports; the price
    checked is the view's value on the post-withdrawal balances *)
Lemma withdraw_quote s c n amt s' o :
  ep_withdraw s c n amt = Ok (s', o) ->
  exists ph price,
    current_phase s = Ok ph /\ withdraw_allowed ph = true /\ current_phase s' = Ok ph /\
    o = [amt - amt * penalty_of ph / MAXP] /\
    current_price s' = Ok price /\ c_minp (p_cfg s) <= price.
Proof.
  intros H. apply ep_withdraw_spec in H.
  destruct H as (ph & l & w & price & Hph & Ha & _ & _ & Ho & Hw & _ & _ & _ & _ & _ & D & Hp & Hf).
  exists ph, price. split; [exact Hph|]. split; [exact Ha|].
  split; [rewrite (phase_same_block s s' (d_cfg _ _ _ _ _ _ _ _ _ D) (d_block _ _ _ _ _ _ _ _ _ D)); exact Hph|].
  split; [subst w; exact Ho|]. split; [exact Hp | exact Hf].
Qed.

Lemma redeem_quote s c n amt s' o :
  ep_redeem s c n amt = Ok (s', o) -> current_phase s = Ok PhRedeem.
Proof.
  unfold ep_redeem, current_phase. intros H. apply bind_ok in H. destruct H as (ph & Hph & H).
  destruct ph; cbn [redeem_allowed] in H; try discriminate. exact Hph.
Qed.

(** the gates in the other direction: a phase the view reports as closed rejects the operation *)
Lemma gates_follow_view s ph : current_phase s = Ok ph ->
  (deposit_allowed ph = false -> forall c tok amt, is_ok (ep_deposit s c tok amt) = false) /\
  (withdraw_allowed ph = false -> forall c n amt, is_ok (ep_withdraw s c n amt) = false) /\
  (redeem_allowed ph = false -> forall c n amt, is_ok (ep_redeem s c n amt) = false).
Proof.
  unfold current_phase. intros Hph. split; [|split]; intros Hn c x amt.
  - unfold ep_deposit. rewrite Hph. cbn [bind]. rewrite Hn. reflexivity.
  - unfold ep_withdraw. rewrite Hph. cbn [bind]. rewrite Hn. reflexivity.
  - unfold ep_redeem. rewrite Hph. cbn [bind]. rewrite Hn. reflexivity.
Qed.

(** a launched-token deposit / any withdrawal whose post-operation balances the view would price
    below the minimum is rejected *)
Lemma floor_follows_view s c amt price :
  0 < p_ab s -> current_price (set_tr s true (p_lb s + amt)) = Ok price -> price < c_minp (p_cfg s) ->
  is_ok (ep_deposit s c TOK_L amt) = false.
Proof.
  intros Hab Hp Hlt. apply deposit_floor_rejects; [exact Hab|].
  unfold current_price in Hp. apply calculate_price_spec in Hp. destruct Hp as [_ Hp]. cbn in Hp. lia.
Qed.

Lemma phase_price_quote :
  (forall s c tok amt s' o, ep_deposit s c tok amt = Ok (s', o) ->
     exists ph price,
       current_phase s = Ok ph /\ deposit_allowed ph = true /\ current_phase s' = Ok ph /\
       current_price s' = Ok price /\
       (tok = TOK_L -> p_ab s = 0 \/ c_minp (p_cfg s) <= price)) /\
  (forall s c n amt s' o, ep_withdraw s c n amt = Ok (s', o) ->
     exists ph price,
       current_phase s = Ok ph /\ withdraw_allowed ph = true /\ current_phase s' = Ok ph /\
       o = [amt - amt * penalty_of ph / MAXP] /\
       current_price s' = Ok price /\ c_minp (p_cfg s) <= price) /\
  (forall s c n amt s' o, ep_redeem s c n amt = Ok (s', o) -> current_phase s = Ok PhRedeem).
Proof. split; [exact deposit_quote | split; [exact withdraw_quote | exact redeem_quote]]. Qed.

End PdQ.

(** ================================================================== quoting never changes state
    In the model a view returns a value and no state.  The two reward views settle a storage cache
    before they compute; that cache is dropped with the query, and it is the very cache the next
    claimRewards in the same block settles and commits. *)
Lemma views_pure :
  (forall f blk ep c n0 x0 adds b f' o,
     FarmInv.FarmAcc f -> Farm.ep_claim f blk ep c (n0, x0) adds b = Ok (f', o) ->
     exists f1 f2 fv,
       Farm.pay_all f c ((n0, x0) :: adds) = Ok f1 /\ Farm.settle f1 blk = Ok f2 /\
       QFarm.query_cache f blk = Ok fv /\ FarmInv.same_but_toks fv f2) /\
  (forall s blk ep c x arps bo s' o,
     QStk.claim s blk ep c x arps bo = Ok (s', o) ->
     exists s1 s2 r, QStk.query_cache s blk = Ok s1 /\ Staking.pay s1 r (bo c) = Ok s2 /\
                     s' = Staking.bump s2 /\ o = [Staking.s_next s2; x; r]).
Proof. split; [exact FarmQ.farm_query_settlement | exact StkQ.staking_query_settlement]. Qed.
