(** C15, closing the assume / guarantee gap for the staking farm: the interface laws L4 and L5 of
    Model/MetaStaking.v, which Props/C15.v only assumes (and the correspondence run checks on every
    real answer), are THEOREMS of the position-level staking-farm model Model/StakingPos.v.

    Shape of every theorem here: for every state [sp] of the callee model satisfying its invariant
    ([Inv], Proofs/StakingPosProofs.v - the invariant of every reachable state, [reach_inv]) and every
    call the metastaking proxy makes ([CStkClaim n a v] = claimRewardsWithNewValue(v) with the farm
    token (n, a); [CStkUnstake stk n a] = unstakeFarmThroughProxy with [stk] staking tokens and the
    farm token (n, a)), IF the callee step succeeds THEN the answer record the proxy decodes from the
    results ([answer_of_...], an explicit function of the callee's outputs) satisfies the law predicate
    of Model/MetaStaking.v ([law_L4], [law_L5]) - plus what the proxy model builds in as L0 (the
    reported token exists with that amount and sits in the caller's balance), the sign conditions
    [env_nonneg] asks of the answer, and the change of the farm-token supply that
    [MetaStaking.registered] predicts.

    The proxy is the account [PROXY] of Model/Staking.v (the whitelisted farm-staking-proxy); both
    endpoints reject every other caller ([wl_claim], [wl_unstake]), so the caller is not a hypothesis
    but a conclusion.  The original caller [u], the block, the epoch and the boosted payout [b] are
    universally quantified. *)
From MX Require Import Base.Prelude Gen.Params.
From MX Require Import Model.Staking Model.StakingPos Proofs.StakingProofs Proofs.StakingPosProofs.
From MX Require Model.MetaStaking Proofs.MetaStakingProofs.

Module MS := MX.Model.MetaStaking.

(** ------------------------------------------------------------------ the calls and the answers *)
(** the callee operation behind a call of the proxy (block, epoch, original caller and boosted payout
    are not determined by the call: they are parameters) *)
Definition pop_of_call (blk ep u b : Z) (c : MS.call) : option pop :=
  match c with
  | MS.CStkClaim n a v => Some (PClaimNewValue blk ep PROXY u (n, a) v b)
  | MS.CStkUnstake stk n a => Some (PUnstakeProxy blk ep PROXY u (n, a) stk b)
  | MS.CStkEnter v toks => Some (PStakeProxy blk ep PROXY u v toks b)
  | _ => None
  end.

(** claimRewardsWithNewValue returns (new farm token, rewards): the proxy reads the farm token's nonce
    and amount into [ec_sfn], [ec_sfa] and the reward amount into [ec_rs]; the other fields of the
    record are answers of other callees ([rest]) *)
Definition answer_of_claimRewardsWithNewValue (rest : MS.env_claim) (o : souts) : option MS.env_claim :=
  match o with
  | [n; amt; r] =>
      Some (MS.mkEC (MS.ec_fail rest) (MS.ec_sp rest) (MS.ec_lpn rest) (MS.ec_lpa rest) (MS.ec_rl rest) n amt r)
  | _ => None
  end.

(** unstakeFarmThroughProxy returns (unbond token, rewards): [eu_ubn], [eu_uba], [eu_rs] *)
Definition answer_of_unstakeFarmThroughProxy (rest : MS.env_unstake) (o : souts) : option MS.env_unstake :=
  match o with
  | [n; amt; r] => Some (MS.mkEU (MS.eu_fail rest) (MS.eu_lp rest) (MS.eu_rl rest) (MS.eu_rm rest) n amt r)
  | _ => None
  end.

(** stakeFarmThroughProxy returns (new farm token, boosted rewards): [es_sfn], [es_sfa], [es_bs] *)
Definition answer_of_stakeFarmThroughProxy (rest : MS.env_stake) (o : souts) : option MS.env_stake :=
  match o with
  | [n; amt; r] =>
      Some (MS.mkES (MS.es_fail rest) (MS.es_sp rest) n amt r (MS.es_lpn rest) (MS.es_lpa rest) (MS.es_bl rest))
  | _ => None
  end.

(** ------------------------------------------------------------------ small facts *)
Lemma base_formula_nonneg R d e x : 0 < d -> 0 <= x -> 0 <= base_formula R d e x.
Proof.
  intros Hd Hx. unfold base_formula. destruct (e <? R) eqn:E; [|lia].
  apply Z.ltb_lt in E. apply div_nonneg; [nia | assumption].
Qed.

Lemma settle_pay_supply s blk s2 r b s3 : StkInv s -> settle s blk = Ok s2 -> pay s2 r b = Ok s3 ->
  s_supply s3 = s_supply s /\ s_virt s3 = s_virt s /\ s_dsc s2 = s_dsc s /\ 0 <= b <= r.
Proof.
  intros I H2 H3. destruct (settle_full _ _ _ H2 I) as (I2 & F2 & _). sfr F2.
  destruct (pay_full _ _ _ _ H3 I2) as (_ & F3 & Hb & _). pfr F3. repeat split; lia.
Qed.

(** ------------------------------------------------------------------ L4 *)
(** claimRewardsWithNewValue(v) on the farm token (n, a), whoever calls it. *)
Theorem L4_staking sp blk ep c u n a v b sp' o rest :
  Inv sp ->
  pstep sp (PClaimNewValue blk ep c u (n, a) v b) = Ok (sp', o) ->
  exists e,
    answer_of_claimRewardsWithNewValue rest o = Some e /\
    MS.law_L4 v e = true /\
    (* only the staking farm's fields of the record are written *)
    MS.ec_fail e = MS.ec_fail rest /\ MS.ec_sp e = MS.ec_sp rest /\ MS.ec_lpn e = MS.ec_lpn rest /\
    MS.ec_lpa e = MS.ec_lpa rest /\ MS.ec_rl e = MS.ec_rl rest /\
    (* the caller is the whitelisted proxy *)
    c = PROXY /\
    (* L0: the reported farm token exists, is new, has the reported amount, and is in the caller's balance *)
    MS.ec_sfn e = s_next (p_s sp) /\ find_sattrs (p_attrs sp) (MS.ec_sfn e) = None /\
    (exists m, find_sattrs (p_attrs sp') (MS.ec_sfn e) = Some m /\ sa_amt m = MS.ec_sfa e /\ sa_owner m = u) /\
    held sp' (MS.ec_sfn e) c = MS.ec_sfa e /\
    (* the farm token sent was in the caller's balance and is gone from it *)
    0 < a <= held sp n c /\ n < MS.ec_sfn e /\ held sp' n c = held sp n c - a /\
    (* [env_nonneg] *)
    0 <= MS.ec_sfa e /\ 0 <= MS.ec_rs e /\
    (* the staking value registered moves as [MetaStaking.registered] says *)
    s_supply (p_s sp') = s_supply (p_s sp) + MS.registered [MS.CStkClaim n a v] /\
    s_virt (p_s sp') = s_virt (p_s sp) + MS.registered [MS.CStkClaim n a v].
Proof.
  intros I H. cbn [pstep] in H.
  pose proof (wl_claim _ _ _ _ _ _ _ _ _ H) as Hc. subst c.
  assert (Hv : 0 <= v).
  { unfold ep_claim in H. destruct (whitelisted PROXY); [|discriminate].
    destruct (0 <=? v) eqn:E; [apply Z.leb_le in E; exact E | discriminate]. }
  destruct (ep_claim_shape _ _ _ _ _ _ _ _ _ _ _ H I proxy_valid)
    as (s2 & s3 & at0 & base & Hs2 & Hat & Hx & Hbase & Hs3 & Hsh).
  cbv zeta in Hsh. destruct Hsh as (Ho & Hattrs & Hnew & Hheld & Hps & _).
  pose proof (i_stk _ I) as IS.
  destruct (settle_pay_supply _ _ _ _ _ _ IS Hs2 Hs3) as (Hsup & Hvirt & _ & Hb).
  assert (Hd : 0 < s_dsc (p_s sp)) by (destruct IS as [_ _ _ _ _ _ _ (w & _)]; exact w).
  assert (Hbase0 : 0 <= base) by (subst base; apply base_formula_nonneg; lia).
  subst o. cbn [answer_of_claimRewardsWithNewValue]. eexists. split; [reflexivity|].
  cbn [MS.ec_fail MS.ec_sp MS.ec_lpn MS.ec_lpa MS.ec_rl MS.ec_sfn MS.ec_sfa MS.ec_rs MS.law_L4 MS.registered].
  split; [apply Z.eqb_refl|].
  do 5 (split; [reflexivity|]). split; [reflexivity|]. split; [reflexivity|].
  split.
  { destruct (find_sattrs (p_attrs sp) (s_next (p_s sp))) as [a'|] eqn:E; [|reflexivity].
    exfalso. assert (Hin : exists a'', In (s_next (p_s sp), a'') (p_attrs sp)).
    { clear - E. induction (p_attrs sp) as [|[k x] t IH]; cbn in E; [discriminate|].
      destruct (k =? s_next (p_s sp)) eqn:Ek.
      - apply Z.eqb_eq in Ek. subst k. exists x. left. reflexivity.
      - destruct (IH E) as (a'' & Hin). exists a''. right. exact Hin. }
    destruct Hin as (a'' & Hin). pose proof (ao_fresh _ (i_attr _ I) _ _ Hin). lia. }
  split; [eexists; split; [exact Hnew | split; reflexivity]|].
  split; [unfold held; rewrite Hheld; apply aget_aset_same|].
  split; [exact Hx|].
  assert (Hlt : n < s_next (p_s sp)).
  { destruct (Z_lt_le_dec n (s_next (p_s sp))) as [L|L]; [exact L|]. exfalso.
    pose proof (fresh_zero sp n PROXY (i_led _ I) L proxy_valid) as Hz. unfold held in Hx. lia. }
  split; [exact Hlt|].
  split.
  { unfold held at 1. rewrite Hheld. rewrite aget_aset_other.
    - apply aget_aset_same.
    - unfold hkey. lia. }
  split; [exact Hv|]. split; [lia|].
  rewrite Hps. cbn. split; lia.
Qed.

(** ------------------------------------------------------------------ L5 *)
(** unstakeFarmThroughProxy with [stk] staking tokens and the farm token (n, a), whoever calls it. *)
Theorem L5_staking sp blk ep c u n a stk b sp' o rest :
  Inv sp ->
  pstep sp (PUnstakeProxy blk ep c u (n, a) stk b) = Ok (sp', o) ->
  exists e,
    answer_of_unstakeFarmThroughProxy rest o = Some e /\
    MS.law_L5 stk e = true /\
    MS.eu_fail e = MS.eu_fail rest /\ MS.eu_lp e = MS.eu_lp rest /\ MS.eu_rl e = MS.eu_rl rest /\
    MS.eu_rm e = MS.eu_rm rest /\
    c = PROXY /\
    (* L0: the unbond token is new, unlocks after the configured unbonding period, and the reported
       amount is credited to the caller *)
    MS.eu_ubn e = s_next (p_s sp) /\
    find_z (s_ub (p_s sp')) (MS.eu_ubn e) = Some (ep + s_minub (p_s sp)) /\
    ubheld sp' (MS.eu_ubn e) c = ubheld sp (MS.eu_ubn e) c + MS.eu_uba e /\
    (* the staking tokens sent along are in the farm: its balance grew by them minus the rewards paid *)
    s_bal (p_s sp') = s_bal (p_s sp) + stk - MS.eu_rs e /\
    (* the farm token sent was in the caller's balance and is gone from it *)
    0 < a <= held sp n c /\ held sp' n c = held sp n c - a /\
    (* [env_nonneg] *)
    0 < MS.eu_uba e /\ 0 <= MS.eu_rs e /\
    (* the staking value registered moves as [MetaStaking.registered] says *)
    s_supply (p_s sp') = s_supply (p_s sp) + MS.registered [MS.CStkUnstake stk n a] /\
    s_virt (p_s sp') = s_virt (p_s sp) + MS.registered [MS.CStkUnstake stk n a].
Proof.
  intros I H. cbn [pstep] in H.
  pose proof (wl_unstake _ _ _ _ _ _ _ _ _ H) as Hc. subst c.
  assert (Ht : 0 < stk).
  { unfold ep_unstake in H. destruct (whitelisted PROXY); [|discriminate].
    destruct (0 <? stk) eqn:E; [apply Z.ltb_lt in E; exact E | discriminate]. }
  pose proof H as H0.
  destruct (ep_unstake_shape _ _ _ _ _ _ _ _ _ _ _ H I proxy_valid)
    as (s2 & s3 & at0 & base & Hs2 & Hat & Hx & Hbase & Hs3 & Hsh).
  cbv zeta in Hsh. destruct Hsh as (Ho & Hattrs & Hheld & Hsup & Hvirt & Hub & Hubh & _).
  pose proof (i_stk _ I) as IS.
  destruct (settle_pay_supply _ _ _ _ _ _ IS Hs2 Hs3) as (_ & _ & _ & Hb).
  assert (Hd : 0 < s_dsc (p_s sp)) by (destruct IS as [_ _ _ _ _ _ _ (w & _)]; exact w).
  assert (Hbase0 : 0 <= base) by (subst base; apply base_formula_nonneg; lia).
  (* the balance: recompute from the definition *)
  assert (Hbal : s_bal (p_s sp') = s_bal (p_s sp) + stk - (base + b)).
  { clear Hheld Hsup Hvirt Hub Hubh Hattrs.
    unfold ep_unstake in H0. destruct (whitelisted PROXY); [|discriminate].
    destruct (0 <? stk); [|discriminate].
    apply bind_ok in H0. destruct H0 as (sp1 & H1 & H0).
    destruct (active (p_s sp1)); [|discriminate].
    apply bind_ok in H0. destruct H0 as (sp2 & H2 & H0).
    apply bind_ok in H0. destruct H0 as (a0 & Ha0 & H0).
    apply bind_ok in H0. destruct H0 as (part & Hpart & H0).
    apply bind_ok in H0. destruct H0 as (base' & Hbase' & H0).
    apply bind_ok in H0. destruct H0 as (sp3 & H3 & H0).
    apply bind_ok in H0. destruct H0 as (sp4 & H4 & H0). cbv zeta in H0.
    apply bind_ok in H0. destruct H0 as (sup & _ & H0).
    apply pay_all_single in H1. destruct H1 as (_ & ->).
    unfold psettle in H2. apply bind_ok in H2. destruct H2 as (s2' & Hs2' & H2). inversion H2; subst sp2; clear H2.
    cbn [p_s with_held] in Hs2'. rewrite Hs2 in Hs2'. inversion Hs2'; subst s2'; clear Hs2'.
    cbn [fst snd] in *.
    apply get_attrs_some in Ha0. cbn in Ha0. rewrite Hat in Ha0. inversion Ha0; subst a0; clear Ha0.
    apply sinto_part_amt in Hpart. destruct Hpart as (Pa & Pr & Po).
    apply base_reward_formula in Hbase'. cbn [p_s with_s] in Hbase'. rewrite Pr in Hbase'.
    destruct (settle_full _ _ _ Hs2 IS) as (IS2 & F2 & _). sfr F2.
    assert (Eb : base_formula (s_rps s2) (s_dsc s2) (sa_rps at0) a = base) by (rewrite Hbase; f_equal; lia).
    rewrite Eb in Hbase'. clear Eb. subst base'.
    unfold ppay in H3. apply bind_ok in H3. destruct H3 as (s3' & Hs3' & H3). inversion H3; subst sp3; clear H3.
    cbn [p_s with_s] in Hs3'. rewrite Hs3 in Hs3'. inversion Hs3'; subst s3'; clear Hs3'.
    destruct (pay_full _ _ _ _ Hs3 IS2) as (_ & _ & _ & _ & _ & _ & _ & _ & Hb3).
    pose proof (decrease_user_but _ _ _ H4) as B4. apply but_fields in B4. cbn in B4. destruct B4 as (S4 & _).
    unfold mint_unbond in H0. inversion H0; subst sp' o; clear H0. cbn. rewrite S4. cbn. lia. }
  subst o. cbn [answer_of_unstakeFarmThroughProxy]. eexists. split; [reflexivity|].
  cbn [MS.eu_fail MS.eu_lp MS.eu_rl MS.eu_rm MS.eu_ubn MS.eu_uba MS.eu_rs MS.law_L5 MS.registered].
  split; [apply Z.eqb_refl|].
  do 4 (split; [reflexivity|]). split; [reflexivity|]. split; [reflexivity|].
  split; [exact Hub|]. split; [exact Hubh|]. split; [exact Hbal|].
  split; [exact Hx|].
  split; [unfold held at 1; rewrite Hheld; apply aget_aset_same|].
  split; [exact Ht|]. split; [lia|]. split; lia.
Qed.

(** ------------------------------------------------------------------ L3 on the position-level staking model
    Props/C15.v proves L3 on Model/Farm.v (the shared farm_base_impl enter); here it is on the
    staking farm's own endpoint, stakeFarmThroughProxy. *)
Fixpoint tok_sum (toks : list (Z * Z)) : Z := match toks with [] => 0 | (_, x) :: t => x + tok_sum t end.

Lemma tok_sum_psum toks : tok_sum toks = FarmInv.psum (fun _ => 1) toks.
Proof. induction toks as [|[n x] t IH]; cbn; [reflexivity | rewrite IH; lia]. Qed.

Lemma tok_sum_parts parts : tok_sum (map (fun p => (MS.d_sfn p, MS.d_sfa p)) parts) = MS.sum_sfa parts.
Proof. induction parts as [|p t IH]; cbn; [reflexivity | rewrite IH; reflexivity]. Qed.

Theorem L3_staking sp blk ep c u v toks b sp' o rest :
  Inv sp ->
  pstep sp (PStakeProxy blk ep c u v toks b) = Ok (sp', o) ->
  exists e,
    answer_of_stakeFarmThroughProxy rest o = Some e /\
    MS.es_sfa e = v + tok_sum toks /\
    (forall parts, toks = map (fun p => (MS.d_sfn p, MS.d_sfa p)) parts -> MS.law_L3 v parts e = true) /\
    c = PROXY /\ MS.es_sfn e = s_next (p_s sp) /\ 0 <= MS.es_bs e.
Proof.
  intros I H. cbn [pstep] in H.
  pose proof (wl_stake _ _ _ _ _ _ _ _ _ H) as Hc. subst c.
  assert (Ho : exists n amt, o = [n; amt; b] /\ n = s_next (p_s sp) /\ amt = v + tok_sum toks /\ 0 <= b).
  { unfold ep_stake in H. destruct (whitelisted PROXY); [|discriminate].
    destruct (0 <? v); [|discriminate].
    apply bind_ok in H. destruct H as (g1 & H1 & H).
    apply bind_ok in H. destruct H as (g2 & H2 & H).
    destruct (active (p_s g2)); [|discriminate].
    apply bind_ok in H. destruct H as (g3 & H3 & H). cbv zeta in H.
    apply bind_ok in H. destruct H as (g5 & H5 & H).
    apply bind_ok in H. destruct H as (m' & Hm & H).
    match type of H with (let '(_, _) := mint_pos ?g0 _ _ in _) = _ => set (g := g0) in * end.
    destruct (mint_pos g m' PROXY) as [g7 k] eqn:Hmint. inversion H; subst sp' o; clear H.
    apply merge_payments_amt in Hm. cbn [sa_amt] in Hm. destruct Hm as [Hm _].
    unfold mint_pos in Hmint. inversion Hmint; subst k; clear Hmint.
    destruct I as [IS IL IA IN ISup IAcc ISolv IUT].
    pose proof (pay_all_post _ _ _ _ H1 IL proxy_valid) as [Hrest _ _ _ _ _].
    apply rest_fields in Hrest. destruct Hrest as (S1 & _).
    unfold ppay in H2. apply bind_ok in H2. destruct H2 as (t2 & Ht2 & H2). inversion H2; subst g2; clear H2.
    rewrite S1 in Ht2. destruct (pay_full _ _ _ _ Ht2 IS) as (IS2 & F2 & Hb & _). pfr F2.
    pose proof (check_update_but _ _ _ _ H3) as B3. apply but_fields in B3. cbn in B3. destruct B3 as (S3 & _).
    unfold psettle in H5. apply bind_ok in H5. destruct H5 as (t5 & Ht5 & H5). inversion H5; subst g5; clear H5.
    cbn [p_s increase_user set_utot] in Ht5. rewrite S3 in Ht5.
    destruct (settle_full _ _ _ Ht5 IS2) as (_ & F5 & _). sfr F5.
    exists (s_next (p_s g)), (sa_amt m'). split; [reflexivity|]. split.
    - unfold g. cbn. lia.
    - split; [rewrite Hm, tok_sum_psum; reflexivity | lia]. }
  destruct Ho as (k & amt & -> & Hk & Hamt & Hb).
  cbn [answer_of_stakeFarmThroughProxy]. eexists. split; [reflexivity|].
  cbn [MS.es_sfa MS.es_sfn MS.es_bs MS.law_L3].
  split; [exact Hamt|]. split.
  - intros parts ->. rewrite Hamt, tok_sum_parts. apply Z.eqb_refl.
  - repeat split; assumption.
Qed.

(** ------------------------------------------------------------------ composition with the proxy model
    The clauses of Props/C15.v that carry L4 / L5 as hypotheses, with the hypothesis discharged: when
    the staking-farm fields of the answer record ARE what the staking-farm model returns for the call
    the proxy makes, claimDualYield mints a dual-yield token of exactly the safe-price value, and
    unstakeFarmTokens hands out an unbond token of exactly the staking tokens the pair returned. *)
Module MSP := MX.Proofs.MetaStakingProofs.

Theorem claim_closed s c oc pays e s' out cs sp blk ep u b sp' so :
  MS.step s (MS.Claim c oc pays e) = Ok (s', out, cs) ->
  Inv sp ->
  (forall n a v, In (MS.CStkClaim n a v) cs ->
     pstep sp (PClaimNewValue blk ep PROXY u (n, a) v b) = Ok (sp', so)) ->
  answer_of_claimRewardsWithNewValue e so = Some e ->
  exists v ot oa n' new,
    MS.pick_staking (MS.ec_sp e) = Ok (v, ot, oa) /\ In (n', new) (MS.s_attrs s') /\
    out = [MS.ec_rl e; MS.ec_rs e; n'; MS.d_sfa new] /\ MS.d_sfa new = v /\
    exists n a, In (MS.CStkClaim n a v) cs /\
      s_supply (p_s sp') = s_supply (p_s sp) + MS.registered cs.
Proof.
  intros Hstep I Hcall Hans.
  destruct (MSP.claim_safe _ _ _ _ _ _ _ _ Hstep)
    as (n & p & a & part & v & ot & oa & n' & new & Hp & Hf & Hpart & Hpick & Hcs & Hreg & Hin & Hout & HL4 & _).
  assert (Hc : In (MS.CStkClaim (MS.d_sfn a) p v) cs) by (rewrite Hcs; right; right; left; reflexivity).
  specialize (Hcall _ _ _ Hc).
  destruct (L4_staking _ _ _ _ _ _ _ _ _ _ _ e I Hcall) as (e0 & He0 & Hlaw & Hrest).
  rewrite Hans in He0. inversion He0; subst e0; clear He0.
  exists v, ot, oa, n', new. split; [exact Hpick|]. split; [exact Hin|]. split; [exact Hout|].
  split; [exact (HL4 Hlaw)|]. exists (MS.d_sfn a), p. split; [exact Hc|].
  destruct Hrest as (_ & _ & _ & _ & _ & _ & _ & _ & _ & _ & _ & _ & _ & _ & _ & Hs & _).
  rewrite Hs, Hreg. cbn. lia.
Qed.

Theorem unstake_closed s c oc n p m1 m2 e s' out cs sp blk ep u b sp' so :
  MS.step s (MS.Unstake c oc [(MS.TK_DY, n, p)] m1 m2 e) = Ok (s', out, cs) ->
  Inv sp ->
  (forall stk k a, In (MS.CStkUnstake stk k a) cs ->
     pstep sp (PUnstakeProxy blk ep PROXY u (k, a) stk b) = Ok (sp', so)) ->
  answer_of_unstakeFarmThroughProxy e so = Some e ->
  exists stk ot oa,
    MS.pick_staking (MS.eu_rm e) = Ok (stk, ot, oa) /\
    out = [oa; MS.eu_rl e; MS.eu_rs e; MS.eu_ubn e; MS.eu_uba e] /\ MS.eu_uba e = stk /\
    ubheld sp' (MS.eu_ubn e) PROXY = ubheld sp (MS.eu_ubn e) PROXY + stk /\
    s_supply (p_s sp') = s_supply (p_s sp) - p.
Proof.
  intros Hstep I Hcall Hans.
  destruct (MSP.unstake_char _ _ _ _ _ _ _ _ _ _ _ Hstep)
    as (a & part & stk & ot & oa & Hf & Hpart & Hpick & Hout & Hcs & HL5 & _).
  assert (Hc : In (MS.CStkUnstake stk (MS.d_sfn a) p) cs) by (rewrite Hcs; right; right; left; reflexivity).
  specialize (Hcall _ _ _ Hc).
  destruct (L5_staking _ _ _ _ _ _ _ _ _ _ _ e I Hcall) as (e0 & He0 & Hlaw & Hrest).
  rewrite Hans in He0. inversion He0; subst e0; clear He0.
  exists stk, ot, oa. split; [exact Hpick|]. split; [exact Hout|].
  pose proof (HL5 Hlaw) as Hu. split; [exact Hu|].
  destruct Hrest as (_ & _ & _ & _ & _ & _ & _ & Hub & _ & _ & _ & _ & _ & Hs & _).
  split; [rewrite <- Hu; exact Hub|]. rewrite Hs. cbn. lia.
Qed.
