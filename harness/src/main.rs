// mxvm — generic line-protocol executor over the MultiversX Rust debug VM.
//
// The real contract code of /repo (compiled natively, path dependencies) is registered under short
// code names; every transaction goes through the generated endpoint dispatch (`call_<endpoint>`),
// i.e. #[only_owner], #[payable], argument decoding and all nested contract-to-contract calls run
// exactly as in the repository's own scenario tests.  All intelligence (generation, typed
// encoding/decoding, monitors, model replay) lives on the Python side.
//
// Protocol: one command per line on stdin, one reply line on stdout.  Bytes are lowercase hex
// ("-" for empty), numbers decimal.
//
//   acct <addr> [code <name>] [owner <addr>]          -> ok
//   setegld <addr> <amount>                           -> ok
//   setbal <addr> <token> <nonce> <amount> [attrs]    -> ok         (token given as hex)
//   roles <addr> <token> <role,role,...>              -> ok
//   block <nonce> <round> <epoch> <timestamp>         -> ok
//   newaddr <creator> <creator_nonce> <newaddr>       -> ok
//   nonce <addr>                                      -> <u64>
//   deploy <from> <code> <nargs> <arg>*               -> R <status> <msg> <addr> <n> <out>*
//   call <from> <to> <func> <egld> <nargs> <arg>* <npay> (<token> <nonce> <amount>)*
//                                                     -> R <status> <msg> <n> <out>*
//   query <to> <func> <nargs> <arg>*                  -> R <status> <msg> <n> <out>*
//   bal <addr> <token> <nonce>                        -> <amount>
//   egld <addr>                                       -> <amount>
//   attrs <addr> <token> <nonce>                      -> <hex>
//   tokens <addr>                                     -> <n> (<token> <nonce> <amount>)*
//   sget <addr> <key>                                 -> <hex>
//   sset <addr> <key> <val>                           -> ok
//   sdump <addr>                                      -> <n> (<key> <val>)*
//   quit

use std::io::{BufRead, Write};

use multiversx_chain_vm::{
    tx_execution::execute_current_tx_context_input,
    tx_mock::{TxFunctionName, TxInput, TxResult, TxTokenTransfer},
    types::{VMAddress, VMCodeMetadata, H256},
    world_mock::{AccountData, BlockInfo, EsdtInstanceMetadata},
};
use multiversx_sc::contract_base::CallableContractBuilder;
use multiversx_sc_scenario::{
    api::DebugApi, debug_executor::ContractContainer, scenario::run_vm::ScenarioVMRunner,
};
use num_bigint::BigUint;

fn unhex(s: &str) -> Vec<u8> {
    if s == "-" {
        Vec::new()
    } else {
        hex::decode(s).unwrap_or_else(|_| panic!("bad hex: {s}"))
    }
}

fn tohex(b: &[u8]) -> String {
    if b.is_empty() {
        "-".to_string()
    } else {
        hex::encode(b)
    }
}

fn addr(s: &str) -> VMAddress {
    let b = unhex(s);
    assert!(b.len() == 32, "address must be 32 bytes");
    VMAddress::from_slice(&b)
}

fn tx_hash(n: u64) -> H256 {
    let mut b = [0u8; 32];
    b[24..].copy_from_slice(&n.to_be_bytes());
    H256::new(b)
}

fn big(s: &str) -> BigUint {
    BigUint::parse_bytes(s.as_bytes(), 10).unwrap_or_else(|| panic!("bad number: {s}"))
}

fn register<B: CallableContractBuilder>(runner: &mut ScenarioVMRunner, name: &str, b: B) {
    runner.contract_map_ref.lock().register_contract(
        name.as_bytes().to_vec(),
        ContractContainer::new(b.new_contract_obj::<DebugApi>(), None, false),
    );
}

fn fmt_result(r: &TxResult, extra: Option<String>) -> String {
    let mut s = format!(
        "R {} {}",
        r.result_status,
        tohex(r.result_message.as_bytes())
    );
    if let Some(e) = extra {
        s.push(' ');
        s.push_str(&e);
    }
    s.push_str(&format!(" {}", r.result_values.len()));
    for v in &r.result_values {
        s.push(' ');
        s.push_str(&tohex(v));
    }
    s
}

struct It<'a> {
    parts: std::str::SplitWhitespace<'a>,
}
impl<'a> It<'a> {
    fn next(&mut self) -> &'a str {
        self.parts.next().expect("missing field")
    }
    fn opt(&mut self) -> Option<&'a str> {
        self.parts.next()
    }
    fn u64(&mut self) -> u64 {
        self.next().parse().expect("bad u64")
    }
    fn args(&mut self) -> Vec<Vec<u8>> {
        let n = self.u64();
        (0..n).map(|_| unhex(self.next())).collect()
    }
}

fn main() {
    let mut runner = ScenarioVMRunner::new();
    register(&mut runner, "pair", pair::ContractBuilder);
    register(&mut runner, "router", router::ContractBuilder);
    register(&mut runner, "farm", farm::ContractBuilder);
    register(&mut runner, "farm-with-locked-rewards", farm_with_locked_rewards::ContractBuilder);
    register(&mut runner, "farm-staking", farm_staking::ContractBuilder);
    register(&mut runner, "farm-staking-proxy", farm_staking_proxy::ContractBuilder);
    register(&mut runner, "energy-factory", energy_factory::ContractBuilder);
    register(&mut runner, "energy-factory-mock", energy_factory_mock::ContractBuilder);
    register(&mut runner, "simple-lock", simple_lock::ContractBuilder);
    register(&mut runner, "token-unstake", token_unstake::ContractBuilder);
    register(&mut runner, "lkmex-transfer", lkmex_transfer::ContractBuilder);
    register(&mut runner, "locked-token-wrapper", locked_token_wrapper::ContractBuilder);
    register(&mut runner, "fees-collector", fees_collector::ContractBuilder);
    register(&mut runner, "governance-v2", governance_v2::ContractBuilder);
    register(&mut runner, "price-discovery", price_discovery::ContractBuilder);
    register(&mut runner, "proxy_dex", proxy_dex::ContractBuilder);
    register(&mut runner, "permissions-hub", permissions_hub::ContractBuilder);
    register(&mut runner, "energy-update", energy_update::ContractBuilder);
    register(&mut runner, "pair-mock", pair_mock::ContractBuilder);

    // contract panics are caught and reported by the VM; keep stderr quiet
    std::panic::set_hook(Box::new(|_| {}));

    let stdin = std::io::stdin();
    let stdout = std::io::stdout();
    let mut out = stdout.lock();
    let mut tx_counter: u64 = 0;
    let tx_hash = tx_hash;

    for line in stdin.lock().lines() {
        let line = line.unwrap();
        let mut it = It {
            parts: line.split_whitespace(),
        };
        let cmd = match it.opt() {
            Some(c) => c,
            None => continue,
        };
        let reply: String = match cmd {
            "quit" => break,
            "acct" => {
                let a = addr(it.next());
                let mut acc = AccountData::new_empty(a.clone());
                while let Some(k) = it.opt() {
                    match k {
                        "code" => acc.contract_path = Some(it.next().as_bytes().to_vec()),
                        "owner" => acc.contract_owner = Some(addr(it.next())),
                        _ => panic!("bad acct option"),
                    }
                }
                acc.code_metadata = VMCodeMetadata::all();
                runner.blockchain_mock.state.accounts.insert(a, acc);
                "ok".into()
            },
            "setegld" => {
                let a = addr(it.next());
                let v = big(it.next());
                runner
                    .blockchain_mock
                    .state
                    .accounts
                    .get_mut(&a)
                    .expect("no account")
                    .egld_balance = v;
                "ok".into()
            },
            "setbal" => {
                let a = addr(it.next());
                let token = unhex(it.next());
                let nonce = it.u64();
                let amount = big(it.next());
                let attrs = it.opt().map(unhex).unwrap_or_default();
                let acc = runner
                    .blockchain_mock
                    .state
                    .accounts
                    .get_mut(&a)
                    .expect("no account");
                acc.esdt.set_esdt_balance(
                    token,
                    nonce,
                    &amount,
                    EsdtInstanceMetadata {
                        attributes: attrs,
                        ..Default::default()
                    },
                );
                "ok".into()
            },
            "roles" => {
                let a = addr(it.next());
                let token = unhex(it.next());
                let roles: Vec<Vec<u8>> = it
                    .next()
                    .split(',')
                    .filter(|r| !r.is_empty())
                    .map(|r| r.as_bytes().to_vec())
                    .collect();
                let acc = runner
                    .blockchain_mock
                    .state
                    .accounts
                    .get_mut(&a)
                    .expect("no account");
                acc.esdt.set_roles(token, roles);
                "ok".into()
            },
            "block" => {
                let bi = BlockInfo {
                    block_nonce: it.u64(),
                    block_round: it.u64(),
                    block_epoch: it.u64(),
                    block_timestamp: it.u64(),
                    ..BlockInfo::new()
                };
                runner.blockchain_mock.state.current_block_info = bi;
                "ok".into()
            },
            "newaddr" => {
                let creator = addr(it.next());
                let n = it.u64();
                let new_a = addr(it.next());
                runner
                    .blockchain_mock
                    .state
                    .new_addresses
                    .insert((creator, n), new_a);
                "ok".into()
            },
            "nonce" => {
                let a = addr(it.next());
                format!(
                    "{}",
                    runner
                        .blockchain_mock
                        .state
                        .accounts
                        .get(&a)
                        .map(|x| x.nonce)
                        .unwrap_or(0)
                )
            },
            "deploy" => {
                let from = addr(it.next());
                let code = it.next().as_bytes().to_vec();
                let args = it.args();
                tx_counter += 1;
                let tx_input = TxInput {
                    from,
                    to: VMAddress::zero(),
                    func_name: TxFunctionName::INIT,
                    args,
                    gas_limit: u64::MAX,
                    gas_price: 0,
                    tx_hash: tx_hash(tx_counter),
                    ..Default::default()
                };
                let (new_address, r) = runner.blockchain_mock.vm.sc_create(
                    tx_input,
                    &code,
                    VMCodeMetadata::all(),
                    &mut runner.blockchain_mock.state,
                    execute_current_tx_context_input,
                );
                fmt_result(&r, Some(hex::encode(new_address.as_bytes())))
            },
            "call" => {
                let from = addr(it.next());
                let to = addr(it.next());
                let func = it.next().to_string();
                let egld = big(it.next());
                let args = it.args();
                let npay = it.u64();
                let mut esdt_values = Vec::new();
                for _ in 0..npay {
                    let token_identifier = unhex(it.next());
                    let nonce = it.u64();
                    let value = big(it.next());
                    esdt_values.push(TxTokenTransfer {
                        token_identifier,
                        nonce,
                        value,
                    });
                }
                tx_counter += 1;
                let func_name: TxFunctionName = if func == "-" {
                    TxFunctionName::EMPTY
                } else {
                    func.into()
                };
                let tx_input = TxInput {
                    from: from.clone(),
                    to,
                    egld_value: egld,
                    esdt_values,
                    func_name,
                    args,
                    gas_limit: u64::MAX,
                    gas_price: 0,
                    tx_hash: tx_hash(tx_counter),
                    ..Default::default()
                };
                runner.blockchain_mock.state.increase_account_nonce(&from);
                let r = runner.blockchain_mock.vm.sc_call_with_async_and_callback(
                    tx_input,
                    &mut runner.blockchain_mock.state,
                    execute_current_tx_context_input,
                );
                fmt_result(&r, None)
            },
            "query" => {
                let to = addr(it.next());
                let func = it.next().to_string();
                let args = it.args();
                tx_counter += 1;
                let tx_input = TxInput {
                    from: to.clone(),
                    to,
                    func_name: func.into(),
                    args,
                    gas_limit: u64::MAX,
                    gas_price: 0,
                    tx_hash: tx_hash(tx_counter),
                    ..Default::default()
                };
                let r = runner.blockchain_mock.vm.execute_sc_query_lambda(
                    tx_input,
                    &mut runner.blockchain_mock.state,
                    execute_current_tx_context_input,
                );
                fmt_result(&r, None)
            },
            "bal" => {
                let a = addr(it.next());
                let token = unhex(it.next());
                let nonce = it.u64();
                let v = runner
                    .blockchain_mock
                    .state
                    .accounts
                    .get(&a)
                    .map(|acc| acc.esdt.get_esdt_balance(&token, nonce))
                    .unwrap_or_default();
                v.to_string()
            },
            "egld" => {
                let a = addr(it.next());
                runner
                    .blockchain_mock
                    .state
                    .accounts
                    .get(&a)
                    .map(|acc| acc.egld_balance.clone())
                    .unwrap_or_default()
                    .to_string()
            },
            "attrs" => {
                let a = addr(it.next());
                let token = unhex(it.next());
                let nonce = it.u64();
                let v = runner
                    .blockchain_mock
                    .state
                    .accounts
                    .get(&a)
                    .and_then(|acc| acc.esdt.get_by_identifier(&token))
                    .and_then(|d| d.instances.get_by_nonce(nonce))
                    .map(|i| i.metadata.attributes.clone())
                    .unwrap_or_default();
                tohex(&v)
            },
            "tokens" => {
                let a = addr(it.next());
                let mut items: Vec<(Vec<u8>, u64, BigUint)> = Vec::new();
                if let Some(acc) = runner.blockchain_mock.state.accounts.get(&a) {
                    for (tok, data) in acc.esdt.iter() {
                        for (n, inst) in data.instances.get_instances() {
                            if inst.balance > BigUint::from(0u32) {
                                items.push((tok.clone(), *n, inst.balance.clone()));
                            }
                        }
                    }
                }
                items.sort();
                let mut s = format!("{}", items.len());
                for (t, n, b) in items {
                    s.push_str(&format!(" {} {} {}", tohex(&t), n, b));
                }
                s
            },
            "sget" => {
                let a = addr(it.next());
                let key = unhex(it.next());
                let v = runner
                    .blockchain_mock
                    .state
                    .accounts
                    .get(&a)
                    .and_then(|acc| acc.storage.get(&key).cloned())
                    .unwrap_or_default();
                tohex(&v)
            },
            "sset" => {
                let a = addr(it.next());
                let key = unhex(it.next());
                let val = unhex(it.next());
                let acc = runner
                    .blockchain_mock
                    .state
                    .accounts
                    .get_mut(&a)
                    .expect("no account");
                if val.is_empty() {
                    acc.storage.remove(&key);
                } else {
                    acc.storage.insert(key, val);
                }
                "ok".into()
            },
            "sdump" => {
                let a = addr(it.next());
                let mut items: Vec<(Vec<u8>, Vec<u8>)> = Vec::new();
                if let Some(acc) = runner.blockchain_mock.state.accounts.get(&a) {
                    for (k, v) in acc.storage.iter() {
                        if !v.is_empty() {
                            items.push((k.clone(), v.clone()));
                        }
                    }
                }
                items.sort();
                let mut s = format!("{}", items.len());
                for (k, v) in items {
                    s.push_str(&format!(" {} {}", tohex(&k), tohex(&v)));
                }
                s
            },
            other => panic!("unknown command {other}"),
        };
        writeln!(out, "\n@@ {reply}").unwrap();
        out.flush().unwrap();
    }
}
