"""Energy subsystem (property C08): real energy-factory + token-unstake + lkmex-transfer +
locked-token-wrapper (+ real fees-collector as the penalty sink) driven through the mxvm executor;
operation generator; observation; Coq case emission.

Account ids used by the model (coq/Model/Energy.v): 1..NUSERS = user accounts, 100 = owner/admin,
0 = token-unstake, -1 = lkmex-transfer, -2 = locked-token-wrapper (escrow holders).
A locked token is identified towards the model by its unlock epoch (decoded from the REAL token
attributes); the harness keeps the nonce <-> unlock-epoch table it reads from the chain state.
The whitelisted contract of extendLockPeriod / lockVirtual / mergeTokens(original_caller) is the
account `proxy`: it receives the user's tokens, calls the endpoint for the user and hands the result
back inside the same operation.
"""
import random
from vmx import *

BASE = b"MEX-abcdef"
LOCKED = b"LOCKED-abcdef"
LEGACY = b"LEGACY-abcdef"
WRAPPED = b"WLKMEX-abcdef"
NUSERS = 3
OWNER = 100
H_UNSTAKE, H_XFER, H_WRAP = 0, -1, -2
NO_NONCE = 999999
BIGBAL = 10 ** 60


def zlit(n):
    return f"({n})" if n < 0 else str(n)


def enc_energy(amt, upd, tot):
    if amt == 0:
        raw = b""
    else:
        n = (amt.bit_length() + 8) // 8
        raw = amt.to_bytes(n, "big", signed=True)
    return nest_bytes(raw) + nest_u64(upd) + nest_big(tot)


def dec_energy(b):
    d = Dec(b)
    r = (d.bigint(), d.u64(), d.big())
    assert d.done()
    return r


def dec_locked_attrs(b):
    d = Dec(b)
    tok, n, e = d.bytes_(), d.u64(), d.u64()
    assert d.done()
    return tok, n, e


class EnergyWorld:
    def __init__(self, cfg):
        """cfg: dict(opts=[[epochs, pct]...] sorted, unbond, burn, minlock, cool, epoch0)"""
        self.cfg = cfg
        vm = self.vm = VM()
        self.addr = {OWNER: user_addr("owner")}
        for u in range(1, NUSERS + 1):
            self.addr[u] = user_addr(f"user{u}")
        self.fact, self.unst, self.xfer, self.wrap, self.coll, self.proxy = [
            sc_addr(n) for n in ("factory", "unstake", "transfer", "wrapper", "collector", "proxy")]
        self.addr[H_UNSTAKE], self.addr[H_XFER], self.addr[H_WRAP] = self.unst, self.xfer, self.wrap
        for u in [OWNER] + list(range(1, NUSERS + 1)):
            vm.acct(self.addr[u])
        vm.acct(self.proxy)
        self.epoch = cfg["epoch0"]
        vm.block(nonce=1, round_=1, epoch=self.epoch, ts=6)
        own = self.addr[OWNER]
        args = [BASE, LEGACY, self.unst, top_u(0)]
        for e, p in cfg["opts"]:
            args += [top_u(e), top_u(p)]
        r = vm.deploy(own, "energy-factory", args, new_addr=self.fact)
        assert r.ok, r
        vm.sset(self.fact, b"lockedTokenId", LOCKED)
        vm.roles(self.fact, BASE, ["ESDTRoleLocalMint", "ESDTRoleLocalBurn"])
        vm.roles(self.fact, LOCKED, ["ESDTRoleNFTCreate", "ESDTRoleNFTAddQuantity", "ESDTRoleNFTBurn", "ESDTTransferRole"])
        assert vm.call(own, self.fact, "unpause").ok
        r = vm.deploy(own, "fees-collector", [LOCKED, self.fact], new_addr=self.coll)
        assert r.ok, r
        r = vm.deploy(own, "token-unstake", [top_u(cfg["unbond"]), self.fact, top_u(cfg["burn"]), self.coll], new_addr=self.unst)
        assert r.ok, r
        vm.roles(self.unst, BASE, ["ESDTRoleLocalBurn"])
        vm.roles(self.unst, LOCKED, ["ESDTRoleNFTBurn"])
        vm.roles(self.coll, LOCKED, ["ESDTRoleNFTBurn"])
        assert vm.call(own, self.coll, "addKnownContracts", [self.unst]).ok
        assert vm.call(own, self.fact, "setTokenUnstakeAddress", [self.unst]).ok
        r = vm.deploy(own, "lkmex-transfer", [self.fact, LOCKED, top_u(cfg["minlock"]), top_u(cfg["cool"])], new_addr=self.xfer)
        assert r.ok, r
        vm.roles(self.xfer, LOCKED, ["ESDTTransferRole"])
        assert vm.call(own, self.xfer, "addAdmin", [own]).ok      # account 100 = owner + admin of lkmex-transfer
        r = vm.deploy(own, "locked-token-wrapper", [self.fact], new_addr=self.wrap)
        assert r.ok, r
        vm.sset(self.wrap, b"wrappedTokenId", WRAPPED)
        vm.roles(self.wrap, WRAPPED, ["ESDTRoleNFTCreate", "ESDTRoleNFTAddQuantity", "ESDTRoleNFTBurn"])
        assert vm.call(own, self.fact, "addToTokenTransferWhitelist", [self.xfer, self.wrap, self.proxy]).ok
        assert vm.call(own, self.fact, "addSCAddressToWhitelist", [self.proxy]).ok
        for u in range(1, NUSERS + 1):
            vm.setbal(self.addr[u], BASE, 0, BIGBAL)
        self.nonce_of = {}       # unlock epoch -> locked-token nonce (from real attributes)
        self.epoch_of = {}       # locked-token nonce -> unlock epoch
        self.wnonce_of = {}      # unlock epoch -> wrapped-token nonce
        self.pending = {}        # (receiver, sender) -> (funds, locked epoch)   (shadow, generator only)
        self.slast, self.rlast = {}, {}
        self.last = self.observe_state()

    def close(self):
        self.vm.close()

    # ------------------------------------------------------------ observation
    def unlock_epoch(self, holder_addr, nonce):
        """unlock epoch of a locked-token nonce, from the real attributes stored with the holder"""
        tok, n, e = dec_locked_attrs(self.vm.attrs(holder_addr, LOCKED, nonce))
        assert tok == BASE and n == 0
        if nonce in self.epoch_of:
            assert self.epoch_of[nonce] == e
        else:
            assert e not in self.nonce_of, "two nonces with the same attributes"
            self.epoch_of[nonce] = e
            self.nonce_of[e] = nonce
        return e

    def observe_state(self):
        vm = self.vm
        o = dict(now=self.epoch, en={}, hold={}, tot={}, whold={}, wtot={}, utok={}, queue={})
        holders = [(u, self.addr[u]) for u in range(1, NUSERS + 1)] + \
                  [(h, self.addr[h]) for h in (H_UNSTAKE, H_XFER, H_WRAP)]
        for h, a in holders:
            tot = 0
            wt = 0
            toks = []
            for tok, nonce, bal in vm.tokens(a):
                if bal == 0:
                    continue
                if tok == LOCKED:
                    e = self.unlock_epoch(a, nonce)
                    o["hold"][f"{h}:{e}"] = o["hold"].get(f"{h}:{e}", 0) + bal
                    tot += bal
                    toks.append([nonce, e, bal])
                elif tok == WRAPPED and h > 0:
                    ln = int.from_bytes(vm.attrs(a, WRAPPED, nonce), "big")
                    e = self.epoch_of[ln] if ln in self.epoch_of else self.unlock_epoch(self.wrap, ln)
                    self.wnonce_of[e] = nonce
                    o["whold"][f"{h}:{e}"] = o["whold"].get(f"{h}:{e}", 0) + bal
                    wt += bal
            o["tot"][h] = tot
            if h > 0:
                o["wtot"][h] = wt
                o["utok"][h] = toks
        for u in list(range(1, NUSERS + 1)) + [H_UNSTAKE, H_XFER, H_WRAP]:
            q = vm.query(self.fact, "getEnergyEntryForUser", [self.addr[u]])
            assert q.ok and len(q.out) == 1, q
            amt, upd, tot = dec_energy(q.out[0])
            v = vm.query(self.fact, "getEnergyAmountForUser", [self.addr[u]])
            assert v.ok
            o["en"][u] = [amt, upd, tot, from_top_u(v.out[0]) if v.out else 0]
        for u in range(1, NUSERS + 1):
            qq = vm.query(self.unst, "getUnlockedTokensForUser", [self.addr[u]])
            ent = []
            if qq.ok and qq.out and qq.out[0]:
                d = Dec(qq.out[0])
                while not d.done():
                    at = d.u64()
                    lt = d.payment()
                    ut = d.payment()
                    ent.append([at, self.epoch_of.get(lt[1], -1), lt[2], ut[2]])
            o["queue"][u] = ent
        o["proxy_left"] = [t for t in vm.tokens(self.proxy) if t[2] > 0 and t[0] in (LOCKED, WRAPPED)]
        return o

    # ------------------------------------------------------------ execution
    def nonce(self, e):
        return self.nonce_of.get(e, NO_NONCE)

    def pays(self, ps):
        return [(LOCKED, self.nonce(e), a) for e, a in ps]

    def out_locked(self, r, holder):
        """returned locked-token payment -> [unlock epoch, amount]"""
        if not r.ok or not r.out:
            return []
        tok, n, a = dec_payment(r.out[0])
        if tok == LOCKED:
            return [self.unlock_epoch(holder, n), a]
        if tok == WRAPPED:
            ln = int.from_bytes(self.vm.attrs(holder, WRAPPED, n), "big")
            return [self.epoch_of[ln], a]
        return [a]

    def exec(self, op):
        vm = self.vm
        A = self.addr
        k = op[0]
        outs = []
        pre_dig = vm.digest([self.fact, self.unst, self.xfer, self.wrap] + [A[u] for u in range(1, NUSERS + 1)])
        if k == "Lock":
            _, c, amt, le, dest = op
            args = [top_u(le)] + ([A[dest]] if dest != c else [])
            r = vm.call(A[c], self.fact, "lockTokens", args, [(BASE, 0, amt)])
            outs = self.out_locked(r, A[dest])
        elif k == "LockVirtual":
            _, u, amt, le = op
            r = vm.call(self.proxy, self.fact, "lockVirtual", [BASE, top_u(amt), top_u(le), A[u], A[u]])
            outs = self.out_locked(r, A[u])
        elif k == "Extend":
            _, c, e, amt, le, dest = op
            args = [top_u(le)] + ([A[dest]] if dest != c else [])
            r = vm.call(A[c], self.fact, "lockTokens", args, [(LOCKED, self.nonce(e), amt)])
            outs = self.out_locked(r, A[c])
        elif k == "ExtendVia":
            _, u, e, amt, le = op
            pay = [(LOCKED, self.nonce(e), amt)]
            r = vm.transfer(A[u], self.proxy, pay)
            if r.ok:
                r = vm.call(self.proxy, self.fact, "extendLockPeriod", [top_u(le), A[u]], pay)
                if r.ok:
                    outs = self.out_locked(r, self.proxy)
                    tok, n, a = dec_payment(r.out[0])
                    assert vm.transfer(self.proxy, A[u], [(tok, n, a)]).ok
                else:
                    assert vm.transfer(self.proxy, A[u], pay).ok
        elif k in ("Merge", "MergeVia"):
            _, c, ps = op
            pay = self.pays(ps)
            if k == "Merge":
                r = vm.call(A[c], self.fact, "mergeTokens", [], pay)
                outs = self.out_locked(r, A[c])
            else:
                r = vm.transfer(A[c], self.proxy, pay) if pay else vm.call(self.proxy, self.fact, "mergeTokens", [A[c]], [])
                if r.ok:
                    r = vm.call(self.proxy, self.fact, "mergeTokens", [A[c]], pay)
                    if r.ok:
                        outs = self.out_locked(r, self.proxy)
                        tok, n, a = dec_payment(r.out[0])
                        assert vm.transfer(self.proxy, A[c], [(tok, n, a)]).ok
                    else:
                        assert vm.transfer(self.proxy, A[c], pay).ok
        elif k == "Reduce":
            _, c, e, amt, le = op
            r = vm.call(A[c], self.fact, "reduceLockPeriod", [top_u(le)], [(LOCKED, self.nonce(e), amt)])
            outs = self.out_locked(r, A[c])
        elif k == "Unlock":
            _, c, ps = op
            r = vm.call(A[c], self.fact, "unlockTokens", [], self.pays(ps))
            outs = [dec_payment(r.out[0])[2]] if r.ok and r.out else []
        elif k == "UnlockEarly":
            _, c, e, amt = op
            r = vm.call(A[c], self.fact, "unlockEarly", [], [(LOCKED, self.nonce(e), amt)])
        elif k == "Claim":
            r = vm.call(A[op[1]], self.unst, "claimUnlockedTokens")
            outs = [dec_payment(x)[2] for x in r.out] if r.ok else []
        elif k == "CancelUnbond":
            r = vm.call(A[op[1]], self.unst, "cancelUnbond")
            if r.ok:
                for x in r.out:
                    tok, n, a = dec_payment(x)
                    outs += [self.unlock_epoch(A[op[1]], n), a]
        elif k == "LockFunds":
            _, s, rc, ps = op
            r = vm.call(A[s], self.xfer, "lockFunds", [A[rc]], self.pays(ps))
        elif k == "Withdraw":
            _, rc, s = op
            r = vm.call(A[rc], self.xfer, "withdraw", [A[s]])
        elif k == "CancelTransfer":
            _, c, s, rc = op
            r = vm.call(A[c], self.xfer, "cancelTransfer", [A[s], A[rc]])
        elif k == "Wrap":
            _, c, e, amt = op
            r = vm.call(A[c], self.wrap, "wrapLockedToken", [], [(LOCKED, self.nonce(e), amt)])
            outs = self.out_locked(r, A[c])
        elif k == "Unwrap":
            _, c, e, amt = op
            r = vm.call(A[c], self.wrap, "unwrapLockedToken", [], [(WRAPPED, self.wnonce_of.get(e, NO_NONCE), amt)])
            outs = self.out_locked(r, A[c])
        elif k == "WTransfer":
            _, s, d, e, amt = op
            r = vm.transfer(A[s], A[d], [(WRAPPED, self.wnonce_of.get(e, NO_NONCE), amt)])
        elif k == "Unauth":
            _, c, kind = op
            en = enc_energy(10 ** 30, self.epoch, 0)
            held = self.last["utok"].get(c) or []
            lp = [(LOCKED, held[0][0], 1)] if held else []
            le = self.cfg["opts"][-1][0]
            if kind == 0:
                r = vm.call(A[c], self.fact, "setUserEnergyAfterLockedTokenTransfer", [A[c], en])
            elif kind == 1:
                r = vm.call(A[c], self.fact, "revertUnstake", [A[c], en])
            elif kind == 2:
                r = vm.call(A[c], self.fact, "lockVirtual", [BASE, top_u(1000), top_u(le), A[c], A[c]])
            elif kind == 3:
                r = vm.call(A[c], self.fact, "extendLockPeriod", [top_u(le), A[c]], lp or [(BASE, 0, 5)])
            elif kind == 4:
                r = vm.call(A[c], self.unst, "depositUserTokens", [A[c]], (lp or [(BASE, 0, 7)]) + [(BASE, 0, 5)])
            elif kind == 5:
                r = vm.call(A[c], self.unst, "depositFees", [], lp or [(BASE, 0, 5)])
            else:
                r = vm.call(A[c], self.fact, "adjustUserEnergy", [A[c], b"\x7f", b"\x01"])
        elif k == "Advance":
            self.epoch += op[1]
            vm.block(nonce=self.epoch + 1, round_=self.epoch + 1, epoch=self.epoch, ts=6 * (self.epoch + 1))
            r = Result(0, "", [])
        else:
            raise ValueError(k)
        o = self.observe_state()
        o["ok"], o["msg"], o["outs"] = r.ok, r.msg, outs
        if not r.ok:
            o["unchanged"] = (vm.digest([self.fact, self.unst, self.xfer, self.wrap] + [A[u] for u in range(1, NUSERS + 1)]) == pre_dig)
        else:
            if k == "LockFunds":
                self.pending[(op[2], op[1])] = (op[3], self.epoch)
                self.slast[op[1]] = self.epoch
            elif k == "Withdraw":
                self.pending.pop((op[1], op[2]), None)
                self.rlast[op[1]] = self.epoch
            elif k == "CancelTransfer":
                self.pending.pop((op[3], op[2]), None)
                self.slast.pop(op[2], None)
        o["pending"] = sorted([r_, s_, at] for (r_, s_), (f, at) in self.pending.items())
        o["pre"] = self.last
        self.last = {k_: v for k_, v in o.items() if k_ != "pre"}
        return o


# ------------------------------------------------------------------ Coq emission
def coq_ps(ps):
    return "[" + "; ".join(f"({zlit(e)}, {zlit(a)})" for e, a in ps) + "]"


def coq_op(op):
    k = op[0]
    if k in ("Merge", "MergeVia", "Unlock"):
        return f"{k} {op[1]} {coq_ps(op[2])}"
    if k == "LockFunds":
        return f"LockFunds {op[1]} {op[2]} {coq_ps(op[3])}"
    return k + " " + " ".join(zlit(x) for x in op[1:])


def coq_triples(d):
    items = []
    for key, v in sorted(d.items(), key=lambda kv: tuple(int(x) for x in kv[0].split(":"))):
        h, e = key.split(":")
        items.append(f"({zlit(int(h))}, {zlit(int(e))}, {zlit(v)})")
    return "[" + "; ".join(items) + "]"


def coq_pairs(d):
    return "[" + "; ".join(f"({zlit(int(k))}, {zlit(v)})" for k, v in sorted(d.items(), key=lambda kv: int(kv[0]))) + "]"


def coq_obs(o):
    outs = "[" + "; ".join(zlit(x) for x in o["outs"]) + "]"
    en = "[" + "; ".join(f"({zlit(int(u))}, ({zlit(v[0])}, {v[1]}, {v[2]}, {v[3]}))" for u, v in sorted(o["en"].items(), key=lambda kv: int(kv[0]))) + "]"
    return (f"mkObs {'true' if o['ok'] else 'false'} {outs} {o['now']} {en} {coq_triples(o['hold'])} "
            f"{coq_pairs(o['tot'])} {coq_triples(o['whold'])} {coq_pairs(o['wtot'])}")


def coq_init(cfg):
    opts = "[" + "; ".join(f"({e}, {p})" for e, p in cfg["opts"]) + "]"
    return f"(init_state (mkCfg {opts} {cfg['unbond']} {cfg['minlock']} {cfg['cool']}) {cfg['epoch0']})"


def coq_history(cfg, trace):
    items = ";\n    ".join(f"({coq_op(op)}, {coq_obs(o)})" for op, o in trace)
    return f"(check_trace {coq_init(cfg)} 0 [\n    {items}])"


# ------------------------------------------------------------------ generation
def log_amount(rng, hi=10 ** 24):
    e = rng.uniform(0, len(str(hi)) - 1)
    return max(1, int(10 ** e) + rng.randint(0, 9))


def gen_cfg(rng):
    kind = rng.random()
    if kind < 0.3:
        opts = [[360, 4000], [720, 6000], [1440, 8000]]
    elif kind < 0.4:
        opts = [[rng.choice([360, 365, 400, 1000]), rng.choice([0, 1, 5000, 9999, 10000])]]
    else:
        n = rng.choice([2, 2, 3, 3, 4, 5, 10])
        eps = sorted(rng.sample([360, 361, 375, 390, 420, 480, 540, 720, 721, 900, 1080, 1440, 1800, 2880], n))
        ps = sorted(rng.sample(range(0, 10001), n))
        if rng.random() < 0.2:
            ps[-1] = 10000
            ps = sorted(set(ps))
            while len(ps) < n:
                ps = sorted(set(ps + [rng.randint(0, 9999)]))
        opts = [[e, p] for e, p in zip(eps, ps)]
    return dict(opts=opts, unbond=rng.choice([0, 1, 3, 10, 10, 30]), burn=rng.choice([0, 5000, 10000, rng.randint(0, 10000)]),
                minlock=rng.choice([0, 0, 1, 4]), cool=rng.choice([0, 0, 1, 6]),
                epoch0=rng.choice([1, 5, 29, 30, 31, 59, 100, 359, 1000]))


def part(rng, bal):
    c = rng.random()
    if c < 0.04:
        return bal + rng.choice([1, 1, 10 ** 6])      # more than the account holds
    if c < 0.35:
        return bal
    if c < 0.5:
        return min(bal, rng.randint(1, 3))
    return rng.randint(1, bal)


def gen_op(rng, w, stats):
    """mostly-valid operation from the world's last observed state"""
    s = w.last
    now = s["now"]
    users = list(range(1, NUSERS + 1))
    opts = [o[0] for o in w.cfg["opts"]]
    held = {u: [(e, b) for (n, e, b) in s["utok"][u]] for u in users}
    whold = {}
    for key, v in s["whold"].items():
        h, e = key.split(":")
        whold.setdefault(int(h), []).append((int(e), v))
    c = rng.choice(users)
    have = [u for u in users if held[u]]
    roll = rng.random()

    def som(x):
        return x - x % 30

    def lock_op():
        le = rng.choice(opts) if rng.random() < 0.92 else rng.choice([0, 1, 30, 359, opts[0] + 1, 100000])
        cls = rng.random()
        amt = log_amount(rng) if cls < 0.7 else rng.randint(1, 12)
        if rng.random() < 0.02:
            amt = 0
        if rng.random() < 0.12:
            return ["LockVirtual", c, amt, le]
        dest = c if rng.random() < 0.7 else rng.choice(users)
        return ["Lock", c, amt, le, dest]

    def advance_op():
        cands = [0, 1, 1, 2, 5, 10, 29, 30, 31, 100, 360]
        ups = [e for u in users for e, b in held[u]] + [q[1] for u in users for q in s["queue"][u]]
        for e in ups:
            if e > now:
                cands += [e - now, e - now + 1, max(0, e - now - 1)]
        for q in (x for u in users for x in s["queue"][u]):
            if q[0] > now:
                cands.append(q[0] - now)
        cands.append(som(now) + 30 - now)
        if rng.random() < 0.05:
            cands = [1500, 3000]
        return ["Advance", rng.choice(cands)]

    if roll < 0.13:
        return advance_op()
    if roll < 0.30 or not have:
        return lock_op()
    if c not in have and rng.random() < 0.8:
        c = rng.choice(have)
    mine = held[c]
    live = [(e, b) for e, b in mine if e > now]
    dead = [(e, b) for e, b in mine if e <= now]
    if roll < 0.39:       # extend (own / via the whitelisted contract)
        if mine:
            e, b = rng.choice(mine)
            good = [le for le in opts if som(now + le) > e]
            le = rng.choice(good) if good and rng.random() < 0.82 else rng.choice(opts)
            if rng.random() < 0.3:
                return ["ExtendVia", c, e, part(rng, b), le]
            dest = c if rng.random() < 0.95 else rng.choice(users)
            return ["Extend", c, e, part(rng, b), le, dest]
    elif roll < 0.48:     # merge
        pool = live if rng.random() < (0.8 if dead else 0.95) else mine
        if pool:
            k = min(len(pool), rng.choice([1, 2, 2, 2, 3, 3]))
            ps = [[e, part(rng, b)] for e, b in rng.sample(pool, k)]
            if rng.random() < 0.1 and ps[0][1] > 1:      # the same nonce twice
                half = ps[0][1] // 2
                ps = [[ps[0][0], half]] + ps[1:] + [[ps[0][0], ps[0][1] - half]]
            return ["MergeVia" if rng.random() < 0.2 else "Merge", c, ps]
    elif roll < 0.55:     # reduce
        if live:
            e, b = rng.choice(live)
            good = [le for le in opts if som(now + le) < e]
            le = rng.choice(good) if good and rng.random() < 0.9 else rng.choice(opts)
            return ["Reduce", c, e, part(rng, b), le]
    elif roll < 0.63:     # unlock
        pool = dead if (dead and rng.random() < 0.88) else (mine if rng.random() < 0.6 else [])
        if pool:
            k = min(len(pool), rng.choice([1, 1, 2, 3]))
            return ["Unlock", c, [[e, part(rng, b)] for e, b in rng.sample(pool, k)]]
    elif roll < 0.70:     # unlock early
        pool = live if rng.random() < (0.85 if dead else 0.95) else mine
        if pool:
            e, b = rng.choice(pool)
            return ["UnlockEarly", c, e, part(rng, b)]
    elif roll < 0.78:     # claim / cancel unbond
        withq = [u for u in users if s["queue"][u]]
        if withq:
            ripe = [u for u in withq if s["queue"][u][0][0] <= now]
            if rng.random() < 0.5:
                return ["CancelUnbond", rng.choice(withq)]
            if ripe and rng.random() < 0.75:
                return ["Claim", rng.choice(ripe)]
            if rng.random() < 0.5:
                return ["Advance", max(0, s["queue"][withq[0]][0][0] - now)]
            return ["Claim", rng.choice(withq)]
        if rng.random() < 0.15:
            return [rng.choice(["Claim", "CancelUnbond"]), c]
    elif roll < 0.89:     # lkmex transfer
        pend = [(p[0], p[1], p[2]) for p in s.get("pending", [])]
        sub = rng.random()
        if pend and sub < 0.5:
            rc, sd, at = rng.choice(pend)
            if sub < 0.12:
                return ["CancelTransfer", OWNER if rng.random() < 0.85 else rng.choice(users), sd, rc]
            if now - at <= w.cfg["minlock"] and rng.random() < 0.5:
                return ["Advance", w.cfg["minlock"] + 1 - (now - at)]
            return ["Withdraw", rc, sd]
        if live:
            rc = rng.choice([u for u in users if u != c] + ([c] if rng.random() < 0.1 else []))
            pool = live if rng.random() < 0.95 else mine
            k = min(len(pool), rng.choice([1, 1, 2, 2]))
            ps = [[e, part(rng, b)] for e, b in rng.sample(pool, k)]
            if rng.random() < 0.03:
                ps = []
            last = w.slast.get(c, 0)
            if last and now - last <= w.cfg["cool"] and rng.random() < 0.6:
                return ["Advance", w.cfg["cool"] + 1 - (now - last)]
            return ["LockFunds", c, rc, ps]
        if rng.random() < 0.1:
            return ["Withdraw", c, rng.choice(users)]
    elif roll < 0.955:     # wrapper
        wh = [u for u in users if whold.get(u)]
        sub = rng.random()
        if wh and sub < 0.45:
            u = rng.choice(wh)
            e, b = rng.choice(whold[u])
            if sub < 0.12:
                return ["WTransfer", u, rng.choice([x for x in users if x != u]), e, part(rng, b)]
            return ["Unwrap", u, e, part(rng, b)]
        pool = live if rng.random() < (0.85 if dead else 0.95) else mine
        if pool:
            e, b = rng.choice(pool)
            return ["Wrap", c, e, part(rng, b)]
    else:
        return ["Unauth", rng.choice(users), rng.randint(0, 6)]
    return lock_op() if rng.random() < 0.6 else advance_op()


def gen_history(seed, nops):
    rng = random.Random(seed)
    cfg = gen_cfg(rng)
    w = EnergyWorld(cfg)
    trace = []
    stats = {}
    try:
        for _ in range(nops):
            op = gen_op(rng, w, stats)
            o = w.exec(op)
            trace.append((op, o))
    finally:
        w.close()
    return cfg, trace


def replay_history(cfg, ops):
    w = EnergyWorld(cfg)
    trace = []
    try:
        for op in ops:
            trace.append((op, w.exec(op)))
    finally:
        w.close()
    return trace
