"""Router subsystem: real dex/router deploying real dex/pair contracts from a template
(deploy_from_source), plus pair contracts deployed without the router ("foreign" pairs), driven
through the mxvm executor; op generator; observation; Coq case emission.

Ids used by the model (coq/Model/Router.v):
  accounts  0 = router, 100 = router owner, 1..NUSERS = users, 5 = the pair template (a non-pair address),
            10.. = pair contracts (one fresh id per createPair / direct deployment attempt)
  tokens    1..NTOK = pool tokens, 0 = a malformed token identifier, 8/9 = locked (meta-ESDT) tokens
A `Direct` op wraps one pair-model op (coq/Model/Pair.v) with the pair's local token codes 1/2.
"""
import random
from vmx import *

NTOK = 4
T = {1: b"AAA-abcdef", 2: b"BBB-abcdef", 3: b"CCC-abcdef", 4: b"DDD-abcdef", 0: b"bad",
     8: b"LOCKED-abcdef", 9: b"LKTWO-abcdef"}        # 8, 9: meta-ESDTs carrying LockedTokenAttributes
NUSERS = 3
ROUTER, OWNER, TEMPLATE = 0, 100, 5
BIG = 10 ** 40
M = 100000
FUNC = {0: b"swapTokensFixedInput", 1: b"swapTokensFixedOutput", 2: b"addLiquidity", 3: b"swapNoFeeAndForward"}
LEDGER_ACCOUNTS = [ROUTER, 1, 2, 3, OWNER]
TEMP_PERIOD = 50


def lp_token(k):
    return b"LP" + bytes([65 + (k // 26) % 26, 65 + k % 26]) + b"-abcdef"


class RouterWorld:
    def __init__(self, cfg):
        self.cfg = cfg
        vm = self.vm = VM()
        self.addr = {OWNER: user_addr("owner"), ROUTER: sc_addr("router"), TEMPLATE: sc_addr("template")}
        for u in range(1, NUSERS + 1):
            self.addr[u] = user_addr(f"user{u}")
        for a in (OWNER, 1, 2, 3):
            vm.acct(self.addr[a])
        self.block = cfg.get("block", 1)
        vm.block(nonce=self.block, round_=self.block, epoch=1, ts=6 * self.block)
        own = self.addr[OWNER]
        vm.acct(self.addr[TEMPLATE], code="pair", owner=own)
        r = vm.deploy(own, "router", [self.addr[TEMPLATE]], new_addr=self.addr[ROUTER])
        assert r.ok, r
        for a in (OWNER, 1, 2, 3):
            for t in range(1, NTOK + 1):
                vm.setbal(self.addr[a], T[t], 0, BIG)
            vm.setegld(self.addr[a], 10 ** 20)
        self.pairs = {}          # id -> dict(t1, t2, via_router)
        self.ids = {v: k for k, v in self.addr.items()}
        self.next_pair = 10
        self.adders = {}        # generator memory: pair id -> initial liquidity adder
        self.creators = {}      # generator memory: pair id -> (creator, creation block)
        self.feedests = {}      # generator memory: pair id -> [(destination, token)] set through the router
        self.common = []        # generator memory: whitelisted common tokens
        self.enable_cfg = {}    # generator memory: common token -> (locked token, min value, min epochs)
        self.epoch = 1
        self.last = self.observe_state()

    def close(self):
        self.vm.close()

    def pair_addr(self, pid):
        return sc_addr(f"pair{pid}")

    # ------------------------------------------------------------ observation
    def observe_pair(self, pid):
        vm = self.vm
        a = self.addr[pid]
        info = self.pairs[pid]
        r = vm.query(a, "getReservesAndTotalSupply")
        r1, r2, S = [from_top_u(x) for x in r.out]
        st = vm.query(a, "getState")
        fe = vm.query(a, "getTotalFeePercent")
        sf = vm.query(a, "getSpecialFee")
        fs = vm.query(a, "getFeeState")
        lp = vm.query(a, "getLpTokenIdentifier")
        t1 = vm.query(a, "getFirstTokenId").out[0]
        t2 = vm.query(a, "getSecondTokenId").out[0]
        tk = {v: k for k, v in T.items()}
        return dict(state=from_top_u(st.out[0]) if st.out else 0, r1=r1, r2=r2, S=S,
                    b1=vm.bal(a, t1), b2=vm.bal(a, t2),
                    fee=from_top_u(fe.out[0]) if fe.out else 0, sfee=from_top_u(sf.out[0]) if sf.out else 0,
                    lp=1 if (lp.out and lp.out[0]) else 0, fee_on=1 if (fs.out and fs.out[0]) else 0,
                    t1=tk.get(t1, -1), t2=tk.get(t2, -1))

    def observe_state(self):
        vm = self.vm
        R = self.addr[ROUTER]
        st = vm.query(R, "getState")
        ce = vm.query(R, "getPairCreationEnabled")
        gp = {}
        for a in range(1, NTOK + 1):
            for b in range(1, NTOK + 1):
                if a != b:
                    q = vm.query(R, "getPair", [T[a], T[b]])
                    assert q.ok and len(q.out) == 1
                    gp[(a, b)] = 0 if q.out[0] == ZERO_ADDR else self.ids.get(q.out[0], -1)
        al = vm.query(R, "getAllPairsManagedAddresses")
        assert al.ok
        o = dict(active=bool(st.out and st.out[0]), creation=bool(ce.out and ce.out[0]), getpair=gp,
                 all=[self.ids.get(x, -1) for x in al.out],
                 led={(a, t): vm.bal(self.addr[a], T[t]) for a in LEDGER_ACCOUNTS for t in range(1, NTOK + 1)},
                 pairs={pid: self.observe_pair(pid) for pid in self.pairs},
                 block=self.block, epoch=self.epoch)
        return o

    def digest(self):
        return self.vm.digest([self.addr[ROUTER]] + [self.addr[p] for p in self.pairs])

    # ------------------------------------------------------------ execution
    def exec(self, op):
        vm = self.vm
        A = self.addr
        R = A[ROUTER]
        k = op[0]
        outs = []
        if k == "SetBlock":
            self.block = op[1]
            vm.block(nonce=self.block, round_=self.block, ts=6 * self.block)
            r = Result(0, "", [])
        elif k == "SetEpoch":
            self.epoch = op[1]
            vm.block(epoch=self.epoch)
            r = Result(0, "", [])
        else:
            pre_dig = self.digest()
        if k == "CreatePair":
            _, c, a, b, adder, fees, na = op
            new = self.pair_addr(na)
            vm.newaddr(R, vm.nonce(R), new)
            args = [T[a], T[b], A[adder] if adder else ZERO_ADDR]
            if fees is not None:
                args += [top_u(fees[0]), top_u(fees[1])]
            r = vm.call(A[c], R, "createPair", args)
            if r.ok:
                assert r.out[0] == new, (r, new)
                self.addr[na] = new
                self.ids[new] = na
                self.pairs[na] = dict(t1=a, t2=b, via_router=True)
                self.creators[na] = (c, self.block)
                for t in range(1, NTOK + 1):
                    vm.roles(new, T[t], ["ESDTRoleLocalBurn"])
                outs = [na]
        elif k == "DeployPair":
            _, a, b, f, sf, na = op
            new = self.pair_addr(na)
            r = vm.deploy(A[OWNER], "pair", [T[a], T[b], A[OWNER], A[OWNER], top_u(f), top_u(sf), ZERO_ADDR], new_addr=new)
            if r.ok:
                self.addr[na] = new
                self.ids[new] = na
                self.pairs[na] = dict(t1=a, t2=b, via_router=False)
                for t in range(1, NTOK + 1):
                    vm.roles(new, T[t], ["ESDTRoleLocalBurn"])
                outs = [na]
        elif k == "RemovePair":
            _, c, a, b = op
            r = vm.call(A[c], R, "removePair", [T[a], T[b]])
            if r.ok:
                outs = [0 if r.out[0] == ZERO_ADDR else self.ids.get(r.out[0], -1)]
        elif k == "UpgradePair":
            _, c, a, b = op
            r = vm.call(A[c], R, "upgradePair", [T[a], T[b]])
        elif k in ("Pause", "Resume"):
            _, c, ad = op
            r = vm.call(A[c], R, "pause" if k == "Pause" else "resume", [A[ad]])
        elif k in ("RSetFeeOn", "RSetFeeOff"):
            _, c, ad, dest, tok = op
            r = vm.call(A[c], R, "setFeeOn" if k == "RSetFeeOn" else "setFeeOff", [A[ad], A[dest], T[tok]])
            if r.ok and k == "RSetFeeOn":
                self.feedests.setdefault(ad, []).append((dest, tok))
            if r.ok and k == "RSetFeeOff":
                self.feedests[ad].remove((dest, tok))
        elif k == "SetLocalRoles":
            _, c, ad = op
            r = vm.call(A[c], R, "setLocalRoles", [A[ad]])
        elif k == "IssueLp":
            _, c, ad = op
            r = vm.call(A[c], R, "issueLpToken", [A[ad], b"LiquidityToken", b"LPT"], egld=0)
        elif k == "SetCreation":
            _, c, en = op
            r = vm.call(A[c], R, "setPairCreationEnabled", [top_bool(en)])
        elif k == "MultiSwap":
            _, c, tin, amt, hops = op
            args = []
            for (ad, f, tw, aw) in hops:
                args += [A[ad], FUNC[f], T[tw], top_u(aw)]
            r = vm.call(A[c], R, "multiPairSwap", args, [(T[tin], 0, amt)])
            if r.ok:
                tk = {v: k_ for k_, v in T.items()}
                for x in r.out:
                    d = Dec(x)
                    while not d.done():
                        t, n, v = d.payment()
                        assert n == 0
                        outs += [tk.get(t, -1), v]
        elif k == "SetLp":
            _, c, ad = op
            r = vm.call(A[c], A[ad], "setLpTokenIdentifier", [lp_token(ad)])
            if r.ok:
                vm.roles(A[ad], lp_token(ad), ["ESDTRoleLocalMint", "ESDTRoleLocalBurn"])
        elif k == "Direct":
            _, ad, pop = op
            info = self.pairs[ad]
            P = A[ad]
            L = {1: T[info["t1"]], 2: T[info["t2"]]}
            lpt = lp_token(ad)
            pk = pop[0]
            dec = lambda res: [dec_payment(x)[2] for x in res.out] if res.ok else []
            if pk == "AddInitial":
                _, c, a1, a2 = pop
                r = vm.call(A[c], P, "addInitialLiquidity", [], [(L[1], 0, a1), (L[2], 0, a2)])
                outs = dec(r)
            elif pk == "Add":
                _, c, a1, a2, m1, m2 = pop
                r = vm.call(A[c], P, "addLiquidity", [top_u(m1), top_u(m2)], [(L[1], 0, a1), (L[2], 0, a2)])
                outs = dec(r)
            elif pk == "Remove":
                _, c, lp, m1, m2 = pop
                r = vm.call(A[c], P, "removeLiquidity", [top_u(m1), top_u(m2)], [(lpt, 0, lp)])
                outs = dec(r)
            elif pk == "SwapIn":
                _, c, tin, ain, tout, mn = pop
                r = vm.call(A[c], P, "swapTokensFixedInput", [L[tout], top_u(mn)], [(L[tin], 0, ain)])
                outs = dec(r)
            elif pk == "SwapOut":
                _, c, tin, amax, tout, aout = pop
                r = vm.call(A[c], P, "swapTokensFixedOutput", [L[tout], top_u(aout)], [(L[tin], 0, amax)])
                outs = dec(r)
            elif pk == "SetState":
                _, c, st = pop
                r = vm.call(A[c], P, {0: "pause", 1: "resume", 2: "setStateActiveNoSwaps"}[st])
            elif pk == "SetFee":
                _, c, f, sf = pop
                r = vm.call(A[c], P, "setFeePercents", [top_u(f), top_u(sf)])
            else:
                raise ValueError(pk)
        elif k == "DonateRouter":
            _, c, tok, amt = op
            r = vm.transfer(A[c], R, [(T[tok], 0, amt)])
        elif k == "AddCommon":
            _, c, tok = op
            r = vm.call(A[c], R, "addCommonTokensForUserPairs", [T[tok]])
            if r.ok and tok not in self.common:
                self.common.append(tok)
        elif k == "RemoveCommon":
            _, c, tok = op
            r = vm.call(A[c], R, "removeCommonTokensForUserPairs", [T[tok]])
            if r.ok and tok in self.common:
                self.common.remove(tok)
        elif k == "ConfigEnable":
            _, c, common, locked, minval, minep = op
            r = vm.call(A[c], R, "configEnableByUserParameters", [T[common], T[locked], top_u(minval), top_u(minep)])
            if r.ok:
                self.enable_cfg[common] = (locked, minval, minep)
        elif k == "EnableSwap":
            _, c, ad, ltok, orig, unlock, amt = op
            if ltok >= 8:
                # a locked position as simple-lock would have minted it: LockedTokenAttributes{original LP token, 0, unlock epoch}
                attrs = nest_bytes(lp_token(orig) if orig else b"OTHER-abcdef") + nest_u64(0) + nest_u64(unlock)
                vm.setbal(A[c], T[ltok], 1, amt, attrs)
                pay = (T[ltok], 1, amt)
            else:
                pay = (T[ltok], 0, amt)
            r = vm.call(A[c], R, "setSwapEnabledByUser", [A[ad]], [pay])
            o_locked = [vm.bal(R, T[8], 1), vm.bal(R, T[9], 1)]
        elif k in ("SetBlock", "SetEpoch"):
            pass
        else:
            raise ValueError(k)
        o = self.observe_state()
        if k == "EnableSwap":
            o["router_locked"] = o_locked
        o["ok"] = r.ok
        o["msg"] = r.msg
        o["outs"] = outs
        if not r.ok:
            o["unchanged"] = (self.digest() == pre_dig) and all(o["led"][x] == self.last["led"][x] for x in o["led"])
        o["pre"] = self.last
        self.last = {k_: o[k_] for k_ in ("active", "creation", "getpair", "all", "led", "pairs", "block", "epoch")}
        return o


# ------------------------------------------------------------------ Coq emission
def zlit(n):
    """Gallina Z literal; large values in hexadecimal (Coq parses long decimal literals slowly)"""
    if n < 0:
        return f"({n})"
    return hex(n) if n >= 10 ** 12 else str(n)


def coq_pop(op):
    return op[0] + " " + " ".join(zlit(x) for x in op[1:])


def coq_hops(hops):
    return "[" + "; ".join(f"({zlit(a)}, {zlit(f)}, {zlit(t)}, {zlit(v)})" for a, f, t, v in hops) + "]"


def coq_op(op):
    k = op[0]
    if k == "CreatePair":
        _, c, a, b, adder, fees, na = op
        fs = f"(Some ({zlit(fees[0])}, {zlit(fees[1])}))" if fees is not None else "None"
        return f"CreatePair {c} {a} {b} {adder} {fs} {na}"
    if k == "SetCreation":
        return f"SetCreation {op[1]} {'true' if op[2] else 'false'}"
    if k == "MultiSwap":
        _, c, tin, amt, hops = op
        return f"MultiSwap {c} {tin} {zlit(amt)} {coq_hops(hops)}"
    if k == "Direct":
        return f"Direct {op[1]} ({coq_pop(op[2])})"
    return k + " " + " ".join(zlit(x) for x in op[1:])


def coq_obs(o):
    outs = "[" + "; ".join(zlit(x) for x in o["outs"]) + "]"
    gp = "[" + "; ".join(f"({a}, {b}, {zlit(v)})" for (a, b), v in sorted(o["getpair"].items())) + "]"
    al = "[" + "; ".join(zlit(x) for x in o["all"]) + "]"
    led = "[" + "; ".join(f"({a}, {t}, {zlit(v)})" for (a, t), v in sorted(o["led"].items())) + "]"
    ps = []
    for pid, p in sorted(o["pairs"].items()):
        vec = [p["state"], p["r1"], p["r2"], p["S"], p["b1"], p["b2"], p["fee"], p["sfee"], p["lp"], p["fee_on"], p["t1"], p["t2"]]
        ps.append(f"({pid}, [" + "; ".join(zlit(x) for x in vec) + "])")
    b = lambda x: "true" if x else "false"
    return f"mkRObs {b(o['ok'])} {outs} {b(o['active'])} {b(o['creation'])} {gp} {al} {led} [{'; '.join(ps)}]"


def coq_init(cfg):
    led = "[" + "; ".join(f"({a}, {t}, {zlit(BIG)})" for a in (1, 2, 3, OWNER) for t in range(1, NTOK + 1)) + "]"
    return f"(init_world {led} {cfg.get('block', 1)})"


def coq_history(cfg, trace):
    items = ";\n    ".join(f"({coq_op(op)}, {coq_obs(o)})" for op, o in trace)
    return f"(check_trace {coq_init(cfg)} 0 [\n    {items}])"


# ------------------------------------------------------------------ AMM arithmetic used to aim amounts
def amount_out(fee, ain, rin, rout):
    d = rin * M + ain * (M - fee)
    return ain * (M - fee) * rout // d if d > 0 else 0


def amount_in(fee, aout, rin, rout):
    if not (0 < aout < rout) or fee >= M:
        return None
    return rin * aout * M // ((rout - aout) * (M - fee)) + 1


def log_amount(rng, hi=10 ** 30):
    e = rng.uniform(0, len(str(hi)) - 1)
    return max(1, int(10 ** e) + rng.randint(0, 9))


# ------------------------------------------------------------------ generation
def gen_cfg(rng):
    return dict(block=rng.choice([1, 1, 7, 1000]), style=rng.choice(["owner", "owner", "public", "mixed"]),
                target=rng.choice([2, 3, 3, 4]), twin=rng.random() < 0.6,
                enable=rng.random() < 0.55)


def registered_ids(s):
    """pair ids that are the getPair entry for the tokens they report (what check_is_pair_sc accepts)"""
    res = []
    for pid, p in s["pairs"].items():
        if p["t1"] != p["t2"] and s["getpair"].get((p["t1"], p["t2"])) == pid:
            res.append(pid)
    return res


def live(p):
    return p["lp"] == 1 and p["state"] == 1 and p["S"] > 0


def gen_create(rng, w, s, want_valid):
    users = list(range(1, NUSERS + 1))
    na = w.next_pair
    w.next_pair += 1
    free = [(a, b) for a in range(1, NTOK + 1) for b in range(1, NTOK + 1) if a != b and s["getpair"][(a, b)] == 0]
    taken = [(a, b) for a in range(1, NTOK + 1) for b in range(1, NTOK + 1) if a != b and s["getpair"][(a, b)] != 0]
    if want_valid and free:
        reg0 = registered_ids(s)
        ghosts = [(p["t1"], p["t2"]) for pid, p in s["pairs"].items() if pid not in reg0]
        ghost_free = [(a, b) for (a, b) in free if (a, b) in ghosts or (b, a) in ghosts]
        a, b = rng.choice(ghost_free) if ghost_free and rng.random() < 0.6 else rng.choice(free)
        if s["creation"] and rng.random() < (0.6 if w.cfg["style"] != "owner" else 0.25):
            c = rng.choice(users)
        else:
            c = OWNER
    else:
        roll = rng.random()
        if roll < 0.25 and free:
            # everything valid except, possibly, the caller's right to create
            a, b = rng.choice(free)
            c = rng.choice(users)
            return ["CreatePair", c, a, b, 0, None, na]
        if roll < 0.55 and taken:
            a, b = rng.choice(taken)            # existing pair, either order
        elif roll < 0.63:
            a = b = rng.randint(1, NTOK)
        elif roll < 0.71:
            a, b = rng.choice([(0, rng.randint(1, NTOK)), (rng.randint(1, NTOK), 0)])
        elif free:
            a, b = rng.choice(free)
        else:
            a, b = rng.sample(range(1, NTOK + 1), 2)
        c = rng.choice([OWNER] + users + users)
    if c == OWNER:
        fr = rng.random()
        if fr < 0.55:
            fees = [300, 50]
        elif fr < 0.85:
            f = rng.choice([0, 1, 30, 1000, 4999, 5000, rng.randint(0, 5000)])
            fees = [f, rng.choice([0, f, f // 2, rng.randint(0, f)])]
        elif fr < 0.9:
            fees = None
        else:
            f = rng.choice([5001, 99999, 100000, 6000, 10])
            fees = [f, rng.choice([0, 50, f, f + 1])]
    else:
        fees = rng.choice([None, None, None, [1, 1]])
    adder = 0 if rng.random() < 0.8 else rng.choice(users)
    if w.cfg.get("enable") and w.enable_cfg and want_valid and rng.random() < 0.6:
        withc = [(x, y) for (x, y) in free if x in w.enable_cfg or y in w.enable_cfg]
        if withc:
            a, b = rng.choice(withc)
            adder = c if c != OWNER else rng.choice(users)
    return ["CreatePair", c, a, b, adder, fees, na]


def gen_enable(rng, w, s, pid, valid):
    """setSwapEnabledByUser on pair `pid`: aimed at success when `valid`, else one argument off"""
    users = list(range(1, NUSERS + 1))
    p = s["pairs"][pid]
    adder = w.adders.get(pid)
    common = next((t for t in (p["t1"], p["t2"]) if t in w.common), None)
    cfg = w.enable_cfg.get(common) if common else None
    ltok, minval, minep = cfg if cfg else (8, 1, 0)
    rsv = p["r1"] if common == p["t1"] else p["r2"]
    S = max(1, p["S"])
    need = max(1, (minval * S + rsv - 1) // rsv) if rsv > 0 else S
    amt = need + rng.choice([0, 0, 1, need, S])
    if minval == 0 and rng.random() < 0.3:
        amt = 0
    unlock = s["epoch"] + minep + rng.choice([0, 0, 1, 5, 100])
    c = adder or rng.choice(users)
    op = ["EnableSwap", c, pid, ltok, pid, unlock, amt]
    if not valid:
        kind = rng.randrange(6)
        if kind == 0:
            op[1] = rng.choice([u for u in users + [OWNER] if u != c])
        elif kind == 1:
            op[3] = rng.choice([9, 9, 1, 2]) if ltok == 8 else 8
        elif kind == 2:
            op[4] = rng.choice([0] + [q for q in s["pairs"] if q != pid])
        elif kind == 3:
            op[5] = max(0, s["epoch"] + minep - rng.choice([1, 1, 2, minep + 5]))
        elif kind == 4:
            op[6] = max(0, need - rng.choice([1, 1, 2, need]))
        else:
            others = [q for q in s["pairs"] if q != pid]
            op[2] = rng.choice(others + [TEMPLATE, c]) if others else TEMPLATE
    return op


def bootstrap_step(rng, w, s, pid):
    """the next set-up action that brings pair `pid` closer to active-with-liquidity"""
    p = s["pairs"][pid]
    reg = pid in registered_ids(s)
    users = list(range(1, NUSERS + 1))
    if p["lp"] == 0:
        if reg and pid in w.creators:
            cr, blk = w.creators[pid]
            r = rng.random()
            tgt = blk + rng.choice([TEMP_PERIOD - 1, TEMP_PERIOD, TEMP_PERIOD, TEMP_PERIOD + 1])
            if r < 0.12 and tgt > s["block"]:
                return ["SetBlock", tgt]
            if r < 0.36:
                who = cr if rng.random() < 0.55 else rng.choice(users + [OWNER])
                return ["IssueLp", who, pid]
        return ["SetLp", OWNER, pid]
    if p["S"] == 0:
        a1 = rng.randint(1, 9) * 10 ** rng.choice([4, 5, 6, 8, 10, 12, 15, 18]) + rng.randint(1001, 3000)
        ratio = rng.choice([1, 1, 2, 3, 7, 10, 100, 1000])
        a2 = a1 * ratio if rng.random() < 0.5 else max(2001, a1 // ratio)
        a2 += rng.randint(0, 999)
        adder = w.adders.get(pid)
        if adder:
            if p["state"] != 0:
                return ["Direct", pid, ["SetState", OWNER, 0]]
            return ["Direct", pid, ["AddInitial", adder, a1, a2]]
        if p["state"] == 0:
            if reg and s["active"] is not None and rng.random() < 0.8:
                return ["Resume", OWNER, pid]
            return ["Direct", pid, ["SetState", OWNER, 1]]
        return ["Direct", pid, ["Add", rng.choice(users + [OWNER]), a1, a2, 1, 1]]
    if p["state"] != 1:
        if p["state"] == 0 and w.__dict__.get("paused_enable") == pid and w.adders.get(pid) and w.enable_cfg:
            # the owner paused the adder's pair before it opened: the adder's (otherwise valid) setSwapEnabledByUser must
            # be refused - only a pair in ActiveNoSwaps state may be opened by its initial liquidity adder
            w.paused_enable = None
            return gen_enable(rng, w, s, pid, True)
        if p["state"] == 2 and w.adders.get(pid) and w.enable_cfg and rng.random() < 0.85:
            if reg and rng.random() < 0.3:
                w.paused_enable = pid
                return ["Pause", OWNER, pid]
            if reg and rng.random() < 0.2:
                return ["RemovePair", OWNER, p["t1"], p["t2"]]      # the adder's pair is delisted before it opens
            return gen_enable(rng, w, s, pid, rng.random() < 0.7)
        if reg and rng.random() < 0.8:
            return ["Resume", OWNER, pid]
        return ["Direct", pid, ["SetState", OWNER, 1]]
    return None


def sim_pairs(s):
    return {pid: dict(p) for pid, p in s["pairs"].items()}


def gen_multiswap(rng, w, s):
    users = list(range(1, NUSERS + 1))
    c = rng.choice(users)
    reg = registered_ids(s)
    good = [pid for pid in reg if live(s["pairs"][pid])]
    foreign_pairs = [pid for pid in s["pairs"] if pid not in reg]
    nonpair = users + [TEMPLATE, ROUTER, OWNER]
    sim = sim_pairs(s)
    n = rng.choice([1, 1, 2, 2, 2, 3, 3, 3, 4, 4])
    bad = rng.random()
    # starting token: one that some good pair trades
    toks = sorted({t for pid in good for t in (sim[pid]["t1"], sim[pid]["t2"])})
    if not toks:
        toks = list(range(1, NTOK + 1))
    tin = rng.choice(toks)
    cur_t = tin
    hops = []
    first_pool = [pid for pid in good if cur_t in (sim[pid]["t1"], sim[pid]["t2"])]
    if first_pool:
        p0 = sim[rng.choice(first_pool)]
        rin0 = p0["r1"] if p0["t1"] == cur_t else p0["r2"]
    else:
        rin0 = 10 ** 6
    cls = rng.random()
    if cls < 0.7:
        amt = max(1, rin0 // rng.choice([2, 3, 5, 10, 20, 50, 100, 1000]) + rng.randint(-2, 2))
    elif cls < 0.82:
        amt = log_amount(rng, max(10, rin0 * 3))
    elif cls < 0.88:
        amt = rng.randint(1, 30)
    else:
        amt = rin0 * rng.choice([1, 2, 10]) + rng.randint(0, 9)
    cur = amt
    foreign_at = rng.randrange(n) if bad < 0.10 else None
    for i in range(n):
        cands = [pid for pid in good if cur_t in (sim[pid]["t1"], sim[pid]["t2"])]
        if foreign_at == i or not cands:
            fk = rng.random()
            fcands = [pid for pid in foreign_pairs if cur_t in (sim[pid]["t1"], sim[pid]["t2"])]
            if fk < 0.75 and fcands:
                ad = rng.choice(fcands)
            elif fk < 0.82 and foreign_pairs:
                ad = rng.choice(foreign_pairs)
            elif fk < 0.9 or not reg:
                ad = rng.choice(nonpair)
            else:
                ad = rng.choice(reg)          # registered, but not trading the current token / not live
            if ad in sim:
                p = sim[ad]
                tw = p["t2"] if p["t1"] == cur_t else p["t1"]
            else:
                tw = rng.choice([t for t in range(1, NTOK + 1) if t != cur_t])
            hops.append([ad, rng.choice([0, 1]), tw, max(1, cur // 3)])
            cur_t, cur = tw, max(1, cur // 3)
            continue
        fresh_c = [x for x in cands if not hops or x != hops[-1][0]]
        ad = rng.choice(fresh_c) if fresh_c and rng.random() < 0.8 else rng.choice(cands)
        p = sim[ad]
        fwd = p["t1"] == cur_t
        tw = p["t2"] if fwd else p["t1"]
        ri, ro = (p["r1"], p["r2"]) if fwd else (p["r2"], p["r1"])
        fee = p["fee"]
        spec = cur * p["sfee"] // M if p["fee_on"] else 0
        fr = rng.random()
        if fr < 0.015:
            hops.append([ad, rng.choice([2, 3]), tw, 1])
            continue
        if fr < 0.03:
            tw = rng.choice([t for t in range(0, NTOK + 1) if t != tw])
        if fr < 0.55:
            exp = amount_out(fee, cur, ri, ro)
            m = rng.random()
            mn = 1 if m < 0.7 else max(1, exp + rng.choice([-2, -1, 0, 0, 0, 1, 3]))
            hops.append([ad, 0, tw, mn])
            out, used = exp, cur
        else:
            omax = amount_out(fee, cur, ri, ro)
            m = rng.random()
            if omax <= 0:
                aout = 1
            elif m < 0.55:
                aout = rng.randint(1, omax)
            elif m < 0.8:
                aout = max(1, omax - rng.choice([0, 0, 1, 2]))
            elif m < 0.9:
                aout = rng.randint(1, min(omax, 20))
            else:
                aout = omax + rng.choice([1, 2, ro])
            hops.append([ad, 1, tw, aout])
            need = amount_in(fee, aout, ri, ro)
            out, used = aout, (need if need is not None else cur)
        # simulated reserves for a later hop through the same pair (exact when no special fee is taken)
        if fwd:
            p["r1"], p["r2"] = ri + used - (used * p["sfee"] // M if p["fee_on"] else 0), max(0, ro - out)
        else:
            p["r2"], p["r1"] = ri + used - (used * p["sfee"] // M if p["fee_on"] else 0), max(0, ro - out)
        cur_t, cur = tw, max(0, out)
        if cur == 0:
            cur = 1
    if 0.88 < bad <= 0.96:
        idx = list(range(len(hops)))
        rng.shuffle(idx)
        for i in idx:
            ad = hops[i][0]
            if ad in s["pairs"]:
                key = {s["pairs"][ad]["t1"], s["pairs"][ad]["t2"]}
                tw_ = [pid for pid in foreign_pairs if {s["pairs"][pid]["t1"], s["pairs"][pid]["t2"]} == key and live(s["pairs"][pid])]
                if tw_:
                    hops[i][0] = rng.choice(tw_)
                    if hops[i][1] == 0:
                        hops[i][3] = 1
                    break
    if bad > 0.985:
        hops = []
    if 0.975 < bad <= 0.985:
        amt = 0
    return ["MultiSwap", c, tin, amt, hops]


def gen_op(rng, w, stats):
    s = w.last
    users = list(range(1, NUSERS + 1))
    reg = registered_ids(s)
    pairs = s["pairs"]
    good = [pid for pid in reg if live(pairs[pid])]
    foreign_pairs = [pid for pid in pairs if pid not in reg]
    nonpair = users + [TEMPLATE, OWNER]
    roll = rng.random()
    if not s["active"]:
        # router paused: resume it, or try the endpoints that must (not) care about the router's own state
        pr = rng.random()
        if pr < 0.45:
            return ["Resume", OWNER, ROUTER]
        taken = [(a, b) for (a, b), v in s["getpair"].items() if v != 0]
        if pr < 0.53:
            return gen_create(rng, w, s, True)
        if pr < 0.60 and taken:
            a, b = rng.choice(taken)
            return [rng.choice(["RemovePair", "UpgradePair"]), OWNER, a, b]
        if pr < 0.72 and reg:
            return [rng.choice(["Pause", "Resume"]), OWNER, rng.choice(reg)]
        if pr < 0.80 and reg:
            ad = rng.choice(reg)
            return ["RSetFeeOn", OWNER, ad, rng.choice(users), pairs[ad]["t1"]]
        if pr < 0.86 and reg:
            return [rng.choice(["SetLocalRoles", "IssueLp"]), OWNER, rng.choice(reg)]
        if pr < 0.95 and good:
            return gen_multiswap(rng, w, s)
        return ["SetCreation", OWNER, rng.random() < 0.5]
    if rng.random() < 0.02:
        return ["Pause", OWNER, ROUTER]
    if w.cfg["style"] != "owner" and not s["creation"] and rng.random() < 0.25:
        return ["SetCreation", OWNER, True]
    if w.cfg.get("enable") and rng.random() < 0.5:
        if not w.common:
            return ["AddCommon", OWNER, rng.randint(1, NTOK)]
        if not w.enable_cfg:
            return ["ConfigEnable", OWNER, rng.choice(w.common), 8, rng.choice([0, 1, 1000, 100000, 10 ** 7]), rng.choice([0, 0, 10, 100])]
    # pairs waiting in ActiveNoSwaps for their adder, registered or not (removed ones must be refused)
    waiting = [pid for pid in pairs if pairs[pid]["state"] == 2 and w.adders.get(pid) and pid not in reg]
    if waiting and w.enable_cfg and rng.random() < (0.07 if w.__dict__.get("tried_removed") else 0.6):
        w.tried_removed = True      # the first attempt on a delisted pair comes soon after the delisting, with valid arguments
        return gen_enable(rng, w, s, rng.choice(waiting), rng.random() < 0.85)
    # bootstrap: enough live registered pairs
    if len(good) < w.cfg["target"] and rng.random() < 0.93:
        pending = [pid for pid in reg if not live(pairs[pid])]
        if pending and rng.random() < 0.85:
            st = bootstrap_step(rng, w, s, rng.choice(pending))
            if st:
                return st
        if s["active"]:
            op = gen_create(rng, w, s, True)
            if op[4]:
                w.adders[op[6]] = op[4]
            return op
    # foreign pairs get liquidity too, so that a swap through them would succeed if it were allowed
    pend_f = [pid for pid in foreign_pairs if not live(pairs[pid])]
    have_twin = any(s["getpair"].get((pairs[pid]["t1"], pairs[pid]["t2"]), 0) for pid in foreign_pairs)
    if w.cfg.get("twin") and good and not have_twin and rng.random() < 0.3:
        g = pairs[rng.choice(good)]
        na = w.next_pair
        w.next_pair += 1
        a, b = (g["t1"], g["t2"]) if rng.random() < 0.5 else (g["t2"], g["t1"])
        return ["DeployPair", a, b, g["fee"], g["sfee"], na]
    if pend_f and rng.random() < (0.6 if w.cfg.get("twin") else 0.35):
        st = bootstrap_step(rng, w, s, rng.choice(pend_f))
        if st:
            return st
    withd0 = [x for x in w.feedests if w.feedests[x]]
    if withd0 and s["active"] and rng.random() < 0.05:
        ad = rng.choice(withd0)
        dest, tok = rng.choice(w.feedests[ad])
        return ["RSetFeeOff", OWNER, ad, dest, tok]
    if good and (roll < 0.42 or rng.random() < 0.18):
        return gen_multiswap(rng, w, s)
    if roll < 0.50:
        op = gen_create(rng, w, s, rng.random() < 0.35)
        if op[4]:
            w.adders[op[6]] = op[4]
        return op
    if roll < 0.55:
        # remove: existing (either order) mostly by the owner, sometimes absent / non-owner
        taken = [(a, b) for (a, b), v in s["getpair"].items() if v != 0]
        if taken and rng.random() < 0.8:
            a, b = rng.choice(taken)
        else:
            a, b = rng.choice([(x, y) for x in range(0, NTOK + 1) for y in range(1, NTOK + 1)])
        return ["RemovePair", rng.choice([OWNER] * 4 + users), a, b]
    if roll < 0.58:
        return ["SetCreation", rng.choice([OWNER] * 4 + users), rng.random() < 0.6]
    if roll < 0.615:
        na = w.next_pair
        w.next_pair += 1
        taken = [(a, b) for (a, b), v in s["getpair"].items() if v != 0]
        if taken and rng.random() < 0.85:
            a, b = rng.choice(taken)        # same tokens as a registered pair
        else:
            a, b = rng.choice([(x, y) for x in range(0, NTOK + 1) for y in range(1, NTOK + 1)])
        f = rng.choice([300, 300, 0, 5000, 5001])
        return ["DeployPair", a, b, f, rng.choice([50, 0, f, f + 1]) if f else 0, na]
    twins = [pid for pid in foreign_pairs if s["getpair"].get((pairs[pid]["t1"], pairs[pid]["t2"]), 0)]
    anyaddr = lambda: rng.choice(reg * 5 + foreign_pairs * 2 + twins * 6 + nonpair) if (reg or foreign_pairs) else rng.choice(nonpair)
    if roll < 0.66:
        c = rng.choice([OWNER] * 5 + users)
        ad = rng.choice([ROUTER] + reg * 4 + foreign_pairs * 2 + twins * 5 + nonpair) if rng.random() < 0.9 else ROUTER
        kind = "Pause" if rng.random() < 0.35 else "Resume"
        return [kind, c, ad]
    if roll < 0.71:
        c = rng.choice([OWNER] * 6 + users)
        ad = anyaddr()
        dest = rng.choice(users)
        if ad in pairs and rng.random() < 0.85:
            tok = rng.choice([pairs[ad]["t1"], pairs[ad]["t2"]])
        else:
            tok = rng.randint(1, NTOK)
        kind = rng.choice(["RSetFeeOn", "RSetFeeOn", "RSetFeeOff"])
        withd = [x for x in w.feedests if w.feedests[x]]
        if withd and rng.random() < 0.5:
            kind = "RSetFeeOff"
        elif not withd and rng.random() < 0.85:
            kind = "RSetFeeOn"
        if kind == "RSetFeeOff" and withd and rng.random() < 0.85:
            ad = rng.choice(withd)
            dest, tok = rng.choice(w.feedests[ad])
        return [kind, c, ad, dest, tok]
    if roll < 0.74:
        return ["SetLocalRoles", rng.choice(users + [OWNER]), anyaddr()]
    if roll < 0.78:
        return ["IssueLp", rng.choice(users + [OWNER, OWNER]), anyaddr()]
    if roll < 0.80:
        taken = [(a, b) for (a, b), v in s["getpair"].items() if v != 0]
        a, b = rng.choice(taken) if taken and rng.random() < 0.8 else rng.sample(range(1, NTOK + 1), 2)
        return ["UpgradePair", rng.choice([OWNER] * 4 + users), a, b]
    if roll < 0.83:
        nolp = [pid for pid in reg if pairs[pid]["lp"] == 0 and pid in w.creators]
        if nolp and rng.random() < 0.7:
            tgt = w.creators[rng.choice(nolp)][1] + rng.choice([TEMP_PERIOD - 1, TEMP_PERIOD, TEMP_PERIOD, TEMP_PERIOD + 1])
            if tgt > s["block"]:
                return ["SetBlock", tgt]
        return ["SetBlock", s["block"] + rng.choice([1, 1, 5, 49, 50, 51, 1000])]
    if roll < 0.86:
        return ["DonateRouter", rng.choice(users + [OWNER]), rng.randint(1, NTOK), log_amount(rng, 10 ** 12)]
    if roll < 0.88:
        nolp = [pid for pid in pairs if pairs[pid]["lp"] == 0]
        ad = rng.choice(nolp) if nolp and rng.random() < 0.7 else (rng.choice(list(pairs)) if pairs else None)
        if ad is not None:
            return ["SetLp", rng.choice([OWNER] * 5 + users), ad]
    if roll < 0.915:
        er = rng.random()
        if er < 0.25:
            return ["AddCommon", rng.choice([OWNER] * 4 + users), rng.randint(0, NTOK)]
        if er < 0.35:
            return ["RemoveCommon", rng.choice([OWNER] * 4 + users), rng.randint(1, NTOK)]
        if er < 0.55:
            cm = rng.choice(w.common) if w.common and rng.random() < 0.8 else rng.randint(1, NTOK)
            return ["ConfigEnable", rng.choice([OWNER] * 4 + users), cm, rng.choice([8, 8, 9]),
                    rng.choice([1, 1000, 100000, 10 ** 7]), rng.choice([0, 0, 10, 100])]
        if er < 0.7:
            return ["SetEpoch", s["epoch"] + rng.choice([1, 1, 9, 10, 99, 100])]
        cand = [pid for pid in pairs if pairs[pid]["state"] == 2] or list(pairs)
        if cand:
            return gen_enable(rng, w, s, rng.choice(cand), rng.random() < 0.5)
    # direct pair traffic by users
    livep = [pid for pid in pairs if live(pairs[pid])]
    if livep:
        ad = rng.choice(livep)
        p = pairs[ad]
        c = rng.choice(users)
        kind = rng.random()
        tin = rng.choice([1, 2])
        ri, ro = (p["r1"], p["r2"]) if tin == 1 else (p["r2"], p["r1"])
        if kind < 0.35:
            ain = log_amount(rng, max(10, ri * 3))
            return ["Direct", ad, ["SwapIn", c, tin, ain, 3 - tin, 1]]
        if kind < 0.6:
            aout = rng.randint(1, max(1, ro - 1))
            need = amount_in(p["fee"], aout, ri, ro) or 10 ** 6
            return ["Direct", ad, ["SwapOut", c, tin, need + rng.choice([0, 1, 100, need]), 3 - tin, aout]]
        if kind < 0.85:
            a1 = log_amount(rng, max(10, p["r1"] * 2))
            a2 = max(1, a1 * p["r2"] // max(1, p["r1"]) + rng.choice([-1, 0, 1]))
            return ["Direct", ad, ["Add", c, a1, a2, 1, 1]]
        if kind < 0.93:
            return ["Direct", ad, ["SetFee", OWNER, rng.choice([0, 100, 300, 1000, 5000]), 0]]
        return ["Direct", ad, ["SetState", OWNER, rng.choice([0, 1, 2])]]
    return gen_multiswap(rng, w, s) if good else gen_create(rng, w, s, True)


def gen_history(seed, nops):
    rng = random.Random(seed)
    cfg = gen_cfg(rng)
    w = RouterWorld(cfg)
    trace = []
    stats = {}
    try:
        for _ in range(nops):
            op = gen_op(rng, w, stats)
            o = w.exec(op)
            trace.append((op, o))
    finally:
        w.close()
    return cfg, trace


def replay_history(cfg, ops):
    w = RouterWorld(cfg)
    trace = []
    try:
        for op in ops:
            trace.append((op, w.exec(op)))
    finally:
        w.close()
    return trace
