"""Metastaking subsystem (C15): the real farm-staking-proxy composed with the real pair, the real
farm-with-locked-rewards (LP farm), the real farm-staking, the real energy-factory (locks the LP-farm
rewards) and permissions-hub, deployed through mxvm the way
farm-staking/farm-staking-proxy/tests/staking_farm_with_lp_*_setup do (init arguments, roles,
whitelists through endpoints; token-id mappers that need the ESDT system SC through vm.sset).

Model ids (coq/Model/MetaStaking.v): users 1..NUSERS; token codes 0 = LP token, 1 = staking token,
2 = the other pool token, 3 = LP-farm reward (locked) token, 10 = LP-farm token, 11 = staking-farm
token (also the unbond token), 12 = dual-yield token, 99 = anything else.

Operations (JSON-able lists):
  ["Stake", u, pays, oc]             stakeFarmTokens; pays = [[tok, nonce, amount], ...]; oc = pass an opt_orig_caller
  ["Claim", u, pays, oc]             claimDualYield
  ["Unstake", u, pays, m1, m2, oc]   unstakeFarmTokens
  ["Xfer", src, dst, nonce, amt]     plain transfer of dual-yield tokens between users
environment only (not operations of the proxy; exec returns None):
  ["Time", dblocks, drounds, depochs]
  ["Swap", dir, amount]              the trader swaps on the pair (dir 1: sells the first token)
  ["Enter", u, amount]               user adds liquidity and enters the LP farm (new LP-farm position)
  ["Energy", u, amount]              user locks base tokens in the energy factory

The farms and the pair are an ENVIRONMENT for the model: what they answered in a successful
transaction is measured from balance changes of the proxy / the pair / the user and from pre-call
view queries at the same block (never from the dual-yield attributes the proxy wrote), and is
handed to the model as the [env] argument of the operation.
"""
import random
from vmx import *

WEGLD, RIDE, LPT = b"WEGLD-abcdef", b"RIDE-abcdef", b"LPTOK-abcdef"
LPF, SFT, DY = b"LPFARM-abcdef", b"STKFARM-abcdef", b"DYIELD-abcdef"
MEX, LOCKED, LEGACY = b"MEX-123456", b"LOCKED-123456", b"LEGACY-123456"
NUSERS = 3
OWNER, TRADER = 100, 50
BIG = 10 ** 60
TK_LP, TK_STK, TK_OTH, TK_REW, TK_LPF, TK_SF, TK_DY, TK_X = 0, 1, 2, 3, 10, 11, 12, 99
TOKID = {TK_LP: LPT, TK_STK: RIDE, TK_OTH: WEGLD, TK_REW: LOCKED, TK_LPF: LPF, TK_SF: SFT, TK_DY: DY, TK_X: MEX}
CODE = {LPT: TK_LP, RIDE: TK_STK, WEGLD: TK_OTH, LOCKED: TK_REW, LPF: TK_LPF, SFT: TK_SF, DY: TK_DY}
LOCK_OPTIONS = ((360, 4000), (1800, 6000), (3600, 8000))


def zlit(n):
    return f"({n})" if n < 0 else str(n)


def dec_dy(b):
    d = Dec(b)
    r = (d.u64(), d.big(), d.u64(), d.big())
    assert d.done()
    return r


def dec_struct_payments(b):
    d = Dec(b)
    out = []
    while not d.done():
        out.append(d.payment())
    return out


def part_of(attr, p):
    """DualYieldTokenAttributes::into_part — used by the HARNESS only to know which liquidity amount
    to price before the call and which farm-token nonces to look at; None = the call will say Zero amount"""
    lpn, L, sfn, T = attr
    if p == T:
        return (lpn, L, sfn, T)
    if T == 0:
        return None
    x = L * p // T
    return (lpn, x, sfn, p) if x > 0 else None


class MetaWorld:
    def __init__(self, cfg):
        """cfg: stk_first, r_oth, r_stk (initial reserves), fee, lp_rate, stk_rate, apr, boost, energy, seed_lp"""
        self.cfg = cfg
        vm = self.vm = VM()
        A = self.addr = {OWNER: user_addr("owner"), TRADER: user_addr("trader")}
        for u in range(1, NUSERS + 1):
            A[u] = user_addr(f"user{u}")
        self.pair, self.lpfarm, self.stk, self.proxy, self.efact, self.hub = [
            sc_addr(n) for n in ("pair", "lpfarm", "staking", "proxy", "efactory", "permhub")]
        for a in A.values():
            vm.acct(a)
        self.blk, self.rnd, self.ep = 5, 1, 5
        self._block()
        own = A[OWNER]
        # --- energy factory (setup_energy_factory)
        args = [MEX, LEGACY, self.efact, top_u(0)]
        for e, p in LOCK_OPTIONS:
            args += [top_u(e), top_u(p)]
        r = vm.deploy(own, "energy-factory", args, new_addr=self.efact)
        assert r.ok, r
        vm.sset(self.efact, b"lockedTokenId", LOCKED)
        vm.roles(self.efact, MEX, ["ESDTRoleLocalMint", "ESDTRoleLocalBurn"])
        vm.roles(self.efact, LOCKED, ["ESDTRoleNFTCreate", "ESDTRoleNFTAddQuantity", "ESDTRoleNFTBurn", "ESDTTransferRole"])
        assert vm.call(own, self.efact, "unpause").ok
        # --- pair (setup_pair); the staking token is the first or the second pool token
        self.first, self.second = (RIDE, WEGLD) if cfg["stk_first"] else (WEGLD, RIDE)
        r = vm.deploy(own, "pair", [self.first, self.second, own, own, top_u(cfg["fee"]), top_u(min(50, cfg["fee"])), ZERO_ADDR],
                      new_addr=self.pair)
        assert r.ok, r
        assert vm.call(own, self.pair, "setLpTokenIdentifier", [LPT]).ok
        vm.roles(self.pair, LPT, ["ESDTRoleLocalMint", "ESDTRoleLocalBurn"])
        assert vm.call(own, self.pair, "resume").ok
        # token codes of the pair's first / second token, as the pair itself reports them
        self.pool_codes = tuple(CODE.get(vm.query(self.pair, f).out[0], TK_X) for f in ("getFirstTokenId", "getSecondTokenId"))
        for a in A.values():
            vm.setbal(a, WEGLD, 0, BIG)
            vm.setbal(a, RIDE, 0, BIG)
            vm.setbal(a, MEX, 0, BIG)
        res = {RIDE: cfg["r_stk"], WEGLD: cfg["r_oth"]}
        r = vm.call(own, self.pair, "addLiquidity", [top_u(1), top_u(1)],
                    [(self.first, 0, res[self.first]), (self.second, 0, res[self.second])])
        assert r.ok, r
        # --- LP farm (setup_lp_farm): farm-with-locked-rewards, rewards locked by the energy factory
        # (pair address zero as in the repository's setup: the early-exit penalty is burned locally)
        r = vm.deploy(own, "farm-with-locked-rewards", [MEX, LPT, top_u(10 ** 12), ZERO_ADDR, own], new_addr=self.lpfarm)
        assert r.ok, r
        vm.sset(self.lpfarm, b"farm_token_id", LPF)
        vm.roles(self.lpfarm, LPF, ["ESDTRoleNFTCreate", "ESDTRoleNFTAddQuantity", "ESDTRoleNFTBurn"])
        vm.roles(self.lpfarm, LPT, ["ESDTRoleLocalBurn"])
        calls = [("setLockingScAddress", [self.efact]), ("setLockEpochs", [top_u(LOCK_OPTIONS[2][0])]),
                 ("setEnergyFactoryAddress", [self.efact]), ("setPerBlockRewardAmount", [top_u(cfg["lp_rate"])]),
                 ("set_minimum_farming_epochs", [top_u(cfg["minep"])]), ("set_penalty_percent", [top_u(cfg["pen"])]),
                 ("resume", []), ("startProduceRewards", [])]
        if cfg["boost"]:
            calls += [("setBoostedYieldsRewardsPercentage", [top_u(2500)]),
                      ("setBoostedYieldsFactors", [top_u(10), top_u(3), top_u(2), top_u(1), top_u(1)])]
        for f, a in calls:
            r = vm.call(own, self.lpfarm, f, a)
            assert r.ok, (f, r)
        r = vm.deploy(own, "permissions-hub", [], new_addr=self.hub)
        assert r.ok, r
        # --- staking farm (setup_staking_farm)
        r = vm.deploy(own, "farm-staking", [RIDE, top_u(10 ** 12), top_u(cfg["apr"]), top_u(10), own], new_addr=self.stk)
        assert r.ok, r
        vm.sset(self.stk, b"farm_token_id", SFT)
        vm.roles(self.stk, SFT, ["ESDTRoleNFTCreate", "ESDTRoleNFTAddQuantity", "ESDTRoleNFTBurn"])
        calls = [("setEnergyFactoryAddress", [self.efact], []), ("topUpRewards", [], [(RIDE, 0, 10 ** 40)]),
                 ("setPerBlockRewardAmount", [top_u(cfg["stk_rate"])], []), ("resume", [], []), ("startProduceRewards", [], [])]
        if cfg["boost"]:
            calls += [("setBoostedYieldsRewardsPercentage", [top_u(2500)], []),
                      ("setBoostedYieldsFactors", [top_u(10), top_u(3), top_u(2), top_u(1), top_u(1)], [])]
        for f, a, p in calls:
            r = vm.call(own, self.stk, f, a, p)
            assert r.ok, (f, r)
        # --- proxy (setup_proxy) + whitelists (FarmStakingSetup::new)
        r = vm.deploy(own, "farm-staking-proxy", [self.efact, self.lpfarm, self.stk, self.pair, RIDE, LPF, SFT, LPT],
                      new_addr=self.proxy)
        assert r.ok, r
        vm.sset(self.proxy, b"dualYieldTokenId", DY)
        vm.roles(self.proxy, DY, ["ESDTRoleNFTCreate", "ESDTRoleNFTAddQuantity", "ESDTRoleNFTBurn"])
        assert vm.call(own, self.proxy, "setPermissionsHubAddress", [self.hub]).ok
        assert vm.call(own, self.stk, "addSCAddressToWhitelist", [self.proxy]).ok
        assert vm.call(own, self.lpfarm, "addSCAddressToWhitelist", [self.proxy]).ok
        assert vm.call(own, self.efact, "addSCAddressToWhitelist", [self.lpfarm]).ok
        # --- users: energy, LP-farm positions; a first trade so that the oracle has an observation
        self.dy_attrs = {}          # nonce -> attributes, as first read from the real token
        self.seen = {TK_LPF: set(), TK_SF: set()}
        self.released = {}          # dual-yield nonce -> [LP-farm amount, staking-farm amount] that left the proxy for it
        self.env_ops = 0
        self.skipped = 0
        self.advance(1, 1, 0)
        for u in range(1, NUSERS + 1):
            if cfg["energy"].get(str(u)):
                self.exec(["Energy", u, cfg["energy"][str(u)]])
            for amt in cfg["seed_lp"][u - 1]:
                self.exec(["Enter", u, amt])
        self.advance(1, 3, 0)
        self.exec(["Swap", 1, max(1, res[self.first] // 50)])
        self.advance(2, 7, 0)
        self.last = self.observe()

    def close(self):
        self.vm.close()

    def _block(self):
        self.vm.block(nonce=self.blk, round_=self.rnd, epoch=self.ep, ts=6 * self.rnd)

    def advance(self, db, dr, de):
        self.blk += db
        self.rnd += dr
        self.ep += de
        self._block()

    # ------------------------------------------------------------ observation
    def tokmap(self, a):
        """{(token code, nonce): amount}; locked reward token summed over its nonces"""
        m = {}
        for t, n, x in self.vm.tokens(a):
            c = CODE.get(t, TK_X)
            key = (c, n if c in (TK_LPF, TK_SF, TK_DY) else 0)
            m[key] = m.get(key, 0) + x
        return m

    def q2(self, f, args):
        r = self.vm.query(self.pair, f, args)
        if not r.ok or len(r.out) != 2:
            return None
        p1, p2 = dec_payment(r.out[0]), dec_payment(r.out[1])
        return (CODE.get(p1[0], TK_X), p1[2], CODE.get(p2[0], TK_X), p2[2])

    def safe_view(self, liq):
        return self.q2("getLpTokensSafePriceByDefaultOffset", [self.pair, top_u(liq)])

    def spot_view(self, liq):
        return self.q2("getTokensForGivenPosition", [top_u(liq)])

    def stk_supply(self):
        r = self.vm.query(self.stk, "getFarmTokenSupply")
        return from_top_u(r.out[0]) if r.ok and r.out else 0

    def observe(self):
        vm = self.vm
        pm = self.tokmap(self.proxy)
        for (c, n), x in pm.items():
            if c in self.seen:
                self.seen[c].add(n)
        hold, users_tok = {}, {}
        for u in range(1, NUSERS + 1):
            um = self.tokmap(self.addr[u])
            users_tok[u] = um
            for (c, n), x in um.items():
                if c in self.seen:       # farm / unbond tokens in users' hands: the proxy must NOT hold them
                    self.seen[c].add(n)
                if c == TK_DY:
                    hold[n * 1000 + u] = x
                    if n not in self.dy_attrs:
                        self.dy_attrs[n] = dec_dy(vm.attrs(self.addr[u], DY, n))
        for n in self.dy_attrs:
            for u in range(1, NUSERS + 1):
                hold.setdefault(n * 1000 + u, 0)
        sup = {n: sum(hold[n * 1000 + u] for u in range(1, NUSERS + 1)) for n in self.dy_attrs}
        o = dict(lpf={n: pm.get((TK_LPF, n), 0) for n in sorted(self.seen[TK_LPF])},
                 sf={n: pm.get((TK_SF, n), 0) for n in sorted(self.seen[TK_SF])},
                 fung={c: pm.get((c, 0), 0) for c in (TK_LP, TK_STK, TK_OTH, TK_REW, TK_X)},
                 proxy_dy=sum(x for (c, n), x in pm.items() if c == TK_DY),
                 attrs=dict(self.dy_attrs), hold=hold, sup=sup,
                 users={u: {f"{c}:{n}": x for (c, n), x in m.items()} for u, m in users_tok.items()},
                 released={n: list(v) for n, v in self.released.items()},
                 blk=self.blk, rnd=self.rnd, ep=self.ep)
        return o

    # ------------------------------------------------------------ execution
    def exec(self, op):
        vm = self.vm
        A = self.addr
        k = op[0]
        if k == "Time":
            self.advance(op[1], op[2], op[3])
            return None
        if k == "Swap":
            _, d, amt = op
            tin, tout = (self.first, self.second) if d == 1 else (self.second, self.first)
            vm.call(A[TRADER], self.pair, "swapTokensFixedInput", [tout, top_u(1)], [(tin, 0, amt)])
            self.env_ops += 1
            return None
        if k == "Enter":
            _, u, amt = op
            r = vm.call(A[u], self.pair, "addLiquidity", [top_u(1), top_u(1)], [(self.first, 0, amt), (self.second, 0, amt)])
            if r.ok:
                lp = dec_payment(r.out[0])[2]
                r = vm.call(A[u], self.lpfarm, "enterFarm", [], [(LPT, 0, lp)])
                assert r.ok, r
            self.env_ops += 1
            return None
        if k == "Energy":
            _, u, amt = op
            r = vm.call(A[u], self.efact, "lockTokens", [top_u(LOCK_OPTIONS[2][0])], [(MEX, 0, amt)])
            assert r.ok, r
            return None
        if k == "Xfer":
            _, src, dst, n, amt = op
            r = vm.transfer(A[src], A[dst], [(DY, n, amt)])
            o = self.observe()
            o.update(ok=r.ok, msg=r.msg, outs=[], env=None, meas=None, pre=self.last)
            self.last = {x: o[x] for x in o if x not in ("pre", "meas")}
            return o
        u, pays = op[1], [tuple(p) for p in op[2]]
        oc = op[-1]
        pre = self.last
        real_pays = [(TOKID.get(t, MEX), n, x) for (t, n, x) in pays]
        extra = [A[TRADER]] if oc else []
        pre_user = self.tokmap(A[u])
        pre_proxy = self.tokmap(self.proxy)
        pre_pair = self.tokmap(self.pair)
        pre_sup = self.stk_supply()
        rq = vm.query(self.pair, "getReservesAndTotalSupply")
        pre_res = [from_top_u(x) for x in rq.out]
        meas = dict(liq=None, safe=None, spot=None, part=None, quote=None)
        # what the proxy will ask the pair to price / which recorded part it will release
        dy_pays = [(n, x) for (t, n, x) in pays if t == TK_DY]
        if k == "Stake":
            if pays and pays[0][0] == TK_LPF:
                meas["liq"] = pays[0][2]
            dy_pays = [(n, x) for (t, n, x) in pays[1:] if t == TK_DY]
        else:
            if len(pays) == 1 and pays[0][0] == TK_DY and pays[0][1] in self.dy_attrs:
                meas["part"] = part_of(self.dy_attrs[pays[0][1]], pays[0][2])
                if meas["part"]:
                    meas["liq"] = meas["part"][1]
        if meas["liq"] is not None and meas["liq"] > 0:
            if k in ("Stake", "Claim"):
                meas["safe"] = self.safe_view(meas["liq"])
                meas["spot"] = self.spot_view(meas["liq"])
            else:
                # LP tokens the LP farm will hand back: the recorded part minus the early-exit penalty
                fa = vm.attrs(self.proxy, LPF, meas["part"][0])
                lp_out = meas["liq"]
                if fa:
                    d = Dec(fa)
                    d.big()
                    entered = d.u64()
                    if self.ep - entered < self.cfg["minep"]:
                        lp_out -= meas["liq"] * self.cfg["pen"] // 10000
                meas["lp_out"] = lp_out
                meas["quote"] = self.spot_view(lp_out) if lp_out > 0 else None
        if k in ("Stake", "Claim") and meas["safe"] is not None and self.stk_side(meas["safe"]) == 0 \
                and not (k == "Stake" and dy_pays) and not oc:
            # The position is worth 0 staking tokens: the transaction would create farm / dual-yield
            # tokens of quantity 0.  The protocol's ESDTNFTCreate rejects quantity 0 (the model says Err);
            # the debug VM's mock accepts it.  Not an operation this run can judge: not executed.
            self.skipped += 1
            return None
        if k == "Stake":
            r = vm.call(A[u], self.proxy, "stakeFarmTokens", extra, real_pays)
        elif k == "Claim":
            r = vm.call(A[u], self.proxy, "claimDualYield", extra, real_pays)
        elif k == "Unstake":
            r = vm.call(A[u], self.proxy, "unstakeFarmTokens", [top_u(op[3]), top_u(op[4])] + extra, real_pays)
        else:
            raise ValueError(k)
        post_user = self.tokmap(A[u])
        post_proxy = self.tokmap(self.proxy)
        post_pair = self.tokmap(self.pair)
        keys = set(pre_user) | set(post_user)
        duser = {key: post_user.get(key, 0) - pre_user.get(key, 0) for key in keys if post_user.get(key, 0) != pre_user.get(key, 0)}
        keys = set(pre_proxy) | set(post_proxy)
        dproxy = {key: post_proxy.get(key, 0) - pre_proxy.get(key, 0) for key in keys if post_proxy.get(key, 0) != pre_proxy.get(key, 0)}
        rq = vm.query(self.pair, "getReservesAndTotalSupply")
        post_res = [from_top_u(x) for x in rq.out]
        meas.update(duser={f"{c}:{n}": v for (c, n), v in duser.items()}, dproxy={f"{c}:{n}": v for (c, n), v in dproxy.items()},
                    dpair_stk=post_pair.get((TK_STK, 0), 0) - pre_pair.get((TK_STK, 0), 0),
                    dpair_oth=post_pair.get((TK_OTH, 0), 0) - pre_pair.get((TK_OTH, 0), 0),
                    dres=[a - b for a, b in zip(post_res, pre_res)], dreg=self.stk_supply() - pre_sup,
                    stk_first=bool(self.cfg["stk_first"]))
        outs, ret = [], []
        if r.ok:
            ret = dec_struct_payments(r.out[0]) if r.out else []
            ret = [(CODE.get(t, TK_X), n, x) for (t, n, x) in ret]
            if k == "Stake" and len(ret) == 3:
                outs = [ret[0][1], ret[0][2], ret[1][2], ret[2][2]]
            elif k == "Claim" and len(ret) == 3:
                outs = [ret[0][2], ret[1][2], ret[2][1], ret[2][2]]
            elif k == "Unstake" and len(ret) == 4:
                outs = [ret[0][2], ret[1][2], ret[2][2], ret[3][1], ret[3][2]]
        meas["ret"] = ret
        env = self.measure_env(k, op, r.ok, meas, dproxy, duser, pays)
        if r.ok:
            meas["release"] = self.account_release(dy_pays, dproxy)
        o = self.observe()
        o.update(ok=r.ok, msg=r.msg, outs=outs, env=env, meas=meas, pre=pre)
        self.last = {x: o[x] for x in o if x not in ("pre", "meas")}
        return o

    @staticmethod
    def pos_delta(d, code):
        """the farm-token nonce whose balance in the proxy went up, and by how much ((0, 0) if none;
        the largest one if several — the law monitors then flag the rest)"""
        ups = sorted(((v, n) for (c, n), v in d.items() if c == code and v > 0), reverse=True)
        return (ups[0][1], ups[0][0]) if ups else (0, 0)

    def account_release(self, dy_pays, dproxy):
        """For the monitors.  Every redeemed dual-yield payment (n, p) should make the proxy's balance of
        the farm tokens recorded in n drop by the recorded part.  Returns the expected and the real drop
        per farm-token nonce and adds the REAL drops to the per-nonce history [released] (a farm nonce
        shared by several payments of one transaction is split as expected when the total agrees,
        otherwise booked on the first payment — the per-transaction monitor reports that case anyway)."""
        exp, by = {}, {}
        for (n, p) in dy_pays:
            a = self.dy_attrs.get(n)
            prt = part_of(a, p) if a else None
            if prt is None:
                continue
            for key, amt in (((TK_LPF, a[0]), prt[1]), ((TK_SF, a[2]), p)):
                exp[key] = exp.get(key, 0) + amt
                by.setdefault(key, []).append((n, amt))
        real = {key: -v for key, v in dproxy.items() if key[0] in (TK_LPF, TK_SF) and v < 0}
        for key, lst in by.items():
            got = real.get(key, 0)
            idx = 0 if key[0] == TK_LPF else 1
            if got == exp[key]:
                for n, amt in lst:
                    self.released.setdefault(n, [0, 0])[idx] += amt
            else:
                self.released.setdefault(lst[0][0], [0, 0])[idx] += got
        return dict(expected={f"{c}:{n}": v for (c, n), v in exp.items()}, real={f"{c}:{n}": v for (c, n), v in real.items()})

    def measure_env(self, k, op, ok, meas, dproxy, duser, pays):
        """the environment's answers of this transaction as the model's env record (dict).  For a failed
        transaction nothing was answered; [fail] then says whether the pre-call views PREDICT that a
        callee rejects (no price available, nothing to stake, slippage) — never the error text."""
        z4 = (TK_X, 0, TK_X, 0)
        if k == "Stake":
            e = dict(fail=False, sp=meas["safe"] or z4, sf=(0, 0), bs=0, lp=(0, 0), bl=0)
            if ok:
                e["sf"] = self.pos_delta(dproxy, TK_SF)
                e["bs"], e["bl"] = (meas["ret"][1][2], meas["ret"][2][2]) if len(meas["ret"]) == 3 else (0, 0)
                if len(pays) > 1:
                    e["lp"] = self.pos_delta(dproxy, TK_LPF)
            else:
                e["fail"] = meas["liq"] is not None and meas["safe"] is None
            return e
        if k == "Claim":
            e = dict(fail=False, sp=meas["safe"] or z4, lp=(0, 0), rl=0, sf=(0, 0), rs=0)
            if ok:
                e["lp"] = self.pos_delta(dproxy, TK_LPF)
                e["sf"] = self.pos_delta(dproxy, TK_SF)
                e["rl"], e["rs"] = (meas["ret"][0][2], meas["ret"][1][2]) if len(meas["ret"]) == 3 else (0, 0)
            else:
                e["fail"] = meas["liq"] is not None and meas["safe"] is None
            return e
        e = dict(fail=False, lpout=0, rl=0, rm=z4, ub=(0, 0), rs=0)
        if ok:
            dres = meas["dres"]
            e["lpout"] = -dres[2]
            e["rm"] = (self.pool_codes[0], -dres[0], self.pool_codes[1], -dres[1])
            ups = sorted(((v, n) for (c, n), v in duser.items() if c == TK_SF and v > 0), reverse=True)
            e["ub"] = (ups[0][1], ups[0][0]) if ups else (0, 0)
            e["rl"], e["rs"] = (meas["ret"][1][2], meas["ret"][2][2]) if len(meas["ret"]) == 4 else (0, 0)
        else:
            q = meas["quote"]
            m1, m2 = op[3], op[4]
            e["fail"] = meas["liq"] is not None and (q is None or m1 == 0 or m2 == 0 or q[1] < max(1, m1) or q[3] < max(1, m2))
        return e

    @staticmethod
    def stk_side(sp):
        return sp[1] if sp[0] == TK_STK else (sp[3] if sp[2] == TK_STK else None)


# ------------------------------------------------------------------ Coq emission
def coq_pays(pays):
    return "[" + "; ".join(f"({t}, {n}, {zlit(x)})" for (t, n, x) in pays) + "]"


def b(v):
    return "true" if v else "false"


def coq_op(op, o):
    k = op[0]
    if k == "Xfer":
        return f"Xfer {op[1]} {op[2]} {op[3]} {zlit(op[4])}"
    e = o["env"]
    if k == "Stake":
        env = (f"(mkES {b(e['fail'])} ({e['sp'][0]}, {e['sp'][1]}, {e['sp'][2]}, {e['sp'][3]}) {e['sf'][0]} {e['sf'][1]} "
               f"{e['bs']} {e['lp'][0]} {e['lp'][1]} {e['bl']})")
        return f"Stake {op[1]} {b(op[3])} {coq_pays(op[2])} {env}"
    if k == "Claim":
        env = (f"(mkEC {b(e['fail'])} ({e['sp'][0]}, {e['sp'][1]}, {e['sp'][2]}, {e['sp'][3]}) {e['lp'][0]} {e['lp'][1]} "
               f"{e['rl']} {e['sf'][0]} {e['sf'][1]} {e['rs']})")
        return f"Claim {op[1]} {b(op[3])} {coq_pays(op[2])} {env}"
    if k == "Unstake":
        env = (f"(mkEU {b(e['fail'])} {e['lpout']} {e['rl']} ({e['rm'][0]}, {zlit(e['rm'][1])}, {e['rm'][2]}, {zlit(e['rm'][3])}) "
               f"{e['ub'][0]} {e['ub'][1]} {e['rs']})")
        return f"Unstake {op[1]} {b(op[5])} {coq_pays(op[2])} {op[3]} {op[4]} {env}"
    raise ValueError(k)


def coq_pairs(items):
    return "[" + "; ".join(f"({zlit(k)}, {zlit(v)})" for k, v in items) + "]"


def coq_obs(o):
    outs = "[" + "; ".join(zlit(x) for x in o["outs"]) + "]"
    at = "[" + "; ".join(f"({n}, mkDA {a[0]} {a[1]} {a[2]} {a[3]})" for n, a in sorted(o["attrs"].items())) + "]"
    reg = o["meas"]["dreg"] if o.get("meas") else 0
    liq = o["meas"]["liq"] if o.get("meas") and o["ok"] and o["meas"].get("safe") else -1
    return (f"mkMObs {b(o['ok'])} {outs} {coq_pairs(sorted(o['lpf'].items()))} {coq_pairs(sorted(o['sf'].items()))} "
            f"{coq_pairs(sorted(o['fung'].items()))} {at} {coq_pairs(sorted(o['hold'].items()))} "
            f"{coq_pairs(sorted(o['sup'].items()))} {zlit(reg)} {zlit(liq)}")


def coq_history(cfg, trace):
    items = ";\n    ".join(f"({coq_op(op, o)}, {coq_obs(o)})" for op, o in trace)
    return f"(check_trace init_st 0 [\n    {items}])"


# ------------------------------------------------------------------ generation
def log_amount(rng, hi=10 ** 18, lo=1):
    e = rng.uniform(len(str(lo)) - 1, len(str(hi)) - 1)
    return max(lo, int(10 ** e) + rng.randint(0, 9))


def gen_cfg(rng):
    scale = rng.choice([10 ** 6, 10 ** 9, 10 ** 12, 10 ** 18])
    r_stk = scale * rng.choice([1, 1, 2, 5, 40]) + rng.randint(0, 999)
    r_oth = scale * rng.choice([1, 1, 3, 7, 25]) + rng.randint(0, 999)
    seed_lp = [[max(2000, log_amount(rng, scale // 10, 2000)) for _ in range(rng.choice([1, 2, 2]))] for _ in range(NUSERS)]
    boost = rng.random() < 0.7
    return dict(stk_first=rng.random() < 0.5, r_stk=r_stk, r_oth=r_oth, fee=rng.choice([300, 300, 0, 1000]),
                lp_rate=rng.choice([5000, 10 ** 6, 10 ** 12]), stk_rate=rng.choice([1000, 10 ** 6, 10 ** 15]),
                apr=rng.choice([5000, 10000, 2500]), boost=boost, minep=rng.choice([0, 2, 3]), pen=rng.choice([0, 10, 100, 300]),
                energy={str(u): log_amount(rng, 10 ** 12, 1000) for u in range(1, NUSERS + 1) if boost and rng.random() < 0.8},
                seed_lp=seed_lp)


def user_tokens(w, u, code):
    pre = f"{code}:"
    return [(int(key.split(":")[1]), v) for key, v in w.last["users"][u].items() if key.startswith(pre) and v > 0]


def pick_amount(rng, have):
    c = rng.random()
    if c < 0.35:
        return have
    if c < 0.75:
        return rng.randint(1, have)
    if c < 0.87:
        return rng.randint(1, min(have, 12))
    return max(1, have - rng.randint(0, 3))


def gen_op(rng, w):
    users = list(range(1, NUSERS + 1))
    u = rng.choice(users)
    roll = rng.random()
    lpf = {x: user_tokens(w, x, TK_LPF) for x in users}
    dy = {x: user_tokens(w, x, TK_DY) for x in users}
    if roll < 0.11:
        return ["Time", rng.choice([1, 1, 3, 10, 100]), rng.choice([1, 1, 5, 50, 700, 5000]), rng.choice([0, 0, 1, 1, 7, 8, 30])]
    if roll < 0.21:
        res = w.cfg["r_stk"] if (rng.random() < 0.5) else w.cfg["r_oth"]
        return ["Swap", rng.choice([1, 2]), max(1, res // rng.choice([1, 3, 10, 100, 10 ** 4]))]
    if roll < 0.27 or not any(lpf.values()) and not any(dy.values()):
        return ["Enter", u, max(1500, log_amount(rng, max(10 ** 4, w.cfg["r_stk"] // 20), 1500))]
    if roll < 0.35:
        return gen_malformed(rng, w, users, lpf, dy)
    if roll < 0.39:
        src = [x for x in users if dy[x]]
        if src:
            s = rng.choice(src)
            n, have = rng.choice(dy[s])
            return ["Xfer", s, rng.choice([x for x in users if x != s]), n, pick_amount(rng, have)]
    if roll < 0.62:
        cands = [x for x in users if lpf[x]]
        if cands:
            u = rng.choice(cands)
            n, have = rng.choice(lpf[u])
            c = rng.random()
            amt = have if c < 0.3 else (rng.randint(1, have) if c < 0.85 else rng.randint(1, min(have, 20)))
            pays = [[TK_LPF, n, amt]]
            if dy[u] and rng.random() < 0.45:
                for (dn, dhave) in rng.sample(dy[u], min(len(dy[u]), rng.choice([1, 1, 2, 3]))):
                    pays.append([TK_DY, dn, pick_amount(rng, dhave)])
                if rng.random() < 0.12 and dy[u]:
                    dn, dhave = dy[u][0]
                    used = sum(p[2] for p in pays if p[0] == TK_DY and p[1] == dn)
                    if dhave - used > 0:
                        pays.append([TK_DY, dn, rng.randint(1, dhave - used)])
            return ["Stake", u, pays, False]
    cands = [x for x in users if dy[x]]
    if not cands:
        return ["Enter", u, max(1500, log_amount(rng, max(10 ** 4, w.cfg["r_stk"] // 20), 1500))]
    u = rng.choice(cands)
    n, have = rng.choice(dy[u])
    amt = pick_amount(rng, have)
    if roll < 0.79:
        return ["Claim", u, [[TK_DY, n, amt]], False]
    m = rng.random()
    m1, m2 = 1, 1
    if m > 0.8:
        a = w.dy_attrs.get(n)
        prt = part_of(a, amt) if a else None
        q = w.spot_view(prt[1] - (prt[1] * w.cfg["pen"] // 10000 if rng.random() < 0.5 else 0)) if prt and prt[1] > 0 else None
        if q:
            m1 = max(0, q[1] + rng.choice([-1, 0, 0, 1]))
            m2 = max(0, q[3] + rng.choice([0, 0, 0, 1]))
    return ["Unstake", u, [[TK_DY, n, amt]], m1, m2, False]


def gen_malformed(rng, w, users, lpf, dy):
    u = rng.choice(users)
    kind = rng.choice([0, 1, 2, 3, 4, 4, 4, 5, 6, 7, 8])
    some_dy = dy[u][0] if dy[u] else None
    some_lpf = lpf[u][0] if lpf[u] else None
    if kind == 0:
        return ["Stake", u, [[TK_STK, 0, log_amount(rng, 10 ** 6)]], False]
    if kind == 1 and some_lpf:
        return ["Stake", u, [[TK_LPF, some_lpf[0], rng.randint(1, some_lpf[1])], [TK_OTH, 0, 5]], False]
    if kind == 2 and some_dy:
        return ["Claim", u, [[TK_DY, some_dy[0], max(1, some_dy[1] // 2)], [TK_DY, some_dy[0], 1]], False]
    if kind == 3 and some_lpf:
        return _mal_single(rng, u, [TK_LPF, some_lpf[0], rng.randint(1, some_lpf[1])])
    if kind == 4 and some_dy:
        k = rng.choice(["Claim", "Unstake", "Stake"])
        p = [[TK_DY, some_dy[0], rng.randint(1, some_dy[1])]]
        if k == "Stake" and some_lpf:
            p = [[TK_LPF, some_lpf[0], rng.randint(1, some_lpf[1])]] + p
        return [k, u, p, True] if k != "Unstake" else ["Unstake", u, p, 1, 1, True]
    if kind == 5 and some_dy:
        return _mal_single(rng, u, [TK_DY, some_dy[0], some_dy[1] + rng.choice([1, 1, 1000])])
    if kind == 6:
        known = sorted(w.dy_attrs) or [1]
        return _mal_single(rng, u, [TK_DY, rng.choice(known + [max(known) + 1]), rng.randint(1, 1000)])
    if kind == 7 and some_dy and some_lpf:
        return ["Stake", u, [[TK_DY, some_dy[0], rng.randint(1, some_dy[1])], [TK_LPF, some_lpf[0], 1]], False]
    if kind == 8 and some_dy:
        return ["Unstake", u, [[TK_DY, some_dy[0], rng.randint(1, some_dy[1])]], rng.choice([0, 1, BIG]), rng.choice([0, 1, BIG]), False]
    return ["Stake", u, [], False]


def _mal_single(rng, u, pay):
    k = rng.choice(["Claim", "Unstake"])
    return [k, u, [pay], False] if k == "Claim" else ["Unstake", u, [pay], 1, 1, False]


def gen_history(seed, nops):
    rng = random.Random(seed)
    cfg = gen_cfg(rng)
    w = MetaWorld(cfg)
    trace = []
    try:
        n = 0
        while n < nops:
            op = gen_op(rng, w)
            o = w.exec(op)
            trace.append((op, o))
            if o is not None:
                n += 1
            elif len(trace) > 6 * nops:
                break
    finally:
        w.close()
    return cfg, trace


def replay_history(cfg, ops):
    w = MetaWorld(cfg)
    trace = []
    try:
        for op in ops:
            trace.append((op, w.exec(op)))
    finally:
        w.close()
    return trace
