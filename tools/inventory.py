#!/usr/bin/env python3
"""Endpoint inventory of the contracts in C19's scope, extracted from /repo's Rust sources.

For each contract crate the `#[multiversx_sc::contract]` trait is located, its supertraits (module
traits, `#[multiversx_sc::module]`) are resolved transitively through `Cargo.toml` path
dependencies, `mod`/`use` declarations and the multiversx-sc-modules crate of the cargo registry,
and every `#[init]` / `#[upgrade]` / `#[endpoint]` / `#[view]` item is listed with its attributes
(`#[only_owner]`, `#[payable]`), its argument types and -- textually -- the names of the guard
helpers its brace-matched body mentions.  `#[callback]`s are not externally callable and are left out.

`generate()` returns the text of coq/Gen/Endpoints.v; `write()` rewrites the file only if it changed.
The file is the *inventory*: `Proofs/AccessProofs.v` proves that every entry has a row in the access
table of `Model/Access.v` (so an endpoint added to /repo without a classification breaks the proof),
that the `#[only_owner]` attribute agrees with the table's class, and `tools/sys_access.py` executes
every entry on the real contract.

A supertrait that cannot be resolved, or a contract trait that cannot be found, raises
`InventoryError`: the tie is broken, nothing is defaulted.
"""
import os, re, sys, glob

REPO = os.environ.get("VERIF_REPO", "/repo").rstrip("/")
ROOT = os.path.dirname(os.path.dirname(os.path.abspath(__file__)))
OUT = os.path.join(ROOT, "coq", "Gen", "Endpoints.v")

# (code name used by the executor / the table, crate directory)
CONTRACTS = [
    ("pair", "dex/pair"),
    ("router", "dex/router"),
    ("farm", "dex/farm"),
    ("farm-with-locked-rewards", "dex/farm-with-locked-rewards"),
    ("farm-staking", "farm-staking/farm-staking"),
    ("farm-staking-proxy", "farm-staking/farm-staking-proxy"),
    ("energy-factory", "locked-asset/energy-factory"),
    ("token-unstake", "locked-asset/token-unstake"),
    ("lkmex-transfer", "locked-asset/lkmex-transfer"),
    ("locked-token-wrapper", "locked-asset/locked-token-wrapper"),
    ("proxy_dex", "locked-asset/proxy_dex"),
    ("simple-lock", "locked-asset/simple-lock"),
    ("fees-collector", "energy-integration/fees-collector"),
    ("governance-v2", "energy-integration/governance-v2"),
    ("price-discovery", "dex/price-discovery"),
    ("permissions-hub", "dex/permissions-hub"),
]

# guard helpers whose textual presence in an endpoint body is recorded (second, static opinion)
GUARDS = [
    "require_caller_has_owner_permissions", "require_caller_has_owner_or_admin_permissions",
    "require_caller_has_admin_permissions", "require_caller_has_pause_permissions", "require_caller_any_of",
    "require_not_paused", "require_paused", "validate_contract_state", "is_state_active", "can_swap",
    "can_add_liquidity", "can_remove_liquidity",
    "require_sc_address_whitelisted", "get_orig_caller_from_opt", "require_user_whitelisted",
    "require_whitelisted", "require_caller_is_router", "require_caller_router", "known_contracts",
    "require_known_contract", "require_caller_not_self", "check_caller_is_owner", "require_is_active",
    "require_active", "require_caller_is_proposer", "require_caller_not_blacklisted", "require_caller_is_admin",
]


class InventoryError(Exception):
    pass


def strip_comments(src):
    """remove // and /* */ comments, keep string literals (and the line structure)"""
    out = []
    i, n = 0, len(src)
    while i < n:
        c = src[i]
        if c == '"':
            j = i + 1
            while j < n and src[j] != '"':
                j += 2 if src[j] == "\\" else 1
            out.append(src[i:j + 1])
            i = j + 1
        elif src.startswith("//", i):
            j = src.find("\n", i)
            i = n if j < 0 else j
        elif src.startswith("/*", i):
            j = src.find("*/", i + 2)
            seg = src[i:(n if j < 0 else j + 2)]
            out.append("\n" * seg.count("\n"))
            i = n if j < 0 else j + 2
        elif c == "'" and i + 2 < n and (src[i + 2] == "'" or (src[i + 1] == "\\" and i + 3 < n and src[i + 3] == "'")):
            k = i + (3 if src[i + 2] == "'" else 4)
            out.append(src[i:k])
            i = k
        else:
            out.append(c)
            i += 1
    return "".join(out)


def match_close(src, i, open_c="{", close_c="}"):
    """index just after the bracket matching the one at src[i]"""
    assert src[i] == open_c
    depth = 0
    n = len(src)
    while i < n:
        c = src[i]
        if c == '"':
            i += 1
            while i < n and src[i] != '"':
                i += 2 if src[i] == "\\" else 1
        elif c == open_c:
            depth += 1
        elif c == close_c:
            depth -= 1
            if depth == 0:
                return i + 1
        i += 1
    raise InventoryError("unbalanced brackets")


# ------------------------------------------------------------------ crates
class Crate:
    def __init__(self, d):
        self.dir = d
        toml = open(os.path.join(d, "Cargo.toml")).read()
        m = re.search(r'^\[package\][^\[]*?^name\s*=\s*"([^"]+)"', toml, re.M | re.S)
        self.name = m.group(1) if m else os.path.basename(d)
        m = re.search(r'^\[lib\][^\[]*?^path\s*=\s*"([^"]+)"', toml, re.M | re.S)
        self.lib = os.path.normpath(os.path.join(d, m.group(1) if m else "src/lib.rs"))
        self.deps = {}
        for m in re.finditer(r'^\[(?:dev-)?dependencies\.([A-Za-z0-9_-]+)\]([^\[]*)', toml, re.M):
            p = re.search(r'^path\s*=\s*"([^"]+)"', m.group(2), re.M)
            if p:
                self.deps[m.group(1).replace("-", "_")] = os.path.normpath(os.path.join(d, p.group(1)))
        for m in re.finditer(r'^([A-Za-z0-9_-]+)\s*=\s*\{[^}\n]*path\s*=\s*"([^"]+)"', toml, re.M):
            self.deps[m.group(1).replace("-", "_")] = os.path.normpath(os.path.join(d, m.group(2)))


_crates = {}


def crate_at(d):
    d = os.path.normpath(d)
    if d not in _crates:
        _crates[d] = Crate(d)
    return _crates[d]


def sc_modules_dir():
    lock = open(os.path.join(REPO, "Cargo.lock")).read()
    m = re.search(r'name = "multiversx-sc-modules"\s*\nversion = "([^"]+)"', lock)
    ver = m.group(1) if m else "*"
    home = os.environ.get("CARGO_HOME", os.path.expanduser("~/.cargo"))
    c = sorted(glob.glob(os.path.join(home, "registry", "src", "*", f"multiversx-sc-modules-{ver}")))
    if not c:
        raise InventoryError("multiversx-sc-modules source not found in the cargo registry")
    return c[0]


# ------------------------------------------------------------------ files
class RsFile:
    """one Rust source file: its traits, `mod` declarations and `use` map"""

    def __init__(self, path, crate, modpath):
        self.path, self.crate, self.modpath = path, crate, modpath
        self.src = strip_comments(open(path).read())
        self.uses = {}
        for m in re.finditer(r'\buse\s+([^;]+);', self.src):
            for full in expand_use(m.group(1).strip()):
                segs, alias = full
                self.uses[alias] = segs
        self.mods = set(re.findall(r'^\s*(?:pub(?:\([a-z]+\))?\s+)?mod\s+([A-Za-z0-9_]+)\s*;', self.src, re.M))
        self.traits = {}
        for m in re.finditer(r'#\[multiversx_sc::(contract|module)\]\s*((?:#\[[^\]]*\]\s*)*)pub\s+trait\s+([A-Za-z0-9_]+)', self.src):
            kind, name = m.group(1), m.group(3)
            j = self.src.index("{", m.end())
            head = self.src[m.end():j]
            head = re.sub(r'^\s*<[^>]*>', '', head)
            sup = []
            if ":" in head:
                for s in head.split(":", 1)[1].split("+"):
                    s = re.sub(r'<.*>', '', s.strip())
                    if s:
                        sup.append(s)
            k = match_close(self.src, j)
            self.traits[name] = dict(kind=kind, supers=sup, body=self.src[j + 1:k - 1],
                                     line=self.src.count("\n", 0, j) + 1)


def expand_use(tree, prefix=()):
    """`a::b::{c, d::e as f}` -> [((a,b,c),'c'), ((a,b,d,e),'f')]"""
    tree = tree.strip()
    m = re.match(r'^((?:[A-Za-z0-9_]+\s*::\s*)*)\{(.*)\}$', tree, re.S)
    if m:
        pre = prefix + tuple(s.strip() for s in m.group(1).split("::") if s.strip())
        inner, parts, depth, cur = m.group(2), [], 0, ""
        for ch in inner:
            if ch == "{":
                depth += 1
            elif ch == "}":
                depth -= 1
            if ch == "," and depth == 0:
                parts.append(cur)
                cur = ""
            else:
                cur += ch
        parts.append(cur)
        res = []
        for p in parts:
            if p.strip():
                res.extend(expand_use(p, pre))
        return res
    alias = None
    m = re.match(r'^(.*?)\s+as\s+([A-Za-z0-9_]+)$', tree, re.S)
    if m:
        tree, alias = m.group(1), m.group(2)
    segs = prefix + tuple(s.strip() for s in tree.split("::") if s.strip())
    if not segs or segs[-1] == "*":
        return []
    if segs[-1] == "self":
        segs = segs[:-1]
    return [(segs, alias or segs[-1])]


_files = {}


def rs_file(path, crate, modpath):
    path = os.path.normpath(path)
    if path not in _files:
        _files[path] = RsFile(path, crate, tuple(modpath))
    return _files[path]


def module_file(crate, modpath):
    """file of module `modpath` (tuple) of a crate, or None"""
    if not modpath:
        return rs_file(crate.lib, crate, ())
    base = os.path.dirname(crate.lib)
    rel = os.path.join(base, *modpath)
    for cand in (rel + ".rs", os.path.join(rel, "mod.rs")):
        if os.path.exists(cand):
            return rs_file(cand, crate, modpath)
    return None


def crate_files(crate):
    base = os.path.dirname(crate.lib)
    res = []
    for d, _, fs in os.walk(base):
        for f in sorted(fs):
            if f.endswith(".rs"):
                p = os.path.join(d, f)
                rel = os.path.relpath(p, base)[:-3].split(os.sep)
                if p == crate.lib:
                    rel = []
                elif rel[-1] == "mod":
                    rel = rel[:-1]
                res.append(rs_file(p, crate, rel))
    return res


class ScModulesCrate:
    def __init__(self):
        self.dir = sc_modules_dir()
        self.name = "multiversx-sc-modules"
        self.lib = os.path.join(self.dir, "src", "lib.rs")
        self.deps = {}


_scm = []


def scm_crate():
    if not _scm:
        _scm.append(ScModulesCrate())
    return _scm[0]


def resolve(path_str, f, depth=0):
    """resolve a supertrait path written in file f to (RsFile, trait name)"""
    segs = tuple(s.strip() for s in path_str.split("::") if s.strip())
    name = segs[-1]
    crate, mp = f.crate, None
    head = segs[0]
    if len(segs) == 1:
        if name in f.traits:
            return f, name
        if name in f.uses and depth < 4:
            return resolve("::".join(f.uses[name]), f, depth + 1)
        mp = None
    elif head == "crate":
        mp = segs[1:-1]
    elif head == "self":
        mp = f.modpath + segs[1:-1]
    elif head == "super":
        up = list(f.modpath)
        rest = list(segs)
        while rest and rest[0] == "super":
            up = up[:-1]
            rest = rest[1:]
        mp = tuple(up) + tuple(rest[:-1])
    elif head == "multiversx_sc_modules":
        crate, mp = scm_crate(), segs[1:-1]
    elif head in f.mods:
        mp = f.modpath + segs[:-1] if os.path.basename(f.path) in ("mod.rs", os.path.basename(crate.lib)) or True else segs[:-1]
        # a `mod x;` in file a/b.rs declares a/b/x.rs; in lib.rs / mod.rs it declares a sibling
        g = module_file(crate, mp)
        if g is None or name not in g.traits:
            mp = segs[:-1]
    elif head in crate.deps:
        crate, mp = crate_at(crate.deps[head]), segs[1:-1]
    elif head in f.uses and depth < 4:
        return resolve("::".join(f.uses[head] + segs[1:]), f, depth + 1)
    else:
        mp = segs[:-1]          # module of the current crate root (Rust 2018 path relative to the crate)
    if mp is not None:
        g = module_file(crate, tuple(mp))
        if g is not None and name in g.traits:
            return g, name
    # fall back: unique trait of that name in the target crate (re-exports such as `pub use x::*`)
    cands = [g for g in crate_files(crate) if name in g.traits]
    if len(cands) == 1:
        return cands[0], name
    raise InventoryError(f"cannot resolve supertrait `{path_str}` used in {f.path} ({len(cands)} candidates)")


# ------------------------------------------------------------------ endpoint items
ITEM = re.compile(r'((?:#\[[^\]]*\]\s*)+)(?:pub\s+)?fn\s+([A-Za-z0-9_]+)\s*(<[^>]*>)?\s*\(')


def split_args(s):
    parts, depth, cur = [], 0, ""
    for ch in s:
        if ch in "<([":
            depth += 1
        elif ch in ">)]":
            depth -= 1
        if ch == "," and depth == 0:
            parts.append(cur)
            cur = ""
        else:
            cur += ch
    if cur.strip():
        parts.append(cur)
    return parts


def trait_endpoints(f, tname):
    t = f.traits[tname]
    body = t["body"]
    res = []
    for m in ITEM.finditer(body):
        attrs = re.findall(r'#\[([^\]]*)\]', m.group(1))
        fn = m.group(2)
        kind = name = None
        only_owner = payable = False
        for a in attrs:
            a = a.strip()
            mm = re.match(r'^(endpoint|view)\s*(?:\(\s*([A-Za-z0-9_]+)\s*\))?$', a)
            if mm:
                kind, name = mm.group(1), mm.group(2) or fn
            elif a == "init":
                kind, name = "init", "init"
            elif a == "upgrade":
                kind, name = "upgrade", "upgrade"
            elif a == "only_owner":
                only_owner = True
            elif a.startswith("payable"):
                payable = True
        if kind is None:
            continue
        p0 = m.end() - 1
        p1 = match_close(body, p0, "(", ")")
        args = []
        for a in split_args(body[p0 + 1:p1 - 1]):
            a = a.strip()
            if not a or a in ("&self", "self", "&mut self"):
                continue
            a = re.sub(r'^(?:#\[[^\]]*\]\s*)*', '', a)
            if ":" in a:
                args.append(re.sub(r'\s+', '', a.split(":", 1)[1]))
        rest = body[p1:]
        mm = re.match(r'[^;{]*([;{])', rest, re.S)
        fbody = ""
        if mm and mm.group(1) == "{":
            b0 = p1 + mm.end() - 1
            fbody = body[b0:match_close(body, b0)]
        guards = [g for g in GUARDS if re.search(r'\b' + g + r'\b', fbody)]
        line = t["line"] + body.count("\n", 0, m.start(2))
        res.append(dict(name=name, fn=fn, kind=kind, only_owner=only_owner, payable=payable, args=args,
                        guards=guards, file=os.path.relpath(f.path, REPO) if f.path.startswith(REPO) else
                        "registry:" + os.path.relpath(f.path, scm_crate().dir), line=line, storage=(fbody == "")))
    return res


def contract_endpoints(cdir):
    crate = crate_at(os.path.join(REPO, cdir))
    root = None
    for g in crate_files(crate):
        for n, t in g.traits.items():
            if t["kind"] == "contract":
                root = (g, n)
    if root is None:
        raise InventoryError(f"no #[multiversx_sc::contract] trait in {cdir}")
    seen, order, todo = set(), [], [root]
    while todo:
        g, n = todo.pop(0)
        if (g.path, n) in seen:
            continue
        seen.add((g.path, n))
        order.append((g, n))
        for s in g.traits[n]["supers"]:
            todo.append(resolve(s, g))
    eps, names = [], set()
    for g, n in order:
        for e in trait_endpoints(g, n):
            if e["name"] in names:
                continue
            names.add(e["name"])
            e["trait"] = n
            eps.append(e)
    return eps


def wasm_endpoints(cdir):
    """names listed by the generated wasm adapter of the main contract (cross-check only)"""
    p = os.path.join(REPO, cdir, "wasm", "src", "lib.rs")
    if not os.path.exists(p):
        return None
    src = open(p).read()
    m = re.search(r'endpoints!\s*\{\s*[A-Za-z0-9_]+\s*\((.*?)\)\s*\}', src, re.S)
    return [x for x in re.findall(r'^\s*([A-Za-z0-9_]+)\s*=>', m.group(1), re.M)] if m else None


_cache = {}


def inventory():
    """{contract code name: [endpoint dict]} in CONTRACTS order"""
    if "inv" not in _cache:
        _cache["inv"] = {c: contract_endpoints(d) for c, d in CONTRACTS}
    return _cache["inv"]


def cross_check():
    """endpoints exported by the checked-in wasm adapters that the source scan did not find"""
    missing = []
    inv = inventory()
    for c, d in CONTRACTS:
        w = wasm_endpoints(d)
        if w is None:
            continue
        have = {e["name"] for e in inv[c]}
        for n in w:
            if n not in have:
                missing.append((c, n))
    return missing


PERM_FILE = "common/modules/permissions_module/src/permissions.rs"


def permission_bits():
    """values of the `Permissions` bitflags (OWNER / ADMIN / PAUSE)"""
    src = strip_comments(open(os.path.join(REPO, PERM_FILE)).read())
    m = re.search(r'bitflags!\s*\{.*?struct\s+Permissions\s*:\s*u32\s*\{(.*?)\}', src, re.S)
    if not m:
        raise InventoryError("Permissions bitflags not found")
    vals = dict((k, int(v)) for k, v in re.findall(r'const\s+([A-Z_]+)\s*=\s*(\d+)\s*;', m.group(1)))
    for k in ("OWNER", "ADMIN", "PAUSE"):
        if k not in vals:
            raise InventoryError(f"Permissions::{k} not found")
    return vals


def generate():
    inv = inventory()
    miss = cross_check()
    if miss:
        raise InventoryError(f"endpoints exported by wasm adapters but not found by the source scan: {miss}")
    L = ["(** GENERATED by tools/inventory.py from the Rust sources of /repo -- do not edit.",
         "    One entry per externally callable function of each contract in C19's scope:",
         "    (contract, endpoint, kind, #[only_owner], #[payable]).  kind: 0 init, 1 upgrade, 2 endpoint, 3 view. *)",
         "From Coq Require Import ZArith List String.",
         "Import ListNotations.",
         "Open Scope string_scope.",
         "",
         "Definition inventory : list (string * string * nat * bool * bool) := ["]
    rows = []
    for c, _ in CONTRACTS:
        for e in inv[c]:
            k = dict(init=0, upgrade=1, endpoint=2, view=3)[e["kind"]]
            rows.append(f'  ("{c}", "{e["name"]}", {k}%nat, {"true" if e["only_owner"] else "false"}, '
                        f'{"true" if e["payable"] else "false"})'
                        f'  (* {e["file"]}:{e["line"]} {" ".join(e["guards"])} *)')
    # the comment must follow the separator
    out = []
    for i, r in enumerate(rows):
        code, com = r.split("  (*", 1)
        out.append(code + (";" if i + 1 < len(rows) else "") + "  (*" + com)
    L.extend(out)
    L.append("].")
    L.append("")
    L.append(f"Definition inventory_size : nat := {len(rows)}%nat.")
    L.append("")
    bits = permission_bits()
    for k in ("OWNER", "ADMIN", "PAUSE"):
        L.append(f"Definition PERM_{k} : Z := {bits[k]}%Z.  (* {PERM_FILE} bitflags Permissions::{k} *)")
    L.append("")
    return "\n".join(L)


def write():
    text = generate()
    os.makedirs(os.path.dirname(OUT), exist_ok=True)
    old = open(OUT).read() if os.path.exists(OUT) else None
    nocom = lambda t: re.sub(r"\(\*.*?\*\)", "", t, flags=re.S) if t is not None else None
    if nocom(old) != nocom(text):          # comments (file:line, guard names) are informative only
        if REPO != "/repo":
            raise InventoryError("endpoint inventory of the scratch tree differs from Gen/Endpoints.v "
                                 "(shared file not overwritten in VERIF_REPO mode)")
        open(OUT, "w").write(text)
        ensure_compiled()
        return True
    ensure_compiled()
    return False


def ensure_compiled():
    """Gen/Endpoints.vo must exist before `make Props/C19.vo` runs (the generated file may not be
    listed in _CoqProject, in which case make has no rule for it)."""
    import subprocess
    vo = OUT[:-2] + ".vo"
    if os.path.exists(vo) and os.path.getmtime(vo) >= os.path.getmtime(OUT):
        return
    coqdir = os.path.join(ROOT, "coq")
    p = subprocess.run(["timeout", "300", "coqc", "-Q", coqdir, "MX", OUT], capture_output=True, text=True)
    if p.returncode != 0:
        raise InventoryError("coqc Gen/Endpoints.v failed: " + (p.stdout + p.stderr)[-500:])


if __name__ == "__main__":
    if len(sys.argv) > 1 and sys.argv[1] == "--list":
        for c, eps in inventory().items():
            for e in eps:
                print(c, e["name"], e["kind"], "owner" if e["only_owner"] else "-", "payable" if e["payable"] else "-",
                      ",".join(e["args"]) or "-", "|", " ".join(e["guards"]), "|", f'{e["file"]}:{e["line"]}')
        sys.exit(0)
    try:
        ch = write()
    except InventoryError as e:
        print("inventory failed:", e, file=sys.stderr)
        sys.exit(2)
    n = sum(len(v) for v in inventory().values())
    print(f"{OUT}: {n} endpoints ({'rewritten' if ch else 'unchanged'})")
