"""Safe-price subsystem (C13): the real dex/pair contract (same deployment as sys_pair.PairWorld) driven
over many block rounds, its safe-price views / legacy endpoints queried at every class of position,
and observation rings INJECTED into the pair account's storage with the real capacity (65 536).

Operations (JSON-able lists):
  pool operations of sys_pair        ["Add", c, a1, a2, m1, m2], ["SwapIn", ...], ...   (executed at the current round)
  ["Round", d]                        advance the block round by d
  ["Q", kind, args...]                 a safe-price query (kinds = constructors of Model.SafePrice.query)
  ["Inject", segs, legacy, now]        overwrite price_observations / safe_price_current_index with the ring
                                       that the update calls described by segs = [[count, gap, r1, r2, S], ...]
                                       produce (first `legacy` retained entries in the 4-field legacy encoding),
                                       then move the block round to `now`

Independently of the contract's ring the world keeps a *shadow*: the reserves in effect at the
start of every round (run-length encoded, from the getReservesAndTotalSupply view after each
operation / from the injected description) and the rounds in which an observation had to be
recorded.  Monitors (tools/props/c13.py) compare the real answers with sums over that shadow.
"""
import random, bisect
from vmx import *
import sys_pair as sp
from sys_pair import T, NUSERS, OWNER, WL, zlit



def _source_constants():
    """MAX_OBSERVATIONS, DEFAULT_SAFE_PRICE_ROUNDS_OFFSET, SECONDS_PER_ROUND as the source has them now
    (the same extraction that generates coq/Gen/Params.v, so harness, shadow and model agree)"""
    import os, extract
    a, _ = extract.file_consts(os.path.join(extract.REPO, "dex/pair/src/safe_price.rs"))
    b, _ = extract.file_consts(os.path.join(extract.REPO, "dex/pair/src/safe_price_view.rs"))
    return a["MAX_OBSERVATIONS"], b["DEFAULT_SAFE_PRICE_ROUNDS_OFFSET"], b["SECONDS_PER_ROUND"]


CAP, DEFAULT_OFFSET, SECONDS_PER_ROUND = _source_constants()
TOK_CODE = {v: k for k, v in T.items()}
UPDATING = ("Add", "Remove", "SwapIn", "SwapOut", "SwapNoFee", "RemoveBuyBack")
POOL_OPS = UPDATING + ("AddInitial", "SetFee", "SetFeeOn", "SetCollector", "SetState", "WlAdd", "WlRm", "Trust",
                       "LpTransfer", "Donate")
K_LEN = b"price_observations.len"
K_ITEM = b"price_observations.item"
K_CUR = b"safe_price_current_index"


def qargs(op):
    """query constructor name and numeric arguments of a ["Q", ...] operation (without the view/endpoint marker)"""
    return [x for x in op[1:] if x not in ("view", "endpoint")]


def enc_obs(o, legacy=False):
    a1, a2, w, rd, lp = o
    b = nest_big(a1) + nest_big(a2) + nest_u64(w) + nest_u64(rd)
    return b if legacy else b + nest_big(lp)


def dec_obs(b):
    d = Dec(b)
    a1, a2, w, rd = d.big(), d.big(), d.u64(), d.u64()
    lp = 0 if d.done() else d.big()
    assert d.done()
    return [a1, a2, w, rd, lp]


def expand_segs(segs):
    """update calls (round, r1, r2, S) described by the segments, starting after round 0"""
    rd = 0
    for c, g, r1, r2, s in segs:
        for _ in range(c):
            rd += g
            yield (rd, r1, r2, s)


def observations(calls):
    """what update_safe_price records for a sequence of calls with non-decreasing rounds (spec-level
    re-statement used only to PREPARE injected storage; the Coq model builds the same ring on its own)"""
    out = []
    last = (0, 0, 0, 0, 0)
    for rd, r1, r2, s in calls:
        if r1 == 0 or r2 == 0 or s == 0 or rd == last[3]:
            continue
        w = 1 if last[3] == 0 else rd - last[3]
        last = (last[0] + w * r1, last[1] + w * r2, last[2] + w, rd, last[4] + w * s)
        out.append(last)
    return out


class Shadow:
    """start-of-round reserves and recording rounds, independent of the contract's ring"""

    def __init__(self):
        self.seg_end = []      # segment i covers rounds (seg_end[i-1], seg_end[i]]  (first one starts at seg0)
        self.seg_val = []      # (r1, r2, S) in effect at the start of each round of the segment
        self.pre = []          # prefix sums of the three components up to seg_end[i]
        self.seg0 = 0
        self.rec = []          # rounds at which an observation was recorded (all of them, oldest first)

    def add_segment(self, end, val):
        if self.seg_end and end <= self.seg_end[-1]:
            return
        a = self.seg_end[-1] if self.seg_end else self.seg0
        p = self.pre[-1] if self.pre else (0, 0, 0)
        self.seg_end.append(end)
        self.seg_val.append(val)
        self.pre.append(tuple(p[i] + (end - a) * val[i] for i in range(3)))

    def upto(self, x):
        """sum over rounds (seg0, x] of the start-of-round reserves"""
        if x <= self.seg0:
            return (0, 0, 0)
        i = bisect.bisect_left(self.seg_end, x)
        assert i < len(self.seg_end), (x, self.seg_end[-3:])
        a = self.seg_end[i - 1] if i else self.seg0
        p = self.pre[i - 1] if i else (0, 0, 0)
        return tuple(p[k] + (x - a) * self.seg_val[i][k] for k in range(3))

    def sums(self, s, e):
        a, b = self.upto(s), self.upto(e)
        return [b[k] - a[k] for k in range(3)]

    def oldest(self):
        if not self.rec:
            return None
        return self.rec[-CAP] if len(self.rec) > CAP else self.rec[0]

    def ring_class(self):
        k = len(self.rec)
        return "empty" if k == 0 else "partial" if k < CAP else "full" if k == CAP else "wrapped"

    def lookup_class(self, x, now):
        """which branch of get_price_observation answers round x, and where in the ring it lands"""
        if not self.rec:
            return "none"
        if x < self.oldest():
            return "too-old"
        if x > now:
            return "future"
        if x == self.rec[-1]:
            return "last"
        if x > self.rec[-1]:
            return "extrapolated"
        j = bisect.bisect_left(self.rec, x)          # rec[j] >= x, j is 0-based abstract number - 1
        k = len(self.rec)
        cur = (k - 1) % CAP + 1
        idx = j % CAP + 1                            # ring index of the observation at / right of x
        side = "lo" if idx <= cur else "hi"
        if idx == 1:
            side = "i1"
        elif idx == CAP and k >= CAP:
            side = "iN"
        elif k > CAP and idx == cur % CAP + 1:
            side = "oldest"
        elif idx == cur:
            side = "cur"
        return ("exact-" if self.rec[j] == x else "interp-") + side


class SafePriceWorld(sp.PairWorld):
    def __init__(self, cfg):
        super().__init__(cfg)
        self.sh = Shadow()
        self.sh.seg0 = self.round
        self.injected = False
        self.legacy = 0

    # ------------------------------------------------------------ ring observation (raw storage reads)
    def ring_state(self):
        vm = self.vm
        cur = from_top_u(vm.sget(self.pair, K_CUR))
        ln = from_top_u(vm.sget(self.pair, K_LEN))
        last = dec_obs(vm.sget(self.pair, K_ITEM + nest_u32(cur))) if cur and ln else []
        return cur, ln, last

    def reserves(self):
        r = self.vm.query(self.pair, "getReservesAndTotalSupply")
        return tuple(from_top_u(x) for x in r.out)

    # ------------------------------------------------------------ pool operations
    def pool_call(self, op):
        vm, A = self.vm, self.addr
        k = op[0]
        if k in ("AddInitial",) + UPDATING:
            for t in (1, 2):
                vm.setbal(A[op[1]], T[t], 0, 10 ** 300)
        if k == "AddInitial":
            _, c, a1, a2 = op
            return vm.call(A[c], self.pair, "addInitialLiquidity", [], [(T[1], 0, a1), (T[2], 0, a2)])
        if k == "Add":
            _, c, a1, a2, m1, m2 = op
            return vm.call(A[c], self.pair, "addLiquidity", [top_u(m1), top_u(m2)], [(T[1], 0, a1), (T[2], 0, a2)])
        if k == "Remove":
            _, c, lp, m1, m2 = op
            return vm.call(A[c], self.pair, "removeLiquidity", [top_u(m1), top_u(m2)], [(T[0], 0, lp)])
        if k == "SwapIn":
            _, c, tin, ain, tout, mn = op
            return vm.call(A[c], self.pair, "swapTokensFixedInput", [T[tout], top_u(mn)], [(T[tin], 0, ain)])
        if k == "SwapOut":
            _, c, tin, amax, tout, aout = op
            return vm.call(A[c], self.pair, "swapTokensFixedOutput", [T[tout], top_u(aout)], [(T[tin], 0, amax)])
        if k == "SwapNoFee":
            _, c, tin, ain, tout = op
            return vm.call(A[c], self.pair, "swapNoFeeAndForward", [T[tout], A[60]], [(T[tin], 0, ain)])
        if k == "RemoveBuyBack":
            _, c, lp, tok = op
            return vm.call(A[c], self.pair, "removeLiquidityAndBuyBackAndBurnToken", [T[tok]], [(T[0], 0, lp)])
        if k == "SetFee":
            _, c, f, sf = op
            return vm.call(A[c], self.pair, "setFeePercents", [top_u(f), top_u(sf)])
        if k == "SetFeeOn":
            _, c, en, a, tok = op
            return vm.call(A[c], self.pair, "setFeeOn", [top_bool(en), A[a], T[tok]])
        if k == "SetCollector":
            _, c, cut = op
            return vm.call(A[c], self.pair, "setupFeesCollector", [self.coll, top_u(cut)])
        if k == "SetState":
            _, c, st = op
            return vm.call(A[c], self.pair, {0: "pause", 1: "resume", 2: "setStateActiveNoSwaps"}[st])
        if k == "WlAdd":
            return vm.call(A[op[1]], self.pair, "whitelist", [A[op[2]]])
        if k == "WlRm":
            return vm.call(A[op[1]], self.pair, "removeWhitelist", [A[op[2]]])
        if k == "Trust":
            _, c, ta, tb = op
            return vm.call(A[c], self.pair, "addTrustedSwapPair", [self.pair2, T[ta], T[tb]])
        if k == "LpTransfer":
            _, s, d, amt = op
            return vm.transfer(A[s], A[d], [(T[0], 0, amt)])
        if k == "Donate":
            _, tok, amt = op
            return vm.transfer(A[OWNER], self.pair, [(T[tok], 0, amt)])
        raise ValueError(k)

    def exec_pool(self, op):
        k = op[0]
        pre = self.last
        r = self.pool_call(op)
        st = self.observe_state()
        cur, ln, last = self.ring_state()
        o = dict(kind="op", ok=r.ok, msg=r.msg, round=self.round, r1=st["r1"], r2=st["r2"], S=st["S"],
                 cur=cur, len=ln, last=last, pre_res=[pre["r1"], pre["r2"], pre["S"]],
                 ring_class=self.sh.ring_class())
        if r.ok:
            sh = self.shadow
            if k == "SetFee": sh['fee'], sh['sfee'] = op[2], op[3]
            elif k == "WlAdd": sh['wl'] = True
            elif k == "WlRm": sh['wl'] = False
            elif k == "SetFeeOn":
                if op[2]: sh['dests'][op[3]] = op[4]
                else: sh['dests'].pop(op[3], None)
            elif k == "SetCollector": sh['coll'] = op[2]
            elif k == "Trust": sh['trusted'] = True
            # shadow of the property's notion of "an observation is taken": the first successful
            # reserve-changing operation of a round, seeing non-zero reserves
            if k in UPDATING and pre["r1"] and pre["r2"] and pre["S"]:
                if not self.sh.rec or self.sh.rec[-1] != self.round:
                    if not self.sh.rec:
                        # nothing retained before the first observation: the shadow starts here
                        self.sh.seg0 = self.round
                        self.sh.seg_end, self.sh.seg_val, self.sh.pre = [], [], []
                    self.sh.rec.append(self.round)
                    o["recorded"] = True
        self.last = st
        return o

    # ------------------------------------------------------------ rounds
    def advance(self, d):
        """rounds (round, round + d] start with the reserves now in the pool"""
        if d <= 0:
            return
        res = (self.last["r1"], self.last["r2"], self.last["S"])
        self.round += d
        if self.sh.rec:
            self.sh.add_segment(self.round, res)
        self.vm.block(nonce=self.round, round_=self.round, ts=6 * self.round)

    # ------------------------------------------------------------ injection
    def inject(self, segs, legacy, now):
        vm = self.vm
        obs = observations(expand_segs(segs))
        k = len(obs)
        retained = obs[-CAP:]
        cur = (k - 1) % CAP + 1 if k else 0
        lines = []
        pa = hx(self.pair)
        # remove what the bootstrap recorded
        old_len = from_top_u(vm.sget(self.pair, K_LEN))
        for i in range(1, old_len + 1):
            lines.append(f"sset {pa} {hx(K_ITEM + nest_u32(i))} -")
        base = k - len(retained)              # observation number (0-based) of retained[0]
        for t, o in enumerate(retained):
            idx = (base + t) % CAP + 1
            lines.append(f"sset {pa} {hx(K_ITEM + nest_u32(idx))} {hx(enc_obs(o, legacy=t < legacy))}")
        lines.append(f"sset {pa} {hx(K_LEN)} {hx(top_u(len(retained)))}")
        lines.append(f"sset {pa} {hx(K_CUR)} {hx(top_u(cur))}")
        self._batch(lines)
        # shadow: the injected calls define the start-of-round reserves up to the last injected round,
        # the pool's present reserves are in effect from then on
        sh = self.sh = Shadow()
        rd = 0
        first = True
        for c, g, r1, r2, s in segs:
            if c <= 0:
                continue
            if first:
                rd += g
                sh.seg0 = rd
                sh.rec.append(rd)
                first = False
                c -= 1
                if c == 0:
                    continue
            sh.rec.extend(range(rd + g, rd + g * c + 1, g))
            rd += g * c
            sh.add_segment(rd, (r1, r2, s))
        assert len(sh.rec) == k and (not k or sh.rec[-1] == obs[-1][3]), (len(sh.rec), k)
        self.injected = True
        self.legacy = legacy
        if now > self.round:
            res = (self.last["r1"], self.last["r2"], self.last["S"])
            self.round = now
            if sh.rec:
                sh.add_segment(now, res)
            vm.block(nonce=now, round_=now, ts=6 * now)
        cur_, ln_, last_ = self.ring_state()
        return dict(kind="inject", ok=True, msg="", k=k, cur=cur_, len=ln_, last=last_, round=self.round,
                    ring_class=sh.ring_class())

    def _batch(self, lines, chunk=1500):
        p = self.vm.p
        for i in range(0, len(lines), chunk):
            part = lines[i:i + chunk]
            p.stdin.write("\n".join(part) + "\n")
            p.stdin.flush()
            got = 0
            while got < len(part):
                r = p.stdout.readline()
                if not r:
                    raise RuntimeError("mxvm died during injection")
                if r.startswith("@@ "):
                    assert r[3:].strip() == "ok", r
                    got += 1

    # ------------------------------------------------------------ queries
    def window(self, q):
        """(s, e) of a window query, resolved the way the endpoint documents it; None for QObs"""
        kind = q[0]
        now = self.round
        if kind in ("QPrice", "QLp"):
            return q[1], q[2]
        if kind in ("QPriceOff", "QLpOff"):
            return now - q[1], now
        if kind in ("QPriceTs", "QLpTs"):
            return now - q[1] // SECONDS_PER_ROUND, now
        if kind in ("QPriceDef", "QLpDef"):
            old = self.sh.oldest()
            if old is None:
                return None
            return now - min(DEFAULT_OFFSET, now - old), now
        return None

    def exec_query(self, op):
        o = self.exec_query_on(op, self.pair)
        if o["via"] == "view":
            # the views take the pair's address as an argument and read everything from THAT pair's storage: asked
            # through another instance of the same code (different tokens, reserves and LP supply - the deployed "view
            # factory" arrangement) the answer must be the same
            o2 = self.exec_query_on(op, self.pair2, slim=True)
            o["ok2"], o["res2"], o["msg2"] = o2["ok"], o2["res"], o2["msg"]
        return o

    def exec_query_on(self, op, X, slim=False):
        vm = self.vm
        q = qargs(op)
        kind = q[0]
        P = self.pair
        via = "view"
        want_endpoint = op[-1] == "endpoint"
        if kind == "QObs":
            r = vm.query(X, "getPriceObservation", [P, top_u(q[1])])
            res = dec_obs(r.out[0]) if r.ok else []
        elif kind in ("QPrice", "QPriceOff", "QPriceTs", "QPriceDef"):
            tok, amt = q[-2], q[-1]
            pay = nest_bytes(T[tok]) + nest_u64(0) + nest_big(amt)
            if kind == "QPrice":
                r = vm.query(X, "getSafePrice", [P, top_u(q[1]), top_u(q[2]), pay])
            elif kind == "QPriceOff":
                r = vm.query(X, "getSafePriceByRoundOffset", [P, top_u(q[1]), pay])
            elif kind == "QPriceTs":
                r = vm.query(X, "getSafePriceByTimestampOffset", [P, top_u(q[1]), pay])
            elif want_endpoint:
                via = "endpoint"
                r = vm.call(self.addr[1], P, "updateAndGetSafePrice", [pay])
            else:
                r = vm.query(X, "getSafePriceByDefaultOffset", [P, pay])
            if r.ok:
                t, n, a = dec_payment(r.out[0])
                res = [TOK_CODE.get(t, 99), a]
            else:
                res = []
        else:
            liq = q[-1]
            if kind == "QLp":
                r = vm.query(X, "getLpTokensSafePrice", [P, top_u(q[1]), top_u(q[2]), top_u(liq)])
            elif kind == "QLpOff":
                r = vm.query(X, "getLpTokensSafePriceByRoundOffset", [P, top_u(q[1]), top_u(liq)])
            elif kind == "QLpTs":
                r = vm.query(X, "getLpTokensSafePriceByTimestampOffset", [P, top_u(q[1]), top_u(liq)])
            elif want_endpoint:
                via = "endpoint"
                r = vm.call(self.addr[1], P, "updateAndGetTokensForGivenPositionWithSafePrice", [top_u(liq)])
            else:
                r = vm.query(X, "getLpTokensSafePriceByDefaultOffset", [P, top_u(liq)])
            if r.ok:
                p1, p2 = dec_payment(r.out[0]), dec_payment(r.out[1])
                res = [p1[2], p2[2]]
                if TOK_CODE.get(p1[0]) != 1 or TOK_CODE.get(p2[0]) != 2:
                    res = [-1, -2]
            else:
                res = []
        if slim:
            return dict(ok=r.ok, msg=r.msg, res=res, via=via)
        sh = self.sh
        now = self.round
        old = sh.oldest()
        o = dict(kind="query", ok=r.ok, msg=r.msg, res=res, now=now, oldest=old, nobs=len(sh.rec), via=via,
                 ring_class=sh.ring_class(), legacy=self.legacy, cur_res=list(self.reserves()))
        if kind == "QObs":
            x = q[1]
            o["classes"] = [sh.lookup_class(x, now)]
            if old is not None and old <= x <= now:
                ref = vm.query(X, "getPriceObservation", [P, top_u(old)])
                o["ref"] = dec_obs(ref.out[0]) if ref.ok else None
                o["sums"] = sh.sums(old, x)
        else:
            win = self.window(q)
            o["window"] = list(win) if win else None
            if win:
                s, e = win
                o["classes"] = [sh.lookup_class(s, now), sh.lookup_class(e, now)]
                if old is not None and old <= s < e <= now:
                    o["sums"] = sh.sums(s, e)
            else:
                o["classes"] = ["none", "none"]
        return o

    # ------------------------------------------------------------ dispatcher
    def exec(self, op):
        k = op[0]
        if k == "Round":
            self.advance(op[1])
            return None
        if k == "Q":
            return self.exec_query(op)
        if k == "Inject":
            return self.inject(op[1], op[2], op[3])
        return self.exec_pool(op)


# ------------------------------------------------------------------ Coq emission
def coq_list(xs):
    return "[" + "; ".join(zlit(x) for x in xs) + "]"


def coq_query(q):
    return "(" + q[0] + " " + " ".join(zlit(x) for x in q[1:]) + ")"


def coq_item(op, o):
    b = "true" if o["ok"] else "false"
    if op[0] == "Q":
        return f"IQ {o['now']} {coq_query(qargs(op))} {b} {coq_list(o['res'])}"
    if op[0] == "Inject":
        segs = "[" + "; ".join("Seg " + " ".join(zlit(x) for x in s) for s in op[1]) + "]"
        return f"IInject {segs} {op[2]}"
    return (f"IOp {o['round']} ({sp.coq_op(op)}) {b} {o['r1']} {o['r2']} {o['S']} {o['cur']} {o['len']} "
            f"{coq_list(o['last'])}")


def coq_init(cfg):
    ad = f"(Some {cfg['adder']})" if cfg.get("adder") else "None"
    l2 = cfg["liq2"]
    return f"(sp_init {cfg['fee']} {cfg['sfee']} {ad} {l2[0]} {l2[1]})"


def coq_history(cfg, trace):
    items = ";\n    ".join(coq_item(op, o) for op, o in trace)
    return f"(check_trace {coq_init(cfg)} 0 [\n    {items}])"


# ------------------------------------------------------------------ generation
def log_amount(rng, hi=10 ** 30):
    return sp.log_amount(rng, hi)


def gen_reserves(rng):
    cls = rng.random()
    if cls < 0.15:
        return [rng.randint(1, 9), rng.randint(1, 9), rng.randint(1, 9)]
    if cls < 0.3:
        return [rng.randint(1, 9), log_amount(rng), log_amount(rng, 10 ** 12)]
    return [log_amount(rng), log_amount(rng), log_amount(rng)]


def gen_segs(rng, k):
    """k update calls split into a few run-length segments with assorted gaps"""
    segs = []
    left = k
    nseg = rng.choice([1, 2, 3, 5, 8])
    while left > 0:
        if len(segs) >= nseg - 1:
            c = left
        else:
            c = rng.choice([1, 1, 2, rng.randint(1, max(1, left)), max(1, left // 2)])
        c = min(c, left)
        gap = rng.choice([1, 1, 1, 2, 3, 7, 50, 1000, 5000])
        segs.append([c, gap] + gen_reserves(rng))
        left -= c
    return segs


RING_PLANS = ["partial-small", "partial-1", "partial-2", "almost-full", "full", "wrap+1", "wrap+2", "wrap-mid",
              "wrap-2n-1", "wrap-2n", "wrap-2n+1", "wrap-rand"]


def plan_size(rng, plan):
    return {"partial-small": rng.randint(3, max(3, min(60, CAP - 2))), "partial-1": 1, "partial-2": 2,
            "almost-full": max(1, CAP - 1), "full": CAP, "wrap+1": CAP + 1, "wrap+2": CAP + 2,
            "wrap-mid": CAP + rng.randint(3, max(3, CAP - 3)), "wrap-2n-1": 2 * CAP - 1,
            "wrap-2n": 2 * CAP, "wrap-2n+1": 2 * CAP + 1, "wrap-rand": CAP + rng.randint(1, 2 * CAP)}[plan]


def gen_cfg(rng, idx=None):
    cfg = sp.gen_cfg(rng)
    r = rng.random() if idx is None else (idx % 5) / 5.0 + 0.01
    if r < 0.4:
        cfg["mode"] = "inject"
        cfg["plan"] = RING_PLANS[((idx // 5) * 2 + idx % 5 if idx is not None else rng.randrange(100)) % len(RING_PLANS)]
        cfg["adder"] = None
    else:
        cfg["mode"] = "live"
    return cfg


def pick_round(rng, w, cls=None):
    """a round of a given lookup class, from the shadow"""
    sh, now = w.sh, w.round
    rec = sh.rec
    if not rec:
        return rng.choice([0, 1, now, max(0, now - 1), now + 1, rng.randint(0, now + 2)])
    k = len(rec)
    lo = max(0, k - CAP)                # 0-based number of the oldest retained observation
    old, new = rec[lo], rec[-1]
    cur = (k - 1) % CAP + 1
    cls = cls or rng.choice(["oldest", "oldest", "exact", "exact", "exact", "interp", "interp", "interp", "last", "last",
                             "extrap", "extrap", "extrap", "now", "now", "idx", "idx", "idx", "idx", "near", "near",
                             "bad-old", "bad-future"])
    if cls == "oldest":
        return old
    if cls == "last":
        return new
    if cls == "now":
        return now
    if cls == "extrap":
        return rng.randint(new, now) if now > new else now
    if cls == "bad-old":
        return rng.choice([old - 1, old - 1, 0, max(0, old - rng.randint(1, 1000)), rec[lo - 1] if lo else 0])
    if cls == "bad-future":
        return now + rng.choice([1, 1, 2, 1000])
    if cls == "idx":
        # observation stored at a distinguished ring index
        target = rng.choice([1, 2, CAP, CAP - 1, cur, cur - 1, cur + 1, cur + 2, (lo % CAP) + 1])
        j = None
        for cand in (k - 1 - ((cur - target) % CAP),):
            if lo <= cand <= k - 1:
                j = cand
        if j is None:
            j = rng.randint(lo, k - 1)
        x = rec[j]
        return x + rng.choice([0, 0, -1, 1])
    j = rng.randint(lo, k - 1)
    if cls == "exact":
        return rec[j]
    if cls == "near":
        return rec[j] + rng.choice([-1, 1])
    # interp: strictly between two retained recorded rounds if there is such a gap near j
    for jj in list(range(j, min(k - 1, j + 40))) + list(range(max(lo, j - 40), j)):
        if jj + 1 <= k - 1 and rec[jj + 1] - rec[jj] > 1:
            return rng.randint(rec[jj] + 1, rec[jj + 1] - 1)
    return rec[j]


def gen_query(rng, w):
    now = w.round
    kind = rng.choice(["QObs", "QObs", "QPrice", "QPrice", "QPrice", "QLp", "QLp", "QPriceOff", "QLpOff",
                       "QPriceDef", "QLpDef", "QPriceTs", "QLpTs"])
    tok = rng.choice([1, 2]) if rng.random() < 0.97 else 3
    c = rng.random()
    amt = rng.randint(1, 9) if c < 0.15 else log_amount(rng) if c < 0.9 else 0
    if kind == "QObs":
        return ["Q", "QObs", pick_round(rng, w)]
    if kind in ("QPrice", "QLp"):
        a, b = pick_round(rng, w), pick_round(rng, w)
        bad = rng.random()
        if bad < 0.04:
            s, e = max(a, b), min(a, b)          # s >= e
        elif bad < 0.07:
            s = e = a
        else:
            s, e = min(a, b), max(a, b)
            if s == e:
                e = min(now, s + rng.choice([1, 1, 2, 600])) if s < now else s
                if s == e and w.sh.rec and s > w.sh.oldest():
                    s = max(w.sh.oldest(), s - rng.choice([1, 2, 600]))
        return ["Q", kind, s, e, tok, amt] if kind == "QPrice" else ["Q", kind, s, e, amt]
    if kind in ("QPriceOff", "QLpOff", "QPriceTs", "QLpTs"):
        s = pick_round(rng, w)
        off = now - s if rng.random() < 0.9 else rng.choice([0, now, now + 1])
        off = max(0, off)
        if kind.endswith("Ts"):
            off = off * SECONDS_PER_ROUND + rng.randint(0, SECONDS_PER_ROUND - 1)
        return ["Q", kind, off, tok, amt] if kind.startswith("QPrice") else ["Q", kind, off, amt]
    via = rng.choice(["view", "endpoint"])
    return ["Q", kind, tok, amt, via] if kind == "QPriceDef" else ["Q", kind, amt, via]


def gen_gap(rng):
    return rng.choice([1, 1, 1, 1, 2, 2, 3, 5, 10, 100, 599, 600, 601, 1000, 5000, 70000])


def bootstrap_ops(rng, cfg):
    a1, a2 = log_amount(rng, 10 ** 24) + 2000, log_amount(rng, 10 ** 24) + 2000
    if rng.random() < 0.2:
        a1, a2 = rng.randint(1001, 1100), rng.randint(1001, 1100)
    if cfg.get("adder"):
        return [["AddInitial", cfg["adder"], a1, a2], ["SetState", OWNER, 1]]
    return [["SetState", OWNER, 1], ["Add", rng.randint(1, NUSERS), a1, a2, 1, 1]]


def gen_op(rng, w, stats):
    """next operation of a live history (also used after an injection)"""
    if w.last["S"] == 0:
        if rng.random() < 0.25:
            return gen_query(rng, w)
        return sp.gen_op(rng, w, stats)
    roll = rng.random()
    if roll < 0.22:
        return ["Round", gen_gap(rng)]
    if roll < (0.60 if w.sh.rec else 0.26):
        return gen_query(rng, w)
    for _ in range(20):
        op = sp.gen_op(rng, w, stats)
        if op[0] != "Round":
            break
    # reserve-changing operations dominate (they are what feeds the ring)
    if op[0] not in UPDATING and rng.random() < 0.5:
        tin = rng.choice([1, 2])
        ri = w.last["r1"] if tin == 1 else w.last["r2"]
        return ["SwapIn", rng.randint(1, NUSERS), tin, max(1, log_amount(rng, max(10, ri))), 3 - tin, 1]
    return op


def run_ops(w, rng, nops, trace, fixed=()):
    stats = {}
    for op in fixed:
        trace.append((op, w.exec(op)))
    while sum(1 for _, o in trace if o is not None) < nops:
        op = gen_op(rng, w, stats)
        trace.append((op, w.exec(op)))


def gen_history(seed, nops, idx=None):
    rng = random.Random(seed)
    cfg = gen_cfg(rng, idx)
    w = SafePriceWorld(cfg)
    trace = []
    try:
        if cfg["mode"] == "live":
            fixed = bootstrap_ops(rng, cfg) if rng.random() < 0.85 else []
            if fixed and rng.random() < 0.5:
                fixed = [["Q", "QObs", 1], ["Q", "QPriceDef", 1, 1000, "view"]] + fixed + [["Q", "QLp", 0, 1, 1000]]
            run_ops(w, rng, nops, trace, fixed)
        else:
            fixed = bootstrap_ops(rng, cfg)
            for op in fixed:
                trace.append((op, w.exec(op)))
            k = plan_size(rng, cfg["plan"])
            segs = gen_segs(rng, k)
            last_round = sum(c * g for c, g, *_ in segs)
            now = last_round + rng.choice([0, 0, 1, 2, 5, 600, 5000])
            legacy = 0
            if rng.random() < 0.15:
                legacy = rng.choice([1, 2, min(k, CAP), rng.randint(1, min(k, CAP))])
            op = ["Inject", segs, legacy, now]
            trace.append((op, w.exec(op)))
            # queries at every class of position first, then the history goes on (the next recording
            # operation exercises push / overwrite at the real capacity)
            nq = max(6, nops // 2)
            for _ in range(nq):
                op = gen_query(rng, w)
                trace.append((op, w.exec(op)))
            run_ops(w, rng, nops, trace)
    finally:
        w.close()
    return cfg, trace


def replay_history(cfg, ops):
    w = SafePriceWorld(cfg)
    trace = []
    try:
        for op in ops:
            trace.append((op, w.exec(op)))
    finally:
        w.close()
    return trace
