#!/usr/bin/env python3
"""Standalone driver for the position-level farm-staking machinery.

  tools/try_staking_pos.py [--n 200] [--ops 40] [--seed 1] [--no-model] [--show-fail 5]

Generates histories on the real contract (MXVM_BIN / VERIF_REPO as for ./check), runs the C05/C06/C07
monitors on the real observations and the Coq correspondence (Run/StakingPosRun.v check_trace), and
prints counters.  Exit code 1 on any monitor failure or correspondence mismatch."""
import os, sys, argparse, time, json
ROOT = os.path.dirname(os.path.dirname(os.path.abspath(__file__)))
sys.path.insert(0, os.path.join(ROOT, "tools"))


def main():
    ap = argparse.ArgumentParser()
    ap.add_argument("--n", type=int, default=200)
    ap.add_argument("--ops", type=int, default=40)
    ap.add_argument("--seed", type=int, default=1)
    ap.add_argument("--no-model", action="store_true")
    ap.add_argument("--show-fail", type=int, default=5)
    ap.add_argument("--build", action="store_true", help="(re)build the executor first, honouring VERIF_REPO")
    a = ap.parse_args()
    if a.build:
        import framework
        ok, out = framework.build_harness()
        if not ok:
            print(out)
            sys.exit(2)
    from props import staking_pos_common as spc
    spc.budgets = lambda tier: (a.n, a.ops)
    t0 = time.time()
    ex = spc.explore_staking_pos("TRY", "quick", a.seed, spc.monitors_all, spc.nontrivial_all, model_ok=not a.no_model)
    dt = time.time() - t0
    ok = sum(v for k, v in ex.counters.items() if k.endswith(":ok"))
    err = sum(v for k, v in ex.counters.items() if k.endswith(":err"))
    print(f"histories {ex.histories}  ops {ex.evaluations}  ok {ok}  err {err}  ok-rate {100.0 * ok / max(1, ok + err):.1f}%  "
          f"non-trivial classes {len(ex.nontrivial)}  traces validated in Coq {ex.traces_validated}  ({dt:.0f} s)")
    for k in sorted(ex.counters):
        print(f"  {k:60s} {ex.counters[k]}")
    print(f"monitor failures: {len(ex.failures)}   correspondence mismatches: {len(ex.disagreements)}")
    keys = {}
    for f in ex.failures:
        keys.setdefault(f["key"], []).append(f)
    for k, fs in sorted(keys.items()):
        print(f"  FAIL {k} x{len(fs)}: {fs[0]['what'][:300]}")
    for f in ex.failures[:a.show_fail]:
        print("   replay:", json.dumps(dict(cfg=f["replay"]["cfg"], ops=f["replay"]["ops"]))[:3000])
    fields = {}
    for d in ex.disagreements:
        fields.setdefault(d["field"], []).append(d)
    for fld, ds in sorted(fields.items()):
        d = ds[0]
        print(f"  MISMATCH field {fld} x{len(ds)}: seed {d['seed']} index {d['index']} op {d['op']} model {d['model']} impl {d['impl']} cfg {d['cfg']}")
    sys.exit(1 if (ex.failures or ex.disagreements) else 0)


if __name__ == "__main__":
    main()
