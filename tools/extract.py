#!/usr/bin/env python3
"""Regenerate coq/Gen/Params.v from /repo's current source.

Every numeric constant the Gallina models and theorems depend on is read from the Rust source on
every run; the Coq development refers to them only by name and uses only *proved* facts about them
(coq/Proofs/ParamFacts.v), so a source edit of a constant is followed by the model (correspondence
stays meaningful) and breaks exactly the proof obligation that needed the old value.

A constant that is missing or cannot be parsed makes this script fail (exit 2): the tie is broken,
nothing is defaulted.
"""
import re, sys, os

REPO = os.environ.get("VERIF_REPO", "/repo")
ROOT = os.path.dirname(os.path.dirname(os.path.abspath(__file__)))
OUT = os.path.join(ROOT, "coq", "Gen", "Params.v")

# (Coq name, file, Rust constant name)
CONSTS = [
    ("PAIR_MAX_PERCENTAGE", "dex/pair/src/config.rs", "MAX_PERCENTAGE"),
    ("PAIR_MAX_FEE_PERCENTAGE", "dex/pair/src/config.rs", "MAX_FEE_PERCENTAGE"),
    ("MINIMUM_LIQUIDITY", "dex/pair/src/liquidity_pool.rs", "MINIMUM_LIQUIDITY"),
    ("MAX_OBSERVATIONS", "dex/pair/src/safe_price.rs", "MAX_OBSERVATIONS"),
    ("DEFAULT_SAFE_PRICE_ROUNDS_OFFSET", "dex/pair/src/safe_price_view.rs", "DEFAULT_SAFE_PRICE_ROUNDS_OFFSET"),
    ("SECONDS_PER_ROUND", "dex/pair/src/safe_price_view.rs", "SECONDS_PER_ROUND"),
    ("ROUTER_MAX_TOTAL_FEE_PERCENT", "dex/router/src/contract.rs", "MAX_TOTAL_FEE_PERCENT"),
    ("ROUTER_USER_DEFINED_TOTAL_FEE_PERCENT", "dex/router/src/contract.rs", "USER_DEFINED_TOTAL_FEE_PERCENT"),
    ("ROUTER_DEFAULT_TOTAL_FEE_PERCENT", "dex/router/src/contract.rs", "DEFAULT_TOTAL_FEE_PERCENT"),
    ("ROUTER_DEFAULT_SPECIAL_FEE_PERCENT", "dex/router/src/contract.rs", "DEFAULT_SPECIAL_FEE_PERCENT"),
    ("FARM_MAX_PERCENT", "dex/farm/src/lib.rs", "MAX_PERCENT"),
    ("FARM_DEFAULT_PENALTY_PERCENT", "dex/farm/src/exit_penalty.rs", "DEFAULT_PENALTY_PERCENT"),
    ("FARM_DEFAULT_MINUMUM_FARMING_EPOCHS", "dex/farm/src/exit_penalty.rs", "DEFAULT_MINUMUM_FARMING_EPOCHS"),
    ("FARM_MAX_MINIMUM_FARMING_EPOCHS", "dex/farm/src/exit_penalty.rs", "MAX_MINIMUM_FARMING_EPOCHS"),
    ("DEFAULT_NFT_DEPOSIT_MAX_LEN", "common/modules/farm/config/src/config.rs", "DEFAULT_NFT_DEPOSIT_MAX_LEN"),
    ("DEFAULT_FARM_POSITION_MIGRATION_NONCE", "common/modules/farm/config/src/config.rs", "DEFAULT_FARM_POSITION_MIGRATION_NONCE"),
    ("BOOSTED_MAX_PERCENT", "energy-integration/farm-boosted-yields/src/lib.rs", "MAX_PERCENT"),
    ("STAKING_MAX_PERCENT", "farm-staking/farm-staking/src/custom_rewards.rs", "MAX_PERCENT"),
    ("BLOCKS_IN_YEAR", "farm-staking/farm-staking/src/custom_rewards.rs", "BLOCKS_IN_YEAR"),
    ("MAX_MIN_UNBOND_EPOCHS", "farm-staking/farm-staking/src/custom_rewards.rs", "MAX_MIN_UNBOND_EPOCHS"),
    ("PD_MAX_PERCENTAGE", "dex/price-discovery/src/common_storage.rs", "MAX_PERCENTAGE"),
    ("PD_MAX_TOKEN_DECIMALS", "dex/price-discovery/src/lib.rs", "MAX_TOKEN_DECIMALS"),
    ("PD_LAUNCHED_TOKEN_REDEEM_NONCE", "dex/price-discovery/src/redeem_token.rs", "LAUNCHED_TOKEN_REDEEM_NONCE"),
    ("PD_ACCEPTED_TOKEN_REDEEM_NONCE", "dex/price-discovery/src/redeem_token.rs", "ACCEPTED_TOKEN_REDEEM_NONCE"),
    ("EPOCHS_PER_MONTH", "locked-asset/energy-factory/src/lock_options.rs", "EPOCHS_PER_MONTH"),
    ("EPOCHS_PER_YEAR", "locked-asset/energy-factory/src/lock_options.rs", "EPOCHS_PER_YEAR"),
    ("MAX_PENALTY_PERCENTAGE", "locked-asset/energy-factory/src/lock_options.rs", "MAX_PENALTY_PERCENTAGE"),
    ("MAX_LOCK_OPTIONS", "locked-asset/energy-factory/src/lock_options.rs", "MAX_LOCK_OPTIONS"),
    ("UNSTAKE_MAX_PENALTY_PERCENTAGE", "locked-asset/token-unstake/src/fees_handler.rs", "MAX_PENALTY_PERCENTAGE"),
    ("MAX_CLAIM_UNLOCKED_TOKENS", "locked-asset/token-unstake/src/unbond_tokens.rs", "MAX_CLAIM_UNLOCKED_TOKENS"),
    ("USER_MAX_CLAIM_WEEKS", "energy-integration/common-modules/weekly-rewards-splitting/src/lib.rs", "USER_MAX_CLAIM_WEEKS"),
    ("EPOCHS_IN_WEEK", "energy-integration/common-modules/week-timekeeping/src/lib.rs", "EPOCHS_IN_WEEK"),
    ("FIRST_WEEK", "energy-integration/common-modules/week-timekeeping/src/lib.rs", "FIRST_WEEK"),
    ("BLOCKS_IN_WEEK", "energy-integration/fees-collector/src/additional_locked_tokens.rs", "BLOCKS_IN_WEEK"),
    ("GOV_MIN_VOTING_DELAY", "energy-integration/governance-v2/src/configurable.rs", "MIN_VOTING_DELAY"),
    ("GOV_MAX_VOTING_DELAY", "energy-integration/governance-v2/src/configurable.rs", "MAX_VOTING_DELAY"),
    ("GOV_MIN_VOTING_PERIOD", "energy-integration/governance-v2/src/configurable.rs", "MIN_VOTING_PERIOD"),
    ("GOV_MAX_VOTING_PERIOD", "energy-integration/governance-v2/src/configurable.rs", "MAX_VOTING_PERIOD"),
    ("GOV_MIN_QUORUM", "energy-integration/governance-v2/src/configurable.rs", "MIN_QUORUM"),
    ("GOV_MAX_QUORUM", "energy-integration/governance-v2/src/configurable.rs", "MAX_QUORUM"),
    ("GOV_FULL_PERCENTAGE", "energy-integration/governance-v2/src/configurable.rs", "FULL_PERCENTAGE"),
    ("GOV_MIN_MIN_FEE_FOR_PROPOSE", "energy-integration/governance-v2/src/configurable.rs", "MIN_MIN_FEE_FOR_PROPOSE"),
    ("GOV_MAX_MIN_FEE_FOR_PROPOSE", "energy-integration/governance-v2/src/configurable.rs", "MAX_MIN_FEE_FOR_PROPOSE"),
    ("GOV_DECIMALS_CONST", "energy-integration/governance-v2/src/configurable.rs", "DECIMALS_CONST"),
    ("GOV_MAX_GAS_LIMIT_PER_BLOCK", "energy-integration/governance-v2/src/configurable.rs", "MAX_GAS_LIMIT_PER_BLOCK"),
    ("GOV_MAX_PROPOSAL_ACTIONS", "energy-integration/governance-v2/src/proposal.rs", "MAX_GOVERNANCE_PROPOSAL_ACTIONS"),
    ("ROUTER_TEMPORARY_OWNER_PERIOD_BLOCKS", "dex/router/src/factory.rs", "TEMPORARY_OWNER_PERIOD_BLOCKS"),
    ("PROXY_MIN_MERGE_PAYMENTS", "locked-asset/proxy_dex/src/proxy_common.rs", "MIN_MERGE_PAYMENTS"),
]

# Rust enums whose discriminant order the models rely on: (Coq prefix, file, enum name)
ENUMS = [
    ("ST", "common/modules/pausable/src/pausable.rs", "State"),
    ("PD_PHASE", "dex/price-discovery/src/phase.rs", "Phase"),
    ("GOV_STATUS", "energy-integration/governance-v2/src/proposal.rs", "GovernanceProposalStatus"),
    ("GOV_VOTE", "energy-integration/governance-v2/src/proposal_storage.rs", "VoteType"),
]


class TieError(Exception):
    pass


def eval_expr(expr, env):
    expr = re.sub(r"//.*", "", expr).strip().rstrip(";").strip()
    expr = re.sub(r"(\d)_(?=\d)", r"\1", expr)
    expr = re.sub(r"(\d+)(u64|usize|u32|u8|u16|i64)\b", r"\1", expr)
    expr = re.sub(r"\bas\s+(u64|usize|u32)\b", "", expr)
    if not re.fullmatch(r"[0-9A-Z_a-z+\-*/() ]+", expr):
        raise TieError(f"cannot evaluate {expr!r}")
    names = set(re.findall(r"[A-Za-z_][A-Za-z_0-9]*", expr))
    scope = {}
    for n in names:
        if n not in env:
            raise TieError(f"unknown name {n} in {expr!r}")
        scope[n] = env[n]
    return int(eval(expr.replace("/", "//"), {"__builtins__": {}}, scope))


def file_consts(path):
    """all `const NAME: T = expr;` of one file, evaluated in order"""
    src = open(path).read()
    env = {}
    where = {}
    for m in re.finditer(r"^\s*(?:pub(?:\([a-z]+\))?\s+)?const\s+([A-Z_0-9]+)\s*:\s*[A-Za-z0-9_]+\s*=\s*([^;]+);", src, re.M):
        name, expr = m.group(1), m.group(2)
        line = src[:m.start()].count("\n") + 1
        try:
            env[name] = eval_expr(expr, env)
            where[name] = line
        except TieError:
            pass
    # `use other::CONST` imports needed by expressions (e.g. USER_MAX_CLAIM_WEEKS) are not followed
    return env, where


def enum_variants(path, name):
    src = open(path).read()
    m = re.search(r"enum\s+" + name + r"\s*(?:<[^>]*>)?\s*\{", src)
    if not m:
        raise TieError(f"enum {name} not found in {path}")
    depth, i = 1, m.end()
    while depth and i < len(src):
        depth += {"{": 1, "}": -1}.get(src[i], 0)
        i += 1
    body = src[m.end():i - 1]
    body = re.sub(r"//.*", "", body)
    body = re.sub(r"#\[[^\]]*\]", "", body)
    body = re.sub(r"\{[^}]*\}", "", body)   # struct-like variants
    body = re.sub(r"\([^)]*\)", "", body)   # tuple variants
    vs = []
    for part in body.split(","):
        part = part.strip()
        if not part:
            continue
        vm = re.match(r"([A-Za-z0-9_]+)", part)
        vs.append(vm.group(1))
    return vs


def generate():
    lines = ["(* GENERATED by tools/extract.py from the Rust sources of /repo — do not edit. *)",
             "From Coq Require Import ZArith.", "Open Scope Z_scope.", ""]
    cache = {}
    for coqname, rel, rust in CONSTS:
        path = os.path.join(REPO, rel)
        if not os.path.exists(path):
            raise TieError(f"missing source file {rel}")
        if path not in cache:
            cache[path] = file_consts(path)
        env, where = cache[path]
        if rust not in env:
            raise TieError(f"constant {rust} not found / not evaluable in {rel}")
        lines.append(f"Definition {coqname} : Z := {env[rust]}.  (* {rel} {rust} *)")
    lines.append("")
    for prefix, rel, name in ENUMS:
        path = os.path.join(REPO, rel)
        if not os.path.exists(path):
            raise TieError(f"missing source file {rel}")
        vs = enum_variants(path, name)
        for i, v in enumerate(vs):
            lines.append(f"Definition {prefix}_{v} : Z := {i}.  (* {rel} enum {name} *)")
        lines.append(f"Definition {prefix}_COUNT : Z := {len(vs)}.")
        lines.append("")
    return "\n".join(lines) + "\n"


def main():
    try:
        text = generate()
    except TieError as e:
        print(f"TIE-BROKEN: {e}")
        return 2
    old = open(OUT).read() if os.path.exists(OUT) else None
    if old != text:
        os.makedirs(os.path.dirname(OUT), exist_ok=True)
        open(OUT, "w").write(text)
        print("Params.v regenerated (changed)")
    return 0


if __name__ == "__main__":
    sys.exit(main())
