"""Fees-collector subsystem: the real energy-integration/fees-collector, the real
energy-factory-mock as energy source (the collector reads its `userEnergy` storage), the real
energy-factory as locking contract for locked-token rewards (lockVirtual), plain SC-address
accounts as known depositors / whitelisted claim proxy — all driven through the mxvm executor.
Op generator; observation; Coq case emission.

Account ids used by the model (coq/Model/FeesCollector.v): 100 = owner, 1..NUSERS = users,
60 = depositor known from the start, 61 = second depositor (unknown until AddContract),
70 = claim proxy (SC address; whitelisted by WlAdd).  Ids 50..99 are SC addresses.
Token codes: 1, 2, 3 = fungible fee tokens (3 unknown until AddToken), 8 = the locked token.
"""
import random
from vmx import *

T = {1: b"FIRST-abcdef", 2: b"SECOND-abcdef", 3: b"THIRD-abcdef", 8: b"LOCKED-abcdef"}
CODE = {v: k for k, v in T.items()}
BASE = b"MEX-abcdef"
LEGACY = b"LEGACY-abcdef"
NUSERS = 4
OWNER, DEP, DEP2, PROXY = 100, 60, 61, 70
USERS = list(range(1, NUSERS + 1))
CLAIMERS = USERS + [PROXY]            # accounts whose claim progress is observed
FEE_TOKENS = [1, 2, 3, 8]
EPOCHS_IN_WEEK = 7
MAX_CLAIM_WEEKS = 4
BLOCKS_IN_WEEK = 100_800
BIG = 10 ** 60
WINDOW = 7                            # weeks back that are observed after every operation


def zlit(n):
    return f"({n})" if n < 0 else str(n)


def signed_nested(n):
    """nested BigInt"""
    if n == 0:
        return nest_bytes(b"")
    ln = (n.bit_length() + 8) // 8
    return nest_bytes(n.to_bytes(ln, "big", signed=True))


def dec_energy(d):
    amt = d.bigint()
    ep = d.u64()
    tok = d.big()
    return amt, ep, tok


def dec_payments(b):
    d = Dec(b)
    out = []
    while not d.done():
        out.append(d.payment())
    return out


class FeesWorld:
    def __init__(self, cfg):
        """cfg: dict(epoch0, setup=[ops])"""
        self.cfg = cfg
        vm = self.vm = VM()
        self.addr = {OWNER: user_addr("owner"), DEP: sc_addr("depositor"), DEP2: sc_addr("depositor2"),
                     PROXY: sc_addr("claimproxy")}
        for u in USERS:
            self.addr[u] = user_addr(f"user{u}")
        self.coll = sc_addr("collector")
        self.efact = sc_addr("efactory")       # energy source (mock)
        self.locker = sc_addr("locker")        # real energy factory: lockVirtual for locked-token rewards
        for a in self.addr.values():
            vm.acct(a)
        self.epoch = cfg["epoch0"]
        self.nonce = 1
        vm.block(nonce=1, round_=1, epoch=self.epoch, ts=6)
        own = self.addr[OWNER]
        vm.acct(self.efact, code="energy-factory-mock", owner=own)
        vm.sset(self.efact, b"baseAssetTokenId", BASE)
        vm.sset(self.efact, b"lockedTokenId", T[8])
        r = vm.deploy(own, "energy-factory",
                      [BASE, LEGACY, self.locker, top_u(0), top_u(360), top_u(4000), top_u(720), top_u(6000),
                       top_u(1440), top_u(8000)], new_addr=self.locker)
        assert r.ok, r
        vm.sset(self.locker, b"lockedTokenId", T[8])
        vm.roles(self.locker, BASE, ["ESDTRoleLocalMint", "ESDTRoleLocalBurn"])
        vm.roles(self.locker, T[8], ["ESDTRoleNFTCreate", "ESDTRoleNFTAddQuantity", "ESDTRoleNFTBurn", "ESDTTransferRole"])
        assert vm.call(own, self.locker, "unpause").ok
        r = vm.deploy(own, "fees-collector", [T[8], self.efact], new_addr=self.coll)
        assert r.ok, r
        vm.roles(self.coll, T[8], ["ESDTRoleNFTBurn"])
        assert vm.call(own, self.locker, "addSCAddressToWhitelist", [self.coll]).ok
        assert vm.call(own, self.coll, "setLockingScAddress", [self.locker]).ok
        assert vm.call(own, self.coll, "setLockEpochs", [top_u(1440)]).ok
        self.locked_attrs = nest_bytes(BASE) + nest_u64(0) + nest_u64(3000)
        self.refill()
        # ghost bookkeeping for the monitors (never fed back into the contracts)
        self.deposited = {}         # (week, token) -> amount deposited for that week
        self.paid = {}              # (week, token) -> amount the claims of that week's rewards should have paid
        self.claimed = {}           # user -> set of weeks already paid
        self.tot_dep = {t: 0 for t in FEE_TOKENS}
        self.tot_paid = {t: 0 for t in FEE_TOKENS}
        self.shadow = dict(paused=False, tokens=[8], contracts=[], wl=[], per_block=0, lock_week=0)
        self.last = self.observe_state()
        for op in cfg["setup"]:
            o = self.exec(op)
            assert o["ok"], (op, o["msg"])

    def refill(self):
        vm = self.vm
        for d in (DEP, DEP2, 1):
            for t in (1, 2, 3):
                vm.setbal(self.addr[d], T[t], 0, BIG)
            vm.setbal(self.addr[d], T[8], 0, BIG)
            vm.setbal(self.addr[d], T[8], 1, BIG, self.locked_attrs)

    def close(self):
        self.vm.close()

    # ------------------------------------------------------------ observation
    def q_u(self, func, args=()):
        r = self.vm.query(self.coll, func, args)
        assert r.ok, (func, r)
        return from_top_u(r.out[0]) if r.out else 0

    def progress(self, u):
        raw = self.vm.sget(self.coll, b"currentClaimProgress" + self.addr[u])
        if not raw:
            return None
        d = Dec(raw)
        amt, ep, tok = dec_energy(d)
        wk = d.u32()
        assert d.done()
        return [amt, ep, tok, wk]

    def observe_state(self):
        vm = self.vm
        cw = self.q_u("getCurrentWeek")
        weeks = list(range(max(0, cw - WINDOW), cw + 1))
        o = dict(week=cw, epoch=self.epoch, last=self.q_u("getLastGlobalUpdateWeek"),
                 first=from_top_u(vm.sget(self.coll, b"firstBucketId")))
        o["energy"] = {w: self.q_u("getTotalEnergyForWeek", [top_u(w)]) for w in weeks}
        o["tokens"] = {w: self.q_u("getTotalLockedTokensForWeek", [top_u(w)]) for w in weeks}
        rew = {}
        for w in weeks:
            r = vm.query(self.coll, "getTotalRewardsForWeek", [top_u(w)])
            assert r.ok
            ps = dec_payments(r.out[0]) if r.out else []
            rew[w] = [[CODE[t], a] for (t, n, a) in ps]
        o["rewards"] = rew
        o["acc"] = {w: {t: self.q_u("getAccumulatedFees", [top_u(w), T[t]]) for t in FEE_TOKENS} for w in weeks}
        o["prog"] = {u: self.progress(u) for u in CLAIMERS}
        o["bal"] = {t: vm.bal(self.coll, T[t]) for t in FEE_TOKENS}
        bt, bs = {}, {}
        for k, v in vm.sdump(self.coll):
            if k.startswith(b"lockedTokensInBucket"):
                bid = int.from_bytes(k[len(b"lockedTokensInBucket"):], "big")
                d = Dec(v)
                bt[bid] = d.big()
                bs[bid] = d.big()
        o["btok"], o["bsur"] = bt, bs
        o["tokens_known"] = [CODE[bytes(x)] for x in self.all_tokens()]
        return o

    def all_tokens(self):
        r = self.vm.query(self.coll, "getAllTokens")
        assert r.ok
        return r.out

    def user_bals(self, a):
        vm = self.vm
        d = {t: vm.bal(a, T[t]) for t in (1, 2, 3)}
        d[8] = sum(amt for (tk, n, amt) in vm.tokens(a) if tk == T[8])
        return d

    # ------------------------------------------------------------ execution
    def exec(self, op):
        vm = self.vm
        k = op[0]
        A = self.addr
        own = A[OWNER]
        outs = []
        dest = None
        pre_dest = None
        pre_dig = None
        if k == "Advance":
            self.epoch += op[1]
            self.nonce += 1
            vm.block(nonce=self.nonce, round_=self.nonce, epoch=self.epoch, ts=6 * self.nonce)
            r = Result(0, "", [])
        elif k == "SetEnergy":
            _, u, amt, tok = op
            r = vm.call(own, self.efact, "setUserEnergy", [A[u], top_u(amt), top_u(tok)])
        elif k == "SetEnergyRaw":
            _, u, amt, ep, tok = op
            r = vm.call(own, self.efact, "setUserEnergyAfterLockedTokenTransfer",
                        [A[u], signed_nested(amt) + nest_u64(ep) + nest_big(tok)])
        elif k == "Deposit":
            _, c, tok, nonce, amt = op
            if nonce > 0:
                vm.setbal(A[c], T[tok], nonce, BIG, self.locked_attrs)
            pre_dig = vm.digest([self.coll])
            r = vm.call(A[c], self.coll, "depositSwapFees", [], [(T[tok], nonce, amt)])
        elif k == "Claim":
            _, c, orig, boosted = op
            dest = orig if (boosted and orig is not None) else c
            pre_dest = self.user_bals(A[dest])
            pre_dig = vm.digest([self.coll])
            args = [A[orig]] if orig is not None else []
            r = vm.call(A[c], self.coll, "claimBoostedRewards" if boosted else "claimRewards", args)
            if r.ok:
                ps = dec_payments(r.out[0]) if r.out else []
                outs = [[CODE[t], a] for (t, n, a) in ps]
        elif k == "UpdateEnergy":
            _, c, u = op
            pre_dig = vm.digest([self.coll])
            r = vm.call(A[c], self.coll, "updateEnergyForUser", [A[u]])
        elif k == "Pause":
            _, c, p = op
            r = vm.call(A[c], self.coll, "pause" if p else "unpause")
        elif k == "AddToken":
            r = vm.call(A[op[1]], self.coll, "addKnownTokens", [T[op[2]]])
        elif k == "RemoveToken":
            r = vm.call(A[op[1]], self.coll, "removeKnownTokens", [T[op[2]]])
        elif k == "AddContract":
            r = vm.call(A[op[1]], self.coll, "addKnownContracts", [A[op[2]]])
        elif k == "RemoveContract":
            r = vm.call(A[op[1]], self.coll, "removeKnownContracts", [A[op[2]]])
        elif k == "WlAdd":
            r = vm.call(A[op[1]], self.coll, "addSCAddressToWhitelist", [A[op[2]]])
        elif k == "WlRm":
            r = vm.call(A[op[1]], self.coll, "removeSCAddressFromWhitelist", [A[op[2]]])
        elif k == "SetPerBlock":
            r = vm.call(A[op[1]], self.coll, "setLockedTokensPerBlock", [top_u(op[2])])
        else:
            raise ValueError(k)
        o = self.observe_state()
        o["ok"] = r.ok
        o["msg"] = r.msg
        o["outs"] = outs
        if dest is not None:
            post = self.user_bals(A[dest])
            o["ddest"] = {t: post[t] - pre_dest[t] for t in post}
        if not r.ok and pre_dig is not None:
            o["unchanged"] = (vm.digest([self.coll]) == pre_dig)
        pre = self.last
        o["pre"] = pre
        o["pre_shadow"] = dict(self.shadow, tokens=list(self.shadow["tokens"]))
        self.ghost(op, o, pre)
        o["ghost"] = dict(deposited={f"{w}:{t}": v for (w, t), v in self.deposited.items()},
                          paid={f"{w}:{t}": v for (w, t), v in self.paid.items()},
                          tot_dep=dict(self.tot_dep), tot_paid=dict(self.tot_paid))
        self.last = {k_: v for k_, v in o.items() if k_ not in ("pre", "ghost", "pre_shadow", "expected")}
        return o

    # ------------------------------------------------------------ ghost ledger for the monitors
    def additional(self, cw):
        """mirror of the bookkeeping of when extra locked tokens are credited (only to know what was
        *deposited* for a week; the amounts themselves are checked against getAccumulatedFees)"""
        sh = self.shadow
        if sh["lock_week"] != cw:
            add = sh["per_block"] * BLOCKS_IN_WEEK
            self.deposited[(cw - 1, 8)] = self.deposited.get((cw - 1, 8), 0) + add
            sh["lock_week"] = cw

    def ghost(self, op, o, pre):
        k = op[0]
        sh = self.shadow
        if not o["ok"]:
            return
        cw = o["week"]
        if k == "Deposit":
            _, c, tok, nonce, amt = op
            self.deposited[(cw, tok)] = self.deposited.get((cw, tok), 0) + amt
            if nonce == 0:
                self.tot_dep[tok] += amt
        elif k == "Claim":
            self.additional(cw)
            _, c, orig, boosted = op
            user = orig if orig is not None else c
            exp = expected_claim(pre, o, user, cw)
            o["expected"] = exp
            for (w, per_tok) in exp["weeks"]:
                for t, a in per_tok:
                    self.paid[(w, t)] = self.paid.get((w, t), 0) + a
                    if t != 8:
                        self.tot_paid[t] += a
            o["claimed_before"] = list(self.claimed.get(user, []))
            o["paid_weeks"] = [w for (w, per_tok) in exp["weeks"] if per_tok]
            self.claimed.setdefault(user, []).extend(o["paid_weeks"])
        elif k == "SetPerBlock":
            self.additional(cw)
            sh["per_block"] = op[2]
        elif k == "Pause":
            sh["paused"] = op[2]
        elif k == "AddToken":
            if op[2] not in sh["tokens"]:
                sh["tokens"].append(op[2])
        elif k == "RemoveToken":
            if op[2] in sh["tokens"]:
                sh["tokens"].remove(op[2])
        elif k == "AddContract":
            if op[2] not in sh["contracts"]:
                sh["contracts"].append(op[2])
        elif k == "RemoveContract":
            if op[2] in sh["contracts"]:
                sh["contracts"].remove(op[2])
        elif k == "WlAdd":
            sh["wl"].append(op[2])
        elif k == "WlRm":
            sh["wl"].remove(op[2])


def decayed(prog, w):
    """a recorded claim-progress entry [amount, epoch, tokens, week] decayed to week w (>= its week)"""
    amt, ep, tok, wk = prog
    return max(0, amt - EPOCHS_IN_WEEK * tok * (w - wk))


def expected_claim(pre, o, user, cw):
    """What the property text promises for a successful claim of `user` at week `cw`, computed from the
    REAL views: pre-claim progress of the user, the weeks' total energies, the weeks' total rewards
    (as frozen after the claim).  -> dict(weeks=[(w, [(token, amount)])], per_token={t: sum})"""
    pg = pre["prog"].get(user)
    weeks = []
    per_token = {}
    if pg is not None:
        start = max(pg[3], cw - MAX_CLAIM_WEEKS)
        for w in range(start, cw):
            e = decayed(pg, w)
            E = pre["energy"].get(w, 0) if w != cw else 0
            tot = o["rewards"].get(w, [])
            lst = []
            if e > 0 and E > 0:
                for t, a in tot:
                    x = a * e // E
                    if x > 0:
                        lst.append((t, x))
                        per_token[t] = per_token.get(t, 0) + x
            weeks.append((w, lst))
    return dict(weeks=weeks, per_token=per_token)


# ------------------------------------------------------------------ Coq emission
def coq_op(op):
    k = op[0]
    if k == "Claim":
        _, c, orig, boosted = op
        return f"Claim {c} {'None' if orig is None else f'(Some {orig})'} {'true' if boosted else 'false'}"
    if k == "Pause":
        return f"Pause {op[1]} {'true' if op[2] else 'false'}"
    return k + " " + " ".join(zlit(x) for x in op[1:])


def coq_pairs(items):
    return "[" + "; ".join(f"({zlit(k)}, {zlit(v)})" for k, v in items) + "]"


def coq_obs(o):
    outs = coq_pairs([(t, a) for t, a in o["outs"]])
    energy = coq_pairs(sorted(o["energy"].items()))
    tokens = coq_pairs(sorted(o["tokens"].items()))
    rewards = "[" + "; ".join(f"({w}, {coq_pairs([(t, a) for t, a in v])})" for w, v in sorted(o["rewards"].items())) + "]"
    acc = "[" + "; ".join(f"({w}, {coq_pairs(sorted(v.items()))})" for w, v in sorted(o["acc"].items())) + "]"
    prog = "[" + "; ".join(f"({u}, [{'; '.join(zlit(x) for x in (p or []))}])" for u, p in sorted(o["prog"].items())) + "]"
    bal = coq_pairs(sorted(o["bal"].items()))
    btok = coq_pairs(sorted(o["btok"].items()))
    bsur = coq_pairs(sorted(o["bsur"].items()))
    return (f"mkObs {'true' if o['ok'] else 'false'} {outs} {o['week']} {o['last']} {o['first']} {energy} {tokens} "
            f"{rewards} {acc} {prog} {bal} {btok} {bsur}")


def coq_init(cfg):
    setup = "[" + "; ".join(coq_op(op) for op in cfg["setup"]) + "]"
    return f"(init_world {cfg['epoch0']} {setup})"


def coq_history(cfg, trace):
    items = ";\n    ".join(f"({coq_op(op)}, {coq_obs(o)})" for op, o in trace)
    return f"(check_trace {coq_init(cfg)} 0 [\n    {items}])"


# ------------------------------------------------------------------ generation
def log_amount(rng, hi=10 ** 27):
    e = rng.uniform(0, len(str(hi)) - 1)
    return max(1, int(10 ** e) + rng.randint(0, 9))


def gen_cfg(rng):
    toks = rng.choice([[1, 2], [2, 1], [1], [1, 2, 3]])
    setup = [["AddContract", OWNER, DEP]] + [["AddToken", OWNER, t] for t in toks]
    if rng.random() < 0.6:
        setup.append(["WlAdd", OWNER, PROXY])
    if rng.random() < 0.35:
        setup.append(["SetPerBlock", OWNER, rng.choice([1, 3, 10 ** 6, 10 ** 18])])
    return dict(epoch0=rng.choice([0, 1, 5, 5, 13, 100, 2000]), setup=setup)


def gen_energy(rng):
    """(amount, tokens) classes: long lock, expiring within a few weeks, exact multiple of a week of decay,
    below one epoch of decay, tokens without energy, energy without tokens, tiny"""
    cls = rng.random()
    tok = log_amount(rng, 10 ** 24)
    if cls < 0.42:
        return tok * rng.randint(30, 1440) + rng.randint(0, tok), tok
    if cls < 0.60:
        return tok * rng.randint(1, 35) + rng.choice([0, 0, 1, tok - 1, rng.randint(0, tok)]), tok
    if cls < 0.67:
        return EPOCHS_IN_WEEK * tok * rng.randint(1, 6), tok
    if cls < 0.74:
        return rng.randint(0, tok), tok
    if cls < 0.80:
        return 0, tok
    if cls < 0.85:
        return log_amount(rng, 10 ** 24), 0
    if cls < 0.90:
        return 0, 0
    t = rng.randint(1, 5)
    return rng.randint(0, 200), t


def valid_deposit(rng, w):
    sh = w.shadow
    known = list(sh["tokens"])
    c = rng.choice(sh["contracts"] or [DEP])
    tok = rng.choice(known) if known else 1
    cls = rng.random()
    amt = log_amount(rng) if cls < 0.6 else (rng.randint(1, 30) if cls < 0.85 else rng.choice([0, 1, 10 ** 18, 10 ** 27]))
    nonce = 0
    if tok == 8:
        nonce = 1 if rng.random() < 0.85 else 0
    return ["Deposit", c, tok, nonce, amt]


def admin_op(rng, w, c):
    kind = rng.random()
    if kind < 0.16:
        return ["Pause", c, True]
    if kind < 0.20:
        return ["Pause", c, False]
    if kind < 0.42:
        return ["AddToken", c, rng.choice([1, 2, 3])]
    if kind < 0.52:
        return ["RemoveToken", c, rng.choice([1, 2, 3])]
    if kind < 0.62:
        return ["AddContract", c, rng.choice([DEP2, DEP2, DEP])]
    if kind < 0.68:
        return ["RemoveContract", c, rng.choice([DEP2, DEP2, DEP])]
    if kind < 0.78:
        return ["WlAdd", c, PROXY] if PROXY not in w.shadow["wl"] else ["WlRm", c, PROXY]
    return ["SetPerBlock", c, rng.choice([0, 1, 7, 10 ** 6, 10 ** 18])]


def malformed_op(rng, w, st):
    """calls that the contracts must reject: wrong caller, wrong token, wrong phase"""
    s = w.last
    sh = w.shadow
    cw = s["week"]
    known = list(sh["tokens"])
    kind = rng.random()
    if kind < 0.16:
        return ["Deposit", rng.choice([DEP2 if DEP2 not in sh["contracts"] else 1, 1, 2 if False else 1]), rng.choice([1, 2]), 0, log_amount(rng)]
    if kind < 0.26:
        unknown = [t for t in (1, 2, 3) if t not in known]
        if unknown:
            return ["Deposit", rng.choice(sh["contracts"] or [DEP]), rng.choice(unknown), 0, log_amount(rng)]
    if kind < 0.32 and 1 in known:
        return ["Deposit", rng.choice(sh["contracts"] or [DEP]), 1, 1, log_amount(rng)]
    if kind < 0.46:
        c = rng.choice(USERS) if (PROXY in sh["wl"] or rng.random() < 0.5) else PROXY
        return ["Claim", c, rng.choice(USERS), False]
    if kind < 0.54:
        return ["Claim", rng.choice(USERS), rng.choice(USERS), True]
    if kind < 0.70:
        stale = [u for u in USERS if s["prog"].get(u) and s["prog"][u][3] < cw]
        if stale:
            return ["UpdateEnergy", rng.choice(USERS + [OWNER]), rng.choice(stale)]
    if kind < 0.78:
        return rng.choice([["WlAdd", OWNER, PROXY] if PROXY in sh["wl"] else ["WlRm", OWNER, PROXY],
                           ["AddContract", OWNER, rng.choice(USERS)]])
    return admin_op(rng, w, rng.choice(USERS + [DEP]))


def gen_op(rng, w, st):
    """mostly-valid op from the world's last observed state; st = generator memory (factory entries)"""
    s = w.last
    sh = w.shadow
    cw = s["week"]
    fe = st.setdefault("fe", {})

    def has_energy(u):
        if u not in fe:
            return False
        amt, ep, tok = fe[u]
        return amt - tok * max(0, w.epoch - ep) > 0

    def set_energy(u):
        if rng.random() < 0.12:
            amt, tok = gen_energy(rng)
            amt = rng.choice([-amt, -1, amt - 2 * tok * 7, amt])
            ep = rng.randint(max(0, w.epoch - 20), w.epoch + (2 if rng.random() < 0.1 else 0))
            fe[u] = (amt, ep, tok)
            return ["SetEnergyRaw", u, amt, ep, tok]
        amt, tok = gen_energy(rng)
        fe[u] = (amt, w.epoch, tok)
        return ["SetEnergy", u, amt, tok]

    if sh["paused"]:
        r = rng.random()
        if r < 0.35:
            return ["Pause", OWNER, False]
        if r < 0.75:
            return ["Claim", rng.choice(USERS), None, rng.random() < 0.2]
    # a week only becomes claimable for the users that touched the contract during it
    need_touch = [u for u in USERS if has_energy(u) and (s["prog"].get(u) is None or s["prog"][u][3] < cw)]
    if need_touch and rng.random() < 0.55:
        u = rng.choice(need_touch)
        if s["prog"].get(u) is None and rng.random() < 0.25:
            return ["UpdateEnergy", rng.choice(USERS), u]
        if PROXY in sh["wl"] and rng.random() < 0.1:
            return ["Claim", PROXY, u, False]
        return ["Claim", u, None, rng.random() < 0.1]
    if all(v == 0 for v in s["acc"][cw].values()) and rng.random() < 0.6:
        return valid_deposit(rng, w)
    without = [u for u in USERS if not has_energy(u)]
    if len(without) > 1 and rng.random() < 0.35:
        return set_energy(rng.choice(without))
    roll = rng.random()
    if roll < 0.24:
        return ["Advance", rng.choice([1, 3, 7, 7, 7, 7, 7, 7, 7, 7, 8, 14, 14, 21, 35, 70])]
    if roll < 0.31:
        return set_energy(rng.choice(USERS + [PROXY] if rng.random() < 0.05 else USERS))
    if roll < 0.42:
        return valid_deposit(rng, w)
    if roll < 0.52:
        cand = [u for u in USERS if s["prog"].get(u)] or USERS
        u = rng.choice(cand if rng.random() < 0.7 else USERS)
        kind = rng.random()
        if kind < 0.70:
            return ["Claim", u, None, False]
        if kind < 0.80:
            return ["Claim", u, None, True]
        if kind < 0.97:
            return ["Claim", PROXY, u, False]
        return ["Claim", PROXY, None, False]
    if roll < 0.55:
        return ["UpdateEnergy", rng.choice(USERS + [OWNER]), rng.choice(USERS)]
    if roll < 0.90:
        return malformed_op(rng, w, st)
    return admin_op(rng, w, OWNER)


def gen_history(seed, nops):
    rng = random.Random(seed)
    cfg = gen_cfg(rng)
    w = FeesWorld(cfg)
    trace = []
    st = {}
    try:
        for _ in range(nops):
            op = gen_op(rng, w, st)
            o = w.exec(op)
            trace.append((op, o))
    finally:
        w.close()
    return cfg, trace


def replay_history(cfg, ops):
    w = FeesWorld(cfg)
    trace = []
    try:
        for op in ops:
            op = list(op)
            trace.append((op, w.exec(op)))
    finally:
        w.close()
    return trace
