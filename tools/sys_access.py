"""Access subsystem (C19): every endpoint of every contract in scope x caller role x contract state,
executed on the REAL contracts through mxvm.

The classification (guard, state requirement, kind per endpoint / argument variant), the caller
roles and the contract states come from the compiled Coq model (Run/AccessRun.v: table_codes,
config_codes), the endpoint inventory from the Rust sources (tools/inventory.py).  Each *world*
deploys one or more contracts in a minimal valid configuration with one account per role, brings the
contract into each state, and `run_matrix` calls every table row as every role: outcome class
(ok / permission error / state error / other error), storage+balance digest after a rejected call,
reward destination of on-behalf claims.  After each call the world is put back to the state's base
snapshot (storage / balances are rewritten through the executor's sset / setbal).

Role ids (coq/Model/Access.v role_id): 0 owner, 1 admin, 2 pauser, 3 plain user, 4 authorised agent,
5 revoked agent, 6 blacklisted agent, 10+p counterparty p (0 whitelisted SC, 1 router, 2 unstake SC,
3 old factory, 4 transfer-whitelisted SC, 5 energy factory, 6 known contract, 7 initial liquidity
adder, 8 proposer).  State ids: 0 Inactive, 1 Active, 2 PartialActive, 3 Paused.
Outcome ids: 0 ok, 1 permission error, 2 state error, 3 other error.
"""
import os, re, random, time, json
from vmx import *
import inventory
import coqrun

IMPORTS = "Base.Prelude Gen.Params Gen.Endpoints Model.Access Run.AccessRun"

R_OWNER, R_ADMIN, R_PAUSER, R_USER, R_AGENT, R_REVOKED, R_BLACK = 0, 1, 2, 3, 4, 5, 6
P_WL, P_ROUTER, P_UNSTAKE, P_OLDFACT, P_XFER, P_EFACT, P_KNOWN, P_ADDER, P_PROPOSER = range(9)
ROLE_NAMES = {0: "owner", 1: "admin", 2: "pauser", 3: "user", 4: "agent-authorised", 5: "agent-revoked",
              6: "agent-blacklisted", 10: "whitelisted-sc", 11: "router", 12: "unstake-sc", 13: "old-factory",
              14: "transfer-sc", 15: "energy-factory", 16: "known-contract", 17: "initial-adder", 18: "proposer"}
S_INACTIVE, S_ACTIVE, S_PARTIAL, S_PAUSED = 0, 1, 2, 3
STATE_NAMES = {0: "inactive", 1: "active", 2: "partial-active", 3: "paused"}
O_OK, O_PERM, O_STATE, O_OTHER = 0, 1, 2, 3
OUTCOME_NAMES = {0: "ok", 1: "permission-error", 2: "state-error", 3: "other-error"}
V_PLAIN, V_ORIG, V_OTHER = 0, 1, 2
VARIANT_NAMES = {0: "", 1: "+origCaller", 2: "+forOther"}
G_LIFECYCLE, G_ONLYOWNER, G_PERM, G_PARTY, G_OWNEROROPEN, G_HUB, G_NOBODY, G_QUERY, G_ANYONE = range(9)
K_LIFECYCLE, K_VIEW, K_CONFIG, K_USERFUNDS, K_USERNOFUNDS, K_ENTRY, K_ONBEHALF = range(7)
SR_ANY, SR_ACTIVE, SR_LIQUIDITY, SR_BOOTSTRAP, SR_PAUSEDONLY = range(5)
PERM_OWNER, PERM_ADMIN, PERM_PAUSE = 1, 2, 4

CONTRACT_IDS = {c: i for i, (c, _) in enumerate(inventory.CONTRACTS)}
CONTRACT_BY_ID = {i: c for c, i in CONTRACT_IDS.items()}

# ---------------------------------------------------------------- message classes (explicit, per guard)
PERM_MSGS = [
    "Permission denied",                                         # permissions_module, pair initial adder
    "Endpoint can only be called by owner",                      # #[only_owner]
    "Not whitelisted",                                           # pair whitelist
    "Item not whitelisted",                                      # WhitelistMapper::require_whitelisted
    "Caller is not whitelisted by the user or is blacklisted",   # permissions_hub_module
    "Cannot claim rewards for this address",                     # allow_external_claim
    "Only energy factory SC can call this endpoint", "Only energy factory may deposit fees",   # token-unstake
    "Only known contracts can deposit",                          # fees collector
    "May not call this endpoint. Use lockTokens instead",        # energy factory extendLockPeriod
    "Only the unstake SC may call this endpoint", "May only call this through old factory SC",
    "Pair creation is disabled", "Caller is not the initial liq adder",                       # router
    "May only call this function through VM query",              # require_queried
    "Only original proposer may cancel a pending proposal", "Only original proposer may withdraw a pending proposal",
]
STATE_MSGS = [
    "Not active", "Swap is not enabled", "Active state", "Initial liquidity was already added",   # pair / farms / router
    "Contract is paused", "Contract is not paused", "Cannot claim while paused",                   # pause module
]


def classify(res):
    if res.ok:
        return O_OK
    m = res.msg
    if m in PERM_MSGS:
        return O_PERM
    if m in STATE_MSGS:
        return O_STATE
    return O_OTHER


# ---------------------------------------------------------------- the table, from the compiled model
class Row:
    __slots__ = ("contract", "endpoint", "variant", "guard", "garg", "sreq", "kind")

    def __init__(self, contract, endpoint, variant, guard, garg, sreq, kind):
        self.contract, self.endpoint, self.variant = contract, endpoint, variant
        self.guard, self.garg, self.sreq, self.kind = guard, garg, sreq, kind

    @property
    def key(self):
        return f"{self.contract}:{self.endpoint}{VARIANT_NAMES[self.variant]}"


_TABLE = {}


def load_table():
    """(rows, roles {contract: [role ids]}, states {contract: [state ids]}) from Run/AccessRun.v"""
    if "t" in _TABLE:
        return _TABLE["t"]
    codes, cfg = coqrun.eval_terms(IMPORTS, ["table_codes", "config_codes"], tag="c19tab", per_file=2)
    rows, i = [], 0
    while i < len(codes):
        cid, vid, g, ga, s, k, n = codes[i:i + 7]
        name = bytes(codes[i + 7:i + 7 + n]).decode()
        rows.append(Row(CONTRACT_BY_ID[cid], name, vid, g, ga, s, k))
        i += 7 + n
    roles, states, i = {}, {}, 0
    while i < len(cfg):
        cid, nr = cfg[i], cfg[i + 1]
        roles[CONTRACT_BY_ID[cid]] = cfg[i + 2:i + 2 + nr]
        i += 2 + nr
        ns = cfg[i]
        states[CONTRACT_BY_ID[cid]] = cfg[i + 1:i + 1 + ns]
        i += 1 + ns
    _TABLE["t"] = (rows, roles, states)
    return _TABLE["t"]


# ---------------------------------------------------------------- the property's rule, restated for the monitors
def perms_py(contract, role):
    """permission bits of the executed configuration (what the set-up calls below establish)"""
    if contract in ("pair", "farm", "farm-with-locked-rewards", "farm-staking"):
        if role == R_OWNER or (contract == "pair" and role == 10 + P_ROUTER):
            return PERM_OWNER | PERM_PAUSE
        if role == R_ADMIN:
            return PERM_ADMIN
        if role == R_PAUSER:
            return PERM_PAUSE
    if contract == "lkmex-transfer":
        return {R_OWNER: PERM_OWNER, R_ADMIN: PERM_ADMIN}.get(role, 0)
    return 0


def holds_role(row, role):
    """does the caller role hold what the row's guard demands (property text: 'callers holding the
    required role'; 'whitelisted contract caller or the user's explicit, non-blacklisted authorisation')"""
    g = row.guard
    if g == G_LIFECYCLE or g == G_NOBODY or g == G_QUERY:
        return False
    if g == G_ONLYOWNER or g == G_OWNEROROPEN:
        return role == R_OWNER
    if g == G_PERM:
        return perms_py(row.contract, role) & row.garg != 0
    if g == G_PARTY:
        return role == 10 + row.garg
    if g == G_HUB:
        return role == R_AGENT
    return True


def state_permits(row, state):
    s = row.sreq
    if s == SR_ANY:
        return True
    if s == SR_ACTIVE:
        return state == S_ACTIVE
    if s == SR_LIQUIDITY:
        return state in (S_ACTIVE, S_PARTIAL)
    if s == SR_BOOTSTRAP:
        return state == S_INACTIVE
    if s == SR_PAUSEDONLY:
        return state in (S_INACTIVE, S_PAUSED)
    raise ValueError(s)


PAUSABLE = ("pair", "farm", "farm-with-locked-rewards", "farm-staking", "energy-factory")


# ---------------------------------------------------------------- calls
class Call:
    __slots__ = ("func", "args", "pays", "egld", "block", "frm", "to", "watch")

    def __init__(self, args=(), pays=(), egld=0, block=None, frm=None, to=None, watch=None):
        self.args, self.pays, self.egld, self.block = list(args), list(pays), egld, block
        self.frm, self.to, self.watch = frm, to, watch
        self.func = None


DUMMY_TOKEN = b"DUMMY-abcdef"


def default_arg(ty, w):
    """a valid-looking value of a Rust argument type (list of encoded arguments)"""
    ty = ty.replace("&", "").replace("Self::Api", "").replace("<>", "")
    m = re.match(r"^OptionalValue<(.*)>$", ty)
    if m:
        return []
    m = re.match(r"^MultiValueEncoded<(.*)>$", ty)
    if m:
        return default_arg(m.group(1), w)
    m = re.match(r"^MultiValue\d<(.*)>$", ty)
    if m:
        out = []
        for t in inventory.split_args(m.group(1)):
            out += default_arg(t.strip(), w)
        return out
    if ty == "ManagedAddress":
        return [w.dummy_sc]
    if ty in ("TokenIdentifier", "EgldOrEsdtTokenIdentifier"):
        return [DUMMY_TOKEN]
    if ty in ("BigUint", "BigInt"):
        return [top_u(1000)]
    if ty in ("u64", "u32", "usize", "Epoch", "Week", "Nonce", "Round", "ProposalId", "Percent", "u8"):
        return [top_u(1)]
    if ty == "bool":
        return [top_bool(True)]
    if ty == "ManagedBuffer":
        return [b"Name"]
    if ty == "EsdtTokenPayment":
        return [nest_bytes(DUMMY_TOKEN) + nest_u64(0) + nest_big(1000)]
    if ty in ("VoteType", "FarmType"):
        return [b""]
    return [b""]


# ---------------------------------------------------------------- world base
ROLES_MINT = ["ESDTRoleLocalMint", "ESDTRoleLocalBurn"]
ROLES_NFT = ["ESDTRoleNFTCreate", "ESDTRoleNFTAddQuantity", "ESDTRoleNFTBurn"]
BIG = 10 ** 30


class World:
    """one deployment; subclasses fill `contracts`, `target`, `A` (role id -> address per contract),
    `accounts` (everything digested), `snap` (state id -> snapshot per contract) and `call_for`"""
    contracts = ()

    def __init__(self):
        self.vm = VM()
        self.accounts = []
        self.blk = (10, 10, 5, 60)
        self.vm.block(nonce=10, round_=10, epoch=5, ts=60)
        self.dummy_sc = sc_addr("dummy-sc")
        self.target = {}
        self.A = {}
        self.snap = {}
        self.P = None            # principal: the user agents act for
        self.nonce_ctr = 0
        self.inv = inventory.inventory()
        self.track(self.dummy_sc)

    def close(self):
        self.vm.close()

    # ---- accounts
    def track(self, a, create=True, **kw):
        if create:
            self.vm.acct(a, **kw)
        if a not in self.accounts:
            self.accounts.append(a)
        return a

    def user(self, name):
        return self.track(user_addr(name))

    def sc(self, name):
        return self.track(sc_addr(name))

    def reserve(self, name):
        """address of a contract that is about to be deployed (the account must not exist yet)"""
        return self.track(sc_addr(name), create=False)

    def std_roles(self, contract, parties=(), prefix=""):
        """one account per base role (+ an SC-address account per counterparty)"""
        A = {R_OWNER: self.owner}
        for rid, nm in ((R_ADMIN, "admin"), (R_PAUSER, "pauser"), (R_USER, "user"), (R_AGENT, "agentok"),
                        (R_REVOKED, "agentrev"), (R_BLACK, "agentblk")):
            A[rid] = self.user(prefix + nm)
        self.A[contract] = A
        return A

    def must(self, r, what=""):
        assert r.ok, (what, r)
        return r

    def ocall(self, to, func, args=(), pays=(), egld=0):
        return self.must(self.vm.call(self.owner, to, func, args, pays, egld), func)

    def setup_hub(self, agents):
        """permissions hub: principal whitelists the three agents, removes one, hub owner blacklists one"""
        vm = self.vm
        self.hub = self.sc("permhub")
        self.must(vm.deploy(self.owner, "permissions-hub", [], new_addr=self.hub), "hub")
        self.must(vm.call(self.P, self.hub, "whitelist", [agents[R_AGENT], agents[R_REVOKED], agents[R_BLACK]]))
        self.must(vm.call(self.P, self.hub, "removeWhitelist", [agents[R_REVOKED]]))
        self.ocall(self.hub, "blacklist", [agents[R_BLACK]])

    # ---- snapshots
    def dump(self):
        vm = self.vm
        d = {}
        for a in self.accounts:
            d[a] = (dict(vm.sdump(a)), {(t, n): v for (t, n, v) in vm.tokens(a)}, vm.egld(a))
        return d

    def take_snapshot(self):
        d = self.dump()
        attrs = {}
        for a, (_, toks, _) in d.items():
            for (t, n) in toks:
                if n > 0:
                    attrs[(a, t, n)] = self.vm.attrs(a, t, n)
        return dict(dump=d, attrs=attrs, blk=self.blk)

    def restore(self, snap, cur=None):
        vm = self.vm
        cur = cur if cur is not None else self.dump()
        for a in self.accounts:
            s0, t0, e0 = snap["dump"][a]
            s1, t1, e1 = cur[a]
            if s0 != s1:
                for k in s1:
                    if k not in s0:
                        vm.sset(a, k, b"")
                for k, v in s0.items():
                    if s1.get(k) != v:
                        vm.sset(a, k, v)
            if t0 != t1:
                for k in t1:
                    if k not in t0:
                        vm.setbal(a, k[0], k[1], 0)
                for k, v in t0.items():
                    if t1.get(k) != v:
                        vm.setbal(a, k[0], k[1], v, snap["attrs"].get((a, k[0], k[1]), b""))
            if e0 != e1:
                vm.setegld(a, e0)
        self.set_block(*snap["blk"])

    def set_block(self, nonce, round_, epoch, ts):
        if self.blk != (nonce, round_, epoch, ts):
            self.blk = (nonce, round_, epoch, ts)
            self.vm.block(nonce=nonce, round_=round_, epoch=epoch, ts=ts)

    # ---- specs
    def endpoint_info(self, contract, endpoint):
        for e in self.inv[contract]:
            if e["name"] == endpoint:
                return e
        return None

    def default_call(self, contract, endpoint):
        e = self.endpoint_info(contract, endpoint)
        args = []
        if e is not None:
            for t in e["args"]:
                args += default_arg(t, self)
        return Call(args)

    def call_for(self, row, role, state):
        """Call for one cell, or None to skip (not executable in this state)"""
        h = getattr(self, "ep_" + row.contract.replace("-", "_") + "__" + row.endpoint, None) \
            or getattr(self, "ep__" + row.endpoint, None)
        c = None
        if h is not None:
            c = h(row, role, state)
            if c is None:
                return None
        else:
            c = self.default_call(row.contract, row.endpoint)
        if row.variant == V_ORIG or row.variant == V_OTHER:
            c.args = list(c.args) + [self.P]
        c.func = row.endpoint
        if c.frm is None:
            c.frm = self.A[row.contract][role]
        if c.to is None:
            c.to = self.target[row.contract]
        return c


# ---------------------------------------------------------------- matrix execution
def run_matrix(world, contract, rows, roles, states, rng=None, share=1.0):
    """executes every cell; returns list of cell dicts"""
    vm = world.vm
    cells = []
    for st in states:
        snap = world.snap[contract].get(st)
        if snap is None:
            continue
        base = snap["dump"]
        world.restore(snap)
        for row in rows:
            if row.kind == K_LIFECYCLE:
                continue
            for role in roles:
                if rng is not None and share < 1.0 and rng.random() > share:
                    continue
                call = world.call_for(row, role, st)
                if call is None:
                    cells.append(dict(row=row, role=role, state=st, skipped=True))
                    continue
                if call.block is not None:
                    world.set_block(*call.block)
                watch = call.watch
                pre_w = {k: vm.bal(*k) for k in watch} if watch else None
                r = vm.call(call.frm, call.to, call.func, call.args, call.pays, call.egld)
                cur = world.dump()
                changed = cur != base
                cell = dict(row=row, role=role, state=st, skipped=False, outcome=classify(r), msg=r.msg, ok=r.ok,
                            changed=changed, call=[call.func, [a.hex() for a in call.args],
                                                   [[t.decode(), n, v] for (t, n, v) in call.pays], call.egld])
                if watch and r.ok:
                    cell["deltas"] = {k: vm.bal(*k) - pre_w[k] for k in watch}
                cells.append(cell)
                if changed or call.block is not None:
                    world.restore(snap, cur)
    return cells


# ================================================================ worlds
T1, T2, LP = b"WEGLD-abcdef", b"MEX-abcdef", b"LPTOK-abcdef"


class PairWorldA(World):
    """dex/pair with admin, pauser, whitelisted contract, a router address (distinct from the owner)
    and an initial-liquidity adder"""
    contracts = ("pair",)

    def __init__(self):
        super().__init__()
        vm = self.vm
        self.owner = self.user("owner")
        A = self.std_roles("pair")
        A[10 + P_WL] = self.sc("wl-caller")
        A[10 + P_ROUTER] = self.sc("router-addr")
        A[10 + P_ADDER] = self.user("adder")
        self.P = self.user("principal")
        self.pair = self.reserve("pair1")
        self.target["pair"] = self.pair
        self.coll = self.sc("collector")
        self.dest = self.user("feedest")
        self.must(vm.deploy(self.owner, "pair", [T1, T2, A[10 + P_ROUTER], self.owner, top_u(300), top_u(50),
                                                 A[10 + P_ADDER], A[R_ADMIN]], new_addr=self.pair), "pair")
        self.ocall(self.pair, "setLpTokenIdentifier", [LP])
        vm.roles(self.pair, LP, ROLES_MINT)
        for t in (T1, T2):
            vm.roles(self.pair, t, ["ESDTRoleLocalBurn"])
        self.ocall(self.pair, "addToPauseWhitelist", [A[R_PAUSER]])
        self.ocall(self.pair, "whitelist", [A[10 + P_WL]])
        for a in A.values():
            vm.setbal(a, T1, 0, BIG)
            vm.setbal(a, T2, 0, BIG)
        self.snap["pair"] = {S_INACTIVE: self.take_snapshot()}
        # live: the adder bootstraps, everybody holds LP
        self.must(vm.call(A[10 + P_ADDER], self.pair, "addInitialLiquidity", [], [(T1, 0, 10 ** 9), (T2, 0, 3 * 10 ** 9)]))
        for a in A.values():
            self.must(vm.call(a, self.pair, "addLiquidity", [top_u(1), top_u(1)], [(T1, 0, 10 ** 7), (T2, 0, 3 * 10 ** 7)]))
        self.snap["pair"][S_PARTIAL] = self.take_snapshot()          # addInitialLiquidity leaves PartialActive
        self.ocall(self.pair, "resume")
        self.snap["pair"][S_ACTIVE] = self.take_snapshot()
        self.ocall(self.pair, "pause")
        self.snap["pair"][S_PAUSED] = self.take_snapshot()

    # user operations
    def ep__addInitialLiquidity(self, row, role, st):
        return Call([], [(T1, 0, 10 ** 6), (T2, 0, 2 * 10 ** 6)])

    def ep__addLiquidity(self, row, role, st):
        return Call([top_u(1), top_u(1)], [(T1, 0, 10 ** 6), (T2, 0, 3 * 10 ** 6)])

    def ep__removeLiquidity(self, row, role, st):
        if st == S_INACTIVE:
            return None                      # nobody holds LP before the bootstrap
        return Call([top_u(1), top_u(1)], [(LP, 0, 1000)])

    def ep__removeLiquidityAndBuyBackAndBurnToken(self, row, role, st):
        if st == S_INACTIVE:
            return None
        return Call([T1], [(LP, 0, 1000)])

    def ep__swapNoFeeAndForward(self, row, role, st):
        return Call([T2, self.dest], [(T1, 0, 1000)])

    def ep__swapTokensFixedInput(self, row, role, st):
        return Call([T2, top_u(1)], [(T1, 0, 1000)])

    def ep__swapTokensFixedOutput(self, row, role, st):
        return Call([T2, top_u(100)], [(T1, 0, 100000)])

    # configuration with arguments that make an authorised call succeed
    def ep__setLpTokenIdentifier(self, row, role, st):
        return Call([b"LPNEW-abcdef"])

    def ep__whitelist(self, row, role, st):
        return Call([self.dummy_sc])

    def ep__removeWhitelist(self, row, role, st):
        return Call([self.A["pair"][10 + P_WL]])

    def ep__addTrustedSwapPair(self, row, role, st):
        return Call([self.dummy_sc, T1, b"OTHER-abcdef"])

    def ep__removeTrustedSwapPair(self, row, role, st):
        return Call([T1, b"OTHER-abcdef"])

    def ep__setupFeesCollector(self, row, role, st):
        return Call([self.coll, top_u(50000)])

    def ep__setFeeOn(self, row, role, st):
        return Call([top_bool(True), self.dest, T1])

    def ep__setFeePercents(self, row, role, st):
        return Call([top_u(500), top_u(100)])

    def ep__setLockingScAddress(self, row, role, st):
        return Call([self.dummy_sc])

    def ep__addAdmin(self, row, role, st):
        return Call([self.dest])

    def ep__removeAdmin(self, row, role, st):
        return Call([self.A["pair"][R_ADMIN]])

    def ep__updateOwnerOrAdmin(self, row, role, st):
        return Call([self.dest])

    def ep__addToPauseWhitelist(self, row, role, st):
        return Call([self.dest])

    def ep__removeFromPauseWhitelist(self, row, role, st):
        return Call([self.A["pair"][R_PAUSER]])

    def ep__getReserve(self, row, role, st):
        return Call([T1])

    def ep__getAmountOut(self, row, role, st):
        return Call([T1, top_u(1000)])

    def ep__getAmountIn(self, row, role, st):
        return Call([T2, top_u(1000)])

    def ep__getEquivalent(self, row, role, st):
        return Call([T1, top_u(1000)])

    def ep__getTokensForGivenPosition(self, row, role, st):
        return Call([top_u(1000)])

    def ep__getPermissions(self, row, role, st):
        return Call([self.owner])


WORLDS = [PairWorldA]


def world_for(contract):
    for w in WORLDS:
        if contract in w.contracts:
            return w
    return None


# ---------------------------------------------------------------- driver
def run_world(args):
    """(world class name, seed, share) -> list of serialisable cell dicts for all its contracts"""
    wname, seed, share = args[:3]
    cls = [w for w in WORLDS if w.__name__ == wname][0]
    rows, roles, states = args[3] if len(args) > 3 else load_table()
    rng = random.Random(seed)
    w = cls()
    out = []
    try:
        for c in cls.contracts:
            crow = [r for r in rows if r.contract == c]
            cells = run_matrix(w, c, crow, roles[c], states[c], rng, share)
            for cell in cells:
                r = cell.pop("row")
                cell["contract"], cell["endpoint"], cell["variant"] = r.contract, r.endpoint, r.variant
                out.append(cell)
    finally:
        w.close()
    return out


def coq_entry(contract, endpoint, variant, cells):
    body = "; ".join(f"({c['role']}, {c['state']}, {c['outcome']})" for c in cells)
    return f'(check_entry {CONTRACT_IDS[contract]} "{endpoint}"%string {variant} [{body}])'
