"""Access subsystem (C19): every endpoint of every contract in scope x caller role x contract state,
executed on the REAL contracts through mxvm.

The classification (guard, state requirement, kind per endpoint / argument variant), the caller
roles and the contract states come from the compiled Coq model (Run/AccessRun.v: table_codes,
config_codes), the endpoint inventory from the Rust sources (tools/inventory.py).  Each *world*
deploys one or more contracts in a minimal valid configuration with one account per role, brings the
contract into each state, and `run_matrix` calls every table row as every role: outcome class
(ok / permission error / state error / other error), storage+balance digest after a rejected call,
reward destination of on-behalf claims.  After each call the world is put back to the state's base
snapshot (storage / balances are rewritten through the executor's sset / setbal).

Role ids (coq/Model/Access.v role_id): 0 owner, 1 admin, 2 pauser, 3 plain user, 4 authorised agent,
5 revoked agent, 6 blacklisted agent, 10+p counterparty p (0 whitelisted SC, 1 router, 2 unstake SC,
3 old factory, 4 transfer-whitelisted SC, 5 energy factory, 6 known contract, 7 initial liquidity
adder, 8 proposer).  State ids: 0 Inactive, 1 Active, 2 PartialActive, 3 Paused.
Outcome ids: 0 ok, 1 permission error, 2 state error, 3 other error.
"""
import os, re, random, time, json
from vmx import *
import inventory
import coqrun

IMPORTS = "Base.Prelude Gen.Params Gen.Endpoints Model.Access Run.AccessRun"

R_OWNER, R_ADMIN, R_PAUSER, R_USER, R_AGENT, R_REVOKED, R_BLACK = 0, 1, 2, 3, 4, 5, 6
P_WL, P_ROUTER, P_UNSTAKE, P_OLDFACT, P_XFER, P_EFACT, P_KNOWN, P_ADDER, P_PROPOSER = range(9)
ROLE_NAMES = {0: "owner", 1: "admin", 2: "pauser", 3: "user", 4: "agent-authorised", 5: "agent-revoked",
              6: "agent-blacklisted", 10: "whitelisted-sc", 11: "router", 12: "unstake-sc", 13: "old-factory",
              14: "transfer-sc", 15: "energy-factory", 16: "known-contract", 17: "initial-adder", 18: "proposer"}
S_INACTIVE, S_ACTIVE, S_PARTIAL, S_PAUSED = 0, 1, 2, 3
STATE_NAMES = {0: "inactive", 1: "active", 2: "partial-active", 3: "paused"}
O_OK, O_PERM, O_STATE, O_OTHER = 0, 1, 2, 3
OUTCOME_NAMES = {0: "ok", 1: "permission-error", 2: "state-error", 3: "other-error"}
V_PLAIN, V_ORIG, V_OTHER, V_MULTI = 0, 1, 2, 3
V_FOREIGN0 = 10            # 10 + 3 * k + o: payment k (0 main, 1 / 2 additional) recorded for another owner with relation o
OTHER_AUTH = {0: "also-authorised", 1: "revoked", 2: "never-authorised"}
VARIANT_NAMES = {0: "", 1: "+origCaller", 2: "+forOther", 3: "+multiOwn"}
for _k in range(3):
    for _o in range(3):
        VARIANT_NAMES[V_FOREIGN0 + 3 * _k + _o] = f"+foreignOwner@{_k}({OTHER_AUTH[_o]})"


def is_foreign(v):
    return v >= V_FOREIGN0


def foreign_k(v):
    return (v - V_FOREIGN0) // 3


def foreign_o(v):
    return (v - V_FOREIGN0) % 3


G_LIFECYCLE, G_ONLYOWNER, G_PERM, G_PARTY, G_OWNEROROPEN, G_HUB, G_NOBODY, G_QUERY, G_ANYONE, G_HUBOWNED = range(10)
K_LIFECYCLE, K_VIEW, K_CONFIG, K_USERFUNDS, K_USERNOFUNDS, K_ENTRY, K_ONBEHALF = range(7)
SR_ANY, SR_ACTIVE, SR_LIQUIDITY, SR_BOOTSTRAP, SR_PAUSEDONLY = range(5)
PERM_OWNER, PERM_ADMIN, PERM_PAUSE = 1, 2, 4

CONTRACT_IDS = {c: i for i, (c, _) in enumerate(inventory.CONTRACTS)}
CONTRACT_BY_ID = {i: c for c, i in CONTRACT_IDS.items()}

# ---------------------------------------------------------------- message classes (explicit, per guard)
PERM_MSGS = [
    "Permission denied",                                         # permissions_module, pair initial adder
    "Endpoint can only be called by owner",                      # #[only_owner]
    "Not whitelisted",                                           # pair whitelist
    "Item not whitelisted",                                      # WhitelistMapper::require_whitelisted
    "Caller is not whitelisted by the user or is blacklisted",   # permissions_hub_module
    "Cannot claim rewards for this address",                     # allow_external_claim
    "Only energy factory SC can call this endpoint", "Only energy factory may deposit fees",   # token-unstake
    "Only known contracts can deposit",                          # fees collector
    "May not call this endpoint. Use lockTokens instead",        # energy factory extendLockPeriod
    "Only the unstake SC may call this endpoint", "May only call this through old factory SC",
    "Pair creation is disabled", "Caller is not the initial liq adder",                       # router
    "May only call this function through VM query",              # require_queried
    "Only original proposer may cancel a pending proposal", "Only original proposer may withdraw a pending proposal",
    # original_owner_helper / farm-staking-proxy check_stake_farm_payments: a paid position is recorded for somebody else
    "Provided address is not the same as the original owner", "Original owner is not the same for all payments",
    "Underlying positions original owners do not match",
]
STATE_MSGS = [
    "Not active", "Swap is not enabled", "Active state", "Initial liquidity was already added",   # pair / farms / router
    "Contract is paused", "Contract is not paused", "Cannot claim while paused",                   # pause module
]


def classify(res):
    if res.ok:
        return O_OK
    m = res.msg
    if m in PERM_MSGS:
        return O_PERM
    if m in STATE_MSGS:
        return O_STATE
    return O_OTHER


# ---------------------------------------------------------------- the table, from the compiled model
class Row:
    __slots__ = ("contract", "endpoint", "variant", "guard", "garg", "sreq", "kind")

    def __init__(self, contract, endpoint, variant, guard, garg, sreq, kind):
        self.contract, self.endpoint, self.variant = contract, endpoint, variant
        self.guard, self.garg, self.sreq, self.kind = guard, garg, sreq, kind

    @property
    def key(self):
        return f"{self.contract}:{self.endpoint}{VARIANT_NAMES[self.variant]}"


_TABLE = {}


def load_table():
    """(rows, roles {contract: [role ids]}, states {contract: [state ids]}) from Run/AccessRun.v"""
    if "t" in _TABLE:
        return _TABLE["t"]
    codes, cfg = coqrun.eval_terms(IMPORTS, ["table_codes", "config_codes"], tag="c19tab", per_file=2)
    rows, i = [], 0
    while i < len(codes):
        cid, vid, g, ga, s, k, n = codes[i:i + 7]
        name = bytes(codes[i + 7:i + 7 + n]).decode()
        rows.append(Row(CONTRACT_BY_ID[cid], name, vid, g, ga, s, k))
        i += 7 + n
    roles, states, i = {}, {}, 0
    while i < len(cfg):
        cid, nr = cfg[i], cfg[i + 1]
        roles[CONTRACT_BY_ID[cid]] = cfg[i + 2:i + 2 + nr]
        i += 2 + nr
        ns = cfg[i]
        states[CONTRACT_BY_ID[cid]] = cfg[i + 1:i + 1 + ns]
        i += 1 + ns
    _TABLE["t"] = (rows, roles, states)
    return _TABLE["t"]


# ---------------------------------------------------------------- the property's rule, restated for the monitors
def perms_py(contract, role):
    """permission bits of the executed configuration (what the set-up calls below establish)"""
    if contract in ("pair", "farm", "farm-with-locked-rewards", "farm-staking"):
        if role == R_OWNER or (contract == "pair" and role == 10 + P_ROUTER):
            return PERM_OWNER | PERM_PAUSE
        if role == R_ADMIN:
            return PERM_ADMIN
        if role == R_PAUSER:
            return PERM_PAUSE
    if contract == "lkmex-transfer":
        return {R_OWNER: PERM_OWNER, R_ADMIN: PERM_ADMIN}.get(role, 0)
    return 0


def holds_role(row, role):
    """does the caller role hold what the row's guard demands (property text: 'callers holding the
    required role'; 'whitelisted contract caller or the user's explicit, non-blacklisted authorisation')"""
    g = row.guard
    if g == G_LIFECYCLE or g == G_NOBODY or g == G_QUERY:
        return False
    if g == G_ONLYOWNER or g == G_OWNEROROPEN:
        return role == R_OWNER
    if g == G_PERM:
        return perms_py(row.contract, role) & row.garg != 0
    if g == G_PARTY:
        return role == 10 + row.garg
    if g == G_HUB:
        return role == R_AGENT
    if g == G_HUBOWNED:                  # garg = 1: some paid position is recorded for another owner
        return role == R_AGENT and row.garg == 0
    return True


def state_permits(row, state):
    s = row.sreq
    if s == SR_ANY:
        return True
    if s == SR_ACTIVE:
        return state == S_ACTIVE
    if s == SR_LIQUIDITY:
        return state in (S_ACTIVE, S_PARTIAL)
    if s == SR_BOOTSTRAP:
        return state == S_INACTIVE
    if s == SR_PAUSEDONLY:
        return state in (S_INACTIVE, S_PAUSED)
    raise ValueError(s)


PAUSABLE = ("pair", "farm", "farm-with-locked-rewards", "farm-staking", "energy-factory")


# ---------------------------------------------------------------- calls
class Call:
    __slots__ = ("func", "args", "pays", "egld", "block", "frm", "to", "watch", "pre")

    def __init__(self, args=(), pays=(), egld=0, block=None, frm=None, to=None, watch=None, pre=None):
        self.args, self.pays, self.egld, self.block = list(args), list(pays), egld, block
        self.frm, self.to, self.watch, self.pre = frm, to, watch, pre
        self.func = None


DUMMY_TOKEN = b"DUMMY-abcdef"


def default_arg(ty, w):
    """a valid-looking value of a Rust argument type (list of encoded arguments)"""
    ty = ty.replace("&", "").replace("Self::Api", "").replace("<>", "")
    m = re.match(r"^OptionalValue<(.*)>$", ty)
    if m:
        return []
    m = re.match(r"^MultiValueEncoded<(.*)>$", ty)
    if m:
        return default_arg(m.group(1), w)
    m = re.match(r"^MultiValue\d<(.*)>$", ty)
    if m:
        out = []
        for t in inventory.split_args(m.group(1)):
            out += default_arg(t.strip(), w)
        return out
    if ty == "ManagedAddress":
        return [w.dummy_sc]
    if ty in ("TokenIdentifier", "EgldOrEsdtTokenIdentifier"):
        return [DUMMY_TOKEN]
    if ty in ("BigUint", "BigInt"):
        return [top_u(1000)]
    if ty in ("u64", "u32", "usize", "Epoch", "Week", "Nonce", "Round", "ProposalId", "Percent", "u8"):
        return [top_u(1)]
    if ty == "bool":
        return [top_bool(True)]
    if ty == "ManagedBuffer":
        return [b"Name"]
    if ty == "EsdtTokenPayment":
        return [nest_bytes(DUMMY_TOKEN) + nest_u64(0) + nest_big(1000)]
    if ty in ("VoteType", "FarmType"):
        return [b""]
    return [b""]


# ---------------------------------------------------------------- world base
ROLES_MINT = ["ESDTRoleLocalMint", "ESDTRoleLocalBurn"]
ROLES_NFT = ["ESDTRoleNFTCreate", "ESDTRoleNFTAddQuantity", "ESDTRoleNFTBurn"]
BIG = 10 ** 30


class World:
    """one deployment; subclasses fill `contracts`, `target`, `A` (role id -> address per contract),
    `accounts` (everything digested), `snap` (state id -> snapshot per contract) and `call_for`"""
    contracts = ()

    def __init__(self):
        self.vm = VM()
        self.accounts = []
        self.blk = (10, 10, 5, 60)
        self.vm.block(nonce=10, round_=10, epoch=5, ts=60)
        self.dummy_sc = sc_addr("dummy-sc")
        self.target = {}
        self.A = {}
        self.snap = {}
        self.P = None            # principal: the user agents act for
        self.nonce_ctr = 0
        self.inv = inventory.inventory()
        self.track(self.dummy_sc)

    def close(self):
        self.vm.close()

    def rebuild(self):
        try:
            self.vm.close()
        except Exception:
            pass
        self.__init__()

    # ---- accounts
    def track(self, a, create=True, **kw):
        if create:
            self.vm.acct(a, **kw)
        if a not in self.accounts:
            self.accounts.append(a)
        return a

    def user(self, name):
        a = self.track(user_addr(name))
        self.vm.setegld(a, 10 ** 21)
        return a

    def sc(self, name):
        a = self.track(sc_addr(name))
        self.vm.setegld(a, 10 ** 21)
        return a

    def reserve(self, name):
        """address of a contract that is about to be deployed (the account must not exist yet)"""
        return self.track(sc_addr(name), create=False)

    def std_roles(self, contract, parties=(), prefix=""):
        """one account per base role (+ an SC-address account per counterparty)"""
        A = {R_OWNER: self.owner}
        for rid, nm in ((R_ADMIN, "admin"), (R_PAUSER, "pauser"), (R_USER, "user"), (R_AGENT, "agentok"),
                        (R_REVOKED, "agentrev"), (R_BLACK, "agentblk")):
            A[rid] = self.user(prefix + nm)
        self.A[contract] = A
        return A

    def must(self, r, what=""):
        assert r.ok, (what, r)
        return r

    def ocall(self, to, func, args=(), pays=(), egld=0):
        return self.must(self.vm.call(self.owner, to, func, args, pays, egld), func)

    def setup_hub(self, agents):
        """permissions hub: principal whitelists the three agents, removes one, hub owner blacklists one"""
        vm = self.vm
        self.hub = self.reserve("permhub")
        self.must(vm.deploy(self.owner, "permissions-hub", [], new_addr=self.hub), "hub")
        self.must(vm.call(self.P, self.hub, "whitelist", [agents[R_AGENT], agents[R_REVOKED], agents[R_BLACK]]))
        self.must(vm.call(self.P, self.hub, "removeWhitelist", [agents[R_REVOKED]]))
        self.ocall(self.hub, "blacklist", [agents[R_BLACK]])
        # three other position owners: one authorised the agent too, one revoked it, one never authorised it
        self.B = {o: self.user(f"other{o}") for o in range(3)}
        self.must(vm.call(self.B[0], self.hub, "whitelist", [agents[R_AGENT]]))
        self.must(vm.call(self.B[1], self.hub, "whitelist", [agents[R_AGENT]]))
        self.must(vm.call(self.B[1], self.hub, "removeWhitelist", [agents[R_AGENT]]))

    # ---- snapshots
    def dump(self):
        vm = self.vm
        d = {}
        for a in self.accounts:
            d[a] = (dict(vm.sdump(a)), {(t, n): v for (t, n, v) in vm.tokens(a)}, vm.egld(a))
        return d

    def take_snapshot(self):
        d = self.dump()
        attrs = {}
        for a, (_, toks, _) in d.items():
            for (t, n) in toks:
                if n > 0:
                    attrs[(a, t, n)] = self.vm.attrs(a, t, n)
        return dict(dump=d, attrs=attrs, blk=self.blk)

    def restore(self, snap, cur=None):
        vm = self.vm
        cur = cur if cur is not None else self.dump()
        for a in self.accounts:
            s0, t0, e0 = snap["dump"][a]
            s1, t1, e1 = cur[a]
            if s0 != s1:
                for k in s1:
                    if k not in s0:
                        vm.sset(a, k, b"")
                for k, v in s0.items():
                    if s1.get(k) != v:
                        vm.sset(a, k, v)
            if t0 != t1:
                for k in t1:
                    if k not in t0:
                        vm.setbal(a, k[0], k[1], 0)
                for k, v in t0.items():
                    if t1.get(k) != v:
                        vm.setbal(a, k[0], k[1], v, snap["attrs"].get((a, k[0], k[1]), b""))
            if e0 != e1:
                vm.setegld(a, e0)
        self.set_block(*snap["blk"])

    def set_block(self, nonce, round_, epoch, ts):
        if self.blk != (nonce, round_, epoch, ts):
            self.blk = (nonce, round_, epoch, ts)
            self.vm.block(nonce=nonce, round_=round_, epoch=epoch, ts=ts)

    # ---- specs
    def endpoint_info(self, contract, endpoint):
        for e in self.inv[contract]:
            if e["name"] == endpoint:
                return e
        return None

    def default_call(self, contract, endpoint):
        e = self.endpoint_info(contract, endpoint)
        args = []
        if e is not None:
            for t in e["args"]:
                args += default_arg(t, self)
        return Call(args)

    def call_for(self, row, role, state):
        """Call for one cell, or None to skip (not executable in this state)"""
        h = getattr(self, "ep_" + row.contract.replace("-", "_") + "__" + row.endpoint, None) \
            or getattr(self, "ep__" + row.endpoint, None)
        c = None
        if h is not None:
            c = h(row, role, state)
            if c is None:
                return None
        else:
            c = self.default_call(row.contract, row.endpoint)
        if row.variant == V_ORIG or row.variant == V_OTHER:
            c.args = list(c.args) + [self.P]
        c.func = row.endpoint
        if c.frm is None:
            c.frm = self.A[row.contract][role]
        if c.to is None:
            c.to = self.target[row.contract]
        return c


# ---------------------------------------------------------------- matrix execution
def token_total(vm, addr, token):
    """balance of a token summed over all nonces"""
    return sum(v for (t, n, v) in vm.tokens(addr) if t == token)


def run_matrix(world, contract, rows, roles, states, rng=None, share=1.0):
    """executes every cell; returns list of cell dicts"""
    vm = world.vm
    cells = []
    for st in states:
        snap = world.snap[contract].get(st)
        if snap is None:
            continue
        base = snap["dump"]
        world.restore(snap)
        for row in rows:
            if row.kind == K_LIFECYCLE:
                continue
            for role in roles:
                if rng is not None and share < 1.0 and rng.random() > share:
                    continue
                call = world.call_for(row, role, st)
                if call is None:
                    cells.append(dict(row=row, role=role, state=st, skipped=True))
                    continue
                if call.block is not None:
                    world.set_block(*call.block)
                if call.pre is not None:
                    call.pre()
                watch = call.watch
                pre_w = {k: token_total(vm, *k) for k in watch} if watch else None
                try:
                    r = vm.call(call.frm, call.to, call.func, call.args, call.pays, call.egld)
                except RuntimeError:
                    # the debug VM aborts on system-SC calls it does not emulate (after the guard has passed):
                    # recorded as "other error", the world is rebuilt
                    world.rebuild()
                    vm = world.vm
                    snap = world.snap[contract][st]
                    base = snap["dump"]
                    world.restore(snap)
                    cells.append(dict(row=row, role=role, state=st, skipped=False, outcome=O_OTHER, msg="<vm: unsupported system call>",
                                      ok=False, changed=False, crashed=True, call=[call.func, [a.hex() for a in call.args], [], call.egld]))
                    continue
                cur = world.dump()
                changed = cur != base
                cell = dict(row=row, role=role, state=st, skipped=False, outcome=classify(r), msg=r.msg, ok=r.ok,
                            changed=changed, frm=call.frm, call=[call.func, [a.hex() for a in call.args],
                                                   [[t.decode(), n, v] for (t, n, v) in call.pays], call.egld])
                if watch and r.ok:
                    cell["deltas"] = {k: token_total(vm, *k) - pre_w[k] for k in watch}
                cells.append(cell)
                if changed or call.block is not None:
                    world.restore(snap, cur)
    return cells


# ================================================================ worlds
T1, T2, LP = b"WEGLD-abcdef", b"MEX-abcdef", b"LPTOK-abcdef"


class PairWorldA(World):
    """dex/pair with admin, pauser, whitelisted contract, a router address (distinct from the owner)
    and an initial-liquidity adder"""
    contracts = ("pair",)

    def __init__(self):
        super().__init__()
        vm = self.vm
        self.owner = self.user("owner")
        A = self.std_roles("pair")
        A[10 + P_WL] = self.sc("wl-caller")
        A[10 + P_ROUTER] = self.sc("router-addr")
        A[10 + P_ADDER] = self.user("adder")
        self.P = self.user("principal")
        self.pair = self.reserve("pair1")
        self.target["pair"] = self.pair
        self.dest = self.user("feedest")
        self.must(vm.deploy(self.owner, "pair", [T1, T2, A[10 + P_ROUTER], self.owner, top_u(300), top_u(50),
                                                 A[10 + P_ADDER], A[R_ADMIN]], new_addr=self.pair), "pair")
        self.ocall(self.pair, "setLpTokenIdentifier", [LP])
        vm.roles(self.pair, LP, ROLES_MINT)
        for t in (T1, T2):
            vm.roles(self.pair, t, ["ESDTRoleLocalBurn"])
        self.ocall(self.pair, "addToPauseWhitelist", [A[R_PAUSER]])
        self.ocall(self.pair, "whitelist", [A[10 + P_WL]])
        # a real fees collector behind the pair, a locking SC address, a trusted pair entry
        efm = self.reserve("efactory")
        self.must(vm.deploy(self.owner, "energy-factory-mock", [], new_addr=efm), "efact-mock")
        self.coll = self.reserve("collector")
        self.must(vm.deploy(self.owner, "fees-collector", [LOCKED, efm], new_addr=self.coll), "collector")
        self.ocall(self.coll, "addKnownContracts", [self.pair])
        self.ocall(self.coll, "addKnownTokens", [T1, T2])
        self.ocall(self.pair, "setupFeesCollector", [self.coll, top_u(50000)])
        self.ocall(self.pair, "setLockingScAddress", [self.dummy_sc])
        self.ocall(self.pair, "addTrustedSwapPair", [self.dummy_sc, T1, b"OTHER-abcdef"])
        for a in A.values():
            vm.setbal(a, T1, 0, BIG)
            vm.setbal(a, T2, 0, BIG)
        self.snap["pair"] = {S_INACTIVE: self.take_snapshot()}
        # live: the adder bootstraps, everybody holds LP; one price observation per round
        self.must(vm.call(A[10 + P_ADDER], self.pair, "addInitialLiquidity", [], [(T1, 0, 10 ** 9), (T2, 0, 3 * 10 ** 9)]))
        for i, a in enumerate(A.values()):
            self.set_block(11 + i, 11 + i, 5, 66 + 6 * i)
            self.must(vm.call(a, self.pair, "addLiquidity", [top_u(1), top_u(1)], [(T1, 0, 10 ** 7), (T2, 0, 3 * 10 ** 7)]))
        self.set_block(1000, 1000, 5, 6000)
        self.snap["pair"][S_PARTIAL] = self.take_snapshot()          # addInitialLiquidity leaves PartialActive
        self.ocall(self.pair, "resume")
        self.snap["pair"][S_ACTIVE] = self.take_snapshot()
        self.ocall(self.pair, "pause")
        self.snap["pair"][S_PAUSED] = self.take_snapshot()

    # user operations
    def ep__addInitialLiquidity(self, row, role, st):
        return Call([], [(T1, 0, 10 ** 6), (T2, 0, 2 * 10 ** 6)])

    def ep__addLiquidity(self, row, role, st):
        return Call([top_u(1), top_u(1)], [(T1, 0, 10 ** 6), (T2, 0, 3 * 10 ** 6)])

    def ep__removeLiquidity(self, row, role, st):
        if st == S_INACTIVE:
            return None                      # nobody holds LP before the bootstrap
        return Call([top_u(1), top_u(1)], [(LP, 0, 1000)])

    def ep__removeLiquidityAndBuyBackAndBurnToken(self, row, role, st):
        if st == S_INACTIVE:
            return None
        return Call([T1], [(LP, 0, 1000)])

    def ep__swapNoFeeAndForward(self, row, role, st):
        return Call([T2, self.dest], [(T1, 0, 1000)])

    def ep__swapTokensFixedInput(self, row, role, st):
        return Call([T2, top_u(1)], [(T1, 0, 1000)])

    def ep__swapTokensFixedOutput(self, row, role, st):
        return Call([T2, top_u(100)], [(T1, 0, 100000)])

    # configuration with arguments that make an authorised call succeed
    def ep__setLpTokenIdentifier(self, row, role, st):
        return Call([b"LPNEW-abcdef"])

    def ep__whitelist(self, row, role, st):
        return Call([self.dummy_sc])

    def ep__removeWhitelist(self, row, role, st):
        return Call([self.A["pair"][10 + P_WL]])

    def ep__addTrustedSwapPair(self, row, role, st):
        return Call([self.dummy_sc, T2, b"OTHER-abcdef"])

    def ep__removeTrustedSwapPair(self, row, role, st):
        return Call([T1, b"OTHER-abcdef"])

    def ep__setupFeesCollector(self, row, role, st):
        return Call([self.coll, top_u(50000)])

    def ep__setFeeOn(self, row, role, st):
        return Call([top_bool(True), self.dest, T1])

    def ep__setFeePercents(self, row, role, st):
        return Call([top_u(500), top_u(100)])

    def ep__setLockingScAddress(self, row, role, st):
        return Call([self.dummy_sc])

    def ep__addAdmin(self, row, role, st):
        return Call([self.dest])

    def ep__removeAdmin(self, row, role, st):
        return Call([self.A["pair"][R_ADMIN]])

    def ep__updateOwnerOrAdmin(self, row, role, st):
        return Call([self.dest])

    def ep__addToPauseWhitelist(self, row, role, st):
        return Call([self.dest])

    def ep__removeFromPauseWhitelist(self, row, role, st):
        return Call([self.A["pair"][R_PAUSER]])

    def ep__getReserve(self, row, role, st):
        return Call([T1])

    def ep__getAmountOut(self, row, role, st):
        return Call([T1, top_u(1000)])

    def ep__getAmountIn(self, row, role, st):
        return Call([T2, top_u(1000)])

    def ep__getEquivalent(self, row, role, st):
        return Call([T1, top_u(1000)])

    def ep__getTokensForGivenPosition(self, row, role, st):
        return Call([top_u(1000)])

    def ep__getPermissions(self, row, role, st):
        return Call([self.owner])

    # safe-price views (they read a pair's storage by address: here the pair itself)
    def pay1(self):
        return nest_bytes(T1) + nest_u64(0) + nest_big(1000)

    def ep__getLpTokensSafePriceByDefaultOffset(self, row, role, st):
        return Call([self.pair, top_u(1000)])

    def ep__getLpTokensSafePriceByRoundOffset(self, row, role, st):
        return Call([self.pair, top_u(100), top_u(1000)])

    def ep__getLpTokensSafePriceByTimestampOffset(self, row, role, st):
        return Call([self.pair, top_u(600), top_u(1000)])

    def ep__getLpTokensSafePrice(self, row, role, st):
        return Call([self.pair, top_u(900), top_u(1000), top_u(1000)])

    def ep__getSafePriceByDefaultOffset(self, row, role, st):
        return Call([self.pair, self.pay1()])

    def ep__getSafePriceByRoundOffset(self, row, role, st):
        return Call([self.pair, top_u(100), self.pay1()])

    def ep__getSafePriceByTimestampOffset(self, row, role, st):
        return Call([self.pair, top_u(600), self.pay1()])

    def ep__getSafePrice(self, row, role, st):
        return Call([self.pair, top_u(900), top_u(1000), self.pay1()])

    def ep__getPriceObservation(self, row, role, st):
        return Call([self.pair, top_u(950)])

    def ep__updateAndGetSafePrice(self, row, role, st):
        return Call([self.pay1()])

    def ep__updateAndGetTokensForGivenPositionWithSafePrice(self, row, role, st):
        return Call([top_u(1000)])


REW, LPF, FARMTK = b"REW-abcdef", b"LPFARM-abcdef", b"FARM-abcdef"
MEX, LOCKED, LEGACY = b"MEX-abcdef", b"LOCKED-abcdef", b"LEGACY-abcdef"
EF_OPTS = [(360, 4000), (720, 6000), (1440, 8000)]
ROLES_META = ROLES_NFT + ["ESDTTransferRole"]


def deploy_energy_factory(w, addr, unstake_addr, old_factory=None):
    """real energy factory with MEX / LOCKED, unpaused"""
    vm = w.vm
    args = [MEX, LEGACY, old_factory or unstake_addr, top_u(0)]
    for e, p in EF_OPTS:
        args += [top_u(e), top_u(p)]
    w.must(vm.deploy(w.owner, "energy-factory", args, new_addr=addr), "energy-factory")
    vm.sset(addr, b"lockedTokenId", LOCKED)
    vm.roles(addr, MEX, ROLES_MINT)
    vm.roles(addr, LOCKED, ROLES_META)
    vm.roles(addr, LEGACY, ["ESDTRoleNFTBurn"])


class FarmWorldA(World):
    """dex/farm (farming token = reward token, so compounding is possible) or
    dex/farm-with-locked-rewards (rewards locked through a real energy factory), with permissions hub,
    admin, pauser, whitelisted contract, a principal whose positions the agents hold"""
    CODE = "farm"
    contracts = ("farm",)

    def __init__(self):
        super().__init__()
        vm = self.vm
        c = self.CODE
        locked = (c == "farm-with-locked-rewards")
        self.owner = self.user("owner")
        A = self.std_roles(c)
        A[10 + P_WL] = self.sc("wl-caller")
        self.P = self.user("principal")
        self.farm = self.reserve("farm1")
        self.target[c] = self.farm
        self.efact = self.reserve("efactory")
        self.rew = MEX if locked else REW
        self.farming = LPF if locked else REW
        if locked:
            deploy_energy_factory(self, self.efact, self.dummy_sc)
            self.ocall(self.efact, "unpause")
        else:
            self.must(vm.deploy(self.owner, "energy-factory-mock", [], new_addr=self.efact), "efact-mock")
        self.setup_hub(A)
        self.must(vm.deploy(self.owner, c, [self.rew, self.farming, top_u(10 ** 12), ZERO_ADDR, self.owner, A[R_ADMIN]],
                            new_addr=self.farm), c)
        vm.sset(self.farm, b"farm_token_id", FARMTK)
        vm.roles(self.farm, FARMTK, ROLES_NFT)
        vm.roles(self.farm, self.rew, ROLES_MINT)
        if self.farming != self.rew:
            vm.roles(self.farm, self.farming, ["ESDTRoleLocalBurn"])
        self.ocall(self.farm, "setEnergyFactoryAddress", [self.efact])
        self.ocall(self.farm, "setPermissionsHubAddress", [self.hub])
        self.ocall(self.farm, "addToPauseWhitelist", [A[R_PAUSER]])
        self.ocall(self.farm, "addSCAddressToWhitelist", [A[10 + P_WL]])
        if locked:
            self.ocall(self.farm, "setLockingScAddress", [self.efact])
            self.ocall(self.farm, "setLockEpochs", [top_u(360)])
            self.ocall(self.efact, "addSCAddressToWhitelist", [self.farm])
        adm = A[R_ADMIN]
        self.must(vm.call(adm, self.farm, "setPerBlockRewardAmount", [top_u(10 ** 6)]))
        self.must(vm.call(adm, self.farm, "setBoostedYieldsFactors", [top_u(10), top_u(3), top_u(2), top_u(1), top_u(1)]))
        self.must(vm.call(adm, self.farm, "startProduceRewards"))
        everyone = list(A.values()) + [self.P]
        for a in everyone:
            vm.setbal(a, self.farming, 0, BIG)
        self.snap[c] = {S_INACTIVE: self.take_snapshot()}
        self.ocall(self.farm, "resume")
        # positions: every role holds two own positions and one position whose original owner is the principal
        self.own = {}
        self.ofp = {}
        for a in everyone:
            ns = []
            for _ in range(2):
                r = self.must(vm.call(a, self.farm, "enterFarm", [], [(self.farming, 0, 10 ** 6)]), "enter")
                ns.append(dec_payment(r.out[0])[1])
            self.own[a] = ns
        self.pp, self.fp = {}, {}          # per role account: three principal-owned positions; one per other owner
        for b in self.B.values():
            vm.setbal(b, self.farming, 0, BIG)
        for a in A.values():
            ns = []
            for _ in range(3):
                r = self.must(vm.call(self.P, self.farm, "enterFarm", [], [(self.farming, 0, 10 ** 6)]), "enterP")
                n = dec_payment(r.out[0])[1]
                self.must(vm.transfer(self.P, a, [(FARMTK, n, 10 ** 6)]))
                ns.append(n)
            self.ofp[a] = ns[0]
            self.pp[a] = ns
            self.fp[a] = {}
            for o, b in self.B.items():
                r = self.must(vm.call(b, self.farm, "enterFarm", [], [(self.farming, 0, 10 ** 6)]), "enterB")
                n = dec_payment(r.out[0])[1]
                self.must(vm.transfer(b, a, [(FARMTK, n, 10 ** 6)]))
                self.fp[a][o] = n
        self.some_attrs = vm.attrs(self.P, FARMTK, self.own[self.P][0])
        self.set_block(200, 200, 5 + 7 * 7, 1200)          # rewards accrued, week 8
        self.snap[c][S_ACTIVE] = self.take_snapshot()
        self.ocall(self.farm, "pause")
        self.snap[c][S_PAUSED] = self.take_snapshot()

    def rew_watch(self, frm):
        t = LOCKED if self.CODE == "farm-with-locked-rewards" else self.rew
        return [(self.P, t), (frm, t)]

    def caller(self, role):
        return self.A[self.CODE][role]

    def ep__enterFarm(self, row, role, st):
        return Call([], [(self.farming, 0, 1000)])

    def pos(self, row, role, st, k=0):
        if st == S_INACTIVE:
            return None
        a = self.caller(role)
        if row.variant == V_ORIG or row.kind == K_ONBEHALF:
            return (FARMTK, self.ofp[a], 10 ** 6)
        return (FARMTK, self.own[a][k], 10 ** 6)

    def ep__claimRewards(self, row, role, st):
        p = self.pos(row, role, st)
        return Call([], [p]) if p else None

    ep__compoundRewards = ep__claimRewards
    ep__exitFarm = ep__claimRewards

    def ep__mergeFarmTokens(self, row, role, st):
        if st == S_INACTIVE:
            return None
        a = self.caller(role)
        if row.variant == V_ORIG:
            return Call([], [(FARMTK, self.ofp[a], 5 * 10 ** 5), (FARMTK, self.ofp[a], 5 * 10 ** 5)])
        return Call([], [(FARMTK, self.own[a][0], 10 ** 6), (FARMTK, self.own[a][1], 10 ** 6)])

    def ep__claimBoostedRewards(self, row, role, st):
        if st == S_INACTIVE and row.variant == V_PLAIN:
            return None                    # "User total farm position is empty!" precedes the state check
        return Call([])

    def multi(self, row, role, amount=10 ** 6, token=FARMTK):
        """three position payments, all recorded for the principal except payment k of a foreign-owner variant"""
        a = self.caller(role)
        ps = [(token, n, amount) for n in self.pp[a]]
        if is_foreign(row.variant):
            ps[foreign_k(row.variant)] = (token, self.fp[a][foreign_o(row.variant)], amount)
        return ps

    def ep__enterFarmOnBehalf(self, row, role, st):
        if row.variant == V_PLAIN:
            return Call([self.P], [(self.farming, 0, 1000)])
        if st == S_INACTIVE:
            return None
        ps = self.multi(row, role)
        return Call([self.P], [(self.farming, 0, 1000), ps[1], ps[2]])          # the main payment is the farming token

    def ep__claimRewardsOnBehalf(self, row, role, st):
        if row.variant == V_PLAIN:
            p = self.pos(row, role, st)
            return Call([], [p], watch=self.rew_watch(self.caller(role))) if p else None
        if st == S_INACTIVE:
            return None
        return Call([], self.multi(row, role), watch=self.rew_watch(self.caller(role)))

    def ep__calculateRewardsForGivenPosition(self, row, role, st):
        if st == S_INACTIVE:
            return None
        return Call([self.P, top_u(1000), self.some_attrs])

    def ep__removeSCAddressFromWhitelist(self, row, role, st):
        return Call([self.caller(10 + P_WL)])

    def ep__setBoostedYieldsFactors(self, row, role, st):
        return Call([top_u(10), top_u(3), top_u(2), top_u(1), top_u(1)])

    def ep__setBoostedYieldsRewardsPercentage(self, row, role, st):
        return Call([top_u(2500)])

    def ep__registerFarmToken(self, row, role, st):
        return Call([b"FarmToken", b"FARM", top_u(18)], egld=5 * 10 ** 16)

    def ep__startProduceRewards(self, row, role, st):
        return Call([])

    def ep__updateEnergyForUser(self, row, role, st):
        return Call([self.P])

    def ep__getUserTotalFarmPosition(self, row, role, st):
        return Call([self.P])

    def ep__getCurrentClaimProgress(self, row, role, st):
        return Call([self.P]) if st != S_INACTIVE else None      # empty before the first position (decode error, not a guard)


class FarmLockedWorldA(FarmWorldA):
    CODE = "farm-with-locked-rewards"
    contracts = ("farm-with-locked-rewards",)


STK, STKFARM = b"RIDE-abcdef", b"STKFARM-abcdef"


class StakingWorldA(World):
    """farm-staking with hub, admin, pauser, whitelisted contract (the 'proxy')"""
    contracts = ("farm-staking",)

    def __init__(self):
        super().__init__()
        vm = self.vm
        c = "farm-staking"
        self.owner = self.user("owner")
        A = self.std_roles(c)
        A[10 + P_WL] = self.sc("wl-caller")
        self.P = self.user("principal")
        self.farm = self.reserve("staking1")
        self.target[c] = self.farm
        self.efact = self.reserve("efactory")
        self.must(vm.deploy(self.owner, "energy-factory-mock", [], new_addr=self.efact), "efact-mock")
        self.setup_hub(A)
        self.must(vm.deploy(self.owner, c, [STK, top_u(10 ** 12), top_u(5000), top_u(3), self.owner, A[R_ADMIN]],
                            new_addr=self.farm), c)
        vm.sset(self.farm, b"farm_token_id", STKFARM)
        vm.roles(self.farm, STKFARM, ROLES_NFT)
        vm.roles(self.farm, STK, ["ESDTRoleLocalBurn"])
        self.ocall(self.farm, "setEnergyFactoryAddress", [self.efact])
        self.ocall(self.farm, "setPermissionsHubAddress", [self.hub])
        self.ocall(self.farm, "addToPauseWhitelist", [A[R_PAUSER]])
        self.ocall(self.farm, "addSCAddressToWhitelist", [A[10 + P_WL]])
        adm = A[R_ADMIN]
        everyone = list(A.values()) + [self.P]
        for a in everyone:
            vm.setbal(a, STK, 0, BIG)
        self.must(vm.call(adm, self.farm, "topUpRewards", [], [(STK, 0, 10 ** 15)]))
        self.must(vm.call(adm, self.farm, "setPerBlockRewardAmount", [top_u(10 ** 4)]))
        self.must(vm.call(adm, self.farm, "setBoostedYieldsFactors", [top_u(10), top_u(3), top_u(2), top_u(1), top_u(1)]))
        self.must(vm.call(adm, self.farm, "startProduceRewards"))
        self.snap[c] = {S_INACTIVE: self.take_snapshot()}
        self.ocall(self.farm, "resume")
        self.own, self.ofp, self.unb = {}, {}, {}
        for a in everyone:
            ns = []
            for _ in range(3):
                r = self.must(vm.call(a, self.farm, "stakeFarm", [], [(STK, 0, 10 ** 8)]), "stake")
                ns.append(dec_payment(r.out[0])[1])
            self.own[a] = ns
        self.pp, self.fp = {}, {}
        for b in self.B.values():
            vm.setbal(b, STK, 0, BIG)
        for a in A.values():
            ns = []
            for _ in range(3):
                r = self.must(vm.call(self.P, self.farm, "stakeFarm", [], [(STK, 0, 10 ** 8)]), "stakeP")
                n = dec_payment(r.out[0])[1]
                self.must(vm.transfer(self.P, a, [(STKFARM, n, 10 ** 8)]))
                ns.append(n)
            self.ofp[a] = ns[0]
            self.pp[a] = ns
            self.fp[a] = {}
            for o, b in self.B.items():
                r = self.must(vm.call(b, self.farm, "stakeFarm", [], [(STK, 0, 10 ** 8)]), "stakeB")
                n = dec_payment(r.out[0])[1]
                self.must(vm.transfer(b, a, [(STKFARM, n, 10 ** 8)]))
                self.fp[a][o] = n
        for a in A.values():            # an unbond token per role (third position)
            r = self.must(vm.call(a, self.farm, "unstakeFarm", [], [(STKFARM, self.own[a][2], 10 ** 8)]), "unstake")
            self.unb[a] = dec_payment(r.out[0])[1]
        self.some_attrs = vm.attrs(self.P, STKFARM, self.own[self.P][0])
        self.set_block(200, 200, 5 + 7 * 7, 1200)
        self.snap[c][S_ACTIVE] = self.take_snapshot()
        self.ocall(self.farm, "pause")
        self.snap[c][S_PAUSED] = self.take_snapshot()

    def caller(self, role):
        return self.A["farm-staking"][role]

    def pos(self, row, role, st, k=0):
        if st == S_INACTIVE:
            return None
        a = self.caller(role)
        if row.variant == V_ORIG or row.kind == K_ONBEHALF:
            return (STKFARM, self.ofp[a], 10 ** 8)
        return (STKFARM, self.own[a][k], 10 ** 8)

    def ep__stakeFarm(self, row, role, st):
        return Call([], [(STK, 0, 1000)])

    def ep__stakeFarmThroughProxy(self, row, role, st):
        return Call([top_u(1000), self.P], [])

    def ep__claimRewards(self, row, role, st):
        p = self.pos(row, role, st)
        return Call([], [p]) if p else None

    ep__compoundRewards = ep__claimRewards
    ep__unstakeFarm = ep__claimRewards

    def ep__claimRewardsWithNewValue(self, row, role, st):
        if st == S_INACTIVE:
            return None
        return Call([top_u(10 ** 8), self.caller(role)], [(STKFARM, self.own[self.caller(role)][0], 10 ** 8)])

    def ep__unstakeFarmThroughProxy(self, row, role, st):
        if st == S_INACTIVE:
            return None
        return Call([self.caller(role)], [(STK, 0, 1000), (STKFARM, self.own[self.caller(role)][0], 10 ** 8)])

    def ep__unbondFarm(self, row, role, st):
        if st == S_INACTIVE:
            return None
        return Call([], [(STKFARM, self.unb[self.caller(role)], 10 ** 8)])

    def ep__mergeFarmTokens(self, row, role, st):
        if st == S_INACTIVE:
            return None
        a = self.caller(role)
        return Call([], [(STKFARM, self.own[a][0], 10 ** 8), (STKFARM, self.own[a][1], 10 ** 8)])

    def ep__claimBoostedRewards(self, row, role, st):
        if st == S_INACTIVE and row.variant == V_PLAIN:
            return None
        return Call([])

    def multi(self, row, role):
        a = self.caller(role)
        ps = [(STKFARM, n, 10 ** 8) for n in self.pp[a]]
        if is_foreign(row.variant):
            ps[foreign_k(row.variant)] = (STKFARM, self.fp[a][foreign_o(row.variant)], 10 ** 8)
        return ps

    def ep__stakeFarmOnBehalf(self, row, role, st):
        if row.variant == V_PLAIN:
            return Call([self.P], [(STK, 0, 1000)])
        if st == S_INACTIVE:
            return None
        ps = self.multi(row, role)
        return Call([self.P], [(STK, 0, 1000), ps[1], ps[2]])

    def ep__claimRewardsOnBehalf(self, row, role, st):
        watch = [(self.P, STK), (self.caller(role), STK)]
        if row.variant == V_PLAIN:
            p = self.pos(row, role, st)
            return Call([], [p], watch=watch) if p else None
        if st == S_INACTIVE:
            return None
        return Call([], self.multi(row, role), watch=watch)

    def ep__calculateRewardsForGivenPosition(self, row, role, st):
        if st == S_INACTIVE:
            return None
        return Call([top_u(1000), self.some_attrs])

    def ep__topUpRewards(self, row, role, st):
        return Call([], [(STK, 0, 1000)])

    def ep__withdrawRewards(self, row, role, st):
        return Call([top_u(1000)])

    def ep__removeSCAddressFromWhitelist(self, row, role, st):
        return Call([self.caller(10 + P_WL)])

    def ep__setBoostedYieldsFactors(self, row, role, st):
        return Call([top_u(10), top_u(3), top_u(2), top_u(1), top_u(1)])

    def ep__registerFarmToken(self, row, role, st):
        return Call([b"FarmToken", b"FARM", top_u(18)], egld=5 * 10 ** 16)

    def ep__updateEnergyForUser(self, row, role, st):
        return Call([self.P])

    def ep__getUserTotalFarmPosition(self, row, role, st):
        return Call([self.P])

    def ep__setBurnRoleForAddress(self, row, role, st):
        return Call([self.dummy_sc])

    def ep__getCurrentClaimProgress(self, row, role, st):
        return Call([self.P]) if st != S_INACTIVE else None      # empty before the first position (decode error, not a guard)


class HubWorldA(World):
    contracts = ("permissions-hub",)

    def __init__(self):
        super().__init__()
        self.owner = self.user("owner")
        A = self.std_roles("permissions-hub")
        self.P = self.user("principal")
        self.setup_hub(A)
        self.target["permissions-hub"] = self.hub
        for a in A.values():             # everybody has one address whitelisted, so removeWhitelist can succeed
            self.must(self.vm.call(a, self.hub, "whitelist", [self.dummy_sc]))
        self.snap["permissions-hub"] = {S_ACTIVE: self.take_snapshot()}

    def ep__whitelist(self, row, role, st):
        return Call([self.P])

    def ep__removeWhitelist(self, row, role, st):
        return Call([self.dummy_sc])

    def ep__isWhitelisted(self, row, role, st):
        return Call([self.P, self.A["permissions-hub"][R_AGENT]])



WRAPPED = b"WLKMEX-abcdef"


def enc_energy(amt, upd, tot):
    raw = b"" if amt == 0 else amt.to_bytes((amt.bit_length() + 8) // 8, "big", signed=True)
    return nest_bytes(raw) + nest_u64(upd) + nest_big(tot)


class EnergyWorldA(World):
    """energy-factory + token-unstake + lkmex-transfer + locked-token-wrapper (+ fees collector as the
    sink of penalties).  Base roles are shared; counterparties: whitelisted SC, transfer-whitelisted SC,
    old factory (own addresses), unstake SC = the real token-unstake contract, energy factory (for
    token-unstake) = the real energy factory."""
    contracts = ("energy-factory", "token-unstake", "lkmex-transfer", "locked-token-wrapper")
    EPOCH0 = 20

    def __init__(self):
        super().__init__()
        vm = self.vm
        self.set_block(10, 10, self.EPOCH0, 60)
        self.owner = self.user("owner")
        base = self.std_roles("energy-factory")
        self.P = self.user("principal")
        self.fact, self.unst, self.xfer, self.wrap, self.coll = [self.reserve(n) for n in
                                                                 ("factory", "unstake", "transfer", "wrapper", "collector")]
        self.target.update({"energy-factory": self.fact, "token-unstake": self.unst, "lkmex-transfer": self.xfer,
                            "locked-token-wrapper": self.wrap})
        self.oldf = self.sc("old-factory")
        wl, xsc = self.sc("wl-caller"), self.sc("transfer-sc")
        deploy_energy_factory(self, self.fact, self.unst, self.oldf)
        vm.setegld(self.fact, 10 ** 21)
        self.must(vm.deploy(self.owner, "fees-collector", [LOCKED, self.fact], new_addr=self.coll), "collector")
        self.must(vm.deploy(self.owner, "token-unstake", [top_u(5), self.fact, top_u(5000), self.coll], new_addr=self.unst), "unstake")
        vm.setegld(self.unst, 10 ** 21)
        vm.roles(self.unst, MEX, ["ESDTRoleLocalBurn"])
        vm.roles(self.unst, LOCKED, ["ESDTRoleNFTBurn"])
        vm.roles(self.coll, LOCKED, ["ESDTRoleNFTBurn"])
        self.ocall(self.coll, "addKnownContracts", [self.unst])
        self.ocall(self.fact, "setTokenUnstakeAddress", [self.unst])
        self.must(vm.deploy(self.owner, "lkmex-transfer", [self.fact, LOCKED, top_u(1), top_u(0)], new_addr=self.xfer), "lkmex")
        vm.roles(self.xfer, LOCKED, ["ESDTTransferRole"])
        self.ocall(self.xfer, "addAdmin", [base[R_ADMIN]])
        self.must(vm.deploy(self.owner, "locked-token-wrapper", [self.fact], new_addr=self.wrap), "wrapper")
        vm.sset(self.wrap, b"wrappedTokenId", WRAPPED)
        vm.roles(self.wrap, WRAPPED, ROLES_NFT)
        self.ocall(self.fact, "addToTokenTransferWhitelist", [self.xfer, self.wrap, xsc])
        self.ocall(self.fact, "addSCAddressToWhitelist", [wl])
        A = dict(base)
        A.update({10 + P_WL: wl, 10 + P_UNSTAKE: self.unst, 10 + P_OLDFACT: self.oldf, 10 + P_XFER: xsc})
        self.A["energy-factory"] = A
        self.A["token-unstake"] = {**base, 10 + P_EFACT: self.fact}
        self.A["lkmex-transfer"] = dict(base)
        self.A["locked-token-wrapper"] = dict(base)
        everyone = list(base.values()) + [self.P, wl, xsc, self.oldf]
        senders = [self.user(f"sender{i}") for i in range(len(base))]
        for a in everyone + [self.unst, self.fact] + senders:
            vm.setbal(a, MEX, 0, BIG)
        # old-token energy bookkeeping may only be written while paused
        self.ocall(self.fact, "setEnergyForOldTokens", [self.P, top_u(0), b""])
        self.snap["energy-factory"] = {S_INACTIVE: self.take_snapshot()}
        self.ocall(self.fact, "unpause")
        E = self.EPOCH0
        self.n = {}
        for a in everyone:
            for le in (360, 1440):
                r = self.must(vm.call(a, self.fact, "lockTokens", [top_u(le)], [(MEX, 0, 10 ** 9)]), "lock")
                self.n[le] = dec_payment(r.out[0])[1]
        users = list(base.values())
        for a in users:          # pending unbond entries, wrapped tokens, incoming transfers
            self.must(vm.call(a, self.fact, "unlockEarly", [], [(LOCKED, self.n[360], 10 ** 6)]), "unlockEarly")
            r = self.must(vm.call(a, self.wrap, "wrapLockedToken", [], [(LOCKED, self.n[360], 10 ** 6)]), "wrap")
            self.wn = dec_payment(r.out[0])[1]
        self.sender = {}
        for i, a in enumerate(users):
            snd = senders[i]
            self.must(vm.call(snd, self.fact, "lockTokens", [top_u(360)], [(MEX, 0, 10 ** 9)]), "lock-s")
            self.must(vm.call(snd, self.xfer, "lockFunds", [a], [(LOCKED, self.n[360], 10 ** 6)]), "lockFunds")
            self.sender[a] = snd
        for a in (self.fact, self.unst):  # what the factory forwards to token-unstake; the unstake SC as a caller
            for le in (360, 1440):
                vm.setbal(a, LOCKED, self.n[le], 10 ** 9, vm.attrs(self.P, LOCKED, self.n[le]))
        self.later = (50, 50, E + 30, 300)           # unbond period and transfer lock over
        self.expired = (60, 60, E + 400, 360)        # the 360-epoch lock is over
        live = self.take_snapshot()
        for c in self.contracts:
            self.snap.setdefault(c, {})[S_ACTIVE] = live
        self.ocall(self.fact, "pause")
        self.snap["energy-factory"][S_PAUSED] = self.take_snapshot()

    # ---- energy factory
    def ep_energy_factory__lockTokens(self, row, role, st):
        return Call([top_u(360)], [(MEX, 0, 1000)])

    def tok(self, st, le=360, amt=1000):
        if st == S_INACTIVE:
            return None
        return (LOCKED, self.n[le], amt)

    def ep_energy_factory__unlockTokens(self, row, role, st):
        p = self.tok(st)
        return Call([], [p], block=self.expired) if p else None

    def ep_energy_factory__extendLockPeriod(self, row, role, st):
        p = self.tok(st)
        return Call([top_u(720), self.P], [p]) if p else None

    def ep_energy_factory__unlockEarly(self, row, role, st):
        p = self.tok(st)
        return Call([], [p]) if p else None

    def ep_energy_factory__reduceLockPeriod(self, row, role, st):
        p = self.tok(st, 1440)
        return Call([top_u(360)], [p]) if p else None

    def ep_energy_factory__revertUnstake(self, row, role, st):
        return Call([self.P, enc_energy(1000, self.EPOCH0, 10)])

    def ep_energy_factory__updateEnergyAfterOldTokenUnlock(self, row, role, st):
        return Call([self.P, nest_u32(0), nest_u32(0)])

    def ep_energy_factory__migrateOldTokens(self, row, role, st):
        return Call([], [(MEX, 0, 1000)])

    def ep_energy_factory__mergeTokens(self, row, role, st):
        if st == S_INACTIVE:
            return None
        return Call([], [(LOCKED, self.n[360], 1000), (LOCKED, self.n[1440], 1000)])

    def ep_energy_factory__lockVirtual(self, row, role, st):
        return Call([MEX, top_u(1000), top_u(360), self.P, self.P])

    def ep_energy_factory__setUserEnergyAfterLockedTokenTransfer(self, row, role, st):
        return Call([self.P, enc_energy(1000, self.EPOCH0, 10)])

    def ep_energy_factory__setEnergyForOldTokens(self, row, role, st):
        return Call([self.P, top_u(10), top_u(1000)])

    def ep_energy_factory__adjustUserEnergy(self, row, role, st):
        if st == S_INACTIVE:
            return None
        return Call([self.P, top_u(5), top_u(1)])

    def ep_energy_factory__addLockOptions(self, row, role, st):
        return Call([top_u(1080), top_u(7000)])

    def ep_energy_factory__issueLockedToken(self, row, role, st):
        return Call([b"Locked", b"LKD", top_u(18)], egld=5 * 10 ** 16)

    def ep_energy_factory__removeSCAddressFromWhitelist(self, row, role, st):
        return Call([self.A["energy-factory"][10 + P_WL]])

    def ep_energy_factory__removeFromTokenTransferWhitelist(self, row, role, st):
        return Call([self.A["energy-factory"][10 + P_XFER]])

    def ep_energy_factory__getEnergyEntryForUser(self, row, role, st):
        return Call([self.P])

    ep_energy_factory__getEnergyAmountForUser = ep_energy_factory__getEnergyEntryForUser

    def ep_energy_factory__getPenaltyAmount(self, row, role, st):
        return Call([top_u(1000), top_u(720), top_u(360)])

    # ---- token-unstake
    def ep_token_unstake__claimUnlockedTokens(self, row, role, st):
        return Call([], block=self.later)

    def ep_token_unstake__depositUserTokens(self, row, role, st):
        return Call([self.P], [(LOCKED, self.n[360], 1000), (MEX, 0, 500)])

    def ep_token_unstake__depositFees(self, row, role, st):
        return Call([], [(LOCKED, self.n[360], 1000)])

    def ep_token_unstake__setFeesBurnPercentage(self, row, role, st):
        return Call([top_u(3000)])

    def ep_token_unstake__getUnlockedTokensForUser(self, row, role, st):
        return Call([self.A["token-unstake"][R_USER]])

    # ---- lkmex-transfer
    def ep_lkmex_transfer__withdraw(self, row, role, st):
        return Call([self.sender[self.A["lkmex-transfer"][role]]], block=self.later)

    def ep_lkmex_transfer__lockFunds(self, row, role, st):
        return Call([self.P], [(LOCKED, self.n[360], 1000)])

    def ep_lkmex_transfer__cancelTransfer(self, row, role, st):
        u = self.A["lkmex-transfer"][R_USER]
        return Call([self.sender[u], u])

    def ep_lkmex_transfer__getScheduledTransfers(self, row, role, st):
        return Call([self.A["lkmex-transfer"][R_USER]])

    ep_lkmex_transfer__getAllSenders = ep_lkmex_transfer__getScheduledTransfers

    # ---- locked-token-wrapper
    def ep_locked_token_wrapper__wrapLockedToken(self, row, role, st):
        return Call([], [(LOCKED, self.n[360], 1000)])

    def ep_locked_token_wrapper__unwrapLockedToken(self, row, role, st):
        return Call([], [(WRAPPED, self.wn, 1000)])

    def ep_locked_token_wrapper__issueWrappedToken(self, row, role, st):
        return Call([b"Wrapped", b"WLK", top_u(18)], egld=5 * 10 ** 16)



FEE_T = b"USDC-abcdef"


class FeesWorldA(World):
    """fees-collector with a whitelisted contract (may claim for a user) and a known contract (may deposit)"""
    contracts = ("fees-collector",)

    def __init__(self):
        super().__init__()
        vm = self.vm
        c = "fees-collector"
        self.owner = self.user("owner")
        A = self.std_roles(c)
        A[10 + P_WL] = self.sc("wl-caller")
        A[10 + P_KNOWN] = self.sc("known-pair")
        self.P = self.user("principal")
        self.coll = self.reserve("collector")
        self.efact = self.reserve("efactory")
        self.target[c] = self.coll
        self.must(vm.deploy(self.owner, "energy-factory-mock", [], new_addr=self.efact), "efact-mock")
        vm.sset(self.efact, b"lockedTokenId", LOCKED)
        self.must(vm.deploy(self.owner, c, [LOCKED, self.efact], new_addr=self.coll), c)
        vm.roles(self.coll, LOCKED, ["ESDTRoleNFTBurn"])
        self.ocall(self.coll, "addKnownContracts", [A[10 + P_KNOWN]])
        self.ocall(self.coll, "addKnownTokens", [FEE_T])
        self.ocall(self.coll, "addSCAddressToWhitelist", [A[10 + P_WL]])
        self.ocall(self.coll, "setLockingScAddress", [self.dummy_sc])
        everyone = list(A.values()) + [self.P]
        for a in everyone:
            vm.setbal(a, FEE_T, 0, BIG)
            self.ocall(self.efact, "setUserEnergy", [a, top_u(10 ** 6), top_u(10 ** 3)])
        for a in everyone:                 # register energy in week 1, fees deposited in week 1
            self.must(vm.call(a, self.coll, "claimRewards"), "claim0")
        self.must(vm.call(A[10 + P_KNOWN], self.coll, "depositSwapFees", [], [(FEE_T, 0, 10 ** 9)]))
        self.set_block(20, 20, 5 + 7, 120)       # week 2: week-1 fees are claimable
        self.snap[c] = {S_ACTIVE: self.take_snapshot()}
        self.ocall(self.coll, "pause")
        self.snap[c][S_PAUSED] = self.take_snapshot()

    def ep__claimRewards(self, row, role, st):
        return Call([], watch=[(self.P, FEE_T), (self.A["fees-collector"][role], FEE_T)] if row.variant == V_ORIG else None)

    def ep__claimBoostedRewards(self, row, role, st):
        return Call([])

    def ep__depositSwapFees(self, row, role, st):
        return Call([], [(FEE_T, 0, 1000)])

    def ep__addKnownTokens(self, row, role, st):
        return Call([b"OTHER-abcdef"])

    def ep__removeKnownTokens(self, row, role, st):
        return Call([FEE_T])

    def ep__removeKnownContracts(self, row, role, st):
        return Call([self.A["fees-collector"][10 + P_KNOWN]])

    def ep__removeSCAddressFromWhitelist(self, row, role, st):
        return Call([self.A["fees-collector"][10 + P_WL]])

    def ep__updateEnergyForUser(self, row, role, st):
        return Call([self.P], block=(15, 15, 5, 90))        # the week of the principal's last claim

    def ep__getAccumulatedFees(self, row, role, st):
        return Call([top_u(1), FEE_T])

    def ep__getCurrentClaimProgress(self, row, role, st):
        return Call([self.P])

    def ep__getUserEnergyForWeek(self, row, role, st):
        return Call([self.P, top_u(1)])

    def ep__getLastActiveWeekForUser(self, row, role, st):
        return Call([self.P])


GOV_FEE_T = b"MEX-abcdef"


class GovWorldA(World):
    """governance-v2 with one pending proposal made by the `proposer` account"""
    contracts = ("governance-v2",)
    FEE = 3 * 10 ** 24

    def __init__(self):
        super().__init__()
        vm = self.vm
        c = "governance-v2"
        self.set_block(100, 100, 5, 600)
        self.owner = self.user("owner")
        A = self.std_roles(c)
        A[10 + P_PROPOSER] = self.user("proposer")
        self.P = self.user("principal")
        self.gov, self.efact, self.coll = self.reserve("gov"), self.reserve("efactory"), self.reserve("collector")
        self.target[c] = self.gov
        self.must(vm.deploy(self.owner, "energy-factory-mock", [], new_addr=self.efact), "efact-mock")
        self.must(vm.deploy(self.owner, "fees-collector", [LOCKED, self.efact], new_addr=self.coll), "collector")
        self.must(vm.deploy(self.owner, c, [top_u(1000), top_u(self.FEE), top_u(5000), top_u(10), top_u(14400), top_u(5000),
                                            self.efact, self.coll, GOV_FEE_T], new_addr=self.gov), c)
        vm.roles(self.gov, GOV_FEE_T, ["ESDTRoleLocalBurn"])
        for a in A.values():
            vm.setbal(a, GOV_FEE_T, 0, 10 ** 40)
            self.ocall(self.efact, "setUserEnergy", [a, top_u(10 ** 9), top_u(10 ** 6)])
        r = self.must(vm.call(A[10 + P_PROPOSER], self.gov, "propose", [b"proposal text"], [(GOV_FEE_T, 0, self.FEE)]), "propose")
        self.pid = from_top_u(r.out[0])
        self.snap[c] = {S_ACTIVE: self.take_snapshot()}
        self.pending = (105, 105, 5, 630)
        self.voting = (200, 200, 5, 1200)
        self.over = (100 + 10 + 14400 + 50, 100 + 10 + 14400 + 50, 6, 6 * 14560)

    def ep__propose(self, row, role, st):
        return Call([b"another proposal"], [(GOV_FEE_T, 0, self.FEE)])

    def ep__vote(self, row, role, st):
        return Call([top_u(self.pid), top_u(0)], block=self.voting)

    def ep__cancel(self, row, role, st):
        return Call([top_u(self.pid)], block=self.pending)

    def ep__withdrawDeposit(self, row, role, st):
        return Call([top_u(self.pid)], block=self.over)

    def ep__changeMinFeeForProposal(self, row, role, st):
        return Call([top_u(4 * 10 ** 24)])

    def ep__changeQuorumPercentage(self, row, role, st):
        return Call([top_u(4000)])

    def ep__changeWithdrawPercentage(self, row, role, st):
        return Call([top_u(4000)])

    def ep__changeVotingDelayInBlocks(self, row, role, st):
        return Call([top_u(20)])

    def ep__changeVotingPeriodInBlocks(self, row, role, st):
        return Call([top_u(20000)])

    def ep__getProposalStatus(self, row, role, st):
        return Call([top_u(self.pid)])

    ep__getProposalVotes = ep__getProposalStatus

    def ep__getUserVotedProposals(self, row, role, st):
        return Call([self.P])


PD_TL, PD_TA, PD_TR, PD_TLK = b"LAUNCH-abcdef", b"USDC-abcdef", b"REDEEM-abcdef", b"LOCKED-abcdef"


class PriceDiscWorldA(World):
    """price-discovery: everybody has deposited both tokens in the no-penalty phase; `withdraw` runs
    in that phase, `redeem` after the end"""
    contracts = ("price-discovery",)

    def __init__(self):
        super().__init__()
        vm = self.vm
        c = "price-discovery"
        self.set_block(12, 12, 1, 72)
        self.owner = self.user("owner")
        A = self.std_roles(c)
        self.P = self.user("principal")
        self.pd, self.lock = self.reserve("pricedisc"), self.reserve("simplelock")
        self.target[c] = self.pd
        self.must(vm.deploy(self.owner, "simple-lock", [], new_addr=self.lock), "simple-lock")
        vm.sset(self.lock, b"lockedTokenId", PD_TLK)
        vm.roles(self.lock, PD_TLK, ROLES_NFT)
        args = [PD_TL, PD_TA, top_u(6), top_u(0), top_u(20), top_u(100), top_u(100), top_u(100), top_u(50),
                top_u(10 ** 12), top_u(5 * 10 ** 12), top_u(25 * 10 ** 11), self.lock]
        self.must(vm.deploy(self.owner, c, args, new_addr=self.pd), c)
        vm.sset(self.pd, b"redeemTokenId", PD_TR)
        vm.roles(self.pd, PD_TR, ROLES_NFT)
        self.ocall(self.pd, "createInitialRedeemTokens")
        self.set_block(25, 25, 1, 150)
        for a in A.values():
            vm.setbal(a, PD_TL, 0, BIG)
            vm.setbal(a, PD_TA, 0, BIG)
            self.must(vm.call(a, self.pd, "deposit", [], [(PD_TL, 0, 10 ** 9)]), "dep1")
            self.must(vm.call(a, self.pd, "deposit", [], [(PD_TA, 0, 10 ** 9)]), "dep2")
        self.snap[c] = {S_ACTIVE: self.take_snapshot()}
        self.after = (400, 400, 60, 2400)

    def ep__deposit(self, row, role, st):
        return Call([], [(PD_TA, 0, 1000)])

    def ep__withdraw(self, row, role, st):
        return Call([], [(PD_TR, 2, 1000)])

    def ep__redeem(self, row, role, st):
        return Call([], [(PD_TR, 1, 1000)], block=self.after)

    def ep__issueRedeemToken(self, row, role, st):
        return Call([b"Redeem", b"RDM", top_u(18)], egld=5 * 10 ** 16)

    def ep__setUnlockEpoch(self, row, role, st):
        return Call([top_u(70)])



T3, T4 = b"USDC-abcdef", b"UTK-abcdef"
LKLP = b"LKLP-abcdef"


class RouterWorldA(World):
    """dex/router with a pair template and three pairs created through the router: A (T1/T2) active
    with liquidity, B (T1/T3) in ActiveNoSwaps with the `adder` account as initial liquidity adder,
    C (T2/T3) without an LP token"""
    contracts = ("router",)

    def __init__(self):
        super().__init__()
        vm = self.vm
        c = "router"
        self.owner = self.user("owner")
        A = self.std_roles(c)
        A[10 + P_ADDER] = self.user("adder")
        self.P = self.user("principal")
        self.dest = self.user("feedest")
        self.router = self.reserve("router")
        self.template = self.track(sc_addr("template"), create=False)
        vm.acct(self.template, code="pair", owner=self.owner)
        self.target[c] = self.router
        self.must(vm.deploy(self.owner, "router", [self.template], new_addr=self.router), "router")
        self.pairs = {}
        self.next_pair = 0
        for a in list(A.values()):
            for t in (T1, T2, T3, T4):
                vm.setbal(a, t, 0, BIG)
        for name, ta, tb, lp in (("A", T1, T2, b"LPA-abcdef"), ("B", T1, T3, b"LPB-abcdef"), ("C", T2, T3, None)):
            addr = self.new_pair_addr()
            r = self.must(vm.call(self.owner, self.router, "createPair", [ta, tb, A[10 + P_ADDER], top_u(300), top_u(50)]), "createPair")
            assert r.out[0] == addr
            self.pairs[name] = addr
            for t in (ta, tb):
                vm.roles(addr, t, ["ESDTRoleLocalBurn"])
            if lp:
                self.ocall(addr, "setLpTokenIdentifier", [lp])
                vm.roles(addr, lp, ROLES_MINT)
                self.must(vm.call(A[10 + P_ADDER], addr, "addInitialLiquidity", [], [(ta, 0, 10 ** 9), (tb, 0, 2 * 10 ** 9)]), "init-liq")
        self.ocall(self.router, "resume", [self.pairs["A"]])
        self.ocall(self.router, "addCommonTokensForUserPairs", [T1])
        self.ocall(self.router, "configEnableByUserParameters", [T1, LKLP, top_u(1), top_u(0)])
        attrs = nest_bytes(b"LPB-abcdef") + nest_u64(0) + nest_u64(1000)
        for a in A.values():
            vm.setbal(a, LKLP, 1, 10 ** 6, attrs)
        self.set_block(50, 50, 5, 300)
        self.snap[c] = {S_ACTIVE: self.take_snapshot()}
        self.ocall(self.router, "pause", [self.router])
        self.snap[c][S_PAUSED] = self.take_snapshot()

    def new_pair_addr(self):
        self.next_pair += 1
        a = self.track(sc_addr(f"rpair{self.next_pair}"), create=False)
        self.vm.newaddr(self.router, self.vm.nonce(self.router), a)
        return a

    def ep__pause(self, row, role, st):
        return Call([self.router])

    ep__resume = ep__pause

    def ep__createPair(self, row, role, st):
        # the new pair is deployed at a scratch address that is not part of the digested world
        def pre():
            self.vm.newaddr(self.router, self.vm.nonce(self.router), sc_addr(f"scratch{self.vm.ncalls}"))
        return Call([T3, T4, self.A["router"][10 + P_ADDER], top_u(300), top_u(50)], pre=pre)

    def ep__upgradePair(self, row, role, st):
        return Call([T1, T2])

    ep__removePair = ep__upgradePair

    def ep__issueLpToken(self, row, role, st):
        return Call([self.pairs["C"], b"LPToken", b"LPC"], egld=5 * 10 ** 16)

    def ep__setLocalRoles(self, row, role, st):
        return Call([self.pairs["A"]])

    def ep__setFeeOn(self, row, role, st):
        return Call([self.pairs["A"], self.dest, T1])

    ep__setFeeOff = ep__setFeeOn

    def ep__setPairTemplateAddress(self, row, role, st):
        return Call([self.template])

    def ep__multiPairSwap(self, row, role, st):
        return Call([self.pairs["A"], b"swapTokensFixedInput", T2, top_u(1)], [(T1, 0, 1000)])

    def ep__configEnableByUserParameters(self, row, role, st):
        return Call([T1, LKLP, top_u(2), top_u(1)])

    def ep__addCommonTokensForUserPairs(self, row, role, st):
        return Call([T4])

    def ep__removeCommonTokensForUserPairs(self, row, role, st):
        return Call([T1])

    def ep__setSwapEnabledByUser(self, row, role, st):
        return Call([self.pairs["B"]], [(LKLP, 1, 10 ** 5)])

    def ep__getPair(self, row, role, st):
        return Call([T1, T2])

    def ep__getEnableSwapByUserConfig(self, row, role, st):
        return Call([T1])



def find_payment(r, token):
    """the returned payment of the given token among a call's results"""
    for o in r.out:
        try:
            p = dec_payment(o)
        except Exception:
            continue
        if p[0] == token and p[2] > 0:
            return p
    raise AssertionError((token, r))


def deploy_live_pair(w, addr, ta, tb, lp, amount=10 ** 12):
    """an active pair (no initial adder) with liquidity provided by the owner"""
    vm = w.vm
    w.must(vm.deploy(w.owner, "pair", [ta, tb, w.owner, w.owner, top_u(300), top_u(50), ZERO_ADDR], new_addr=addr), "pair")
    w.ocall(addr, "setLpTokenIdentifier", [lp])
    vm.roles(addr, lp, ROLES_MINT)
    for t in (ta, tb):
        vm.roles(addr, t, ["ESDTRoleLocalBurn"])
    w.ocall(addr, "resume")
    vm.setbal(w.owner, ta, 0, BIG)
    vm.setbal(w.owner, tb, 0, BIG)
    w.ocall(addr, "addLiquidity", [top_u(1), top_u(1)], [(ta, 0, amount), (tb, 0, amount)])


def deploy_farm(w, code, addr, reward, farming, farm_token, efact, admin):
    """an active farm producing rewards"""
    vm = w.vm
    w.must(vm.deploy(w.owner, code, [reward, farming, top_u(10 ** 12), ZERO_ADDR, w.owner, admin], new_addr=addr), code)
    vm.sset(addr, b"farm_token_id", farm_token)
    vm.roles(addr, farm_token, ROLES_NFT)
    vm.roles(addr, reward, ROLES_MINT)
    if farming != reward:
        vm.roles(addr, farming, ["ESDTRoleLocalBurn"])
    w.ocall(addr, "setEnergyFactoryAddress", [efact])
    w.must(vm.call(admin, addr, "setPerBlockRewardAmount", [top_u(10 ** 6)]))
    w.must(vm.call(admin, addr, "startProduceRewards"))
    w.ocall(addr, "resume")


SL_LOCKED, SL_LPPROXY, SL_FARMPROXY = b"SLOCK-abcdef", b"LPPROXY-abcdef", b"FPROXY-abcdef"


class SimpleLockWorldA(World):
    """simple-lock with a whitelisted pair (T1/T2) and a whitelisted farm on the pair's LP token; every
    role holds a locked token, a locked-LP proxy token and a farm proxy token"""
    contracts = ("simple-lock",)

    def __init__(self):
        super().__init__()
        vm = self.vm
        c = "simple-lock"
        self.owner = self.user("owner")
        A = self.std_roles(c)
        self.P = self.user("principal")
        self.sl, self.pair, self.farm, self.efact = [self.reserve(n) for n in ("simplelock", "pair1", "farm1", "efactory")]
        self.target[c] = self.sl
        self.must(vm.deploy(self.owner, "energy-factory-mock", [], new_addr=self.efact), "efact-mock")
        deploy_live_pair(self, self.pair, T1, T2, LP)
        deploy_farm(self, "farm", self.farm, REW, LP, FARMTK, self.efact, A[R_ADMIN])
        self.must(vm.deploy(self.owner, c, [], new_addr=self.sl), c)
        for key, tok in ((b"lockedTokenId", SL_LOCKED), (b"lpProxyTokenId", SL_LPPROXY), (b"farmProxyTokenId", SL_FARMPROXY)):
            vm.sset(self.sl, key, tok)
            vm.roles(self.sl, tok, ROLES_NFT)
        self.ocall(self.sl, "addLpToWhitelist", [self.pair, T1, T2])
        self.ocall(self.sl, "addFarmToWhitelist", [self.farm, LP, b""])
        self.ocall(self.farm, "addSCAddressToWhitelist", [self.sl])
        self.unlock_epoch = 500
        self.tok = {}
        for a in A.values():
            vm.setbal(a, T1, 0, BIG)
            vm.setbal(a, T2, 0, BIG)
            d = {}
            r = self.must(vm.call(a, self.sl, "lockTokens", [top_u(self.unlock_epoch)], [(T1, 0, 10 ** 9)]), "lock")
            d["locked"] = dec_payment(r.out[0])[1]
            lps = []
            for _ in range(2):
                r = self.must(vm.call(a, self.sl, "addLiquidityLockedToken", [top_u(1), top_u(1)],
                                      [(SL_LOCKED, d["locked"], 10 ** 6), (T2, 0, 10 ** 6)]), "addLiqLocked")
                lps.append(find_payment(r, SL_LPPROXY))
            d["lp"] = lps[0]
            r = self.must(vm.call(a, self.sl, "enterFarmLockedToken", [b""], [lps[1]]), "enterFarmLocked")
            d["farm"] = find_payment(r, SL_FARMPROXY)
            self.tok[a] = d
        self.set_block(1000, 1000, 20, 6000)
        self.snap[c] = {S_ACTIVE: self.take_snapshot()}
        self.expired = (1100, 1100, 600, 6600)

    def mine(self, role):
        return self.tok[self.A["simple-lock"][role]]

    def ep__lockTokens(self, row, role, st):
        return Call([top_u(self.unlock_epoch)], [(T1, 0, 1000)])

    def ep__unlockTokens(self, row, role, st):
        return Call([], [(SL_LOCKED, self.mine(role)["locked"], 1000)], block=self.expired)

    def ep__addLiquidityLockedToken(self, row, role, st):
        return Call([top_u(1), top_u(1)], [(SL_LOCKED, self.mine(role)["locked"], 1000), (T2, 0, 1000)])

    def ep__removeLiquidityLockedToken(self, row, role, st):
        t = self.mine(role)["lp"]
        return Call([top_u(1), top_u(1)], [(t[0], t[1], t[2] // 2)])

    def ep__enterFarmLockedToken(self, row, role, st):
        t = self.mine(role)["lp"]
        return Call([b""], [(t[0], t[1], t[2] // 2)])

    def ep__exitFarmLockedToken(self, row, role, st):
        return Call([], [self.mine(role)["farm"]])

    ep__farmClaimRewardsLockedToken = ep__exitFarmLockedToken

    def ep__addLpToWhitelist(self, row, role, st):
        return Call([self.dummy_sc, T1, T3])

    def ep__removeLpFromWhitelist(self, row, role, st):
        return Call([self.pair, T1, T2])

    def ep__addFarmToWhitelist(self, row, role, st):
        return Call([self.dummy_sc, T3, b""])

    def ep__removeFarmFromWhitelist(self, row, role, st):
        return Call([self.farm, LP, b""])

    def issue(self, row, role, st):
        return Call([b"Token", b"TKN", top_u(18)], egld=5 * 10 ** 16)

    ep__issueLockedToken = ep__issueLpProxyToken = ep__issueFarmProxyToken = issue


WLP, WFARM = b"WLPTOK-abcdef", b"WFARM-abcdef"


class ProxyDexWorldA(World):
    """proxy_dex over a real energy factory, a MEX/WEGLD pair and a farm-with-locked-rewards on its LP
    token; every role holds locked MEX, two wrapped LP tokens and two wrapped farm tokens"""
    contracts = ("proxy_dex",)

    def __init__(self):
        super().__init__()
        vm = self.vm
        c = "proxy_dex"
        self.owner = self.user("owner")
        A = self.std_roles(c)
        A[10 + P_WL] = self.sc("wl-caller")
        self.P = self.user("principal")
        self.proxy, self.pair, self.farm, self.efact = [self.reserve(n) for n in ("proxydex", "pair1", "farm1", "efactory")]
        self.target[c] = self.proxy
        deploy_energy_factory(self, self.efact, self.dummy_sc)
        self.ocall(self.efact, "unpause")
        deploy_live_pair(self, self.pair, MEX, T1, LP)
        deploy_farm(self, "farm-with-locked-rewards", self.farm, MEX, LP, FARMTK, self.efact, A[R_ADMIN])
        self.ocall(self.farm, "setLockingScAddress", [self.efact])
        self.ocall(self.farm, "setLockEpochs", [top_u(360)])
        self.must(vm.deploy(self.owner, c, [LEGACY, self.efact, self.efact], new_addr=self.proxy), c)
        vm.sset(self.proxy, b"wrappedLpTokenId", WLP)
        vm.sset(self.proxy, b"wrappedFarmTokenId", WFARM)
        vm.roles(self.proxy, WLP, ROLES_NFT)
        vm.roles(self.proxy, WFARM, ROLES_NFT)
        vm.roles(self.proxy, MEX, ROLES_MINT)
        vm.roles(self.proxy, LOCKED, ["ESDTRoleNFTBurn"])
        self.ocall(self.proxy, "addPairToIntermediate", [self.pair])
        self.ocall(self.proxy, "addFarmToIntermediate", [self.farm])
        self.ocall(self.proxy, "addSCAddressToWhitelist", [A[10 + P_WL]])
        self.ocall(self.farm, "addSCAddressToWhitelist", [self.proxy])
        self.ocall(self.efact, "addSCAddressToWhitelist", [self.proxy])
        self.ocall(self.efact, "addSCAddressToWhitelist", [self.farm])
        self.ocall(self.efact, "addToTokenTransferWhitelist", [self.proxy])
        self.tok = {}
        for a in list(A.values()) + [self.P]:
            vm.setbal(a, MEX, 0, BIG)
            vm.setbal(a, T1, 0, BIG)
            r = self.must(vm.call(a, self.efact, "lockTokens", [top_u(360)], [(MEX, 0, 10 ** 10)]), "lock")
            ln = dec_payment(r.out[0])[1]
            w = []
            for _ in range(4):
                r = self.must(vm.call(a, self.proxy, "addLiquidityProxy", [self.pair, top_u(1), top_u(1)],
                                      [(LOCKED, ln, 10 ** 6), (T1, 0, 10 ** 6)]), "addLiqProxy")
                w.append(find_payment(r, WLP))
            f = []
            for t in w[2:]:
                r = self.must(vm.call(a, self.proxy, "enterFarmProxy", [self.farm], [t]), "enterFarmProxy")
                f.append(find_payment(r, WFARM))
            self.tok[a] = dict(locked=ln, wlp=w[:2], wfarm=f)
        self.set_block(1000, 1000, 12, 6000)
        self.snap[c] = {S_ACTIVE: self.take_snapshot()}

    def mine(self, row, role):
        a = self.A["proxy_dex"][role]
        return self.tok[a]

    def ep__addLiquidityProxy(self, row, role, st):
        return Call([self.pair, top_u(1), top_u(1)], [(LOCKED, self.mine(row, role)["locked"], 1000), (T1, 0, 1000)])

    def ep__removeLiquidityProxy(self, row, role, st):
        return Call([self.pair, top_u(1), top_u(1)], [self.mine(row, role)["wlp"][0]])

    def ep__increaseProxyPairTokenEnergy(self, row, role, st):
        return Call([top_u(720)], [self.mine(row, role)["wlp"][0]])

    def ep__enterFarmProxy(self, row, role, st):
        return Call([self.farm], [self.mine(row, role)["wlp"][0]])

    def ep__exitFarmProxy(self, row, role, st):
        return Call([self.farm], [self.mine(row, role)["wfarm"][0]])

    ep__claimRewardsProxy = ep__exitFarmProxy

    def ep__increaseProxyFarmTokenEnergy(self, row, role, st):
        return Call([top_u(720)], [self.mine(row, role)["wfarm"][0]])

    def ep__mergeWrappedFarmTokens(self, row, role, st):
        return Call([self.farm], self.mine(row, role)["wfarm"])

    def ep__mergeWrappedLpTokens(self, row, role, st):
        return Call([], self.mine(row, role)["wlp"])

    def ep__removeIntermediatedPair(self, row, role, st):
        return Call([self.pair])

    def ep__removeIntermediatedFarm(self, row, role, st):
        return Call([self.farm])

    def ep__removeSCAddressFromWhitelist(self, row, role, st):
        return Call([self.A["proxy_dex"][10 + P_WL]])

    def issue(self, row, role, st):
        return Call([b"Token", b"TKN", top_u(18)], egld=5 * 10 ** 16)

    ep__registerProxyPair = ep__registerProxyFarm = issue


DUAL = b"DYIELD-abcdef"


class StakingProxyWorldA(World):
    """farm-staking-proxy over a WEGLD/RIDE pair, an LP farm and a RIDE staking farm, with the
    permissions hub; every role holds an LP-farm position of its own, one whose original owner is the
    principal, and dual-yield tokens of both kinds"""
    contracts = ("farm-staking-proxy",)

    def __init__(self):
        super().__init__()
        vm = self.vm
        c = "farm-staking-proxy"
        self.owner = self.user("owner")
        A = self.std_roles(c)
        A[10 + P_WL] = self.sc("wl-caller")
        self.P = self.user("principal")
        self.proxy, self.pair, self.lpfarm, self.stk, self.efact = [self.reserve(n) for n in
                                                                     ("stkproxy", "pair1", "lpfarm", "staking1", "efactory")]
        self.target[c] = self.proxy
        self.must(vm.deploy(self.owner, "energy-factory-mock", [], new_addr=self.efact), "efact-mock")
        self.setup_hub(A)
        deploy_live_pair(self, self.pair, T1, STK, LP)
        deploy_farm(self, "farm", self.lpfarm, REW, LP, FARMTK, self.efact, A[R_ADMIN])
        # staking farm
        self.must(vm.deploy(self.owner, "farm-staking", [STK, top_u(10 ** 12), top_u(5000), top_u(3), self.owner, A[R_ADMIN]],
                            new_addr=self.stk), "farm-staking")
        vm.sset(self.stk, b"farm_token_id", STKFARM)
        vm.roles(self.stk, STKFARM, ROLES_NFT)
        vm.roles(self.stk, STK, ["ESDTRoleLocalBurn"])
        self.ocall(self.stk, "setEnergyFactoryAddress", [self.efact])
        vm.setbal(A[R_ADMIN], STK, 0, BIG)
        self.must(vm.call(A[R_ADMIN], self.stk, "topUpRewards", [], [(STK, 0, 10 ** 15)]))
        self.must(vm.call(A[R_ADMIN], self.stk, "setPerBlockRewardAmount", [top_u(10 ** 4)]))
        self.must(vm.call(A[R_ADMIN], self.stk, "startProduceRewards"))
        self.ocall(self.stk, "resume")
        # proxy
        self.must(vm.deploy(self.owner, c, [self.efact, self.lpfarm, self.stk, self.pair, STK, FARMTK, STKFARM, LP],
                            new_addr=self.proxy), c)
        vm.sset(self.proxy, b"dualYieldTokenId", DUAL)
        vm.roles(self.proxy, DUAL, ROLES_NFT)
        self.ocall(self.proxy, "setPermissionsHubAddress", [self.hub])
        self.ocall(self.proxy, "addSCAddressToWhitelist", [A[10 + P_WL]])
        self.ocall(self.lpfarm, "addSCAddressToWhitelist", [self.proxy])
        self.ocall(self.stk, "addSCAddressToWhitelist", [self.proxy])
        self.set_block(500, 500, 6, 3000)              # the pair's first price observation is old enough
        everyone = list(A.values()) + [self.P] + list(self.B.values())
        for a in everyone:
            vm.setbal(a, T1, 0, BIG)
            vm.setbal(a, STK, 0, BIG)
            r = self.must(vm.call(a, self.pair, "addLiquidity", [top_u(1), top_u(1)], [(T1, 0, 10 ** 9), (STK, 0, 10 ** 9)]), "addLiq")
            assert dec_payment(r.out[0])[0] == LP
        self.set_block(700, 700, 6, 4200)              # ... and lies in the past
        self.tok = {}

        def farm_pos(a, amount):
            r = self.must(vm.call(a, self.lpfarm, "enterFarm", [], [(LP, 0, amount)]), "enterFarm")
            return find_payment(r, FARMTK)

        def dual(a, pos):
            r = self.must(vm.call(a, self.proxy, "stakeFarmTokens", [], [pos]), "stakeFarmTokens")
            p = Dec(r.out[0]).payment()                 # StakeProxyResult { dual_yield_tokens, ... }
            assert p[0] == DUAL and p[2] > 0, r
            return p

        for a in A.values():
            d = dict(own_pos=farm_pos(a, 10 ** 6), own_dual=dual(a, farm_pos(a, 10 ** 6)))
            # principal's LP-farm position handed to the role account, and a dual-yield token minted for the principal
            pp = farm_pos(self.P, 10 ** 6)
            self.must(vm.transfer(self.P, a, [pp]))
            d["p_pos"] = pp
            duals = []
            for _ in range(3):
                pd = dual(self.P, farm_pos(self.P, 10 ** 6))
                self.must(vm.transfer(self.P, a, [pd]))
                duals.append(pd)
            d["p_dual"] = duals[0]
            d["p_duals"] = duals[1:]
            d["f_pos"], d["f_dual"] = {}, {}          # per other owner: an LP-farm position and a dual-yield token of theirs
            for o, b in self.B.items():
                fpos = farm_pos(b, 10 ** 6)
                self.must(vm.transfer(b, a, [fpos]))
                d["f_pos"][o] = fpos
                fd = dual(b, farm_pos(b, 10 ** 6))
                self.must(vm.transfer(b, a, [fd]))
                d["f_dual"][o] = fd
            self.tok[a] = d
        self.set_block(900, 900, 6, 5400)
        self.snap[c] = {S_ACTIVE: self.take_snapshot()}

    def mine(self, role):
        return self.tok[self.A["farm-staking-proxy"][role]]

    def ep__stakeFarmTokens(self, row, role, st):
        d = self.mine(role)
        return Call([], [d["p_pos"] if row.variant == V_ORIG else d["own_pos"]])

    def ep__claimDualYield(self, row, role, st):
        d = self.mine(role)
        return Call([], [d["p_dual"] if row.variant == V_ORIG else d["own_dual"]])

    def ep__unstakeFarmTokens(self, row, role, st):
        d = self.mine(role)
        return Call([top_u(1), top_u(1)], [d["p_dual"] if row.variant == V_ORIG else d["own_dual"]])

    def ep__stakeFarmOnBehalf(self, row, role, st):
        d = self.mine(role)
        if row.variant == V_PLAIN:
            return Call([self.P], [d["p_pos"]])
        ps = [d["p_pos"]] + list(d["p_duals"])          # LP-farm position + two additional dual-yield tokens
        if is_foreign(row.variant):
            k, o = foreign_k(row.variant), foreign_o(row.variant)
            ps[k] = d["f_pos"][o] if k == 0 else d["f_dual"][o]
        return Call([self.P], ps)

    def ep__claimDualYieldOnBehalf(self, row, role, st):
        a = self.A["farm-staking-proxy"][role]
        return Call([], [self.mine(role)["p_dual"]], watch=[(self.P, REW), (a, REW), (self.P, STK), (a, STK)])

    def ep__removeSCAddressFromWhitelist(self, row, role, st):
        return Call([self.A["farm-staking-proxy"][10 + P_WL]])

    def ep__registerDualYieldToken(self, row, role, st):
        return Call([b"Token", b"TKN", top_u(18)], egld=5 * 10 ** 16)


WORLDS = [PairWorldA, FarmWorldA, FarmLockedWorldA, StakingWorldA, HubWorldA, EnergyWorldA, FeesWorldA, GovWorldA, PriceDiscWorldA,
          RouterWorldA, SimpleLockWorldA, ProxyDexWorldA, StakingProxyWorldA]







def world_for(contract):
    for w in WORLDS:
        if contract in w.contracts:
            return w
    return None


# ---------------------------------------------------------------- driver
def run_world(args):
    """(world class name, seed, share) -> list of serialisable cell dicts for all its contracts"""
    wname, seed, share = args[:3]
    cls = [w for w in WORLDS if w.__name__ == wname][0]
    rows, roles, states = args[3] if len(args) > 3 else load_table()
    rng = random.Random(seed)
    w = cls()
    out = []
    try:
        for c in cls.contracts:
            crow = [r for r in rows if r.contract == c]
            cells = run_matrix(w, c, crow, roles[c], states[c], rng, share)
            for cell in cells:
                r = cell.pop("row")
                cell["contract"], cell["endpoint"], cell["variant"] = r.contract, r.endpoint, r.variant
                out.append(cell)
    finally:
        w.close()
    return out


def coq_entry(contract, endpoint, variant, cells):
    body = "; ".join(f"({c['role']}, {c['state']}, {c['outcome']})" for c in cells)
    return f'(check_entry {CONTRACT_IDS[contract]} "{endpoint}"%string {variant} [{body}])'
