"""Command-line driver for the closed farm-staking model (coq/Model/StakingFull.v) and its world (tools/sys_staking_full.py).

  python3 tools/try_staking_full.py explore [--nh 200] [--nops 40] [--seed 1] [--no-model]
        correspondence run + monitors on the real contracts; prints counters, mismatches, monitor failures
  python3 tools/try_staking_full.py search [--nh 400] [--nops 60] [--seed 1]
        adversarial search for C11_staking_no_underflow / C05's last clause on the REAL contract: histories built to
        over-subscribe a week's pool (transfers right before claims, proxy-staked virtual positions settled for their
        original callers, compound growing a position inside a week, APR-capped tiny accruals, capacity exhausted in
        the middle of a week and topped up again, unstake then re-stake, energy raised after the week ended, factor /
        percentage changes, idle weeks, late configuration); reports every legitimate user operation that aborts on a
        negative counter and the maximum of paid(w)/R(w), sum f/F, sum e/E
  python3 tools/try_staking_full.py explore --adv [--nh 300] [--nops 60] [--seed 1]
        the adversarial histories through the correspondence as well: the closed MODEL is evaluated on them (so a
        guard that fired in the model only, or in the contract only, would be a mismatch of field 1)
  python3 tools/try_staking_full.py mutants
        model mutants through the correspondence (each must produce a mismatch)
  python3 tools/try_staking_full.py replay <file.json>

VERIF_REPO=<scratch tree> runs against an executor built from that tree (tools/framework.py build_harness)."""
import sys, os, json, random, collections, concurrent.futures
sys.path.insert(0, os.path.dirname(os.path.abspath(__file__)))
import sys_staking as ss
import sys_staking_pos as sp
import sys_boosted as sb
import sys_staking_full as sx
from props import staking_full_common as sfc

OWNER, PROXY = sx.OWNER, sx.PROXY
USERS = sx.USERS


def arg(name, default):
    if name in sys.argv:
        return type(default)(sys.argv[sys.argv.index(name) + 1])
    return default


# ------------------------------------------------------------------ adversarial generator (item 4)
def adv_cfg(rng):
    """small round stakes and energies (rounding matters, shares are large); the max APR either never binds (1e18),
    binds hard (accruals of a few units per block) or is tiny"""
    scale = rng.choice([1, 1, 10, 1000, 10 ** 6])
    apr = rng.choice([10 ** 18, 10 ** 18, 10 ** 15, 10 ** 12, 10 ** 12, 10 ** 9, 52560000, 52560000 * 7, 10000, 1])
    return dict(dsc=rng.choice([1, 10 ** 6, 10 ** 12, 10 ** 18]), apr=apr, minub=rng.choice([0, 0, 1, 3]), boost=True, scale=scale,
                tight=rng.random() < 0.45)


def adv_factors(rng):
    return [rng.choice([1, 2, 10, 1000, 10 ** 6]), rng.choice([0, 1, 3, 7, 1000]), rng.choice([0, 1, 2, 5]),
            rng.choice([1, 1, 1, 10]), rng.choice([1, 1, 1, 2])]


def transfer_all(rng, w, a, b):
    mine = sp.positions_of(w, a)
    if not mine:
        return ["ClaimBoosted", a]
    n, v = rng.choice(mine)
    return ["Transfer", n, a, b, v if rng.random() < 0.8 else rng.randint(1, v)]


def proxy_op(rng, w, kinds=("ClaimNewValue", "UnstakeProxy", "StakeProxy", "Claim", "Unstake", "Stake")):
    """the whitelisted proxy settles an original caller with a position it holds (virtual principal)"""
    pp = sp.positions_of(w, PROXY)
    u = rng.choice(USERS)
    sc = w.cfg.get("scale", 1)
    if not pp:
        return ["StakeProxy", PROXY, u, rng.choice([1, 2, 3, 10, 100]) * sc, []]
    n, v = rng.choice(pp)
    x = v if rng.random() < 0.6 else rng.randint(1, v)
    k = rng.choice(kinds)
    if k == "ClaimNewValue":
        return ["ClaimNewValue", PROXY, u, (n, x), rng.choice([x, x + 1, max(0, x - 1), x * 2, x * 10, 0])]
    if k == "UnstakeProxy":
        return ["UnstakeProxy", PROXY, u, (n, x), rng.choice([x, max(1, x // 2), x + 3])]
    if k == "StakeProxy":
        return ["StakeProxy", PROXY, u, rng.choice([1, 2, 5, 100]) * sc, [(n, x)] if rng.random() < 0.6 else []]
    if k == "Claim":
        return ["Claim", PROXY, u, (n, x)]
    if k == "Unstake":
        return ["Unstake", PROXY, u, (n, x)]
    return ["Stake", PROXY, u, rng.choice([1, 2, 5, 100]) * sc, [(n, x)] if rng.random() < 0.6 else []]


def restake(rng, w, u):
    """unstake (part of) a position and stake again in the same week"""
    mine = sp.positions_of(w, u)
    sc = w.cfg.get("scale", 1)
    if not mine:
        return [["Stake", u, u, rng.choice([1, 2, 5, 100]) * sc, []]]
    n, v = rng.choice(mine)
    x = v if rng.random() < 0.5 else rng.randint(1, v)
    return [["Unstake", u, u, (n, x)], ["Stake", u, u, rng.choice([x, x + 1, max(1, x // 2), x * 3]), []]]


def adv_gen(rng, w):
    script = w.__dict__.setdefault("script", [])
    if script:
        nxt = script.pop(0)
        return nxt(rng, w) if callable(nxt) else nxt
    st = w.__dict__.setdefault("adv_stage", 0)
    sc = w.cfg.get("scale", 1)
    if st == 0:
        w.adv_stage = 1
        late = rng.random() < 0.25
        rate = rng.choice([1, 7, 1000, 10 ** 6, 10 ** 18])
        w.adv_rate = rate
        cap = rate * rng.choice([5, 20, 60, 300]) + rng.randint(0, 9) if w.cfg["tight"] else rate * 10 ** 9
        script += [["SetState", OWNER, 1], ["TopUp", OWNER, cap], ["Start", OWNER], ["SetPct", OWNER, rng.choice([10000, 5000, 2500, 9999, 1])]]
        fac = ["SetFactors", OWNER, adv_factors(rng)]
        if not late:
            script.append(fac)
        for u in USERS:
            script.append(["Energy", u, rng.choice([0, 1, 5, 100, 10 ** 6]) * rng.choice([1, 7, 70]), rng.choice([0, 0, 1, 1, 10])])
        for u in rng.sample(USERS, rng.choice([2, 3, 3])):
            script.append(["Stake", u, u, rng.choice([1, 2, 3, 10, 100]) * sc, []])
        if rng.random() < 0.6:
            script.append(["StakeProxy", PROXY, rng.choice(USERS), rng.choice([1, 2, 3, 10, 100]) * sc, []])
        if late:
            script += [["Time", 5, rng.choice([0, 7])], fac]
        return ["SetRate", OWNER, rate]
    holders = [u for u in USERS if sp.positions_of(w, u)]
    roll = rng.random()
    kinds = ["Compound", "Compound", "Claim", "Stake", "Merge", "Unstake", "ClaimBoosted"]
    rem = w.last["cap"] - w.last["acc"]
    if rem <= 0 and roll < 0.5:
        # the capacity ran out (accruals stop in the middle of a week): the admin tops it up again, a little or a lot
        return ["TopUp", OWNER, getattr(w, "adv_rate", 1) * rng.choice([1, 3, 20, 200]) + rng.randint(0, 5)]
    if roll < 0.30:
        # week change; then everybody tries to take as much as possible out of the completed week
        weeks = rng.choice([1, 1, 1, 1, 2, 2, 3, 4, 5])
        scen = []
        r2 = rng.random()
        if r2 < 0.3:
            for u in rng.sample(USERS, rng.choice([1, 2, 3])):        # energy raised at the factory after the week ended
                scen.append(["Energy", u, rng.choice([10 ** 9, 10 ** 12, 10 ** 15]), rng.choice([0, 1, 10 ** 6])])
        if r2 > 0.2 and len(holders) >= 1:
            # the position travels: A settles, hands it to B, B settles with it, hands it on ...
            order = rng.sample(USERS, len(USERS))
            src = rng.choice(holders)
            order = [src] + [u for u in order if u != src]
            for a, b in zip(order, order[1:] + order[:1]):
                scen.append((lambda aa: (lambda r, ww: sx.user_op(r, ww, aa, ["ClaimBoosted", "Claim", "Merge", "Compound"])))(a))
                scen.append((lambda aa, bb: (lambda r, ww: transfer_all(r, ww, aa, bb)))(a, b))
                scen.append((lambda bb: (lambda r, ww: sx.user_op(r, ww, bb, ["ClaimBoosted", "Claim", "Merge", "Compound", "Stake", "Unstake"])))(b))
                scen.append(["ClaimBoosted", b])
        else:
            for u in rng.sample(USERS, len(USERS)):
                scen.append((lambda uu: (lambda r, ww: sx.user_op(r, ww, uu, kinds)))(u))
        if rng.random() < 0.5:
            scen.insert(rng.randint(0, len(scen)), (lambda r, ww: proxy_op(r, ww)))
        if rng.random() < 0.3:
            scen.insert(rng.randint(0, len(scen)), (lambda r, ww: proxy_op(r, ww)))
        if rng.random() < 0.25:
            scen.insert(rng.randint(0, len(scen)), ["SetFactors", OWNER, adv_factors(rng)])
        if rng.random() < 0.15:
            scen.insert(rng.randint(0, len(scen)), ["SetPct", OWNER, rng.choice([0, 1, 5000, 10000])])
        if rng.random() < 0.15:
            scen.insert(rng.randint(0, len(scen)), ["SetApr", OWNER, rng.choice([1, 10000, 52560000, 10 ** 12, 10 ** 18])])
        script += scen
        return ["Time", rng.choice([1, 10, 100]), 7 * weeks + rng.choice([0, 0, 1, 6])]
    if roll < 0.36:
        return ["Energy", rng.choice(USERS), rng.choice([0, 1, 5, 100, 10 ** 6, 10 ** 12]) * rng.choice([1, 7]), rng.choice([0, 1, 10, 10 ** 6])]
    if roll < 0.39:
        return ["UpdateEnergy", rng.choice(USERS), rng.choice(USERS)]
    if roll < 0.42:
        return ["Collect", OWNER]
    if roll < 0.48 and holders:
        a = rng.choice(holders)
        return transfer_all(rng, w, a, rng.choice([u for u in USERS if u != a]))
    if roll < 0.53:
        return rng.choice([["SetFactors", OWNER, adv_factors(rng)], ["SetPct", OWNER, rng.choice([0, 1, 2500, 10000])],
                           ["SetRate", OWNER, rng.choice([1, 1000, 10 ** 9])], ["End", OWNER], ["Start", OWNER],
                           ["SetApr", OWNER, rng.choice([1, 10000, 52560000, 10 ** 12, 10 ** 18])],
                           ["Withdraw", OWNER, max(0, rem) // rng.choice([1, 2, 10])],
                           ["Time", rng.choice([1, 5]), rng.choice([0, 1, 3])]])
    if roll < 0.58:
        return ["Stake", rng.choice(USERS), None, rng.choice([1, 2, 5, 100]) * sc, []]
    if roll < 0.66:
        return proxy_op(rng, w)
    if roll < 0.72 and holders:
        ops = restake(rng, w, rng.choice(holders))
        script += ops[1:]
        return ops[0]
    if roll < 0.76:
        # a few blocks pass inside the week (accruals: possibly APR-capped to almost nothing, possibly the last of the capacity)
        return ["Time", rng.choice([1, 1, 3, 50]), 0]
    c = rng.choice(holders) if holders else rng.choice(USERS)
    return sx.user_op(rng, w, c, kinds)


def _fix(op):
    if op[0] == "Stake" and op[2] is None:
        op = ["Stake", op[1], op[1]] + list(op[3:])
    return op


def _adv(args):
    seed, nops = args
    rng = random.Random(seed)
    cfg = adv_cfg(rng)
    w = sx.StakingFullWorld(cfg)
    trace = []
    try:
        while len(trace) < nops:
            if getattr(w, "adv_stage", 0) >= 1 and rng.random() < 0.35:
                # blocks pass between the transactions (every settlement then accrues: possibly APR-capped to almost
                # nothing, possibly the last of the capacity)
                op = ["Time", rng.choice([1, 1, 1, 2, 7, 100]), 0]
                trace.append((op, w.exec(op)))
            op = sx.normalize(_fix(adv_gen(rng, w)))
            trace.append((op, w.exec(op)))
    finally:
        w.close()
    return seed, cfg, trace


def week_stats(trace):
    """per completed week: sum over the users that settled it of f/F and e/E, and paid/R (real observations)"""
    st = {}
    for op, o in trace:
        if o is None or not o["ok"] or op[0] not in sx.USER_OPS:
            continue
        m = o["m"]
        pm = m["pre"]
        u = o["user"]
        pg = pm["prog"].get(u)
        f = o["pre"]["utot"].get(u, 0)
        if pg is None or pm["cfg"] is None:
            continue
        cw = m["week"]
        for wk in range(max(pg[3], cw - 4), cw):
            E, F = pm["energy"].get(wk, 0), pm["sup"].get(wk, 0)
            rw = m["rewards"].get(wk)
            if not (rw[0] if rw else pm["acc"].get(wk, 0)):
                continue                                   # an empty pool pays nothing whoever settles it
            e = sb.decayed(pg, wk)
            s = st.setdefault(wk, dict(f=0, e=0, F=F, E=E, paid=0))
            s["f"] += f
            s["e"] += e
            s["paid"] += m["paid"].get(wk, 0)
    return st


def cmd_search():
    nh, nops, seed = arg("--nh", 400), arg("--nops", 60), arg("--seed", 1)
    cnt = collections.Counter()
    from fractions import Fraction
    worst = dict(f=(Fraction(0), None), e=(Fraction(0), None), paid=(Fraction(0), None))
    bad = []
    with concurrent.futures.ProcessPoolExecutor(max_workers=16) as pool:
        for sd, cfg, trace in pool.map(_adv, [(seed * 1000000 + i, nops) for i in range(nh)], chunksize=4):
            ops_all = [t[0] for t in trace]
            for idx, (op, o) in enumerate(trace):
                if o is None:
                    continue
                cnt["ops-ok" if o["ok"] else "ops-err"] += 1
                if o["ok"] and o["m"]["b"] > 0:
                    cnt["boosted-payout>0"] += 1
                    cnt["boosted-payout>0:" + op[0]] += 1
                if o["ok"] and o["m"]["cut"] > 0:
                    cnt["slice-booked"] += 1
                    if o["emission"] == o["pre"]["cap"] - o["pre"]["acc"]:
                        cnt["slice-of-last-capacity"] += 1
                if not o["ok"]:
                    cnt["err:" + o["msg"][:44]] += 1
                for key, what in sfc.monitors_all(cfg, op, o):
                    cnt["FAIL:" + key] += 1
                    if len(bad) < 5:
                        bad.append(dict(key=key, what=what, cfg=cfg, ops=ops_all[:idx + 1], seed=sd))
            last = [o for _, o in trace if o is not None][-1]
            R = last["ledger"]["frozen"]
            for wk, s in week_stats(trace).items():
                if s["F"] and Fraction(s["f"], s["F"]) > worst["f"][0]:
                    worst["f"] = (Fraction(s["f"], s["F"]), (sd, wk))
                if s["E"] and Fraction(s["e"], s["E"]) > worst["e"][0]:
                    worst["e"] = (Fraction(s["e"], s["E"]), (sd, wk))
                if R.get(wk) and Fraction(s["paid"], R[wk]) > worst["paid"][0]:
                    worst["paid"] = (Fraction(s["paid"], R[wk]), (sd, wk))
    print(json.dumps(dict(histories=nh, nops=nops, counters=dict(sorted(cnt.items())),
                          worst={k: [float(v[0]), str(v[0]), v[1]] for k, v in worst.items()}), indent=1))
    for b in bad:
        print("FAILURE", json.dumps(b, default=str)[:3000])
    return 1 if bad else 0


def cmd_explore():
    nh, nops, seed = arg("--nh", 200), arg("--nops", 40), arg("--seed", 1)
    gen = _adv_gen_hist if "--adv" in sys.argv else None
    ex = sfc.explore_staking_full("SF", "quick", seed, model_ok="--no-model" not in sys.argv, nh=nh, nops=nops, gen=gen)
    ok, err = ex.counters.get("sfull:ops-ok", 0), ex.counters.get("sfull:ops-err", 0)
    print(json.dumps(dict(histories=ex.histories, evaluations=ex.evaluations, traces_validated=ex.traces_validated,
                          ok_share=round(ok / max(1, ok + err), 3), nontrivial=len(ex.nontrivial),
                          mismatches=len(ex.disagreements), monitor_failures=len(ex.failures),
                          counters=dict(sorted(ex.counters.items()))), indent=1))
    for d in ex.disagreements[:5]:
        print("MISMATCH", json.dumps({k: v for k, v in d.items() if k not in ("observed",)}, default=str)[:2500])
    keys = collections.Counter(f["key"] for f in ex.failures)
    if keys:
        print("FAILURE KEYS", dict(keys))
    for f in ex.failures[:5]:
        print("FAILURE", f["key"], f["what"][:400])
        print("  replay:", json.dumps(dict(cfg=f["replay"]["cfg"], ops=f["replay"]["ops"]), default=str)[:2500])
    return 1 if (ex.disagreements or ex.failures) else 0


def _adv_gen_hist(args):
    """the adversarial histories through the correspondence as well (explore --adv)"""
    return _adv(args)


def cmd_replay():
    data = json.load(open(sys.argv[2]))
    if "replay" not in data:
        data = dict(replay=data)
    fails = sfc.replay_staking_full(data)
    for f in fails[:20]:
        print(f["key"], f["what"][:300])
    print(len(fails), "failures")
    return 1 if fails else 0


# ------------------------------------------------------------------ model mutants through the correspondence
MUTANTS = [
    ("pos-after-update", "claimRewards: the user's total position is read AFTER the staking endpoint's position update",
     "Some (HSClaim true u (sx_entry raw ep) (utot sp u) full supply)", "Some (HSClaim true u (sx_entry raw ep) posa full supply)"),
    ("compound-pos-after", "compoundRewards claims boosted with the position after check_and_update / increase (C05-a on the model side)",
     "Some (HSCompound true c (sx_entry raw ep) (utot sp c) full supply)", "Some (HSCompound true c (sx_entry raw ep) posa full supply)"),
    ("stake-pos-after", "stakeFarm claims with the position after the increase",
     "Some (HBase (BEnter true u (sx_entry raw ep) (utot sp u) full supply))", "Some (HBase (BEnter true u (sx_entry raw ep) posa full supply))"),
    ("claim-user-is-caller", "the boosted rewards of the CALLER (not of the original caller) are settled by stake / claim / unstake",
     "| SXUnstake _ u _ _ | SXUnstakeProxy _ u _ _ _ => u", "| SXUnstake _ u _ _ | SXUnstakeProxy _ u _ _ _ => u + 0"),
    ("emission-uncapped", "the slice is taken from the accrual before the capacity bound (seeded C05-b on the model side)",
     "Z.min (Z.min unb aprb) (s_cap s - s_acc s).", "Z.min unb aprb."),
    ("emission-no-apr", "the slice is taken from the accrual before the APR bound",
     "Z.min (Z.min unb aprb) (s_cap s - s_acc s).", "Z.min unb (s_cap s - s_acc s)."),
    ("emission-ignores-produce", "accrual computed although rewards are not produced",
     "let unb := if s_produce s then s_rate s * (blk - s_last s) else 0 in", "let unb := s_rate s * (blk - s_last s) in"),
    ("supply-before", "set_farm_supply_for_current_week gets the supply BEFORE the operation",
     "run_h (sx_b s) (hop_of s op (s_supply (p_s sp')) (utot sp' (user_of op)))", "run_h (sx_b s) (hop_of s op (s_supply (p_s (sx_p s))) (utot sp' (user_of op)))"),
    ("posa-before", "clear_user_energy_if_needed sees the position before unstakeFarm's decrease",
     "run_h (sx_b s) (hop_of s op (s_supply (p_s sp')) (utot sp' (user_of op)))", "run_h (sx_b s) (hop_of s op (s_supply (p_s sp')) (utot (sx_p s) (user_of op)))"),
    ("energy-not-depleted", "the factory's stored entry is used without depleting it to the current epoch",
     "match raw with Some e => en_deplete e epoch | None => en_zero epoch end", "match raw with Some e => e | None => en_zero epoch end"),
    ("merge-pays-nothing", "mergeFarmTokens: the staking part is given b = 0",
     "| SXMerge c ps _ => Some (PMerge blk ep c ps b)", "| SXMerge c ps _ => Some (PMerge blk ep c ps 0)"),
    ("claim-as-compound", "claimRewards without the final update_energy_and_progress (the compoundRewards pattern)",
     "| SXClaim _ u _ raw | SXClaimNewValue _ u _ _ raw => Some (HSClaim true", "| SXClaim _ u _ raw | SXClaimNewValue _ u _ _ raw => Some (HSCompound true"),
    ("collect-unmapped", "collectUndistributedBoostedRewards does not reach the module",
     "| SXCollect c => Some (HBase (BCollect c))", "| SXCollect c => None"),
    ("setpct-only-settles", "setBoostedYieldsRewardsPercentage settles but the module's percentage is not written",
     "| SXSetPct c p => Some (HBase (BSetPct c p full))", "| SXSetPct c p => Some (HBase (BSettle true full))"),
    ("withdraw-does-not-slice", "withdrawRewards / setMaxApr / setPerBlockRewardAmount / endProduceRewards: the module books no slice",
     "| SXWithdraw _ _ | SXSetRate _ _ | SXEnd _ | SXSetApr _ _ => Some (HBase (BSettle true full))", "| SXWithdraw _ _ | SXSetRate _ _ | SXEnd _ | SXSetApr _ _ => None"),
    ("claimboosted-no-supply", "claimBoostedRewards handled as mergeFarmTokens (no settlement, no supply update)",
     "| SXClaimBoosted c raw => Some (HBase (BClaimBoosted true c (sx_entry raw ep) (utot sp c) full supply))", "| SXClaimBoosted c raw => Some (HBase (BMerge true c (sx_entry raw ep) (utot sp c)))"),
    ("clock-stuck", "block nonce does not advance",
     "Ok (sx_blk s + dblk)", "Ok (sx_blk s)"),
    ("update-energy-unmapped", "updateEnergyForUser does not reach the module",
     "| SXUpdateEnergy _ u raw => Some (HBase (BUpdateEnergy u (sx_entry raw ep)))", "| SXUpdateEnergy _ u raw => None"),
]
MUTANTS[3] = ("claim-user-is-caller", MUTANTS[3][1],
              "  | SXStake _ u _ _ _ | SXStakeProxy _ u _ _ _ | SXClaim _ u _ _ | SXClaimNewValue _ u _ _ _\n  | SXUnstake _ u _ _ | SXUnstakeProxy _ u _ _ _ => u\n  | SXCompound c _ _ _",
              "  | SXStake c _ _ _ _ | SXStakeProxy c _ _ _ _ | SXClaim c _ _ _ | SXClaimNewValue c _ _ _ _\n  | SXUnstake c _ _ _ | SXUnstakeProxy c _ _ _ _ => c\n  | SXCompound c _ _ _")


def eval_with(mutdir, terms, tag):
    """evaluate the histories against the model compiled in mutdir (logical path MUT)"""
    import subprocess, coqrun
    coq = os.path.join(os.path.dirname(os.path.dirname(os.path.abspath(__file__))), "coq")
    files = []
    per = max(1, len(terms) // 16 + 1)
    for k in range(0, len(terms), per):
        path = os.path.join(mutdir, f"cases_{tag}_{k // per}.v")
        with open(path, "w") as f:
            f.write("From MX Require Import Base.Prelude Gen.Params Model.Weekly Model.Boosted Model.BoostedHosts Model.Staking Model.StakingPos "
                    "Run.StakingPosRun Run.BoostedRun.\n"
                    "From MUT Require Import StakingFull StakingFullRun.\nOpen Scope Z_scope.\n")
            for t in terms[k:k + per]:
                f.write(f"Eval vm_compute in {t}.\n")
        files.append((path, len(terms[k:k + per])))

    def run(pn):
        p = subprocess.run(["timeout", "600", "coqc", "-noglob", "-Q", coq, "MX", "-Q", mutdir, "MUT", pn[0]], capture_output=True, text=True)
        assert p.returncode == 0, p.stderr[-1500:]
        r = coqrun.parse_eval_output(p.stdout)
        assert len(r) == pn[1]
        return r
    with concurrent.futures.ThreadPoolExecutor(max_workers=16) as ex:
        return [x for r in ex.map(run, files) for x in r]


def cmd_mutants():
    import subprocess, shutil, tempfile
    nh, nops, seed = arg("--nh", 64), arg("--nops", 40), arg("--seed", 1)
    root = os.path.dirname(os.path.dirname(os.path.abspath(__file__)))
    coq = os.path.join(root, "coq")
    src = open(os.path.join(coq, "Model", "StakingFull.v")).read()
    run_src = open(os.path.join(coq, "Run", "StakingFullRun.v")).read().replace(
        "Model.StakingPos Model.StakingFull.", "Model.StakingPos.\nFrom MUT Require Import StakingFull.")
    assert "From MUT Require Import StakingFull." in run_src
    hist = []
    with concurrent.futures.ProcessPoolExecutor(max_workers=16) as pool:
        for sd, cfg, trace in pool.map(sfc._gen, [(seed * 100000 + 80000 + i, nops) for i in range(nh)], chunksize=4):
            hist.append((sd, cfg, trace))
        for sd, cfg, trace in pool.map(_adv, [(seed * 1000000 + i, nops) for i in range(nh // 2)], chunksize=4):
            hist.append((sd, cfg, trace))
    terms = [sx.coq_history(cfg, tr) for _, cfg, tr in hist]
    os.makedirs(os.path.join(root, ".cache"), exist_ok=True)
    base = tempfile.mkdtemp(prefix="sfmut_", dir=os.path.join(root, ".cache"))
    rows, bad = [], 0
    try:
        for name, what, old, new in [("unchanged", "the model as it is", None, None)] + MUTANTS:
            d = os.path.join(base, name)
            os.makedirs(d)
            text = src
            if old is not None:
                assert text.count(old) == 1, (name, text.count(old))
                text = text.replace(old, new)
            open(os.path.join(d, "StakingFull.v"), "w").write(text)
            open(os.path.join(d, "StakingFullRun.v"), "w").write(run_src)
            for f in ("StakingFull.v", "StakingFullRun.v"):
                p = subprocess.run(["timeout", "300", "coqc", "-noglob", "-Q", coq, "MX", "-Q", d, "MUT", os.path.join(d, f)], capture_output=True, text=True)
                assert p.returncode == 0, (name, p.stderr[-1500:])
            res = eval_with(d, terms, name.replace("-", "_"))
            mism = [r for r in res if r]
            fields = collections.Counter(r[1] for r in mism)
            rows.append((name, len(mism), dict(fields.most_common(4)), what))
            if (old is None) != (len(mism) == 0):
                bad += 1
    finally:
        shutil.rmtree(base, ignore_errors=True)
    print(f"model mutants through Run/StakingFullRun.v check_trace over {len(hist)} histories x {nops} ops")
    for name, n, fields, what in rows:
        print(f"  {name:28s} mismatching histories {n:3d}  fields {fields}  -- {what}")
    print("undetected mutants / false alarm:", bad)
    return 1 if bad else 0


if __name__ == "__main__":
    cmd = sys.argv[1] if len(sys.argv) > 1 else "explore"
    if os.environ.get("VERIF_REPO"):
        import framework
        ok, out = framework.build_harness()
        assert ok, out
    sys.exit(dict(explore=cmd_explore, search=cmd_search, replay=cmd_replay, mutants=cmd_mutants)[cmd]())
