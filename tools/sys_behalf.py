"""On-behalf worlds: the real dex/farm, dex/farm-with-locked-rewards and farm-staking, each with a REAL
permissions-hub, users and agents, driven through the on-behalf endpoints mixed with ordinary operations.

Accounts (model ids): users 1..3, agents 4..7, OWNER = 100 (owner of the farm AND of the hub), PROXY = 50 (staking
world only).  Every account 1..7 can do everything (ordinary operations, transfers, hub operations, on-behalf
calls); the ROLES below only describe the initial hub state:
    agent 4  authorised by user 1 only
    agent 5  authorised by users 1 and 2 (sometimes 3)
    agent 6  authorised by users 1 and 2, REVOKED by the generator during the history (removeWhitelist by the user)
    agent 7  authorised by users 1 and 2 but BLACKLISTED by the hub's owner
The initial authorisations are made through the hub's endpoints in the world's set-up and passed to the Coq side as
the initial hub state; every later hub operation is an operation of the history.

Worlds reuse the classes of sys_farm / sys_farm_locked / sys_staking_pos (observation, execution of the ordinary
operations, generators): the farm classes are re-instantiated with NUSERS = 7 (their methods loop over
range(1, NUSERS + 1)), the staking class has an instance-level holder list.

New operations (lists):
  ["Hub", kind, caller, address]        kind in whitelist / removeWhitelist / blacklist / removeBlacklist
  ["EnterOB", a, u, amt, adds]          enterFarmOnBehalf(u) / stakeFarmOnBehalf(u) called by a, farming amt + position payments adds
  ["ClaimOB", a, first, adds]           claimRewardsOnBehalf() called by a with position payments first :: adds
Additional observables of every operation:
  acct     {account: (reward-token delta, farming-token delta, LOCKED delta)} relative to the start of the history
           (environment operations - locking tokens for energy - are taken out by re-basing)
  wl       {(user, agent): isWhitelisted(user, agent)} as answered by the real hub, for all pairs of accounts 1..7
  listed   {(user, agent): agent is in the hub's stored whitelist of user}, black {agent: in the stored blacklist} (raw storage)
Coq side: Model/FarmBehalf.v, Model/StakingBehalf.v, Run/BehalfRun.v (F.bcheck_trace, F.lbcheck_trace, S.check_trace).
"""
import random, types
import sys_farm as sf
import sys_farm_locked as sl
import sys_staking as ss
import sys_staking_pos as sp
from vmx import *

USERS = (1, 2, 3)
AGENTS = (4, 5, 6, 7)
NACC = 7
ACCTS = tuple(range(1, NACC + 1))
OWNER = 100
PAIRS = tuple((u, a) for u in ACCTS for a in ACCTS if u != a)
HUB_KINDS = ("whitelist", "removeWhitelist", "blacklist", "removeBlacklist")
HUB_COQ = dict(whitelist="hw", removeWhitelist="hrw", blacklist="hb", removeBlacklist="hrb")
zlit = sf.zlit


def _rebind(cls, bases, extra):
    """a copy of a world class whose methods see other module globals (NUSERS, the base class name)"""
    ns = {}
    for name, f in vars(cls).items():
        if isinstance(f, types.FunctionType):
            g = dict(f.__globals__)
            g.update(extra)
            ns[name] = types.FunctionType(f.__code__, g, f.__name__, f.__defaults__, f.__closure__)
        elif not name.startswith("__") or name == "__doc__":
            ns[name] = f
    return type(cls.__name__ + str(NACC), bases, ns)


def _rebind_fn(f, extra):
    g = dict(f.__globals__)
    g.update(extra)
    return types.FunctionType(f.__code__, g, f.__name__, f.__defaults__, f.__closure__)


_Farm7 = _rebind(sf.FarmWorld, (object,), dict(NUSERS=NACC))


def initial_hub(rng):
    wl = [(1, 4), (1, 5), (2, 5), (1, 6), (2, 6), (1, 7), (2, 7)]
    if rng.random() < 0.4:
        wl.append((3, 5))
    if rng.random() < 0.3:
        wl.append((3, 6))
    if rng.random() < 0.15:
        wl.append((2, 1))           # a user authorises another user
    return dict(wl=wl, black=[7])


class BehalfMixin:
    """hub set-up, balances, hub view, hub / on-behalf operations; the host class provides
    vm, addr, hub, sc-address (self.target), token ids"""

    def behalf_setup(self):
        vm, A = self.vm, self.addr
        hubcfg = self.cfg["hub"]
        for (u, a) in hubcfg["wl"]:
            r = vm.call(A[u], self.hub, "whitelist", [A[a]])
            assert r.ok, r
        for a in hubcfg["black"]:
            r = vm.call(A[OWNER], self.hub, "blacklist", [A[a]])
            assert r.ok, r
        self.base = None
        self.base = self.raw_balances()
        self.revoked = False

    def raw_balances(self):
        vm = self.vm
        out = {}
        for x in ACCTS:
            a = self.addr[x]
            lk = sum(amt for (t, n, amt) in vm.tokens(a) if t == sl.LOCKED)
            out[x] = (vm.bal(a, self.tok_rew), vm.bal(a, self.tok_farming), lk)
        return out

    def hub_view(self):
        out = {}
        for (u, a) in PAIRS:
            r = self.vm.query(self.hub, "isWhitelisted", [self.addr[u], self.addr[a]])
            assert r.ok, r
            out[(u, a)] = bool(r.out and from_top_u(r.out[0]))
        return out

    def hub_storage(self):
        """the hub's STORED sets, read from raw storage (UnorderedSetMapper: <name><key>.index<value> is non-empty for
        a member), independently of the code of isWhitelisted"""
        vm, A = self.vm, self.addr
        listed = {(u, a): bool(vm.sget(self.hub, b"whitelistedAddresses" + A[u] + b".index" + A[a])) for (u, a) in PAIRS}
        black = {a: bool(vm.sget(self.hub, b"blacklistedAddresses.index" + A[a])) for a in ACCTS}
        return listed, black

    def behalf_obs(self, o):
        if getattr(self, "base", None) is None:
            return o
        raw = self.raw_balances()
        o["acct"] = {x: tuple(raw[x][i] - self.base[x][i] for i in range(3)) for x in ACCTS}
        o["wl"] = self.hub_view()
        o["listed"], o["black"] = self.hub_storage()
        return o

    def rebase_env(self, before):
        """an environment operation (time, energy) moved tokens: take the movement out of the deltas"""
        after = self.raw_balances()
        for x in ACCTS:
            self.base[x] = tuple(self.base[x][i] + after[x][i] - before[x][i] for i in range(3))

    def hub_call(self, op):
        _, kind, c, a = op
        return self.vm.call(self.addr[c], self.hub, kind, [self.addr[a]])


# ====================================================================== dex/farm
class BFarmWorld(BehalfMixin, _Farm7):
    SYSTEM = "behalf-farm"

    def __init__(self, cfg):
        _Farm7.__init__(self, cfg)
        self.tok_rew, self.tok_farming = self.rew, self.farming
        self.behalf_setup()
        self.last = self.observe()
        self.last["attrs"] = {}

    def observe(self):
        return self.behalf_obs(_Farm7.observe(self))

    def exec(self, op):
        k = op[0]
        if k in ("Time", "Energy"):
            before = self.raw_balances()
            r = _Farm7.exec(self, op)
            self.rebase_env(before)
            return r
        if k not in ("Hub", "EnterOB", "ClaimOB"):
            o = _Farm7.exec(self, op)
            self.last["acct"], self.last["wl"], self.last["listed"], self.last["black"] = o["acct"], o["wl"], o["listed"], o["black"]
            return o
        vm, A = self.vm, self.addr
        pre_pool = self.last["pool"]
        pre_cfg = dict(self.shadow)
        pays = lambda ps: [(sf.FARM, n, x) for (n, x) in ps]
        outs, b, settles = [], 0, False
        if k == "Hub":
            r = self.hub_call(op)
        elif k == "EnterOB":
            _, a, u, amt, adds = op
            r = vm.call(A[a], self.farm, "enterFarmOnBehalf", [A[u]], [(self.farming, 0, amt)] + pays(adds))
            if r.ok:
                p0, p1 = dec_payment(r.out[0]), dec_payment(r.out[1])
                outs, b = [p0[1], p0[2], p1[2]], p1[2]
            settles = True
        else:
            _, a, first, adds = op
            r = vm.call(A[a], self.farm, "claimRewardsOnBehalf", [], pays([first] + adds))
            if r.ok:
                p0, p1 = dec_payment(r.out[0]), dec_payment(r.out[1])
                outs = [p0[1], p0[2], p1[2]]
            settles = True
        cut = self.expected_cut(self.blk) if (settles and r.ok) else 0
        o = self.observe()
        o["ok"], o["msg"], o["outs"] = r.ok, r.msg, outs
        if r.ok and k == "ClaimOB":
            b = pre_pool + cut - o["pool"]
        o["b"] = b if r.ok else 0
        o["blk"], o["ep"] = self.blk, self.ep
        o["new_attrs"] = {}
        if r.ok and k in ("EnterOB", "ClaimOB"):
            n = outs[0]
            o["new_attrs"][n] = self.attrs_of(n)
            self.attr[n] = o["new_attrs"][n]
        o["attrs"] = dict(self.attr)
        o["donated"] = self.donated
        o["cfg"] = dict(self.shadow)
        if r.ok and settles and self.blk > self.shadow["last"]:
            self.shadow["last"] = self.blk
        o["pre"] = self.last
        o["pre_cfg"] = pre_cfg
        o["settles"] = settles
        self.last = {x: o[x] for x in ("supply", "reserve", "rps", "last", "bal_rew", "bal_farming", "pool", "state", "utot", "held",
                                       "farm_held", "attrs", "acct", "wl", "listed", "black")}
        return o


# ====================================================================== dex/farm-with-locked-rewards
_Locked7 = _rebind(sl.LockedFarmWorld, (BFarmWorld,), dict(NUSERS=NACC, FarmWorld=BFarmWorld))


class BLockedWorld(_Locked7):
    SYSTEM = "behalf-locked"

    def __init__(self, cfg):
        self.base = None
        _Locked7.__init__(self, cfg)
        self.tok_rew, self.tok_farming = self.rew, self.farming
        self.behalf_setup()
        self.last = self.observe()
        self.last["attrs"] = {}
        self.last_locked = self.locked_holdings()

    def exec(self, op):
        k = op[0]
        if k == "Energy":
            before = self.raw_balances()
            r = _Locked7.exec(self, op)
            self.rebase_env(before)
            return r
        o = _Locked7.exec(self, op)
        if o is not None:
            self.last["acct"], self.last["wl"], self.last["listed"], self.last["black"] = o["acct"], o["wl"], o["listed"], o["black"]
        return o


# ====================================================================== farm-staking
class BStakingWorld(BehalfMixin, sp.StakingPosWorld):
    SYSTEM = "behalf-staking"

    def __init__(self, cfg):
        self.base = None
        sp.StakingPosWorld.__init__(self, cfg)
        vm = self.vm
        for x in ACCTS:
            if x not in self.addr:
                self.addr[x] = user_addr(f"user{x}")
                vm.acct(self.addr[x])
                vm.setbal(self.addr[x], ss.STK, 0, ss.BIG)
        self.ids = {v: k for k, v in self.addr.items()}
        self.holders = list(ACCTS) + [ss.PROXY]
        self.tok_rew = self.tok_farming = ss.STK
        self.behalf_setup()
        self.last = self.observe()

    def observe(self):
        return self.behalf_obs(sp.StakingPosWorld.observe(self))

    def exec(self, op):
        k = op[0]
        if k in ("Time", "Energy"):
            return sp.StakingPosWorld.exec(self, op)
        if k not in ("Hub", "EnterOB", "ClaimOB"):
            o = sp.StakingPosWorld.exec(self, op)
            self.last["acct"], self.last["wl"], self.last["listed"], self.last["black"] = o["acct"], o["wl"], o["listed"], o["black"]
            return o
        vm, A = self.vm, self.addr
        pre = self.last
        pre_pool = pre["pool"]
        pre_cfg = dict(self.shadow)
        pays = lambda ps: [(ss.FARM, n, x) for (n, x) in ps]
        outs, b, settles, new_pos, left = [], 0, False, None, 0
        if k == "Hub":
            r = self.hub_call(op)
        elif k == "EnterOB":
            _, a, u, amt, adds = op
            r = vm.call(A[a], self.sc, "stakeFarmOnBehalf", [A[u]], [(ss.STK, 0, amt)] + pays(adds))
            if r.ok:
                p0, p1 = dec_payment(r.out[0]), dec_payment(r.out[1])
                outs, b, new_pos, left = [p0[1], p0[2], p1[2]], p1[2], p0[1], p1[2]
            settles = True
        else:
            _, a, first, adds = op
            r = vm.call(A[a], self.sc, "claimRewardsOnBehalf", [], pays([first] + adds))
            if r.ok:
                p0, p1 = dec_payment(r.out[0]), dec_payment(r.out[1])
                outs, new_pos, left = [p0[1], p0[2], p1[2]], p0[1], p1[2]
            settles = True
        cut = self.expected_cut(self.blk) if (settles and r.ok) else 0
        total = self.expected_total(self.blk) if (settles and r.ok) else 0
        if r.ok:
            self.paid += left
        o = self.observe()
        o["ok"], o["msg"], o["outs"] = r.ok, r.msg, outs
        if r.ok and k == "ClaimOB":
            b = pre_pool + cut - o["pool"]
        o["b"] = b if r.ok else 0
        o["left"] = left if r.ok else 0
        o["blk"], o["ep"] = self.blk, self.ep
        o["exp_total"] = total
        o["new_ub"] = {}
        o["new_pos"] = {}
        if r.ok and new_pos is not None:
            o["new_pos"][new_pos] = o["attrs"].get(new_pos)
            self.pos[new_pos] = o["new_pos"][new_pos]
        if r.ok and settles and self.blk > self.shadow["last"]:
            self.shadow["last"] = self.blk
        o["virt"], o["donated"] = self.virt, self.donated
        o["pos"] = dict(self.pos)
        o["ub"] = dict(self.ub)
        o["cfg"] = dict(self.shadow)
        o["pre_cfg"] = pre_cfg
        o["settles"] = settles
        o["pre"] = pre
        self.last = {x: o[x] for x in ("supply", "reserve", "rps", "last", "cap", "acc", "pool", "bal", "state", "held", "ubheld",
                                       "ubtot", "utot", "pos", "ub") + sp.EXTRA_KEYS + ("acct", "wl", "listed", "black")}
        return o


# ====================================================================== generation
_gen_farm = _rebind_fn(sf.gen_op, dict(NUSERS=NACC))
_gen_locked = _rebind_fn(sl.gen_op, dict(NUSERS=NACC))
_gen_staking = _rebind_fn(sp.gen_op, dict(NUSERS=NACC))


def held_by(w, x):
    """[(nonce, amount, recorded owner)] of the positions account x holds"""
    out = []
    if isinstance(w, BStakingWorld):
        for (n, h), v in sorted(w.last["held"].items()):
            if h == x and v > 0 and n in w.last["attrs"]:
                out.append((n, v, w.last["attrs"][n][3]))
    else:
        at = w.last.get("attrs", {})
        for key, v in sorted(w.last["held"].items()):
            if key % 1000 == x and v > 0 and at.get(key // 1000):
                out.append((key // 1000, v, at[key // 1000][4]))
    return out


def owner_in(ps, n):
    for (nn, _, o) in ps:
        if nn == n:
            return o
    return None


def ready(w):
    sh = w.shadow
    return sh["rate"] != 0 and sh["state"] == 1 and sh["produce"]


def enter_amount(rng, w):
    if isinstance(w, BStakingWorld):
        return sp.stake_amount(rng, w)
    return rng.choice([1, 2, rng.randint(1, 100), sf.log_amount(rng), sf.log_amount(rng)])


def gen_behalf(rng, w):
    """one hub / transfer-to-agent / on-behalf operation (mostly valid), or None when nothing sensible is possible"""
    wl = w.last["wl"]
    auth = [(u, a) for (u, a), v in wl.items() if v]
    roll = rng.random()
    part = lambda v: v if rng.random() < 0.6 else rng.randint(1, v)
    # ---- hub operations
    if roll < 0.16:
        kind = rng.random()
        if not w.revoked and kind < 0.35:
            w.revoked = True
            return ["Hub", "removeWhitelist", rng.choice([1, 2]), 6]          # the agent that is "later revoked"
        if kind < 0.30:
            u, a = rng.choice(USERS), rng.choice(AGENTS)
            return ["Hub", "whitelist", u, a]                                   # may already be listed: fails
        if kind < 0.50:
            listed = [(u, a) for (u, a) in PAIRS if (u, a) in w.hubpairs]
            if listed:
                u, a = rng.choice(listed)
                return ["Hub", "removeWhitelist", u, a]
            return ["Hub", "removeWhitelist", rng.choice(USERS), rng.choice(AGENTS)]
        if kind < 0.62:
            return ["Hub", "blacklist", OWNER, rng.choice(AGENTS)]
        if kind < 0.78:
            return ["Hub", "removeBlacklist", OWNER, rng.choice(AGENTS)]
        if kind < 0.90:
            return ["Hub", rng.choice(["blacklist", "removeBlacklist"]), rng.choice(ACCTS), rng.choice(AGENTS)]   # not the hub's owner
        return ["Hub", "whitelist", rng.choice(ACCTS), rng.choice(ACCTS)]
    # ---- a user hands a position to an agent (who may then claim / merge on the user's behalf)
    if roll < 0.26:
        cands = [(u, n, v) for u in USERS for (n, v, o) in held_by(w, u) if o == u]
        if cands:
            u, n, v = rng.choice(cands)
            ags = [a for (uu, a) in auth if uu == u]
            if not ags or rng.random() < 0.3:
                ags = list(AGENTS)
            return ["Transfer", n, u, rng.choice(ags), part(v)]
    # ---- on-behalf calls
    agents_with = {a: held_by(w, a) for a in ACCTS}
    bad = rng.random()
    if roll < 0.62:
        # enterFarmOnBehalf / stakeFarmOnBehalf
        if bad < 0.80 and auth:
            u, a = rng.choice(auth)
            mine = [(n, v) for (n, v, o) in agents_with[a] if o == u]
            adds = []
            if mine and rng.random() < 0.55:
                adds = [(n, part(v)) for n, v in rng.sample(mine, min(len(mine), rng.choice([1, 1, 2, 3])))]
            return ["EnterOB", a, u, enter_amount(rng, w), adds]
        if bad < 0.90:
            # not authorised / revoked / blacklisted caller
            un = [(u, a) for (u, a) in PAIRS if not wl[(u, a)] and u in USERS and a in AGENTS] or [(1, 2)]
            revoked = [(u, a) for (u, a) in sorted(getattr(w, "ever", ())) if not w.last["listed"].get((u, a))]
            black = [(u, a) for (u, a) in un if w.last["listed"].get((u, a)) and w.last["black"].get(a)]
            pick = rng.random()
            u, a = rng.choice(revoked if (revoked and pick < 0.45) else black if (black and pick < 0.75) else un)
            mine = [(n, v) for (n, v, o) in agents_with[a] if o == u]
            adds = [(n, part(v)) for n, v in mine[:rng.choice([0, 1])]]
            return ["EnterOB", a, u, enter_amount(rng, w), adds]
        # a position of another owner at some payment index
        cands = [(u, a) for (u, a) in auth if any(o != u for (_, _, o) in agents_with[a])]
        if cands:
            u, a = rng.choice(cands)
            good = [(n, part(v)) for (n, v, o) in agents_with[a] if o == u]
            foreign = [(n, part(v)) for (n, v, o) in agents_with[a] if o != u]
            adds = rng.sample(good, min(len(good), rng.choice([0, 1, 2])))
            adds.insert(rng.randint(0, len(adds)), rng.choice(foreign))
            return ["EnterOB", a, u, enter_amount(rng, w), adds]
        return None
    # claimRewardsOnBehalf
    holders = [(a, ps) for a, ps in agents_with.items() if ps]
    if not holders:
        return None
    if bad < 0.80:
        cands = []
        for a, ps in holders:
            for u in sorted({o for (_, _, o) in ps}):
                if wl.get((u, a)):
                    cands.append((a, u))
        if cands:
            a, u = rng.choice(cands)
            mine = [(n, part(v)) for (n, v, o) in agents_with[a] if o == u]
            sel = rng.sample(mine, min(len(mine), rng.choice([1, 1, 1, 2, 3])))
            return ["ClaimOB", a, sel[0], sel[1:]]
    if bad < 0.90:
        # holder not authorised by the recorded owner (incl. the owner's own tokens held by a revoked / blacklisted agent)
        cands = []
        for a, ps in holders:
            for (n, v, o) in ps:
                if o != a and not wl.get((o, a)):
                    cands.append((a, n, v))
        if cands:
            gone = [(a, n, v) for (a, n, v) in cands
                    if (owner_in(agents_with[a], n), a) in getattr(w, "ever", ()) and not w.last["listed"].get((owner_in(agents_with[a], n), a))]
            a, n, v = rng.choice(gone if (gone and rng.random() < 0.6) else cands)
            return ["ClaimOB", a, (n, part(v)), []]
    # mixed owners at some index
    cands = []
    for a, ps in holders:
        owners = sorted({o for (_, _, o) in ps})
        for u in owners:
            if wl.get((u, a)) and len(owners) > 1:
                cands.append((a, u))
    if cands:
        a, u = rng.choice(cands)
        good = [(n, part(v)) for (n, v, o) in agents_with[a] if o == u]
        foreign = [(n, part(v)) for (n, v, o) in agents_with[a] if o != u]
        ps = rng.sample(good, min(len(good), rng.choice([1, 2])))
        ps.insert(rng.randint(0, len(ps)), rng.choice(foreign))
        return ["ClaimOB", a, ps[0], ps[1:]]
    return None


def gen_op(rng, w, base_gen):
    up = ready(w) and (not w.cfg.get("boost") or getattr(w, "boost_stage", 0) >= 5)
    if up and rng.random() < 0.09:
        # let rewards accrue (and weeks pass, so that boosted rewards of the users become claimable)
        return ["Time", rng.choice([1, 1, 3, 10, 100, 1000]), rng.choice([0, 0, 0, 1, 7, 7, 8])]
    if up and rng.random() < 0.50:
        op = gen_behalf(rng, w)
        if op is not None:
            return op
    return base_gen(rng, w)


def track_hub(w, op, o):
    """generator bookkeeping: which (user, agent) pairs are listed (the hub's view hides listed-but-blacklisted pairs)"""
    if op[0] == "Hub" and o["ok"]:
        if op[1] == "whitelist":
            w.hubpairs.add((op[2], op[3]))
            w.ever.add((op[2], op[3]))
        elif op[1] == "removeWhitelist":
            w.hubpairs.discard((op[2], op[3]))


WORLDS = {
    "farm": (BFarmWorld, sf.gen_cfg, _gen_farm),
    "locked": (BLockedWorld, sl.gen_cfg, _gen_locked),
    "staking": (BStakingWorld, sp.gen_cfg, _gen_staking),
}


def gen_history(host, seed, nops):
    cls, gen_cfg, base_gen = WORLDS[host]
    rng = random.Random(seed)
    cfg = gen_cfg(rng)
    cfg["hub"] = initial_hub(rng)
    w = cls(cfg)
    w.hubpairs = set(map(tuple, cfg["hub"]["wl"]))
    w.ever = set(w.hubpairs)
    trace = []
    try:
        for _ in range(nops):
            op = gen_op(rng, w, base_gen)
            o = w.exec(op)
            if o is not None:
                track_hub(w, op, o)
            trace.append((op, o))
    finally:
        w.close()
    return cfg, trace


def fix_op(host, op):
    """operations read back from JSON: payments are tuples"""
    op = list(op)
    tup = lambda p: (p[0], p[1])
    if op[0] == "EnterOB":
        op[4] = [tup(p) for p in op[4]]
        return op
    if op[0] == "ClaimOB":
        op[2] = tup(op[2])
        op[3] = [tup(p) for p in op[3]]
        return op
    if op[0] == "Hub":
        return op
    return sp.norm_op(op) if host == "staking" else sl.fix_op(op)


def replay_history(host, cfg, ops):
    cls = WORLDS[host][0]
    cfg = dict(cfg)
    cfg["hub"] = dict(wl=[tuple(p) for p in cfg["hub"]["wl"]], black=list(cfg["hub"]["black"]))
    w = cls(cfg)
    w.hubpairs = set(cfg["hub"]["wl"])
    trace = []
    try:
        for op in ops:
            op = fix_op(host, op)
            trace.append((op, w.exec(op)))
    finally:
        w.close()
    return trace


# ====================================================================== Coq emission
def coq_hub(op):
    return f"({HUB_COQ[op[1]]} {op[2]} {op[3]})"


def coq_wl(o):
    return "[" + "; ".join(f"({u}, {a}, {'true' if v else 'false'})" for (u, a), v in sorted(o["wl"].items())) + "]"


def coq_bal(o, i):
    return "[" + "; ".join(f"({x}, {zlit(o['acct'][x][i])})" for x in ACCTS) + "]"


def hub_literal(cfg):
    wl = "[" + "; ".join(f"({u}, {a})" for (u, a) in reversed(cfg["hub"]["wl"])) + "]"
    black = "[" + "; ".join(str(a) for a in reversed(cfg["hub"]["black"])) + "]"
    return f"(Access.mkHub {wl} {black} {OWNER})"


def coq_op(host, op, o):
    k = op[0]
    blk, ep, b = o["blk"], o["ep"], o["b"]
    pre = dict(farm="B", locked="LB", staking="SB")[host]
    if k == "Hub":
        return f"{pre}Hub {coq_hub(op)}"
    if k == "EnterOB":
        name = "SBStakeOB" if host == "staking" else pre + "EnterOB"
        return f"{name} {blk} {ep} {op[1]} {op[2]} {op[3]} {sf.pl(op[4])} {zlit(b)}"
    if k == "ClaimOB":
        return f"{pre}ClaimOB {blk} {ep} {op[1]} ({op[2][0]}, {op[2][1]}) {sf.pl(op[3])} {zlit(b)}"
    if host == "farm":
        return f"BF ({sf.coq_op(op, o)})"
    if host == "locked":
        return f"LBL ({sl.coq_op(op, o)})"
    return f"SBP ({sp.coq_op(op, o)})"


def coq_obs(host, op, o):
    if host == "farm":
        return f"F.mkBObs ({sf.coq_obs(o)}) {coq_bal(o, 0)} {coq_bal(o, 1)} {coq_wl(o)}"
    if host == "locked":
        return f"F.mkLBObs ({sl.coq_obs(o)}) {coq_bal(o, 0)} {coq_bal(o, 1)} {coq_bal(o, 2)} {coq_wl(o)}"
    bal = "[" + "; ".join(f"({x}, {zlit(o['acct'][x][0])})" for x in ACCTS) + "]"
    return f"S.mkSBObs ({sp.coq_obs(op, o)}) {bal} {coq_wl(o)}"


IMPORTS = {
    "farm": "Model.Access Base.Prelude Gen.Params Model.Farm Run.FarmRun Model.FarmLocked Run.FarmLockedRun Model.FarmBehalf Run.BehalfRun",
    "locked": "Model.Access Base.Prelude Gen.Params Model.Farm Run.FarmRun Model.FarmLocked Run.FarmLockedRun Model.FarmBehalf Run.BehalfRun",
    "staking": "Model.Access Base.Prelude Gen.Params Model.Staking Model.StakingPos Run.StakingPosRun Model.StakingBehalf Run.BehalfRun",
}


def coq_history(host, cfg, trace):
    items = ";\n    ".join(f"({coq_op(host, op, o)}, {coq_obs(host, op, o)})" for op, o in trace)
    hub = hub_literal(cfg)
    if host == "farm":
        init = f"(mkB (init_farm {cfg['dsc']} {'true' if cfg['same'] else 'false'}) {hub} [] [] [])"
        return f"(F.bcheck_trace {init} 0 [\n    {items}])"
    if host == "locked":
        opts = "[" + "; ".join(str(e) for e, _ in sl.LOCK_OPTIONS) + "]"
        init = f"(mkLB (init_locked {cfg['dsc']} {'true' if cfg['same'] else 'false'} {opts} {cfg['lockep']}) {hub} [] [] [])"
        return f"(F.lbcheck_trace {init} 0 [\n    {items}])"
    init = f"(mkSB (init_sp {cfg['dsc']} {cfg['apr']} {cfg['minub']}) {hub} [] [] [])"
    return f"(S.check_trace {init} 0 [\n    {items}])"
