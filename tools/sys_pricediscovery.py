"""Price-discovery subsystem: real dex/price-discovery (+ real simple-lock as the locking SC) driven
through the mxvm executor; op generator; observation; Coq case emission.

Account ids used by the model (coq/Model/PriceDiscovery.v): 1..NUSERS = plain users, 100 = owner
(an ordinary depositor as far as the contract's endpoints are concerned).
Token codes of payments: 1 = launched token, 2 = accepted token, 3 = a foreign token.
Redeem-token nonces: 1 = received for launched tokens, 2 = received for accepted tokens; any other
"nonce" in a Withdraw/Redeem op means: pay with a foreign token instead - 11 / 12: the foreign SEMI-fungible token
OTHERSFT with nonce 1 / 2 (same nonces as the redeem tokens, different token id); anything else: the foreign
fungible token.
"""
import random
from vmx import *

TL, TA, TX = b"LAUNCH-abcdef", b"USDC-abcdef", b"OTHER-abcdef"
TR, TLK = b"REDEEM-abcdef", b"LOCKED-abcdef"
TXS = b"OTHERSFT-abcdef"
T = {1: TL, 2: TA, 3: TX}
NUSERS = 3
OWNER = 100
ACCOUNTS = list(range(1, NUSERS + 1)) + [OWNER]
BIG = 10 ** 60
MAXP = 10 ** 13
ROLES = ["ESDTRoleNFTCreate", "ESDTRoleNFTAddQuantity", "ESDTRoleNFTBurn"]
STATE_KEYS = ("phase", "pct", "price", "s1", "s2", "lb", "ab", "rl", "ra", "h1", "h2", "own1", "own2",
              "block", "epoch")


def zlit(n):
    return f"({n})" if n < 0 else str(n)


def parse_phase(b):
    """top-encoded phase::Phase -> (discriminant, penalty percentage or 0)"""
    if not b:
        return 0, 0
    ix = b[0]
    if ix in (2, 3):
        d = Dec(b[1:])
        p = d.big()
        assert d.done()
        return ix, p
    assert len(b) == 1, b
    return ix, 0


class PDWorld:
    def __init__(self, cfg):
        """cfg: dict(cur, dec, minp, start, dn, dl, df, pmin, pmax, pfix, unlock_epoch, ...generator hints)"""
        self.cfg = cfg
        vm = self.vm = VM()
        self.addr = {OWNER: user_addr("owner")}
        for u in range(1, NUSERS + 1):
            self.addr[u] = user_addr(f"user{u}")
        self.pd = sc_addr("pricedisc")
        self.lock = sc_addr("simplelock")
        for a in self.addr.values():
            vm.acct(a)
        self.block = cfg["cur"]
        self.epoch = 1
        vm.block(nonce=self.block, round_=self.block, epoch=self.epoch, ts=6 * self.block)
        own = self.addr[OWNER]
        r = vm.deploy(own, "simple-lock", [], new_addr=self.lock)
        assert r.ok, r
        vm.sset(self.lock, b"lockedTokenId", TLK)
        vm.roles(self.lock, TLK, ROLES)
        args = [TL, TA, top_u(cfg["dec"]), top_u(cfg["minp"]), top_u(cfg["start"]), top_u(cfg["dn"]),
                top_u(cfg["dl"]), top_u(cfg["df"]), top_u(cfg["unlock_epoch"]), top_u(cfg["pmin"]),
                top_u(cfg["pmax"]), top_u(cfg["pfix"]), self.lock]
        r = vm.deploy(own, "price-discovery", args, new_addr=self.pd)
        self.deployed = r.ok
        self.deploy_msg = r.msg
        self.last = None
        if not self.deployed:
            return
        # the redeem token: issuing needs the system SC, so the id is stored directly (as the repo tests do)
        vm.sset(self.pd, b"redeemTokenId", TR)
        vm.roles(self.pd, TR, ROLES)
        r = vm.call(own, self.pd, "createInitialRedeemTokens")
        assert r.ok, r
        for u in ACCOUNTS:
            for t in (1, 2, 3):
                vm.setbal(self.addr[u], T[t], 0, BIG)
            for n in (1, 2):
                vm.setbal(self.addr[u], TXS, n, 10 ** 6)
        self.last = self.observe_state()
        self.obs0 = dict(self.last, ok=True, outs=[])

    def close(self):
        self.vm.close()

    # ------------------------------------------------------------ observation
    def locked_total(self, a):
        return sum(b for (t, n, b) in self.vm.tokens(a) if t == TLK)

    def observe_state(self):
        vm = self.vm
        q = vm.query(self.pd, "getCurrentPhase")
        assert q.ok and len(q.out) == 1, q
        ph, pct = parse_phase(q.out[0])
        pr = vm.query(self.pd, "getCurrentPrice")
        price = from_top_u(pr.out[0]) if pr.ok else -1

        def view(name, args=()):
            r = vm.query(self.pd, name, args)
            assert r.ok, (name, r)
            return from_top_u(r.out[0]) if r.out else 0

        return dict(
            phase=ph, pct=pct, price=price,
            s1=view("getRedeemTokenTotalCirculatingSupply", [top_u(1)]),
            s2=view("getRedeemTokenTotalCirculatingSupply", [top_u(2)]),
            lb=view("getLaunchedTokenBalance"), ab=view("getAcceptedTokenBalance"),
            rl=vm.bal(self.pd, TL), ra=vm.bal(self.pd, TA),
            h1={u: vm.bal(self.addr[u], TR, 1) for u in ACCOUNTS},
            h2={u: vm.bal(self.addr[u], TR, 2) for u in ACCOUNTS},
            own1=vm.bal(self.pd, TR, 1), own2=vm.bal(self.pd, TR, 2),
            block=self.block, epoch=self.epoch)

    def wallet(self, u):
        a = self.addr[u]
        return {1: self.vm.bal(a, TL), 2: self.vm.bal(a, TA), 3: self.vm.bal(a, TX), "locked": self.locked_total(a)}

    # ------------------------------------------------------------ execution
    def exec(self, op):
        vm = self.vm
        k = op[0]
        A = self.addr
        pre_w = {u: self.wallet(u) for u in ACCOUNTS}
        pre_dig = vm.digest([self.pd])
        caller = None
        outs = []
        ret = None
        if k == "Tick":
            _, d, de = op
            self.block += d
            self.epoch += de
            vm.block(nonce=self.block, round_=self.block, epoch=self.epoch, ts=6 * self.block)
            ok, msg = True, ""
        else:
            if k == "Deposit":
                _, caller, tok, amt = op
                r = vm.call(A[caller], self.pd, "deposit", [], [(T[tok], 0, amt)])
            elif k in ("Withdraw", "Redeem"):
                _, caller, nonce, amt = op
                pay = (TR, nonce, amt) if nonce in (1, 2) else (TXS, nonce - 10, amt) if nonce in (11, 12) else (TX, 0, amt)
                r = vm.call(A[caller], self.pd, "withdraw" if k == "Withdraw" else "redeem", [], [pay])
            elif k == "Xfer":
                _, src, dst, nonce, amt = op
                r = vm.transfer(A[src], A[dst], [(TR, nonce, amt)])
            else:
                raise ValueError(k)
            ok, msg = r.ok, r.msg
            if ok and k != "Xfer":
                assert len(r.out) == 1, r
                ret = dec_payment(r.out[0])
                outs = [ret[2]]
        o = self.observe_state()
        o["ok"], o["msg"], o["outs"] = ok, msg, outs
        o["ret"] = [ret[0].decode(), ret[1]] if ret else None
        post_w = {u: self.wallet(u) for u in ACCOUNTS}
        o["dw"] = {u: {t: post_w[u][t] - pre_w[u][t] for t in (1, 2, 3, "locked")} for u in ACCOUNTS}
        if not ok:
            o["unchanged"] = (vm.digest([self.pd]) == pre_dig)
        o["pre"] = self.last
        self.last = {k_: o[k_] for k_ in STATE_KEYS}
        return o


# ------------------------------------------------------------------ Coq emission
def coq_op(op):
    if op[0] == "Tick":
        return f"Tick {zlit(op[1])}"
    return op[0] + " " + " ".join(zlit(x) for x in op[1:])


def coq_pairs(d):
    return "[" + "; ".join(f"({zlit(k)}, {zlit(v)})" for k, v in d) + "]"


def coq_obs(o):
    outs = "[" + "; ".join(zlit(x) for x in o["outs"]) + "]"
    return (f"mkObs {'true' if o['ok'] else 'false'} {outs} {o['phase']} {o['pct']} {zlit(o['price'])} "
            f"{o['s1']} {o['s2']} {o['lb']} {o['ab']} {o['rl']} {o['ra']} "
            f"{coq_pairs(sorted(o['h1'].items()))} {coq_pairs(sorted(o['h2'].items()))}")


def coq_init(cfg):
    return ("(init_pd " + " ".join(zlit(cfg[k]) for k in
                                   ("cur", "dec", "minp", "start", "dn", "dl", "df", "pmin", "pmax", "pfix")) + ")")


DUMMY_OBS = "mkObs false [] 0 0 0 0 0 0 0 0 0 [] []"


def coq_history(cfg, deployed, obs0, trace):
    """trace: list of (op, obs)"""
    items = ";\n    ".join(f"({coq_op(op)}, {coq_obs(o)})" for op, o in trace)
    o0 = coq_obs(obs0) if deployed else DUMMY_OBS
    return f"(check_history {coq_init(cfg)} {'true' if deployed else 'false'} ({o0}) [\n    {items}])"


# ------------------------------------------------------------------ generation
def log_amount(rng, hi):
    e = rng.uniform(0, max(1, len(str(hi)) - 1))
    return max(1, int(10 ** e) + rng.randint(0, 9))


def gen_cfg(rng, nops=40):
    dec = rng.choice([0, 0, 1, 2, 3, 6, 6, 9, 12, 18, 18, rng.randint(0, 18)])
    dur = lambda: rng.choice([0, 1, 1, 2, 2, 3, 4])
    dn, dl, df = dur(), dur(), dur()
    if dn + dl == 0 and rng.random() < 0.7:
        dn, dl = rng.choice([(1, 0), (0, 1), (1, 2), (0, 3)])
    cur = 1
    start = cur + rng.choice([1, 1, 1, 2, 3])
    k = rng.random()
    if k < 0.15:
        pmin, pmax = 0, rng.choice([0, MAXP - 1, 1])
    elif k < 0.35:
        pmin, pmax = 10 ** 12, 5 * 10 ** 12
    elif k < 0.5:
        pmin = pmax = rng.choice([1, 10 ** 12, MAXP - 1, rng.randint(0, MAXP - 1)])
    else:
        a, b = rng.randint(0, MAXP - 1), rng.randint(0, MAXP - 1)
        pmin, pmax = min(a, b), max(a, b)
    pfix = rng.choice([0, 25 * 10 ** 11, MAXP - 1, 1, rng.randint(0, MAXP - 1), rng.randint(0, MAXP - 1)])
    scale_l = 10 ** rng.randint(0, 24)
    scale_a = 10 ** rng.randint(0, 24)
    exp = scale_a * 10 ** dec // scale_l
    minp = rng.choice([0, 0, 0, 1, exp // 10, exp // 2, exp // 2, exp, exp, exp * 3])
    bad = rng.random()
    if bad < 0.02:
        pmin, pmax = pmax + 1, pmax
    elif bad < 0.04:
        pmax = MAXP
    elif bad < 0.06:
        pfix = rng.choice([MAXP, MAXP + 1])
    elif bad < 0.07:
        dec = 19
    elif bad < 0.08:
        start = cur
    return dict(cur=cur, dec=dec, minp=minp, start=start, dn=dn, dl=dl, df=df, pmin=pmin, pmax=pmax, pfix=pfix,
                unlock_epoch=rng.choice([2, 3, 4, 1000]), scale_l=scale_l, scale_a=scale_a, nops=nops)


def pick_amount(rng, have):
    """an amount of redeem tokens to pay out of [have] > 0"""
    c = rng.random()
    if c < 0.3:
        return have
    if c < 0.7:
        return rng.randint(1, have)
    if c < 0.85:
        return rng.randint(1, min(have, 10))
    if c < 0.95:
        return max(1, have // rng.choice([2, 3, 7, 10]))
    return 0


def holders(s):
    return [(u, n) for n, h in ((1, s["h1"]), (2, s["h2"])) for u in ACCOUNTS if h[u] > 0]


def gen_invalid(rng, w):
    """malformed / unauthorised / out-of-phase share, independent of the phase"""
    s = w.last
    c = rng.choice(ACCOUNTS)
    k = rng.random()
    hs = holders(s)
    if k < 0.2:
        return ["Deposit", c, 3, log_amount(rng, 10 ** 12)]
    if k < 0.4 and hs:
        u, n = rng.choice(hs)
        have = (s["h1"] if n == 1 else s["h2"])[u]
        return [rng.choice(["Withdraw", "Redeem"]), u, n, have + rng.choice([1, 1, 2, have + 1])]
    if k < 0.47:
        return [rng.choice(["Withdraw", "Redeem"]), c, rng.choice([0, 3]), log_amount(rng, 10 ** 6)]
    if k < 0.55:
        # a foreign SFT that shares the redeem tokens' nonces; small amounts (the contract itself holds one unit of each
        # redeem nonce) in the phase where the endpoint is open
        ep = "Redeem" if s["phase"] == 4 else rng.choice(["Withdraw", "Withdraw", "Redeem"])
        return [ep, c, rng.choice([11, 12]), rng.choice([1, 1, 1, 2, log_amount(rng, 10 ** 4)])]
    if k < 0.7 and hs:
        u, n = rng.choice(hs)
        have = (s["h1"] if n == 1 else s["h2"])[u]
        return ["Redeem" if s["phase"] != 4 else "Withdraw", u, n, pick_amount(rng, have)]
    if k < 0.85:
        tok = rng.choice([1, 2])
        return ["Deposit", c, tok, log_amount(rng, (w.cfg["scale_l"] if tok == 1 else w.cfg["scale_a"]) * 10)]
    if hs:
        u, n = rng.choice(hs)
        return ["Xfer", u, rng.choice(ACCOUNTS), n, (s["h1"] if n == 1 else s["h2"])[u] + 1]
    return ["Withdraw", c, rng.choice([1, 2]), 1]


def gen_deposit(rng, w):
    s, cfg = w.last, w.cfg
    c = rng.choice(ACCOUNTS)
    lb, ab, minp, prec = s["lb"], s["ab"], cfg["minp"], 10 ** cfg["dec"]
    if lb == 0:
        if rng.random() < 0.85:
            return ["Deposit", c, 1, log_amount(rng, cfg["scale_l"] * 10) + rng.choice([0, cfg["scale_l"]])]
        return ["Deposit", c, 2, log_amount(rng, cfg["scale_a"] * 10)]
    tok = 2 if rng.random() < 0.6 else 1
    if minp > 0 and 0 <= s["price"] < minp and rng.random() < 0.7:
        tok = 2          # below the floor nothing but accepted-token deposits can succeed
    k = rng.random()
    if tok == 1 and minp > 0 and ab > 0 and k < 0.45:
        # launched deposit around the price floor: largest a with ab*prec // (lb+a) >= minp
        edge = ab * prec // minp - lb
        a = edge + rng.choice([-1, 0, 0, 1, 1, 2])
        if a > 0:
            return ["Deposit", c, 1, a]
    if tok == 1 and ab > 0 and 0.45 <= k < 0.47:
        # price rounds to zero
        return ["Deposit", c, 1, max(1, ab * prec - lb + rng.choice([0, 1, 1, 5]))]
    if k < 0.75:
        return ["Deposit", c, tok, log_amount(rng, (cfg["scale_l"] if tok == 1 else cfg["scale_a"]) * 100)]
    if k < 0.9:
        return ["Deposit", c, tok, rng.randint(1, 20)]
    if k < 0.97:
        return ["Deposit", c, tok, log_amount(rng, 10 ** 30)]
    return ["Deposit", c, tok, 0]


def gen_withdraw(rng, w):
    s, cfg = w.last, w.cfg
    hs = holders(s)
    if not hs:
        return None
    u, n = rng.choice(hs)
    have = (s["h1"] if n == 1 else s["h2"])[u]
    lb, ab, minp, prec, pct = s["lb"], s["ab"], cfg["minp"], 10 ** cfg["dec"], s["pct"]
    k = rng.random()
    if minp > 0 and n == 2 and lb > 0 and k < 0.3:
        # accepted withdrawal around the price floor: smallest accepted balance keeping price >= minp
        need = -(-minp * lb // prec)
        wmax = ab - need
        if wmax > 0:
            amt = wmax * MAXP // (MAXP - pct) + rng.choice([-1, 0, 0, 1, 1, 2])
            if 0 < amt <= have:
                return ["Withdraw", u, 2, amt]
    if pct > 0 and k < 0.45:
        # amounts where the penalty floor matters / is exact
        amt = rng.choice([1, 2, 3, 7, 9, 10, 11, 99, 101, MAXP // max(1, pct) + rng.choice([-1, 0, 1])])
        if 0 < amt <= have:
            return ["Withdraw", u, n, amt]
    return ["Withdraw", u, n, pick_amount(rng, have)]


def gen_redeem(rng, w):
    s = w.last
    hs = holders(s)
    if not hs:
        return None
    u, n = rng.choice(hs)
    have = (s["h1"] if n == 1 else s["h2"])[u]
    return ["Redeem", u, n, pick_amount(rng, have)]


def gen_xfer(rng, w):
    s = w.last
    hs = holders(s)
    if not hs:
        return None
    u, n = rng.choice(hs)
    have = (s["h1"] if n == 1 else s["h2"])[u]
    return ["Xfer", u, rng.choice(ACCOUNTS), n, rng.choice([have, rng.randint(1, have), 1, 0])]


def gen_tick(rng, w):
    s = w.last
    d = rng.choice([1] * 10 + [0, 2])
    if s["phase"] == 4 and rng.random() < 0.3:
        d = rng.choice([1, 5, 1000])
    de = rng.choice([0, 0, 0, 1, 1, 2])
    if s["phase"] == 4 and rng.random() < 0.15:
        de = 1000
    return ["Tick", d, de]


def gen_op(rng, w):
    """mostly-valid op from the world's last observed state"""
    s, cfg = w.last, w.cfg
    ph = s["phase"]
    active = cfg["dn"] + cfg["dl"] + cfg["df"]
    opb = max(1.2, 0.6 * cfg["nops"] / max(1, active))      # operations per block inside the phases
    r = rng.random()
    if ph == 0:
        if r < 0.7:
            return ["Tick", 1, rng.choice([0, 0, 1])]
        return gen_invalid(rng, w)
    if ph == 4:
        p_tick = 0.08
    else:
        p_tick = 1.0 / (1.0 + opb)
        if s["lb"] == 0 and ph in (1, 2):
            p_tick *= 0.3
    if r < p_tick:
        return gen_tick(rng, w)
    r = rng.random()
    if r < 0.10:
        return gen_invalid(rng, w)
    op = None
    below = cfg["minp"] > 0 and s["lb"] > 0 and 0 <= s["price"] < cfg["minp"]
    if below and ph in (1, 2, 3) and rng.random() < 0.75:
        # every withdrawal fails below the floor: raise the price (or let time pass)
        return gen_deposit(rng, w) if ph in (1, 2) else gen_tick(rng, w)
    if ph in (1, 2):
        if s["lb"] == 0 or r < 0.55:
            op = gen_deposit(rng, w)
        elif r < 0.92:
            op = gen_withdraw(rng, w)
        else:
            op = gen_xfer(rng, w)
        return op or gen_deposit(rng, w)
    if ph == 3:
        op = gen_withdraw(rng, w) if r < 0.9 else gen_xfer(rng, w)
        return op or gen_tick(rng, w)
    op = gen_redeem(rng, w) if r < 0.9 else gen_xfer(rng, w)
    return op or gen_tick(rng, w)


def gen_history(seed, nops):
    rng = random.Random(seed)
    cfg = gen_cfg(rng, nops)
    w = PDWorld(cfg)
    trace = []
    try:
        if w.deployed:
            for _ in range(nops):
                op = gen_op(rng, w)
                trace.append((op, w.exec(op)))
        return cfg, w.deployed, (w.obs0 if w.deployed else None), trace
    finally:
        w.close()


def replay_history(cfg, ops):
    w = PDWorld(cfg)
    trace = []
    try:
        if w.deployed:
            for op in ops:
                trace.append((op, w.exec(op)))
        return w.deployed, (w.obs0 if w.deployed else None), trace
    finally:
        w.close()
