import json,sys,os,subprocess,glob
P=sys.argv[1]
props=[json.loads(l) for l in open('/verif/properties.jsonl') if l.strip()]
pr=[p for p in props if p.get('id')==P][0]
wt=f'/tmp/wt_{P}'; out=f'/tmp/wt_{P}_out'
subprocess.run(['git','-C','/repo','worktree','add','--detach',wt,'HEAD'],check=True,stdout=subprocess.DEVNULL)
os.makedirs(out,exist_ok=True)
json.dump(pr,open(f'/tmp/wt_{P}.property.json','w'),indent=1)
t=open('/tmp/mutant_prompt.txt').read().replace('@ID@',P).replace('@PROP@',json.dumps(pr,indent=1))
prev=[]
for m in sorted(glob.glob(f'/verif/seeded/{P}-*/meta.json')):
    prev.append('- '+json.load(open(m))['change'])
t+='\n\nIMPORTANT - earlier attempts (do NOT repeat these or close variants; pick a different function, clause or mechanism):\n'+'\n'.join(prev)
t+='\n\nLook in particular for ways to break the property through unusual operation orders, rarely used endpoints or argument variants, admin/configuration endpoints, second contract instances, multi-payment calls, boundary values (exactly equal epochs/weeks/blocks, zero amounts, maximal percentages) and configurations no existing test uses.\n'
open(f'{out}/prompt.txt','w').write(t)
print(P,len(prev),'previous')
