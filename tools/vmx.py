"""Client for the mxvm executor (harness/src/main.rs) + MultiversX codec helpers.

Everything that touches the real contracts goes through `VM.call / VM.query / VM.deploy`, i.e.
through the contracts' generated endpoint dispatch.  State observation uses raw balance/storage
reads of the debug VM.
"""
import os, subprocess, hashlib

ROOT = os.path.dirname(os.path.dirname(os.path.abspath(__file__)))
MXVM = os.path.join(ROOT, ".cache", "target", "debug", "mxvm")


def hx(b: bytes) -> str:
    return b.hex() if b else "-"


def unhx(s: str) -> bytes:
    return b"" if s == "-" else bytes.fromhex(s)


# ---------------------------------------------------------------- codec
def top_u(n: int) -> bytes:
    """top-encoding of BigUint / u64 / usize"""
    assert n >= 0
    return n.to_bytes((n.bit_length() + 7) // 8, "big") if n else b""


def from_top_u(b: bytes) -> int:
    return int.from_bytes(b, "big")


def nest_u64(n: int) -> bytes:
    return n.to_bytes(8, "big")


def nest_u32(n: int) -> bytes:
    return n.to_bytes(4, "big")


def nest_big(n: int) -> bytes:
    b = top_u(n)
    return len(b).to_bytes(4, "big") + b


def nest_bytes(b: bytes) -> bytes:
    return len(b).to_bytes(4, "big") + b


def top_bool(v: bool) -> bytes:
    return b"\x01" if v else b""


class Dec:
    """cursor decoder for nested-encoded data"""

    def __init__(self, b: bytes):
        self.b = b
        self.i = 0

    def take(self, n):
        assert self.i + n <= len(self.b), "decode overrun"
        r = self.b[self.i:self.i + n]
        self.i += n
        return r

    def u8(self):
        return self.take(1)[0]

    def u32(self):
        return int.from_bytes(self.take(4), "big")

    def u64(self):
        return int.from_bytes(self.take(8), "big")

    def big(self):
        return int.from_bytes(self.take(self.u32()), "big")

    def bigint(self):
        raw = self.take(self.u32())
        return int.from_bytes(raw, "big", signed=True) if raw else 0

    def bytes_(self):
        return self.take(self.u32())

    def addr(self):
        return self.take(32)

    def bool_(self):
        return self.u8() != 0

    def done(self):
        return self.i == len(self.b)

    def payment(self):
        t = self.bytes_()
        n = self.u64()
        a = self.big()
        return (t, n, a)


def dec_payment(b: bytes):
    d = Dec(b)
    p = d.payment()
    assert d.done()
    return p


def top_bigint(b: bytes) -> int:
    return int.from_bytes(b, "big", signed=True) if b else 0


# ---------------------------------------------------------------- addresses
def user_addr(name: str) -> bytes:
    b = name.encode()
    assert len(b) <= 32
    return b + b"_" * (32 - len(b))


def sc_addr(name: str) -> bytes:
    b = name.encode()
    assert len(b) <= 22
    return b"\x00" * 8 + b"\x05\x00" + b + b"_" * (22 - len(b))


ZERO_ADDR = b"\x00" * 32


class Result:
    __slots__ = ("status", "msg", "out", "addr")

    def __init__(self, status, msg, out, addr=None):
        self.status = status
        self.msg = msg
        self.out = out
        self.addr = addr

    @property
    def ok(self):
        return self.status == 0

    def __repr__(self):
        return f"Result({self.status}, {self.msg!r}, {[o.hex() for o in self.out]})"


class VM:
    def __init__(self):
        exe = os.environ.get("MXVM_BIN", MXVM)
        if not os.path.exists(exe):
            raise RuntimeError("mxvm not built; run ./setup.sh")
        self.p = subprocess.Popen([exe], stdin=subprocess.PIPE, stdout=subprocess.PIPE,
                                  stderr=subprocess.DEVNULL, text=True, bufsize=1)
        self.blk = (0, 0, 0, 0)
        self.ncalls = 0

    def close(self):
        try:
            self.p.stdin.write("quit\n")
            self.p.stdin.flush()
            self.p.wait(timeout=5)
        except Exception:
            self.p.kill()

    def _cmd(self, line: str) -> str:
        self.p.stdin.write(line + "\n")
        self.p.stdin.flush()
        while True:
            r = self.p.stdout.readline()
            if not r:
                raise RuntimeError(f"mxvm died on: {line[:300]}")
            if r.startswith("@@ "):      # anything else is debug output of the VM / contracts
                return r[3:].rstrip("\n")

    def _ok(self, line):
        r = self._cmd(line)
        assert r == "ok", r

    # ---- state set-up
    def acct(self, a: bytes, code=None, owner=None):
        s = f"acct {hx(a)}"
        if code:
            s += f" code {code}"
        if owner:
            s += f" owner {hx(owner)}"
        self._ok(s)

    def setegld(self, a, amount):
        self._ok(f"setegld {hx(a)} {amount}")

    def setbal(self, a, token: bytes, nonce: int, amount: int, attrs: bytes = b""):
        self._ok(f"setbal {hx(a)} {hx(token)} {nonce} {amount} {hx(attrs)}")

    def roles(self, a, token: bytes, roles):
        self._ok(f"roles {hx(a)} {hx(token)} {','.join(roles)}")

    def block(self, nonce=None, round_=None, epoch=None, ts=None):
        n, r, e, t = self.blk
        self.blk = (n if nonce is None else nonce, r if round_ is None else round_,
                    e if epoch is None else epoch, t if ts is None else ts)
        self._ok("block %d %d %d %d" % self.blk)

    def newaddr(self, creator, nonce, new):
        self._ok(f"newaddr {hx(creator)} {nonce} {hx(new)}")

    def nonce(self, a):
        return int(self._cmd(f"nonce {hx(a)}"))

    # ---- transactions
    @staticmethod
    def _parse(r, with_addr=False):
        f = r.split(" ")
        assert f[0] == "R", r
        status = int(f[1])
        msg = unhx(f[2]).decode("utf8", "replace")
        i = 3
        addr = None
        if with_addr:
            addr = bytes.fromhex(f[3])
            i = 4
        n = int(f[i])
        out = [unhx(x) for x in f[i + 1:i + 1 + n]]
        return Result(status, msg, out, addr)

    def deploy(self, frm, code, args, new_addr=None):
        if new_addr is not None:
            self.newaddr(frm, self.nonce(frm), new_addr)
        s = f"deploy {hx(frm)} {code} {len(args)}" + "".join(" " + hx(a) for a in args)
        return self._parse(self._cmd(s), True)

    def call(self, frm, to, func, args=(), pays=(), egld=0):
        self.ncalls += 1
        s = f"call {hx(frm)} {hx(to)} {func} {egld} {len(args)}" + "".join(" " + hx(a) for a in args)
        s += f" {len(pays)}" + "".join(f" {hx(t)} {n} {v}" for (t, n, v) in pays)
        return self._parse(self._cmd(s))

    def transfer(self, frm, to, pays):
        return self.call(frm, to, "-", (), pays)

    def query(self, to, func, args=()):
        s = f"query {hx(to)} {func} {len(args)}" + "".join(" " + hx(a) for a in args)
        return self._parse(self._cmd(s))

    # ---- observation
    def bal(self, a, token, nonce=0) -> int:
        return int(self._cmd(f"bal {hx(a)} {hx(token)} {nonce}"))

    def egld(self, a) -> int:
        return int(self._cmd(f"egld {hx(a)}"))

    def attrs(self, a, token, nonce) -> bytes:
        return unhx(self._cmd(f"attrs {hx(a)} {hx(token)} {nonce}"))

    def tokens(self, a):
        f = self._cmd(f"tokens {hx(a)}").split(" ")
        n = int(f[0])
        return [(unhx(f[1 + 3 * i]), int(f[2 + 3 * i]), int(f[3 + 3 * i])) for i in range(n)]

    def sget(self, a, key: bytes) -> bytes:
        return unhx(self._cmd(f"sget {hx(a)} {hx(key)}"))

    def sset(self, a, key: bytes, val: bytes):
        self._ok(f"sset {hx(a)} {hx(key)} {hx(val)}")

    def sdump(self, a):
        f = self._cmd(f"sdump {hx(a)}").split(" ")
        n = int(f[0])
        return [(unhx(f[1 + 2 * i]), unhx(f[2 + 2 * i])) for i in range(n)]

    def digest(self, addrs):
        """digest of storage + token balances of the given accounts (for 'unchanged' checks)"""
        h = hashlib.sha256()
        for a in addrs:
            for k, v in self.sdump(a):
                h.update(nest_bytes(k) + nest_bytes(v))
            for t, n, b in self.tokens(a):
                h.update(nest_bytes(t) + nest_u64(n) + nest_big(b))
            h.update(str(self.egld(a)).encode())
        return h.hexdigest()


# coarse error classes ---------------------------------------------------------
def err_class(res: Result) -> str:
    if res.ok:
        return "ok"
    m = res.msg.lower()
    if "cannot subtract because result would be negative" in m or "division by 0" in m \
            or "overflow" in m or "panic occurred" in m:
        return "arith"
    return "user"
