"""Evaluate generated Gallina terms inside Coq (vm_compute) in parallel shards.

`eval_terms(imports, terms)` writes cases_<k>.v files, one `Eval vm_compute in (<term>).` per term
(each term must have type `list Z`), runs 16 coqc processes under a shell timeout and returns the
list of results as Python lists of ints.
"""
import os, re, subprocess, tempfile, shutil, concurrent.futures

ROOT = os.path.dirname(os.path.dirname(os.path.abspath(__file__)))
COQDIR = os.path.join(ROOT, "coq")
CACHE = os.path.join(ROOT, ".cache", "cases")


def parse_eval_output(text):
    """Split coqc output of `Eval vm_compute` commands into list-of-int results."""
    res = []
    # each result looks like "     = [1; 2; -3]\n     : list Z"
    for m in re.finditer(r"^\s*=\s*(.*?)\n\s*:\s*list Z", text, re.S | re.M):
        body = m.group(1).replace("\n", " ").strip()
        assert body.startswith("[") and body.endswith("]"), body
        inner = body[1:-1].strip()
        if not inner:
            res.append([])
        else:
            res.append([int(x.strip().replace("%Z", "")) for x in inner.split(";")])
    return res


def _run_shard(args):
    path, timeout = args
    try:
        p = subprocess.run(["timeout", str(timeout), "coqc", "-noglob", "-Q", COQDIR, "MX", path],
                           capture_output=True, text=True)
    except Exception as e:  # pragma: no cover
        return (path, 1, "", str(e))
    return (path, p.returncode, p.stdout, p.stderr)


def eval_terms(imports, terms, tag="cases", per_file=40, timeout=600, jobs=16):
    os.makedirs(CACHE, exist_ok=True)
    d = tempfile.mkdtemp(prefix=tag + "_", dir=CACHE)
    files = []
    try:
        for k in range(0, len(terms), per_file):
            chunk = terms[k:k + per_file]
            path = os.path.join(d, f"{tag}_{k // per_file}.v")
            with open(path, "w") as f:
                f.write(f"From MX Require Import {imports}.\nOpen Scope Z_scope.\n")
                for t in chunk:
                    f.write(f"Eval vm_compute in {t}.\n")
            files.append((path, len(chunk)))
        results = []
        with concurrent.futures.ThreadPoolExecutor(max_workers=jobs) as ex:
            outs = list(ex.map(_run_shard, [(p, timeout) for p, _ in files]))
        for (path, n), (_, rc, out, errtxt) in zip(files, outs):
            if rc != 0:
                raise RuntimeError(f"coqc failed on {path} (rc={rc}): {errtxt[-2000:]}")
            r = parse_eval_output(out)
            if len(r) != n:
                raise RuntimeError(f"expected {n} results from {path}, got {len(r)}:\n{out[-2000:]}")
            results.extend(r)
        return results
    finally:
        shutil.rmtree(d, ignore_errors=True)
