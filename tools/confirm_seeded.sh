#!/bin/bash
# confirm_seeded.sh <PID> <suffix> : confirm a sub-agent's seeded change in its scratch worktree /tmp/wt_<PID>
# (suite passes with the change except the demo; demo passes without), then store it under /verif/seeded/<PID>-<suffix>/
set -u
P=$1; SFX=${2:-a}; WT=/tmp/wt_$P; OUT=/tmp/wt_${P}_out; DST=/verif/seeded/$P-$SFX
export CARGO_NET_OFFLINE=true CARGO_BUILD_JOBS=${JOBS:-8}
cd $WT || exit 2
git apply --check -R $OUT/patch.diff 2>/dev/null || { echo "patch not applied in worktree; applying"; git apply $OUT/patch.diff || exit 2; }
echo "== full suite WITH the change"
cargo test --workspace --no-fail-fast --offline > $OUT/confirm_with.log 2>&1
PASSED=$(grep -E "^test result:" $OUT/confirm_with.log | sed -E 's/.* ([0-9]+) passed.*/\1/' | paste -sd+ | bc)
FAILED=$(grep -E "^test result:" $OUT/confirm_with.log | sed -E 's/.* ([0-9]+) failed.*/\1/' | paste -sd+ | bc)
echo "passed=$PASSED failed=$FAILED"; grep -E "^test .* FAILED" $OUT/confirm_with.log
echo "== demo WITHOUT the change"
git apply -R $OUT/patch.diff || exit 2
bash $OUT/run_demo.sh > $OUT/confirm_without.log 2>&1; grep -E "^test result:|^test .*(ok|FAILED)$" $OUT/confirm_without.log | tail -5
git apply $OUT/patch.diff
mkdir -p $DST; cp $OUT/patch.diff $OUT/notes.md $OUT/run_demo.sh $DST/ 2>/dev/null; cp $OUT/*.rs $DST/ 2>/dev/null
echo "stored in $DST (write meta.json by hand)"
