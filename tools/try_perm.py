#!/usr/bin/env python3
"""Standalone driver for the permissions / pausable stateful tie (no framework verdict needed):

    python3 tools/try_perm.py [N histories per kind=150] [ops per history=40] [seed=1]
                              [--kinds pair,farm,...] [--no-coq] [--show K] [--replay-first] [--coqdir DIR]

Runs N generated histories per contract kind on the real contracts, evaluates every monitor of tools/props/perm_common.py on
every observation, replays every history in Coq (Run/PermRun.v: check_history) and prints the counters, the monitor failures
grouped by key and the correspondence mismatches.  Exit status 1 when anything was reported.

The executor: with VERIF_REPO=<tree> (a scratch worktree / copy, never modified) it is built against that tree exactly the way
tools/framework.py build_harness() does it and selected through MXVM_BIN; an explicit MXVM_BIN is used as it is.
--replay-first re-executes the first failure of each key from its replay data (cfg + operation prefix) and shows that the
monitors report it again.  --coqdir evaluates the correspondence against another compiled Coq tree (model mutants)."""
import os, sys, collections, json
sys.path.insert(0, os.path.dirname(os.path.abspath(__file__)))


def main():
    args, opts, it = [], {}, iter(sys.argv[1:])
    for a in it:
        if a in ("--show", "--kinds", "--coqdir"):
            opts[a] = next(it)
        elif a.startswith("--"):
            opts[a] = True
        else:
            args.append(a)
    repo = os.environ.get("VERIF_REPO", "/repo").rstrip("/")
    if repo != "/repo" and "MXVM_BIN" not in os.environ:
        import framework
        ok, out = framework.build_harness()          # sets MXVM_BIN to the executor built against VERIF_REPO
        if not ok:
            print("executor build failed:\n" + out[-3000:])
            return 2
    import coqrun
    if "--coqdir" in opts:
        coqrun.COQDIR = opts["--coqdir"]
    from props import perm_common as pc
    nh = int(args[0]) if len(args) > 0 else 150
    nops = int(args[1]) if len(args) > 1 else 40
    seed = int(args[2]) if len(args) > 2 else 1
    show = int(opts.get("--show", 2))
    kinds = tuple(opts.get("--kinds", ",".join(pc.KINDS)).split(","))
    ex = pc.explore_perm("TRY", "quick", seed, model_ok="--no-coq" not in opts, kinds=kinds, nh=nh, nops=nops)
    c = ex.counters
    print(f"tree: {repo}   executor: {os.environ.get('MXVM_BIN', 'default (/repo)')}")
    print(f"histories {ex.histories}  operations {ex.evaluations}  distinct non-trivial classes {len(ex.nontrivial)}")
    for k in kinds:
        ok, err = c.get(f"{k}:ops:ok", 0), c.get(f"{k}:ops:err", 0)
        print(f"  {k:26s} ops {ok + err}  ok {ok}  err {err}  success {100.0 * ok / max(1, ok + err):.1f}%")
    if "--counters" in opts:
        print("counters:")
        for k in sorted(c):
            print(f"  {k:64s} {c[k]}")
    else:
        agg = collections.Counter()
        for k, v in c.items():
            agg[k.split(":", 1)[1]] += v
        print("counters (all kinds):")
        for k in sorted(agg):
            print(f"  {k:48s} {agg[k]}")
    by = collections.OrderedDict()
    for f in ex.failures:
        by.setdefault(f["key"], []).append(f)
    print(f"monitor failures: {len(ex.failures)} in {len(by)} keys")
    for k, fs in by.items():
        hs = len({(f["replay"]["kind"], f["replay"]["seed"]) for f in fs})
        print(f"  {k}: {len(fs)} (in {hs} histories)")
        for f in fs[:show]:
            print(f"      {f['replay']['kind']} seed {f['replay']['seed']} op#{len(f['replay']['ops'])}: {f['what'][:400]}")
    if "--replay-first" in opts:
        print("replays:")
        for k, fs in by.items():
            data = json.loads(json.dumps(dict(key=k, what=fs[0]["what"], replay=fs[0]["replay"]), default=list))
            again = pc.replay_perm(data)
            hit = [g for g in again if g["key"] == k]
            print(f"  {k}: replay of {data['replay']['kind']} cfg {data['replay']['cfg']} ({len(data['replay']['ops'])} ops) -> "
                  f"{'REPRODUCED: ' + hit[0]['what'][:300] if hit else 'not reproduced'}")
    print(f"traces replayed in Coq: {ex.traces_validated}   correspondence mismatches: {len(ex.disagreements)}")
    fields = collections.Counter((d.get("kind"), d.get("field_name")) for d in ex.disagreements)
    if fields:
        print("  by (kind, field):", dict(fields.most_common(12)))
    for d in ex.disagreements[:show + 1]:
        if "index" not in d:
            print("  ", d)
            continue
        print(f"  {d['kind']} seed {d['seed']} cfg {d['cfg']} index {d['index']} field {d['field_name']} model {d['model']} impl {d['impl']} op {d['op']}")
        print(f"      observed: ok={d['observed']['ok']} msg={d['observed']['msg']!r} perms={pc.show(pc._perms(d['observed']['perms']))} state={d['observed']['state']}")
        print(f"      history: {d['ops'][-6:]}")
    return 1 if (ex.failures or ex.disagreements) else 0


if __name__ == "__main__":
    sys.exit(main())
