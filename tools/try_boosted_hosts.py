"""Command-line driver for C11 on the two other hosts of the boosted-yields module (coq/Model/BoostedHosts.v,
tools/sys_boosted_hosts.py, tools/props/c11_hosts_common.py).

  python3 tools/try_boosted_hosts.py explore [--nh 150] [--nops 40] [--seed 1] [--system locked|staking|both] [--no-model] [--no-corpus]
        real histories on farm-with-locked-rewards (+ real energy factory) and farm-staking: C11's monitors on the real
        observations + the correspondence with Run/BoostedHostsRun.v; prints counters, mismatches, monitor failures
  python3 tools/try_boosted_hosts.py replay <file.json>
  python3 tools/try_boosted_hosts.py show --system locked|staking [--seed N] [--nops 40]      prints one generated history

VERIF_REPO=<scratch tree> runs against an executor built from that tree (tools/framework.py build_harness)."""
import sys, os, json, collections
sys.path.insert(0, os.path.dirname(os.path.abspath(__file__)))


def arg(name, default):
    if name in sys.argv:
        return type(default)(sys.argv[sys.argv.index(name) + 1])
    return default


def main():
    cmd = sys.argv[1] if len(sys.argv) > 1 else "explore"
    import framework
    if os.environ.get("VERIF_REPO", "/repo").rstrip("/") != "/repo":
        ok, out = framework.build_harness()
        if not ok:
            print("executor build failed:\n" + out)
            sys.exit(2)
        print("executor:", os.environ.get("MXVM_BIN"))
    import sys_boosted_hosts as sh
    from props import c11_hosts_common as hc
    which = arg("--system", "both")
    systems = hc.SYSTEMS if which == "both" else (f"boosted-{which}",)
    if cmd == "explore":
        ex = hc.explore_hosts("C11", "quick", arg("--seed", 1), model_ok="--no-model" not in sys.argv, nh=arg("--nh", 150),
                              nops=arg("--nops", 40), systems=systems, corpus="--no-corpus" not in sys.argv)
        c = ex.counters
        for t in ("locked", "staking"):
            if not c.get(f"{t}:ops"):
                continue
            print(f"== {t}: histories {c.get(t + ':histories', 0)} ops {c[t + ':ops']} ok {c.get(t + ':ok', 0)} "
                  f"({100.0 * c.get(t + ':ok', 0) / c[t + ':ops']:.1f} %) err {c.get(t + ':err', 0)}  boosted payments>0 "
                  f"{c.get(t + ':user-op:boosted-paid', 0)}  weeks paid {c.get(t + ':weeks-paid', 0)}  weeks frozen {c.get(t + ':weeks-frozen', 0)}  "
                  f"slices {c.get(t + ':slice-booked', 0)}  collect>0 {c.get(t + ':collect-swept>0', 0)}  mismatches {c.get(t + ':mismatch', 0)}")
        print("histories", ex.histories, "evaluations", ex.evaluations, "validated traces", ex.traces_validated,
              "distinct non-trivial", len(ex.nontrivial))
        if "--counters" in sys.argv:
            for k in sorted(c):
                print(f"   {k}: {c[k]}")
        print("correspondence mismatches:", len(ex.disagreements))
        byf = collections.Counter((d["system"], d["op"][0], d["field"]) for d in ex.disagreements)
        for k, n in byf.most_common(12):
            print("   ", k, n)
        for d in ex.disagreements[:arg("--show", 3)]:
            print("   ", {k: d[k] for k in ("system", "seed", "index", "field", "model", "impl", "op")})
        print("monitor failures:", len(ex.failures))
        byk = collections.Counter(f["key"] + " @" + f["replay"]["system"] for f in ex.failures)
        for k, n in byk.most_common(20):
            print("   ", k, n)
        for f in ex.failures[:arg("--show", 3)]:
            print("   ", f["key"], "::", f["what"][:400])
        out = arg("--save", "")
        if out and (ex.failures or ex.disagreements):
            f = ex.failures[0] if ex.failures else None
            json.dump(dict(property="C11", replay=(f["replay"] if f else dict(system=ex.disagreements[0]["system"], cfg=ex.disagreements[0]["cfg"],
                                                                               ops=ex.disagreements[0]["ops"]))), open(out, "w"), default=str)
            print("saved", out)
        sys.exit(1 if (ex.failures or ex.disagreements) else 0)
    if cmd == "replay":
        data = json.load(open(sys.argv[2]))
        fails = hc.replay_hosts(data)
        print("failures:", len(fails))
        for f in fails[:10]:
            print("   ", f["key"], "::", f["what"][:300])
        sys.exit(1 if fails else 0)
    if cmd == "show":
        system = systems[0]
        cfg, trace = sh.gen_history(system, arg("--seed", 1), arg("--nops", 40))
        print(cfg)
        for op, o in trace:
            print(op, "ok" if o["ok"] else o["msg"], "b=", o["b"], "paid=", o["paid"], "cut=", o["cut"], "week", o["week"])
        if "--coq" in sys.argv:
            print(sh.coq_history(system, cfg, trace))
    else:
        print(__doc__)


if __name__ == "__main__":
    main()
