"""Command-line driver for the closed dex/farm model (coq/Model/FarmFull.v) and its world (tools/sys_farm_full.py).

  python3 tools/try_farm_full.py explore [--nh 200] [--nops 40] [--seed 1] [--no-model]
        correspondence run + monitors on the real contracts; prints counters, mismatches, monitor failures
  python3 tools/try_farm_full.py search [--nh 400] [--nops 60] [--seed 1]
        adversarial search for C11_no_underflow / C05's last clause on the REAL contract: histories built to
        over-subscribe a week's pool (transfers right before claims, energy raised after the week ended, factor /
        percentage changes, idle weeks, users below the minimums, late configuration); reports every legitimate
        user operation that aborts on a negative counter and the maximum of paid(w)/R(w), sum f/F, sum e/E
  python3 tools/try_farm_full.py mutants
        model mutants through the correspondence (each must produce a mismatch)
  python3 tools/try_farm_full.py replay <file.json>

VERIF_REPO=<scratch tree> runs against an executor built from that tree (tools/framework.py build_harness)."""
import sys, os, json, random, collections, concurrent.futures
sys.path.insert(0, os.path.dirname(os.path.abspath(__file__)))
import sys_farm as sf
import sys_boosted as sb
import sys_farm_full as sx
from props import farm_full_common as ffc

OWNER = sx.OWNER
USERS = sx.USERS


def arg(name, default):
    if name in sys.argv:
        return type(default)(sys.argv[sys.argv.index(name) + 1])
    return default


# ------------------------------------------------------------------ adversarial generator (item 4)
def adv_cfg(rng):
    return dict(dsc=rng.choice([1, 10 ** 6, 10 ** 12, 10 ** 18]), same=rng.random() < 0.5, boost=True,
                scale=rng.choice([1, 1, 10, 1000, 10 ** 6]))


def adv_factors(rng):
    return [rng.choice([1, 2, 10, 1000, 10 ** 6]), rng.choice([0, 1, 3, 7, 1000]), rng.choice([0, 1, 2, 5]),
            rng.choice([1, 1, 1, 10]), rng.choice([1, 1, 1, 2])]


def adv_gen(rng, w):
    """bring-up with a big rate and percentage, small round positions and energies (rounding matters, shares are large),
    then week after week of hostile interleavings"""
    script = w.__dict__.setdefault("script", [])
    if script:
        nxt = script.pop(0)
        return nxt(rng, w) if callable(nxt) else nxt
    st = w.__dict__.setdefault("adv_stage", 0)
    sc = w.cfg.get("scale", 1)
    if st == 0:
        w.adv_stage = 1
        late = rng.random() < 0.25
        script += [["SetState", OWNER, 1], ["Start", OWNER], ["SetPct", OWNER, rng.choice([10000, 5000, 2500, 9999, 1])]]
        fac = ["SetFactors", OWNER, adv_factors(rng)]
        if not late:
            script.append(fac)
        for u in USERS:
            script.append(["Energy", u, rng.choice([0, 1, 5, 100, 10 ** 6]) * rng.choice([1, 7, 70]), rng.choice([0, 0, 1, 1, 10])])
        for u in rng.sample(USERS, rng.choice([2, 3, 3])):
            script.append(["Enter", u, rng.choice([1, 2, 3, 10, 100]) * sc, []])
        if late:
            script += [["Time", 5, rng.choice([0, 7])], fac]
        return ["SetRate", OWNER, rng.choice([1, 7, 1000, 10 ** 6, 10 ** 18])]
    holders = [u for u in USERS if sf.positions_of(w, u)]
    roll = rng.random()
    kinds = ["Compound", "Claim", "Enter", "Merge", "Exit", "ClaimBoosted"]
    if roll < 0.30:
        # week change; then everybody tries to take as much as possible out of the completed week
        weeks = rng.choice([1, 1, 1, 1, 2, 2, 3, 4, 5])
        scen = []
        r2 = rng.random()
        if r2 < 0.3:
            # energy raised at the factory after the week ended
            for u in rng.sample(USERS, rng.choice([1, 2, 3])):
                scen.append(["Energy", u, rng.choice([10 ** 9, 10 ** 12, 10 ** 15]), rng.choice([0, 1, 10 ** 6])])
        if r2 > 0.2 and len(holders) >= 1:
            # the position travels: A settles, hands it to B, B settles with it, hands it on ...
            order = rng.sample(USERS, len(USERS))
            src = rng.choice(holders)
            order = [src] + [u for u in order if u != src]
            for a, b in zip(order, order[1:] + order[:1]):
                scen.append((lambda aa: (lambda r, ww: sx.user_op(r, ww, aa, ["ClaimBoosted", "Claim", "Merge"])))(a))
                scen.append((lambda aa, bb: (lambda r, ww: transfer_all(r, ww, aa, bb)))(a, b))
                scen.append((lambda bb: (lambda r, ww: sx.user_op(r, ww, bb, ["ClaimBoosted", "Claim", "Merge", "Compound", "Enter", "Exit"])))(b))
                scen.append(["ClaimBoosted", b])
        else:
            for u in rng.sample(USERS, len(USERS)):
                scen.append((lambda uu: (lambda r, ww: sx.user_op(r, ww, uu, kinds)))(u))
        if rng.random() < 0.25:
            scen.insert(rng.randint(0, len(scen)), ["SetFactors", OWNER, adv_factors(rng)])
        if rng.random() < 0.15:
            scen.insert(rng.randint(0, len(scen)), ["SetPct", OWNER, rng.choice([0, 1, 5000, 10000])])
        script += scen
        return ["Time", rng.choice([1, 10, 100]), 7 * weeks + rng.choice([0, 0, 1, 6])]
    if roll < 0.36:
        return ["Energy", rng.choice(USERS), rng.choice([0, 1, 5, 100, 10 ** 6, 10 ** 12]) * rng.choice([1, 7]), rng.choice([0, 1, 10, 10 ** 6])]
    if roll < 0.40:
        return ["UpdateEnergy", rng.choice(USERS), rng.choice(USERS)]
    if roll < 0.44:
        return ["Collect", OWNER]
    if roll < 0.50 and holders:
        a = rng.choice(holders)
        return transfer_all(rng, w, a, rng.choice([u for u in USERS if u != a]))
    if roll < 0.55:
        return rng.choice([["SetFactors", OWNER, adv_factors(rng)], ["SetPct", OWNER, rng.choice([0, 1, 2500, 10000])],
                           ["SetRate", OWNER, rng.choice([1, 1000, 10 ** 9])], ["End", OWNER], ["Start", OWNER],
                           ["Time", rng.choice([1, 5]), rng.choice([0, 1, 3])]])
    if roll < 0.62:
        return ["Enter", rng.choice(USERS), rng.choice([1, 2, 5, 100]) * sc, []]
    c = rng.choice(holders) if holders else rng.choice(USERS)
    return sx.user_op(rng, w, c, kinds)


def transfer_all(rng, w, a, b):
    mine = sf.positions_of(w, a)
    if not mine:
        return ["ClaimBoosted", a]
    n, v = rng.choice(mine)
    return ["Transfer", n, a, b, v if rng.random() < 0.8 else rng.randint(1, v)]


def _adv(args):
    seed, nops = args
    rng = random.Random(seed)
    cfg = adv_cfg(rng)
    w = sx.FullWorld(cfg)
    trace = []
    try:
        for _ in range(nops):
            op = sx.normalize(adv_gen(rng, w))
            trace.append((op, w.exec(op)))
    finally:
        w.close()
    return seed, cfg, trace


def week_stats(trace):
    """per completed week: sum over the users that settled it of f/F and e/E, and paid/R (real observations)"""
    st = {}
    for op, o in trace:
        if o is None or not o["ok"] or op[0] not in sx.USER_OPS:
            continue
        m = o["m"]
        pm = m["pre"]
        u = op[1]
        pg = pm["prog"].get(u)
        f = o["pre"]["utot"].get(u, 0)
        if pg is None or pm["cfg"] is None:
            continue
        cw = m["week"]
        for wk in range(max(pg[3], cw - 4), cw):
            E, F = pm["energy"].get(wk, 0), pm["sup"].get(wk, 0)
            rw = m["rewards"].get(wk)
            if not (rw[0] if rw else pm["acc"].get(wk, 0)):
                continue                                   # an empty pool pays nothing whoever settles it
            e = sb.decayed(pg, wk)
            s = st.setdefault(wk, dict(f=0, e=0, F=F, E=E, paid=0))
            s["f"] += f
            s["e"] += e
            s["paid"] += m["paid"].get(wk, 0)
    return st


def cmd_search():
    nh, nops, seed = arg("--nh", 400), arg("--nops", 60), arg("--seed", 1)
    cnt = collections.Counter()
    from fractions import Fraction
    worst = dict(f=(Fraction(0), None), e=(Fraction(0), None), paid=(Fraction(0), None))
    bad = []
    with concurrent.futures.ProcessPoolExecutor(max_workers=16) as pool:
        for sd, cfg, trace in pool.map(_adv, [(seed * 1000000 + i, nops) for i in range(nh)], chunksize=4):
            ops_all = [t[0] for t in trace]
            for idx, (op, o) in enumerate(trace):
                if o is None:
                    continue
                cnt["ops-ok" if o["ok"] else "ops-err"] += 1
                if o["ok"] and o["m"]["b"] > 0:
                    cnt["boosted-payout>0"] += 1
                if not o["ok"]:
                    cnt["err:" + o["msg"][:44]] += 1
                for key, what in ffc.monitors_all(cfg, op, o):
                    cnt["FAIL:" + key] += 1
                    if len(bad) < 5:
                        bad.append(dict(key=key, what=what, cfg=cfg, ops=ops_all[:idx + 1], seed=sd))
            last = [o for _, o in trace if o is not None][-1]
            R = last["ledger"]["frozen"]
            for wk, s in week_stats(trace).items():
                if s["F"] and Fraction(s["f"], s["F"]) > worst["f"][0]:
                    worst["f"] = (Fraction(s["f"], s["F"]), (sd, wk))
                if s["E"] and Fraction(s["e"], s["E"]) > worst["e"][0]:
                    worst["e"] = (Fraction(s["e"], s["E"]), (sd, wk))
                if R.get(wk) and Fraction(s["paid"], R[wk]) > worst["paid"][0]:
                    worst["paid"] = (Fraction(s["paid"], R[wk]), (sd, wk))
    print(json.dumps(dict(histories=nh, nops=nops, counters=dict(sorted(cnt.items())),
                          worst={k: [float(v[0]), str(v[0]), v[1]] for k, v in worst.items()}), indent=1))
    for b in bad:
        print("FAILURE", json.dumps(b, default=str)[:3000])
    return 1 if bad else 0


def cmd_explore():
    nh, nops, seed = arg("--nh", 200), arg("--nops", 40), arg("--seed", 1)
    ex = ffc.explore_farm_full("FF", "quick", seed, model_ok="--no-model" not in sys.argv, nh=nh, nops=nops)
    ok, err = ex.counters.get("full:ops-ok", 0), ex.counters.get("full:ops-err", 0)
    print(json.dumps(dict(histories=ex.histories, evaluations=ex.evaluations, traces_validated=ex.traces_validated,
                          ok_share=round(ok / max(1, ok + err), 3), nontrivial=len(ex.nontrivial),
                          mismatches=len(ex.disagreements), monitor_failures=len(ex.failures),
                          counters=dict(sorted(ex.counters.items()))), indent=1))
    for d in ex.disagreements[:5]:
        print("MISMATCH", json.dumps({k: v for k, v in d.items() if k not in ("observed",)}, default=str)[:2500])
    for f in ex.failures[:5]:
        print("FAILURE", f["key"], f["what"][:400])
        print("  replay:", json.dumps(dict(cfg=f["replay"]["cfg"], ops=f["replay"]["ops"]), default=str)[:2500])
    return 1 if (ex.disagreements or ex.failures) else 0


def cmd_replay():
    data = json.load(open(sys.argv[2]))
    if "replay" not in data:
        data = dict(replay=data)
    fails = ffc.replay_farm_full(data)
    for f in fails[:20]:
        print(f["key"], f["what"][:300])
    print(len(fails), "failures")
    return 1 if fails else 0


# ------------------------------------------------------------------ model mutants through the correspondence
MUTANTS = [
    ("pos-after-update", "the caller's total position is read AFTER the farm endpoint's position update (C05-a on the model side)",
     "Some (BClaim true c (energy_entry raw ep) (utot f c) full supply)", "Some (BClaim true c (energy_entry raw ep) posa full supply)"),
    ("enter-pos-after", "enterFarm claims with the position after the increase",
     "Some (BEnter true c (energy_entry raw ep) (utot f c) full supply)", "Some (BEnter true c (energy_entry raw ep) posa full supply)"),
    ("emission-ignores-produce", "emission computed although rewards are not produced",
     "if blk <=? f_last f then 0 else if f_produce f then f_rate f * (blk - f_last f) else 0", "if blk <=? f_last f then 0 else f_rate f * (blk - f_last f)"),
    ("supply-before", "set_farm_supply_for_current_week gets the supply BEFORE the operation",
     "run_b (x_b s) (bop_of s op (f_supply f') (utot f' (caller_of op)))", "run_b (x_b s) (bop_of s op (f_supply (x_f s)) (utot f' (caller_of op)))"),
    ("posa-before", "clear_user_energy_if_needed sees the position before exitFarm's decrease",
     "run_b (x_b s) (bop_of s op (f_supply f') (utot f' (caller_of op)))", "run_b (x_b s) (bop_of s op (f_supply f') (utot (x_f s) (caller_of op)))"),
    ("energy-not-depleted", "the factory's stored entry is used without depleting it to the current epoch",
     "match raw with Some e => en_deplete e epoch | None => en_zero epoch end", "match raw with Some e => e | None => en_zero epoch end"),
    ("merge-pays-nothing", "mergeFarmTokens: the farm part is given b = 0",
     "| XMerge c ps _ => Some (FMerge blk ep c ps b)", "| XMerge c ps _ => Some (FMerge blk ep c ps 0)"),
    ("collect-unmapped", "collectUndistributedBoostedRewards does not reach the module",
     "| XCollect c => Some (BCollect c)", "| XCollect c => None"),
    ("setpct-only-settles", "setBoostedYieldsRewardsPercentage settles but the module's percentage is not written",
     "| XSetPct c p => Some (BSetPct c p full)", "| XSetPct c p => Some (BSettle true full)"),
    ("end-does-not-slice", "endProduceRewards: the module books no slice",
     "| XEnd _ => Some (BSettle true full)", "| XEnd _ => None"),
    ("claimboosted-no-supply", "claimBoostedRewards handled as mergeFarmTokens (no settlement, no supply update)",
     "| XClaimBoosted c raw => Some (BClaimBoosted true c (energy_entry raw ep) (utot f c) full supply)", "| XClaimBoosted c raw => Some (BMerge true c (energy_entry raw ep) (utot f c))"),
    ("clock-stuck", "block nonce does not advance",
     "Ok (x_blk s + dblk)", "Ok (x_blk s)"),
    ("update-energy-unmapped", "updateEnergyForUser does not reach the module",
     "| XUpdateEnergy _ u raw => Some (BUpdateEnergy u (energy_entry raw ep))", "| XUpdateEnergy _ u raw => None"),
    ("b-from-pass-2-supply-0", "the farm pays the payout of a claim made with position 0",
     "do (_, o1) <- run_b (x_b s) (bop_of s op 0 0);", "do (_, o1) <- run_b (x_b s) (match op with XClaim c a b r => Some (BClaim true c (energy_entry r (b_epoch (x_b s))) 0 (emission (x_f s) (x_blk s)) 0) | _ => bop_of s op 0 0 end);"),
]


def eval_with(mutdir, terms, tag):
    """evaluate the histories against the model compiled in mutdir (logical path MUT)"""
    import subprocess, coqrun, tempfile
    coq = os.path.join(os.path.dirname(os.path.dirname(os.path.abspath(__file__))), "coq")
    files = []
    per = max(1, len(terms) // 16 + 1)
    for k in range(0, len(terms), per):
        path = os.path.join(mutdir, f"cases_{tag}_{k // per}.v")
        with open(path, "w") as f:
            f.write("From MX Require Import Base.Prelude Gen.Params Model.Weekly Model.Farm Model.Boosted Run.FarmRun Run.BoostedRun.\n"
                    "From MUT Require Import FarmFull FarmFullRun.\nOpen Scope Z_scope.\n")
            for t in terms[k:k + per]:
                f.write(f"Eval vm_compute in {t}.\n")
        files.append((path, len(terms[k:k + per])))

    def run(pn):
        p = subprocess.run(["timeout", "600", "coqc", "-noglob", "-Q", coq, "MX", "-Q", mutdir, "MUT", pn[0]], capture_output=True, text=True)
        assert p.returncode == 0, p.stderr[-1500:]
        r = coqrun.parse_eval_output(p.stdout)
        assert len(r) == pn[1]
        return r
    with concurrent.futures.ThreadPoolExecutor(max_workers=16) as ex:
        return [x for r in ex.map(run, files) for x in r]


def cmd_mutants():
    import subprocess, shutil, tempfile
    nh, nops, seed = arg("--nh", 64), arg("--nops", 40), arg("--seed", 1)
    root = os.path.dirname(os.path.dirname(os.path.abspath(__file__)))
    coq = os.path.join(root, "coq")
    src = open(os.path.join(coq, "Model", "FarmFull.v")).read()
    run_src = open(os.path.join(coq, "Run", "FarmFullRun.v")).read().replace(
        "Model.Boosted Model.FarmFull.", "Model.Boosted.\nFrom MUT Require Import FarmFull.")
    hist = []
    with concurrent.futures.ProcessPoolExecutor(max_workers=16) as pool:
        for sd, cfg, trace in pool.map(ffc._gen, [(seed * 100000 + 90000 + i, nops) for i in range(nh)], chunksize=4):
            hist.append((sd, cfg, trace))
    terms = [sx.coq_history(cfg, tr) for _, cfg, tr in hist]
    base = tempfile.mkdtemp(prefix="ffmut_", dir=os.path.join(root, ".cache"))
    rows, bad = [], 0
    try:
        for name, what, old, new in [("unchanged", "the model as it is", None, None)] + MUTANTS:
            d = os.path.join(base, name)
            os.makedirs(d)
            text = src
            if old is not None:
                assert text.count(old) == 1, (name, text.count(old))
                text = text.replace(old, new)
            open(os.path.join(d, "FarmFull.v"), "w").write(text)
            open(os.path.join(d, "FarmFullRun.v"), "w").write(run_src)
            for f in ("FarmFull.v", "FarmFullRun.v"):
                p = subprocess.run(["timeout", "300", "coqc", "-noglob", "-Q", coq, "MX", "-Q", d, "MUT", os.path.join(d, f)], capture_output=True, text=True)
                assert p.returncode == 0, (name, p.stderr[-1500:])
            res = eval_with(d, terms, name.replace("-", "_"))
            mism = [r for r in res if r]
            fields = collections.Counter(r[1] for r in mism)
            rows.append((name, len(mism), dict(fields.most_common(4)), what))
            if (old is None) != (len(mism) == 0):
                bad += 1
    finally:
        shutil.rmtree(base, ignore_errors=True)
    print(f"model mutants through Run/FarmFullRun.v check_trace over {nh} histories x {nops} ops")
    for name, n, fields, what in rows:
        print(f"  {name:28s} mismatching histories {n:3d}  fields {fields}  -- {what}")
    print("undetected mutants / false alarm:", bad)
    return 1 if bad else 0


if __name__ == "__main__":
    cmd = sys.argv[1] if len(sys.argv) > 1 else "explore"
    if os.environ.get("VERIF_REPO"):
        import framework
        ok, out = framework.build_harness()
        assert ok, out
    sys.exit(dict(explore=cmd_explore, search=cmd_search, replay=cmd_replay, mutants=cmd_mutants)[cmd]())
