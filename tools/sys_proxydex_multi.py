"""Proxy-DEX world with TWO intermediated pairs (property C16, continuation of tools/sys_proxydex.py).

The world of sys_proxydex (real pair MEX/WEGLD, two real farm-with-locked-rewards, real energy-factory, real proxy_dex;
same deployment, reused by subclassing) plus a second real pair MEX/USDC with its own LP token, added to the proxy with
`addPairToIntermediate`.  With one pair every wrapped LP token records the same `lp_token_id`, so the merge guard
`WrappedLpTokenAttributes::can_be_merged_externally_with` (same lp_token_id && same locked token id) is never exercised;
here wrapped LP tokens of two different LP tokens exist side by side and the generator offers them to one merge call.

Model ids (coq/Model/ProxyMulti.v): users 1..3, OWNER = 100; pair ids 0 = MEX/WEGLD, 1 = MEX/USDC, 2 = an address that
is not an intermediated pair; token codes 0 MEX, 1 WEGLD, 2 LOCKED, 3 wrapped LP, 4 wrapped farm, 5 USDC; farm ids as in
sys_proxydex (0 base-asset farm, 1 LP farm of pair 0's LP token, 2 not a farm).

Operations (lists): those of sys_proxydex with the pair made explicit
  ["AddLiq", u, pid, p1, p2, extra, m1, m2]  ["RemoveLiq", u, pid, p, m1, m2]  ["SetPair", u, pid, b]  ["Trade", pid, tin, amt]
  EnterFarm / ExitFarm / Claim / MergeWlp / MergeWfm / IncLp / IncFm / SetFarm / XferWlp / XferWfm / Time unchanged.

Observations per pair: `lp` = {pair id: LP tokens of that LP token id held by the proxy}, `res` = {pair id: (base reserve,
other reserve, LP supply)}; every wrapped LP nonce's attributes are decoded from the token data including `lp_token_id`
(`pair` = its pair id); `usr` = {wrapped LP nonce: supply outside the proxy}.
"""
import random
from vmx import *
import sys_proxydex as sp
from sys_proxydex import (MEX, WEGLD, LP, FARML, FARMLP, LOCKED, LEGACY, WPLP, WPFARM, FARMTOK, NUSERS, OWNER, DSC, OPTS, EPM,
                          USER_BAL, zlit, cbool, cpair, cpay, cpays, cmap, cmap_all, coq_env, dec_energy, dec_wfm,
                          dec_locked_attrs, pair_add, pair_remove, rule3, log_amount, part_amount)

USDC, LP2 = b"USDC-123456", b"LPTWO-123456"
TOK = {0: MEX, 1: WEGLD, 2: LOCKED, 3: WPLP, 4: WPFARM, 5: USDC}
CODE = {v: k for k, v in TOK.items()}
LPTOK = {0: LP, 1: LP2}
PAIR_OF_LP = {LP: 0, LP2: 1}
OTHER = {0: 1, 1: 5}                 # token code of each pair's second token
IMPORTS = "Base.Prelude Gen.Params Model.ProxyDex Model.ProxyMulti Run.ProxyDexRun Run.ProxyMultiRun"


def dec_wlp(b):
    d = Dec(b)
    lpid, T = d.bytes_(), d.big()
    tid, k, L = d.payment()
    assert d.done()
    return dict(lpid=lpid, pair=PAIR_OF_LP.get(lpid, 9), T=T, tid=tid, k=k, L=L)


class MultiWorld(sp.ProxyWorld):
    def __init__(self, cfg):
        """cfg: that of sys_proxydex + base_first2, liq2=[base, other], fee2"""
        self.pair2 = None
        sp.ProxyWorld.__init__(self, cfg)
        vm, own = self.vm, self.addr[OWNER]
        self.pair2 = sc_addr("pair2")
        first, second = (MEX, USDC) if cfg["base_first2"] else (USDC, MEX)
        r = vm.deploy(own, "pair", [first, second, own, own, top_u(cfg["fee2"]), top_u(min(50, cfg["fee2"])), ZERO_ADDR],
                      new_addr=self.pair2)
        assert r.ok, r
        assert vm.call(own, self.pair2, "setLpTokenIdentifier", [LP2]).ok
        vm.roles(self.pair2, LP2, ["ESDTRoleLocalMint", "ESDTRoleLocalBurn"])
        for a in list(self.addr.values()) + [self.trader]:
            vm.setbal(a, USDC, 0, USER_BAL)
        lb, lo = cfg["liq2"]
        pays = [(MEX, 0, lb), (USDC, 0, lo)] if cfg["base_first2"] else [(USDC, 0, lo), (MEX, 0, lb)]
        r = vm.call(own, self.pair2, "addInitialLiquidity", [], pays)
        assert r.ok, r
        assert vm.call(own, self.pair2, "resume").ok
        r = vm.call(own, self.proxy, "addPairToIntermediate", [self.pair2])
        assert r.ok, r
        self.pairs = {0: self.pair, 1: self.pair2, 2: self.farm_m}
        self.bf = {0: cfg["base_first"], 1: cfg["base_first2"]}
        self.accounts = self.accounts + [self.pair2]
        self.flags = dict(pair0=True, pair1=True, farm0=True, farm1=True)
        self.wlp, self.wfm = {}, {}
        self.last = self.observe()

    # ------------------------------------------------------------ observation
    def observe(self):
        if self.pair2 is None:            # called by the base constructor before the second pair exists
            return {}
        vm = self.vm
        toks = {a: vm.tokens(a) for a in self.accounts}
        o = dict(base=0, other=0, lp={}, farm={}, locked={}, pwlp={}, pwfm={}, hlp={}, hfm={}, ulocked={},
                 suplp={}, supfm={}, tbase=0, tlocked=0, now=self.epoch)
        for a, ts in toks.items():
            for t, n, amt in ts:
                if t == MEX:
                    o["tbase"] += amt
                elif t == LOCKED:
                    if a != self.efact:
                        o["tlocked"] += amt
                    if n not in self.unlock:
                        self.unlock[n] = dec_locked_attrs(vm.attrs(a, LOCKED, n))
                elif t == WPLP:
                    o["suplp"][n] = o["suplp"].get(n, 0) + amt
                    if n not in self.wlp:
                        self.wlp[n] = dec_wlp(vm.attrs(a, WPLP, n))
                elif t == WPFARM:
                    o["supfm"][n] = o["supfm"].get(n, 0) + amt
                    if n not in self.wfm:
                        self.wfm[n] = dec_wfm(vm.attrs(a, WPFARM, n))
        for n in self.wlp:
            o["suplp"].setdefault(n, 0)
        for n in self.wfm:
            o["supfm"].setdefault(n, 0)
        for t, n, amt in toks[self.proxy]:
            if t == MEX: o["base"] = amt
            elif t in (WEGLD, USDC): o["other"] += amt
            elif t in PAIR_OF_LP: o["lp"][PAIR_OF_LP[t]] = amt
            elif t == FARML: o["farm"][n * 2] = amt
            elif t == FARMLP: o["farm"][n * 2 + 1] = amt
            elif t == LOCKED: o["locked"][n] = amt
            elif t == WPLP: o["pwlp"][n] = amt
            elif t == WPFARM: o["pwfm"][n] = amt
        o["usr"] = {n: o["suplp"][n] - o["pwlp"].get(n, 0) for n in o["suplp"]}
        o["ubase"], o["uoth"] = {}, {0: {}, 1: {}}
        for u in range(1, NUSERS + 1):
            o["ulocked"][u] = {}
            o["ubase"][u], o["uoth"][0][u], o["uoth"][1][u] = 0, 0, 0
            for t, n, amt in toks[self.addr[u]]:
                if t == MEX: o["ubase"][u] = amt
                elif t == WEGLD: o["uoth"][0][u] = amt
                elif t == USDC: o["uoth"][1][u] = amt
                if t == WPLP: o["hlp"][n * 16 + u] = amt
                elif t == WPFARM: o["hfm"][n * 16 + u] = amt
                elif t == LOCKED: o["ulocked"][u][n] = amt
        o["res"] = {}
        for pid in (0, 1):
            q = vm.query(self.pairs[pid], "getReservesAndTotalSupply")
            assert q.ok
            r1, r2, S = [from_top_u(x) for x in q.out]
            o["res"][pid] = ((r1, r2) if self.bf[pid] else (r2, r1)) + (S,)
        o["fsup"] = {i: from_top_u((vm.query(self.farms[i], "getFarmTokenSupply").out or [b""])[0]) for i in (0, 1)}
        o["energy"] = {u: dec_energy((vm.query(self.efact, "getEnergyEntryForUser", [self.addr[u]]).out or [b""])[0])
                       for u in range(1, NUSERS + 1)}
        return o

    def wlp_locked_part(self, p):
        w = self.wlp.get(p[1])
        if p[0] != 3 or not w or p[2] <= 0:
            return None
        r = rule3(w["T"], p[2], w["L"])
        return None if r is None else (w["k"], r)

    def real_pay(self, p):
        return (TOK[p[0]], p[1], p[2])

    # ------------------------------------------------------------ execution
    def exec(self, op):
        vm = self.vm
        A = self.addr
        k = op[0]
        pre = self.last
        if k == "Time":
            self.blk += op[1]
            self.epoch += op[2]
            vm.block(nonce=self.blk, round_=self.blk, epoch=self.epoch, ts=6 * self.blk)
            self.last = self.observe()
            return None
        if k == "Trade":
            _, pid, tin, amt = op
            tcode = {0: 0, 1: OTHER[pid]}
            vm.call(self.trader, self.pairs[pid], "swapTokensFixedInput", [TOK[tcode[1 - tin]], top_u(1)], [(TOK[tcode[tin]], 0, amt)])
            self.last = self.observe()
            return None
        now = self.epoch
        u = op[1]
        env = dict(now=now, ok=True, pair=(0, 0, 0), farm=(0, 0), fmerge=(0, 0), rew=(0, 0), fact=(0, 0),
                   energy=pre["energy"].get(u, (0, now, 0)), unlock=0)
        n_wlp0, n_wfm0 = len(self.wlp), len(self.wfm)
        pre_dig = vm.digest([self.proxy])
        outs = []
        exit_pen = None
        if k == "AddLiq":
            _, u, pid, p1, p2, extra, m1, m2 = op
            r = vm.call(A[u], self.proxy, "addLiquidityProxy", [self.pairs[pid], top_u(m1), top_u(m2)],
                        [self.real_pay(p) for p in [p1, p2] + extra])
            ok = pid in (0, 1)
            if ok:
                und = [0 if p[0] == 2 else p[0] for p in (p1, p2)]
                want = [0, OTHER[pid]] if self.bf[pid] else [OTHER[pid], 0]
                ok = und == want
            if ok:
                rb_, ro_, S_ = pre["res"][pid]
                ra, rb = (rb_, ro_) if self.bf[pid] else (ro_, rb_)
                exp = pair_add(ra, rb, S_, p1[2], p2[2], m1, m2)
                ok = exp is not None
            if ok and extra:
                lk, used = (p1[1], exp[1]) if p1[0] == 2 else (p2[1], exp[2])
                ok = self.factory_takes(u, [(lk, used)] + [self.wlp_locked_part(p) for p in extra])
            env["ok"] = ok
        elif k == "RemoveLiq":
            _, u, pid, p, m1, m2 = op
            r = vm.call(A[u], self.proxy, "removeLiquidityProxy", [self.pairs[pid], top_u(m1), top_u(m2)], [self.real_pay(p)])
            if pid in (0, 1):
                rb_, ro_, S_ = pre["res"][pid]
                ra, rb = (rb_, ro_) if self.bf[pid] else (ro_, rb_)
                env["ok"] = pair_remove(ra, rb, S_, p[2], m1, m2) is not None
            else:
                env["ok"] = False
            if p[0] == 3 and p[1] in self.wlp:
                env["unlock"] = self.unlock.get(self.wlp[p[1]]["k"], 0)
        elif k == "EnterFarm":
            _, u, farm, p, extra = op
            r = vm.call(A[u], self.proxy, "enterFarmProxy", [self.farms[farm]], [self.real_pay(x) for x in [p] + extra])
            if extra:
                first = (p[1], p[2]) if p[0] == 2 else self.wlp_locked_part(p)
                env["ok"] = self.factory_takes(u, [first] + [self.wfm_locked_part(x) for x in extra])
        elif k == "ExitFarm":
            _, u, farm, p = op
            if p[0] == 4 and p[1] in self.wfm and farm in (0, 1) and FARMTOK[farm] == self.wfm[p[1]]["ft"] \
                    and 0 < p[2] <= pre["hfm"].get(p[1] * 16 + u, 0):
                exit_pen = self.farm_penalty(farm, self.wfm[p[1]]["f"], p[2])
            r = vm.call(A[u], self.proxy, "exitFarmProxy", [self.farms[farm]], [self.real_pay(p)])
            if p[0] == 4 and p[1] in self.wfm:
                w = self.wfm[p[1]]
                kk = w["pn"] if w["pt"] == LOCKED else self.wlp.get(w["pn"], {}).get("k", 0)
                env["unlock"] = self.unlock.get(kk, 0)
        elif k == "Claim":
            _, u, farm, p = op
            r = vm.call(A[u], self.proxy, "claimRewardsProxy", [self.farms[farm]], [self.real_pay(p)])
        elif k == "MergeWlp":
            _, u, ps = op
            r = vm.call(A[u], self.proxy, "mergeWrappedLpTokens", [], [self.real_pay(p) for p in ps])
            env["ok"] = self.factory_takes(u, [self.wlp_locked_part(p) for p in ps])
        elif k == "MergeWfm":
            _, u, farm, ps = op
            r = vm.call(A[u], self.proxy, "mergeWrappedFarmTokens", [self.farms[farm]], [self.real_pay(p) for p in ps])
            env["ok"] = self.factory_takes(u, [self.wfm_locked_part(p) for p in ps])
        elif k in ("IncLp", "IncFm"):
            _, u, p, epochs = op
            r = vm.call(A[u], self.proxy, "increaseProxyPairTokenEnergy" if k == "IncLp" else "increaseProxyFarmTokenEnergy",
                        [top_u(epochs)], [self.real_pay(p)])
            part = self.wlp_locked_part(p) if k == "IncLp" else self.wfm_locked_part(p)
            if part is not None:
                old = self.unlock.get(part[0], 0)
                new = (now + epochs) - (now + epochs) % EPM
                env["ok"] = epochs in [e for e, _ in OPTS] and new > now and new > old \
                    and part[1] <= pre["energy"].get(u, (0, 0, 0))[2]
        elif k == "SetPair":
            _, u, pid, b = op
            r = vm.call(A[u], self.proxy, "addPairToIntermediate" if b else "removeIntermediatedPair", [self.pairs[pid]])
        elif k == "SetFarm":
            _, u, farm, b = op
            r = vm.call(A[u], self.proxy, "addFarmToIntermediate" if b else "removeIntermediatedFarm", [self.farms[farm]])
        elif k == "XferWlp":
            _, s, d, n, a = op
            r = vm.transfer(A[s], A[d], [(WPLP, n, a)])
        elif k == "XferWfm":
            _, s, d, n, a = op
            r = vm.transfer(A[s], A[d], [(WPFARM, n, a)])
        else:
            raise ValueError(k)
        o = self.observe()
        o["ok"], o["msg"] = r.ok, r.msg
        if r.ok and k not in ("SetPair", "SetFarm", "XferWlp", "XferWfm"):
            outs = []
            for x in r.out:
                t, n, a = dec_payment(x)
                outs.append([CODE.get(t, 9), n, a])
        o["outs"] = outs
        if not r.ok:
            o["unchanged"] = (vm.digest([self.proxy]) == pre_dig)
        o["exit_pen"] = exit_pen
        new_wlp = sorted(n for n in self.wlp if n > n_wlp0)
        new_wfm = sorted(n for n in self.wfm if n > n_wfm0)
        o["new_wlp"] = {n: self.wlp[n] for n in new_wlp}
        o["new_wfm"] = {n: self.wfm[n] for n in new_wfm}
        o["dbase"] = o["tbase"] - pre["tbase"]
        o["dlocked"] = o["tlocked"] - pre["tlocked"]
        # ---- nested responses, reconstructed from callee observables (as in sys_proxydex)
        if r.ok:
            if k == "AddLiq":
                pid = op[2]
                ub, uo = o["res"][pid][0] - pre["res"][pid][0], o["res"][pid][1] - pre["res"][pid][1]
                dS = o["res"][pid][2] - pre["res"][pid][2]
                first_is_base = op[3][0] in (0, 2)
                env["pair"] = (dS, ub, uo) if first_is_base else (dS, uo, ub)
                if op[5] and new_wlp:
                    w = self.wlp[new_wlp[-1]]
                    env["fact"] = (w["k"], w["L"])
            elif k == "RemoveLiq":
                pid = op[2]
                env["pair"] = (0, pre["res"][pid][0] - o["res"][pid][0], pre["res"][pid][1] - o["res"][pid][1])
            elif k == "EnterFarm":
                farm = op[2]
                env["farm"] = (self.wfm[new_wfm[-1]]["f"] if not op[4] else 0, o["fsup"][farm] - pre["fsup"][farm])
                env["rew"] = (outs[1][1], outs[1][2])
                if op[4]:
                    w = self.wfm[new_wfm[-1]]
                    env["fmerge"] = (w["f"], w["T"])
                    env["fact"] = (w["pn"], w["P"]) if w["pt"] == LOCKED else (self.wlp[w["pn"]]["k"], self.wlp[w["pn"]]["L"])
            elif k == "ExitFarm":
                env["farm"] = (0, op[3][2] - (exit_pen or 0))
                env["rew"] = (outs[1][1], outs[1][2])
                ra = outs[1][2]
                if ra > 0:
                    ea, eu, et = env["energy"]
                    ue = self.unlock[outs[1][1]]
                    env["energy"] = (ea + (ra * (ue - now) if ue > now else 0), eu, et + ra)
            elif k == "Claim":
                farm = op[2]
                w = self.wfm[new_wfm[-1]]
                env["farm"] = (w["f"], op[3][2] + o["fsup"][farm] - pre["fsup"][farm])
                env["rew"] = (outs[1][1], outs[1][2])
            elif k == "MergeWlp":
                w = self.wlp[new_wlp[-1]]
                env["fact"] = (w["k"], w["L"])
            elif k == "MergeWfm":
                w = self.wfm[new_wfm[-1]]
                if o["dlocked"] > 0:
                    ue = (now + OPTS[0][0]) - (now + OPTS[0][0]) % EPM
                    env["rew"] = ([n for n, e in self.unlock.items() if e == ue][0], o["dlocked"])
                env["fmerge"] = (w["f"], w["T"])
                env["fact"] = (w["pn"], w["P"]) if w["pt"] == LOCKED else (self.wlp[w["pn"]]["k"], self.wlp[w["pn"]]["L"])
            elif k == "IncLp":
                w = self.wlp[new_wlp[-1]]
                env["fact"] = (w["k"], w["L"])
            elif k == "IncFm":
                w = self.wfm[new_wfm[-1]]
                env["fact"] = (w["pn"], w["P"]) if w["pt"] == LOCKED else (self.wlp[w["pn"]]["k"], self.wlp[w["pn"]]["L"])
            if k == "SetPair": self.flags[f"pair{op[2]}"] = op[3]
            if k == "SetFarm": self.flags[f"farm{op[2]}"] = op[3]
        o["env"] = env
        o["epost"] = o["energy"].get(u, (0, now, 0)) if isinstance(u, int) else (0, now, 0)
        o["pre"] = pre
        o["wlp_tab"] = dict(self.wlp)
        o["wfm_tab"] = dict(self.wfm)
        o["unlock_tab"] = dict(self.unlock)
        self.last = {x: v for x, v in o.items() if x not in ("pre", "env", "wlp_tab", "wfm_tab", "unlock_tab")}
        return o


# ------------------------------------------------------------------ Coq emission
def coq_op(op, o):
    k = op[0]
    e = coq_env(o["env"]) if "env" in o else ""
    if k == "AddLiq":
        return f"MAddLiq {op[1]} {op[2]} {cpay(op[3])} {cpay(op[4])} {cpays(op[5])} {e}"
    if k == "RemoveLiq":
        return f"MRemoveLiq {op[1]} {op[2]} {cpay(op[3])} {e}"
    if k == "EnterFarm":
        return f"MEnterFarm {op[1]} {op[2]} {cpay(op[3])} {cpays(op[4])} {e}"
    if k == "ExitFarm":
        return f"MExitFarm {op[1]} {op[2]} {cpay(op[3])} {e}"
    if k == "Claim":
        return f"MClaimRew {op[1]} {op[2]} {cpay(op[3])} {e}"
    if k == "MergeWlp":
        return f"MMergeWlp {op[1]} {cpays(op[2])} {e}"
    if k == "MergeWfm":
        return f"MMergeWfm {op[1]} {op[2]} {cpays(op[3])} {e}"
    if k == "IncLp":
        return f"MIncLp {op[1]} {cpay(op[2])} {e}"
    if k == "IncFm":
        return f"MIncFm {op[1]} {cpay(op[2])} {e}"
    if k == "SetPair":
        return f"MSetPair {op[1]} {op[2]} {cbool(op[3])}"
    if k == "SetFarm":
        return f"MSetFarm {op[1]} {op[2]} {cbool(op[3])}"
    if k in ("XferWlp", "XferWfm"):
        return f"M{k} {op[1]} {op[2]} {op[3]} {op[4]}"
    raise ValueError(k)


def coq_obs(o):
    wl = "[" + "; ".join(f"({n}, ({w['pair']}, {w['T']}, {w['k']}, {w['L']}))" for n, w in sorted(o["new_wlp"].items())) + "]"
    wf = "[" + "; ".join(
        f"({n}, ({0 if w['ft'] == FARML else 1}, {w['f']}, {w['T']}, {0 if w['pt'] == LOCKED else 1}, {w['pn']}, {w['P']}))"
        for n, w in sorted(o["new_wfm"].items())) + "]"
    en = o["epost"]
    return (f"mkMObs {cbool(o['ok'])} {cpays(o['outs'])} {o['base']} {o['other']} {cmap(o['lp'])} {cmap(o['farm'])} "
            f"{cmap(o['locked'])} {cmap(o['pwlp'])} {cmap(o['hlp'])} {cmap(o['hfm'])} {wl} {wf} "
            f"{cmap_all(o['suplp'])} {cmap_all(o['supfm'])} {cmap_all(o['usr'])} {zlit(o['dbase'])} {zlit(o['dlocked'])} "
            f"(mkPEn {zlit(en[0])} {en[1]} {en[2]})")


def coq_history(cfg, trace):
    items = ";\n    ".join(f"({coq_op(op, o)}, {coq_obs(o)})" for op, o in trace)
    return f"(check_trace minit 0 [\n    {items}])"


# ------------------------------------------------------------------ generation
def gen_cfg(rng):
    cfg = sp.gen_cfg(rng)
    lb = log_amount(rng, 10 ** 14) + 10 ** 4
    lo = max(2000, lb * rng.choice([1, 1, 2, 3, 7, 1000]) // rng.choice([1, 2, 3, 5, 1000]))
    cfg.update(base_first2=rng.random() < 0.5, liq2=[lb, lo], fee2=rng.choice([0, 300, 300, 1000]))
    return cfg


class _View:
    """what sys_proxydex.gen_op reads of a world, restricted to pair 0: the existing generator, unchanged, then sees
    exactly the world it was written for (wrapped LP tokens of pair 0 only, pair 0's reserves)"""
    def __init__(self, w):
        s = dict(w.last)
        s["hlp"] = {k: v for k, v in s["hlp"].items() if w.wlp[k // 16]["pair"] == 0}
        s["rbase"], s["rother"], s["S"] = s["res"][0]
        self.last = s
        self.epoch, self.unlock, self.wlp, self.wfm, self.cfg = w.epoch, w.unlock, w.wlp, w.wfm, w.cfg
        self.flags = dict(pair=w.flags["pair0"], farm0=w.flags["farm0"], farm1=w.flags["farm1"])
        if getattr(w, "bigjump", False):
            self.bigjump = True


def lift(op):
    """an operation of sys_proxydex (one pair) as an operation of this world on pair 0"""
    k = op[0]
    if k == "Trade":
        return ["Trade", 0, op[1], op[2]]
    if k == "SetPair":
        return ["SetPair", op[1], 0, op[2]]
    if k in ("AddLiq", "RemoveLiq") and op[2] == 1:
        return op[:2] + [2] + op[3:]            # "another address" of sys_proxydex = pair id 2 here
    return op


def add_op(rng, w, u, pid, lk, extra_from=None):
    """addLiquidityProxy on pair [pid] with the locked nonce lk = (nonce, balance); amounts around the pool ratio"""
    s = w.last
    rb, ro, S = s["res"][pid]
    n, v = lk
    cap = min(v, rb * 1000, 10 ** 16)
    for attempt in range(3):          # mostly amounts the pool accepts; the rest stays as the out-of-range share
        al = log_amount(rng, cap) if rng.random() < 0.8 else rng.randint(1, min(cap, 20))
        c = rng.random()
        if c < 0.4:
            ao = max(1, al * ro // rb + rng.choice([-1, 0, 0, 1, 2]))
        elif c < 0.7:
            ao = max(1, al * ro // rb * rng.choice([2, 3, 10]) + rng.randint(0, 9))
        else:
            ao = max(1, al * ro // rb // rng.choice([2, 3, 10]) + rng.randint(0, 3))
        ao = min(ao, 10 ** 22)
        pl, po = [2, n, al], [OTHER[pid], 0, ao]
        p1, p2 = (pl, po) if w.bf[pid] else (po, pl)
        ra, rbb = (rb, ro) if w.bf[pid] else (ro, rb)
        exp = pair_add(ra, rbb, S, p1[2], p2[2], 1, 1)
        if exp is not None or rng.random() < 0.25:
            break
    if rng.random() < 0.8 or exp is None:
        m1, m2 = 1, 1
    else:
        m1, m2 = max(1, exp[1] + rng.choice([-1, 0, 0, 1])), max(1, exp[2] + rng.choice([-1, 0, 0, 1]))
    extra = []
    if extra_from:
        for (nn, vv) in rng.sample(extra_from, min(len(extra_from), rng.choice([1, 1, 2]))):
            extra.append([3, nn, part_amount(rng, vv)])
    return ["AddLiq", u, pid, p1, p2, extra, m1, m2]


def gen_op(rng, w, stats):
    s = w.last
    users = list(range(1, NUSERS + 1))
    now = w.epoch
    roll = rng.random()
    if not w.flags["pair1"] and rng.random() < 0.5:
        return ["SetPair", OWNER, 1, True]
    if roll < 0.46:
        u = rng.choice(users)
        lp = {pid: [(k // 16, v) for k, v in s["hlp"].items() if k % 16 == u and v > 0 and w.wlp[k // 16]["pair"] == pid]
              for pid in (0, 1)}
        fm = {f: [(k // 16, v) for k, v in s["hfm"].items() if k % 16 == u and v > 0 and w.wfm[k // 16]["ft"] == FARMTOK[f]]
              for f in (0, 1)}
        live_lk = [(n, v) for n, v in s["ulocked"][u].items() if v > 0 and w.unlock.get(n, 0) > now]
        # make sure positions of BOTH pairs exist in one hand early
        if live_lk and (not lp[1] or (not lp[0] and rng.random() < 0.5)) and roll < 0.30:
            return add_op(rng, w, u, 1 if not lp[1] else 0, rng.choice(live_lk))
        # ---------------- what has to be REFUSED: tokens of different pairs / farms offered to one merge
        if roll < 0.10:
            av = []
            if lp[0] and lp[1]:
                av += ["wlp", "wlp", "wlp"]
            if live_lk and (lp[0] or lp[1]):
                av += ["add"]
            if lp[0] or lp[1]:
                av += ["remove"]
            if lp[1]:
                av += ["lpfarm"]
            if fm[0] and fm[1]:
                av += ["wfm", "wfm", "wfm", "wfm"]
            if (fm[1] and live_lk) or (fm[0] and lp[0]):
                av += ["enter", "enter"]
            c = rng.choice(av) if av else None
            if c == "wlp":
                (n0, v0), (n1, v1) = rng.choice(lp[0]), rng.choice(lp[1])
                ps = [[3, n0, part_amount(rng, v0)], [3, n1, part_amount(rng, v1)]]
                if rng.random() < 0.3 and len(lp[0]) + len(lp[1]) > 2:
                    n2, v2 = rng.choice([x for x in lp[0] + lp[1] if x[0] not in (n0, n1)])
                    ps.insert(rng.randint(0, 2), [3, n2, part_amount(rng, v2)])
                if rng.random() < 0.5:
                    ps.reverse()
                return ["MergeWlp", u, ps]
            if c == "add":
                pid = 0 if lp[1] and (not lp[0] or rng.random() < 0.5) else 1      # add on pair pid, merge in the OTHER pair's tokens
                return add_op(rng, w, u, pid, rng.choice(live_lk), extra_from=lp[1 - pid])
            if c == "remove":
                pid = 0 if lp[0] and (not lp[1] or rng.random() < 0.5) else 1
                n, v = rng.choice(lp[pid])
                return ["RemoveLiq", u, 1 - pid, [3, n, part_amount(rng, v)], 1, 1]         # the other pair is named
            if c == "lpfarm":
                n, v = rng.choice(lp[1])
                return ["EnterFarm", u, 1, [3, n, part_amount(rng, v)], []]                  # the LP farm takes pair 0's LP token
            if c == "wfm":
                (m0, v0), (m1, v1) = rng.choice(fm[0]), rng.choice(fm[1])
                ps = [[4, m0, part_amount(rng, v0)], [4, m1, part_amount(rng, v1)]]
                if rng.random() < 0.3 and len(fm[0]) + len(fm[1]) > 2:
                    m2, v2 = rng.choice([x for x in fm[0] + fm[1] if x[0] not in (m0, m1)])
                    ps.insert(rng.randint(0, 2), [4, m2, part_amount(rng, v2)])
                if rng.random() < 0.5:
                    ps.reverse()
                return ["MergeWfm", u, rng.choice([0, 1]), ps]
            if c == "enter":
                # enter one farm and merge in a position of the other one
                f = 0 if fm[1] and live_lk and (not (fm[0] and lp[0]) or rng.random() < 0.5) else 1
                m, v = rng.choice(fm[1 - f])
                if f == 0:
                    n, vv = rng.choice(live_lk)
                    return ["EnterFarm", u, 0, [2, n, log_amount(rng, min(vv, 10 ** 16))], [[4, m, part_amount(rng, v)]]]
                n, vv = rng.choice(lp[0])
                return ["EnterFarm", u, 1, [3, n, part_amount(rng, vv)], [[4, m, part_amount(rng, v)]]]
            roll = 0.10 + rng.random() * 0.36
        # ---------------- the second pair
        if roll < 0.14:
            tin = rng.choice([0, 1])
            r = s["res"][1][tin]
            return ["Trade", 1, tin, max(1, r // rng.choice([1, 2, 3, 10, 50]) + rng.randint(0, 5))]
        if roll < 0.15:
            return rng.choice([["SetPair", OWNER, 1, False], ["SetPair", u, 1, False], ["SetPair", OWNER, 2, False]])
        if roll < 0.26 and live_lk:
            return add_op(rng, w, u, 1, rng.choice(live_lk), extra_from=lp[1] if lp[1] and rng.random() < 0.35 else None)
        if roll < 0.33 and lp[1]:
            n, v = rng.choice(lp[1])
            a = part_amount(rng, v)
            rb, ro, S = s["res"][1]
            ra, rbb = (rb, ro) if w.bf[1] else (ro, rb)
            exp = pair_remove(ra, rbb, S, a, 1, 1)
            if exp is None or rng.random() < 0.8:
                m1, m2 = 1, 1
            else:
                m1, m2 = max(1, exp[0] + rng.choice([-1, 0, 0, 1])), max(1, exp[1] + rng.choice([0, 0, 1]))
            return ["RemoveLiq", u, 1, [3, n, a], m1, m2]
        if roll < 0.41:
            # valid merges within ONE pair (either pair)
            pid = 1 if lp[1] and (not lp[0] or rng.random() < 0.6) else 0
            mine = lp[pid]
            if len(mine) >= 2 and rng.random() < 0.8:
                sel = rng.sample(mine, rng.choice([2, 2, 3]) if len(mine) >= 3 else 2)
                return ["MergeWlp", u, [[3, n, part_amount(rng, v)] for n, v in sel]]
            if mine:
                n, v = rng.choice(mine)
                if v >= 2:
                    a = rng.randint(1, v - 1)
                    return ["MergeWlp", u, [[3, n, a], [3, n, rng.randint(1, v - a)]]]
        if roll < 0.44 and lp[1]:
            n, v = rng.choice(lp[1])
            old = w.unlock.get(w.wlp[n]["k"], 0)
            good = [e for e, _ in OPTS if (now + e) - (now + e) % EPM > old]
            ep = rng.choice(good) if good and rng.random() < 0.85 else rng.choice([e for e, _ in OPTS])
            return ["IncLp", u, [3, n, part_amount(rng, v)], ep]
        if lp[1]:
            n, v = rng.choice(lp[1])
            return ["XferWlp", u, rng.choice([x for x in users if x != u]), n, part_amount(rng, v)]
    # ---------------- the existing generator on pair 0
    view = _View(w)
    op = sp.gen_op(rng, view, stats)
    if getattr(view, "bigjump", False):
        w.bigjump = True
    return lift(op)


def gen_history(seed, nops):
    rng = random.Random(seed)
    cfg = gen_cfg(rng)
    w = MultiWorld(cfg)
    trace = []
    stats = {}
    try:
        for _ in range(nops):
            op = gen_op(rng, w, stats)
            trace.append((op, w.exec(op)))
    finally:
        w.close()
    return cfg, trace


def replay_history(cfg, ops):
    w = MultiWorld(cfg)
    trace = []
    try:
        for op in ops:
            trace.append((op, w.exec(op)))
    finally:
        w.close()
    return trace
