"""Closed metastaking world (C15, closed composition + on-behalf endpoints): the world of tools/sys_metastaking.py
(real pair + farm-with-locked-rewards + farm-staking + energy factory + farm-staking-proxy + permissions-hub, same
deployment, reused by import) extended with

  * two AGENTS (accounts 4, 5) that can be authorised in the real permissions hub and act through
    stakeFarmOnBehalf(user) / claimDualYieldOnBehalf(); users hand them LP-farm positions and dual-yield tokens;
  * EVERY transaction of a history as a first-class, observed operation - also the ones sys_metastaking treats as
    environment (swaps, add liquidity, enterFarm) and the users' own claimRewards / exitFarm on the LP farm - because the
    closed model (coq/Model/MetaClosed.v) COMPUTES the callees' answers and therefore has to follow the callees' states;
  * observations of the callees: LP farm (supply, reward per share, reserve, boosted pools, LP tokens held), staking
    farm (supply, reward per share, reserve, boosted pools), pair (reserves, LP supply), every LP-farm position holding
    of users / agents / proxy, unbond tokens, recorded original owners of the farm tokens the proxy holds, the hub's
    view and raw storage.

Operations (lists):
  proxy       ["Stake", c, pays, False] ["Claim", c, pays, False] ["Unstake", c, pays, m1, m2, False] ["Xfer", s, d, n, amt]
  on behalf   ["StakeOB", a, u, pays]   stakeFarmOnBehalf(u) called by a        ["ClaimOB", a, pays]   claimDualYieldOnBehalf()
  hub         ["Hub", kind, caller, address]   kind in whitelist / removeWhitelist / blacklist / removeBlacklist
  LP farm     ["XferLpf", s, d, n, amt]  ["LpClaim", u, n, amt]  ["LpExit", u, n, amt]   (+ "EnterLp" produced by "Enter")
  pair        ["Swap", dir, amt]  (+ "AddLiq" produced by "Enter")
  compound    ["Enter", u, amt] = addLiquidity + enterFarm: yields the two entries ["AddLiq", u, a1, a2], ["EnterLp", u, lp]
  no entry    ["Time", db, dr, de]  ["Energy", u, amt]

`exec(op)` returns a LIST of (op, observation) entries (empty for Time / Energy / skipped operations).
Inputs of the closed model measured here: the pair's safe-price view before the call (same block), the boosted payouts of
each farm call (from the farms' boosted-pool views and reserves: b = pool_before + cut - pool_after, cut = pct * (reserve
growth + rewards paid) / 10000), block nonce and epoch.
Model ids (coq/Model/MetaClosed.v): users 1..3, agents 4..5, proxy 50, LP farm (as LP-token holder) 60, trader 70, owner 100.
"""
import random
from vmx import *
import sys_metastaking as sm
from sys_metastaking import (WEGLD, RIDE, LPT, LPF, SFT, DY, MEX, LOCKED, NUSERS, OWNER, TRADER, BIG, TK_LP, TK_STK, TK_OTH,
                             TK_REW, TK_LPF, TK_SF, TK_DY, TK_X, TOKID, CODE, LOCK_OPTIONS, zlit, part_of, coq_pays,
                             coq_pairs, log_amount, user_tokens, pick_amount)
from sys_farm import dec_attrs
from sys_staking import dec_sattrs

USERS = tuple(range(1, NUSERS + 1))
AGENTS = (4, 5)
ACCTS = USERS + AGENTS
PX, LPFARM_ID, TRADER_ID, OWNER_ID = 50, 60, 70, 100
MAXP = 10000
HUB_KINDS = ("whitelist", "removeWhitelist", "blacklist", "removeBlacklist")
HUB_COQ = dict(whitelist="hw", removeWhitelist="hrw", blacklist="hb", removeBlacklist="hrb")
PAIRS = [(u, a) for u in USERS for a in ACCTS if a != u]
FIRST_EPOCH = 5
Z4 = (TK_X, 0, TK_X, 0)


def b(v):
    return "true" if v else "false"


class ClosedWorld(sm.MetaWorld):
    def __init__(self, cfg):
        self.setup_trace = []
        self.ready = False
        self.lpf_owner = {}         # LP-farm nonce -> recorded original owner (id), as read from the real token
        self.sf_owner = {}
        self.ub_nonces = set()
        super().__init__(cfg)       # set-up transactions go through self.exec / self.observe of this class
        for a in AGENTS:
            self.addr[a] = user_addr(f"agent{a}")
            self.vm.acct(self.addr[a])
        for (u, a) in cfg.get("hub", {}).get("wl", []):
            r = self.vm.call(self.addr[u], self.hub, "whitelist", [self.addr[a]])
            assert r.ok, r
        for a in cfg.get("hub", {}).get("black", []):
            r = self.vm.call(self.addr[OWNER], self.hub, "blacklist", [self.addr[a]])
            assert r.ok, r
        self.ready = True
        self.last = self.observe()

    # ------------------------------------------------------------ helpers
    def accts(self):
        return [x for x in ACCTS if x in self.addr]

    def idof(self, addr):
        for k, v in self.addr.items():
            if v == addr:
                return OWNER_ID if k == OWNER else (TRADER_ID if k == TRADER else k)
        if addr == self.proxy:
            return PX
        return 0 if addr == b"\0" * 32 else -1

    def qn(self, sc, f, args=()):
        r = self.vm.query(sc, f, args)
        assert r.ok, (f, r)
        return from_top_u(r.out[0]) if r.out else 0

    def pools(self, sc):
        tot = self.qn(sc, "getUndistributedBoostedRewards")
        for w in range(1, (self.ep - FIRST_EPOCH) // 7 + 2):
            tot += self.qn(sc, "getAccumulatedRewardsForWeek", [top_u(w)])
            tot += self.qn(sc, "getRemainingBoostedRewardsToDistribute", [top_u(w)])
        return tot

    def farm_x(self, sc):
        return dict(supply=self.qn(sc, "getFarmTokenSupply"), rps=self.qn(sc, "getRewardPerShare"),
                    reserve=self.qn(sc, "getRewardReserve"), pool=self.pools(sc) if self.cfg["boost"] else 0)

    def boosted(self, pre, post, paid):
        """boosted part of the rewards a farm paid in one transaction (see module docstring)"""
        if not self.cfg["boost"]:
            return 0
        tot = post["reserve"] - pre["reserve"] + paid
        return pre["pool"] + tot * 2500 // MAXP - post["pool"]

    def owner_of_lpf(self, holder, n):
        raw = self.vm.attrs(holder, LPF, n)
        if not raw:
            return None
        try:
            return self.idof(dec_attrs(raw)[4])
        except Exception:
            return None

    def owner_of_sf(self, holder, n):
        raw = self.vm.attrs(holder, SFT, n)
        if not raw:
            return None
        try:
            return self.idof(dec_sattrs(raw)[3])
        except Exception:
            return None

    def hub_view(self):
        out = {}
        for (u, a) in PAIRS:
            if a not in self.addr:
                continue
            r = self.vm.query(self.hub, "isWhitelisted", [self.addr[u], self.addr[a]])
            assert r.ok, r
            out[(u, a)] = bool(r.out and from_top_u(r.out[0]))
        return out

    def hub_storage(self):
        vm, A = self.vm, self.addr
        listed = {(u, a): bool(vm.sget(self.hub, b"whitelistedAddresses" + A[u] + b".index" + A[a])) for (u, a) in PAIRS if a in A}
        black = {a: bool(vm.sget(self.hub, b"blacklistedAddresses.index" + A[a])) for a in self.accts()}
        return listed, black

    # ------------------------------------------------------------ observation
    def observe(self):
        vm = self.vm
        pm = self.tokmap(self.proxy)
        for (c, n), x in pm.items():
            if c in self.seen:
                self.seen[c].add(n)
        hold, users_tok, lheld, ubheld = {}, {}, {}, {}
        for u in self.accts():
            um = self.tokmap(self.addr[u])
            users_tok[u] = um
            for (c, n), x in um.items():
                if c in self.seen:
                    self.seen[c].add(n)
                if c == TK_DY:
                    hold[n * 1000 + u] = x
                    if n not in self.dy_attrs:
                        self.dy_attrs[n] = sm.dec_dy(vm.attrs(self.addr[u], DY, n))
                elif c == TK_LPF:
                    lheld[n * 1000 + u] = x
                elif c == TK_SF:
                    ubheld[n * 1000 + u] = x
                    self.ub_nonces.add(n)
        for n in self.dy_attrs:
            for u in self.accts():
                hold.setdefault(n * 1000 + u, 0)
        for n in self.seen[TK_LPF]:
            for u in self.accts():
                lheld.setdefault(n * 1000 + u, 0)
            lheld[n * 1000 + PX] = pm.get((TK_LPF, n), 0)
        for n in self.ub_nonces:
            for u in self.accts():
                ubheld.setdefault(n * 1000 + u, 0)
        sup = {n: sum(hold[n * 1000 + u] for u in self.accts()) for n in self.dy_attrs}
        # recorded original owners of the farm tokens the proxy holds
        lpo, sfo = {}, {}
        for (c, n), x in pm.items():
            if x > 0 and c == TK_LPF:
                if n not in self.lpf_owner:
                    self.lpf_owner[n] = self.owner_of_lpf(self.proxy, n)
                lpo[n] = self.lpf_owner[n]
            if x > 0 and c == TK_SF:
                if n not in self.sf_owner:
                    self.sf_owner[n] = self.owner_of_sf(self.proxy, n)
                sfo[n] = self.sf_owner[n]
        rq = vm.query(self.pair, "getReservesAndTotalSupply")
        o = dict(lpf={n: pm.get((TK_LPF, n), 0) for n in sorted(self.seen[TK_LPF])},
                 sf={n: pm.get((TK_SF, n), 0) for n in sorted(self.seen[TK_SF])},
                 fung={c: pm.get((c, 0), 0) for c in (TK_LP, TK_STK, TK_OTH, TK_REW, TK_X)},
                 proxy_dy=sum(x for (c, n), x in pm.items() if c == TK_DY),
                 attrs=dict(self.dy_attrs), hold=hold, sup=sup,
                 users={u: {f"{c}:{n}": x for (c, n), x in m.items()} for u, m in users_tok.items()},
                 released={n: list(v) for n, v in self.released.items()},
                 blk=self.blk, rnd=self.rnd, ep=self.ep,
                 lx=self.farm_x(self.lpfarm), sx=self.farm_x(self.stk), lplp=vm.bal(self.lpfarm, LPT),
                 pairx=[from_top_u(x) for x in rq.out], lheld=lheld, ubheld=ubheld, lpo=lpo, sfo=sfo,
                 locked={u: users_tok[u].get((TK_REW, 0), 0) for u in users_tok},
                 ride={u: vm.bal(self.addr[u], RIDE) for u in users_tok})
        if self.ready:
            o["wl"] = self.hub_view()
            o["listed"], o["black"] = self.hub_storage()
        else:
            o["wl"], o["listed"], o["black"] = {}, {}, {}
        return o

    def finish(self, op, o, r, outs, pre, **extra):
        o.update(ok=r.ok, msg=r.msg, outs=outs, pre=pre, env=None, meas=None, bl=0, bs=0, fail=False, spa=Z4, w=0, kind="env")
        o.update(extra)
        self.last = {x: o[x] for x in o if x not in ("pre", "meas")}
        entry = (op, o)
        if not self.ready:
            self.setup_trace.append(entry)
        return [entry]

    # ------------------------------------------------------------ execution
    def exec(self, op):
        vm, A = self.vm, self.addr
        k = op[0]
        if k == "Time":
            self.advance(op[1], op[2], op[3])
            return []
        if k == "Energy":
            _, u, amt = op
            r = vm.call(A[u], self.efact, "lockTokens", [top_u(LOCK_OPTIONS[2][0])], [(MEX, 0, amt)])
            assert r.ok, r
            if getattr(self, "last", None):
                self.last = self.observe()
            return []
        pre = getattr(self, "last", None) or self.observe()
        if k == "Swap":
            _, d, amt = op
            tin, tout = (self.first, self.second) if d == 1 else (self.second, self.first)
            r = vm.call(A[TRADER], self.pair, "swapTokensFixedInput", [tout, top_u(1)], [(tin, 0, amt)])
            self.env_ops += 1
            outs = [dec_payment(r.out[0])[2]] if r.ok else []
            return self.finish(op, self.observe(), r, outs, pre)
        if k == "Enter":
            _, u, amt = op
            out = self.exec(["AddLiq", u, amt, amt])
            o1 = out[0][1]
            if o1["ok"]:
                out += self.exec(["EnterLp", u, o1["outs"][0]])
            return out
        if k == "AddLiq":
            _, u, a1, a2 = op
            r = vm.call(A[u], self.pair, "addLiquidity", [top_u(1), top_u(1)], [(self.first, 0, a1), (self.second, 0, a2)])
            outs = [dec_payment(x)[2] for x in r.out[:3]] if r.ok else []
            self.env_ops += 1
            return self.finish(op, self.observe(), r, outs, pre)
        if k == "EnterLp":
            _, u, lp = op
            r = vm.call(A[u], self.lpfarm, "enterFarm", [], [(LPT, 0, lp)])
            outs = []
            if r.ok:
                p0, p1 = dec_payment(r.out[0]), dec_payment(r.out[1])
                outs = [p0[1], p0[2], p1[2]]
            o = self.observe()
            bl = self.boosted(pre["lx"], o["lx"], outs[2]) if r.ok else 0
            return self.finish(op, o, r, outs, pre, bl=bl)
        if k in ("LpClaim", "LpExit"):
            _, u, n, amt = op
            r = vm.call(A[u], self.lpfarm, "claimRewards" if k == "LpClaim" else "exitFarm", [], [(LPF, n, amt)])
            outs = []
            if r.ok:
                p0, p1 = dec_payment(r.out[0]), dec_payment(r.out[1])
                outs = [p0[1], p0[2], p1[2]] if k == "LpClaim" else [p0[2], p1[2]]
            o = self.observe()
            bl = self.boosted(pre["lx"], o["lx"], outs[-1]) if r.ok else 0
            return self.finish(op, o, r, outs, pre, bl=bl)
        if k == "XferLpf":
            _, s, d, n, amt = op
            r = vm.transfer(A[s], A[d], [(LPF, n, amt)])
            return self.finish(op, self.observe(), r, [], pre)
        if k == "Hub":
            _, kind, c, a = op
            r = vm.call(A[OWNER if c == OWNER_ID else c], self.hub, kind, [A[a]])
            return self.finish(op, self.observe(), r, [], pre, kind="hub")
        if k == "Xfer":
            _, src, dst, n, amt = op
            r = vm.transfer(A[src], A[dst], [(DY, n, amt)])
            return self.finish(op, self.observe(), r, [], pre, kind="proxy")
        return self.proxy_call(op, pre)

    def proxy_call(self, op, pre):
        """the five endpoints of the proxy; measurements as sys_metastaking.MetaWorld.exec, for any caller"""
        vm, A = self.vm, self.addr
        k = op[0]
        if k == "StakeOB":
            _, c, u, pays = op
            base, args, fn = "Stake", [A[u]], "stakeFarmOnBehalf"
        elif k == "ClaimOB":
            _, c, pays = op
            base, args, fn, u = "Claim", [], "claimDualYieldOnBehalf", None
        else:
            c, pays, u = op[1], op[2], op[1]
            base = k
            fn = dict(Stake="stakeFarmTokens", Claim="claimDualYield", Unstake="unstakeFarmTokens")[k]
            args = [top_u(op[3]), top_u(op[4])] if k == "Unstake" else []
        pays = [tuple(p) for p in pays]
        real_pays = [(TOKID.get(t, MEX), n, x) for (t, n, x) in pays]
        # recorded owners of what is paid in, read before the call
        w = 0
        owners = []
        if base == "Stake" and pays and pays[0][0] == TK_LPF:
            w = self.owner_of_lpf(A[c], pays[0][1]) or 0
            owners.append(w)
        for (t, n, x) in (pays[1:] if base == "Stake" else pays):
            a_ = self.dy_attrs.get(n) if t == TK_DY else None
            if a_ is None:
                owners.append(None)
            else:
                lo = self.lpf_owner.get(a_[0]) if a_[0] in self.lpf_owner else self.owner_of_lpf(self.proxy, a_[0])
                so = self.sf_owner.get(a_[2]) if a_[2] in self.sf_owner else self.owner_of_sf(self.proxy, a_[2])
                owners.append((lo, so))
        if k == "ClaimOB":
            ow = owners[0] if owners else None
            u = ow[0] if (ow and ow[0] == ow[1] and ow[0] not in (None, 0, -1)) else None
        pre_tok = {x: self.tokmap(A[x]) for x in self.accts()}
        pre_ride = {x: vm.bal(A[x], RIDE) for x in self.accts()}
        pre_proxy = self.tokmap(self.proxy)
        pre_pair = self.tokmap(self.pair)
        pre_sup = self.stk_supply()
        pre_res = [from_top_u(x) for x in vm.query(self.pair, "getReservesAndTotalSupply").out]
        meas = dict(liq=None, safe=None, spot=None, part=None, quote=None)
        dy_pays = [(n, x) for (t, n, x) in pays if t == TK_DY]
        if base == "Stake":
            if pays and pays[0][0] == TK_LPF:
                meas["liq"] = pays[0][2]
            dy_pays = [(n, x) for (t, n, x) in pays[1:] if t == TK_DY]
        else:
            if len(pays) == 1 and pays[0][0] == TK_DY and pays[0][1] in self.dy_attrs:
                meas["part"] = part_of(self.dy_attrs[pays[0][1]], pays[0][2])
                if meas["part"]:
                    meas["liq"] = meas["part"][1]
        if meas["liq"] is not None and meas["liq"] > 0:
            if base in ("Stake", "Claim"):
                meas["safe"] = self.safe_view(meas["liq"])
                meas["spot"] = self.spot_view(meas["liq"])
            else:
                fa = vm.attrs(self.proxy, LPF, meas["part"][0])
                lp_out = meas["liq"]
                if fa:
                    d = Dec(fa)
                    d.big()
                    entered = d.u64()
                    if self.ep - entered < self.cfg["minep"]:
                        lp_out -= meas["liq"] * self.cfg["pen"] // 10000
                meas["lp_out"] = lp_out
                meas["quote"] = self.spot_view(lp_out) if lp_out > 0 else None
        if base in ("Stake", "Claim") and meas["safe"] is not None and self.stk_side(meas["safe"]) == 0:
            # quantity-0 NFT create: assumption A-NFT0 of tools/props/c15.py.  With merged dual-yield tokens the real
            # stakeFarmThroughProxy accepts the value 0 (no zero-quantity create); Model/StakingPos.v requires amt > 0
            # also for the virtual stake, so the closed model cannot follow that call: not executed either (A-V0)
            if base == "Stake" and dy_pays:
                self.skipped_v0 = getattr(self, "skipped_v0", 0) + 1
            else:
                self.skipped += 1
            return []
        r = vm.call(A[c], self.proxy, fn, args, real_pays)
        post_tok = {x: self.tokmap(A[x]) for x in self.accts()}
        post_proxy = self.tokmap(self.proxy)
        post_pair = self.tokmap(self.pair)

        def delta(pre_m, post_m):
            return {key: post_m.get(key, 0) - pre_m.get(key, 0) for key in set(pre_m) | set(post_m)
                    if post_m.get(key, 0) != pre_m.get(key, 0)}
        dacct = {x: delta(pre_tok[x], post_tok[x]) for x in self.accts()}
        dride = {x: vm.bal(A[x], RIDE) - pre_ride[x] for x in self.accts()}
        duser = dacct[c]
        dproxy = delta(pre_proxy, post_proxy)
        post_res = [from_top_u(x) for x in vm.query(self.pair, "getReservesAndTotalSupply").out]
        meas.update(duser={f"{cc}:{n}": v for (cc, n), v in duser.items()}, dproxy={f"{cc}:{n}": v for (cc, n), v in dproxy.items()},
                    dacct={x: {f"{cc}:{n}": v for (cc, n), v in m.items()} for x, m in dacct.items()}, dride=dride,
                    dpair_stk=post_pair.get((TK_STK, 0), 0) - pre_pair.get((TK_STK, 0), 0),
                    dpair_oth=post_pair.get((TK_OTH, 0), 0) - pre_pair.get((TK_OTH, 0), 0),
                    dres=[x - y for x, y in zip(post_res, pre_res)], dreg=self.stk_supply() - pre_sup,
                    stk_first=bool(self.cfg["stk_first"]), owners=owners, user=u)
        outs, ret = [], []
        if r.ok:
            ret = sm.dec_struct_payments(r.out[0]) if r.out else []
            ret = [(CODE.get(t, TK_X), n, x) for (t, n, x) in ret]
            if base == "Stake" and len(ret) == 3:
                outs = [ret[0][1], ret[0][2], ret[1][2], ret[2][2]]
            elif base == "Claim" and len(ret) == 3:
                outs = [ret[0][2], ret[1][2], ret[2][1], ret[2][2]]
            elif base == "Unstake" and len(ret) == 4:
                outs = [ret[0][2], ret[1][2], ret[2][2], ret[3][1], ret[3][2]]
        meas["ret"] = ret
        bop = [base, c, [list(p) for p in pays]] + ([op[3], op[4]] if base == "Unstake" else []) + [False]
        env = self.measure_env(base, bop, r.ok, meas, dproxy, duser, pays)
        if r.ok:
            meas["release"] = self.account_release(dy_pays, dproxy)
        o = self.observe()
        fail = meas["liq"] is not None and meas["liq"] > 0 and base in ("Stake", "Claim") and meas["safe"] is None
        bl = bs = 0
        if r.ok:
            if base == "Stake":
                paid_l, paid_s = outs[3], outs[2]
            elif base == "Claim":
                paid_l, paid_s = outs[0], outs[1]
            else:
                paid_l, paid_s = outs[1], outs[2]
            bl = self.boosted(pre["lx"], o["lx"], paid_l)
            bs = self.boosted(pre["sx"], o["sx"], paid_s)
        o.update(ok=r.ok, msg=r.msg, outs=outs, env=env, meas=meas, pre=pre, bl=bl, bs=bs, fail=fail,
                 spa=meas["safe"] or Z4, w=w, kind="proxy")
        self.last = {x: o[x] for x in o if x not in ("pre", "meas")}
        entry = (op, o)
        if not self.ready:
            self.setup_trace.append(entry)
        return [entry]


# ------------------------------------------------------------------ Coq emission: closed model
def two(sp):
    return f"({sp[0]}, {zlit(sp[1])}, {sp[2]}, {zlit(sp[3])})"


def cid(x):
    return TRADER_ID if x == TRADER else x


def coq_cop(w, op, o):
    k = op[0]
    blk, ep = o["blk"], o["ep"]
    if k == "Stake":
        return f"CStake {blk} {ep} {op[1]} {coq_pays(op[2])} {b(o['fail'])} {two(o['spa'])} {zlit(o['bs'])} {zlit(o['bl'])}"
    if k == "Claim":
        return f"CClaim {blk} {ep} {op[1]} {coq_pays(op[2])} {b(o['fail'])} {two(o['spa'])} {zlit(o['bl'])} {zlit(o['bs'])}"
    if k == "Unstake":
        return f"CUnstake {blk} {ep} {op[1]} {coq_pays(op[2])} {op[3]} {op[4]} {zlit(o['bl'])} {zlit(o['bs'])}"
    if k == "Xfer":
        return f"CXfer {op[1]} {op[2]} {op[3]} {zlit(op[4])}"
    if k == "StakeOB":
        return f"CStakeOB {blk} {ep} {op[1]} {op[2]} {coq_pays(op[3])} {b(o['fail'])} {two(o['spa'])} {zlit(o['bs'])} {zlit(o['bl'])}"
    if k == "ClaimOB":
        return f"CClaimOB {blk} {ep} {op[1]} {coq_pays(op[2])} {b(o['fail'])} {two(o['spa'])} {zlit(o['bl'])} {zlit(o['bs'])}"
    if k == "Hub":
        return f"CHub ({HUB_COQ[op[1]]} {op[2]} {op[3]})"
    if k == "XferLpf":
        return f"CLp (FL.LF (F.FTransfer {op[3]} {op[1]} {op[2]} {zlit(op[4])}))"
    if k == "Swap":
        tin, tout = (1, 2) if op[1] == 1 else (2, 1)
        return f"CPair (PR.SwapIn {TRADER_ID} {tin} {zlit(op[2])} {tout} 1)"
    if k == "AddLiq":
        return f"CPair (PR.Add {cid(op[1])} {zlit(op[2])} {zlit(op[3])} 1 1)"
    if k == "EnterLp":
        return f"CLp (FL.LF (F.FEnter {blk} {ep} {op[1]} {zlit(op[2])} [] {zlit(o['bl'])}))"
    if k == "LpClaim":
        return f"CLp (FL.LF (F.FClaim {blk} {ep} {op[1]} ({op[2]}, {zlit(op[3])}) [] {zlit(o['bl'])}))"
    if k == "LpExit":
        return f"CLp (FL.LF (F.FExit {blk} {ep} {op[1]} ({op[2]}, {zlit(op[3])}) {zlit(o['bl'])}))"
    raise ValueError(k)


def coq_mobs(o, pre="MR."):
    outs = "[" + "; ".join(zlit(x) for x in o["outs"]) + "]"
    at = "[" + "; ".join(f"({n}, {'MS.' if pre else ''}mkDA {a[0]} {a[1]} {a[2]} {a[3]})" for n, a in sorted(o["attrs"].items())) + "]"
    reg = o["meas"]["dreg"] if o.get("meas") else 0
    return (f"({pre}mkMObs {b(o['ok'])} {outs} {coq_pairs(sorted(o['lpf'].items()))} {coq_pairs(sorted(o['sf'].items()))} "
            f"{coq_pairs(sorted(o['fung'].items()))} {at} {coq_pairs(sorted(o['hold'].items()))} "
            f"{coq_pairs(sorted(o['sup'].items()))} {zlit(reg)} (-1))")


def coq_wl(o):
    return "[" + "; ".join(f"({u}, {a}, {b(v)})" for (u, a), v in sorted(o["wl"].items())) + "]"


def zl(l):
    return "[" + "; ".join(zlit(x) for x in l) + "]"


def coq_cobs(o):
    lx, sx = o["lx"], o["sx"]
    return (f"mkCObs {coq_mobs(o)} {zl([lx['supply'], lx['rps'], lx['reserve'], o['lplp']])} "
            f"{zl([sx['supply'], sx['rps'], sx['reserve']])} {zl(o['pairx'])} {coq_pairs(sorted(o['lheld'].items()))} "
            f"{coq_pairs(sorted(o['ubheld'].items()))} {coq_wl(o)}")


def coq_setup(cfg):
    """the owner's configuration transactions of MetaWorld.__init__ (block 5, epoch 5), as closed operations"""
    st = lambda x: f"CStk (SP.PAdmin ({x}))"
    lp = lambda x: f"CLp (FL.LF ({x}))"
    first, second = (cfg["r_stk"], cfg["r_oth"]) if cfg["stk_first"] else (cfg["r_oth"], cfg["r_stk"])
    ops = [f"CPair (PR.SetState {OWNER_ID} 1)", f"CPair (PR.Add {OWNER_ID} {first} {second} 1 1)",
           f"CLp (FL.LSetLockEpochs {OWNER_ID} {LOCK_OPTIONS[2][0]})",
           lp(f"F.FSetRate 5 {OWNER_ID} {cfg['lp_rate']}"), lp(f"F.FSetMinEpochs {OWNER_ID} {cfg['minep']}"),
           lp(f"F.FSetPenalty {OWNER_ID} {cfg['pen']}"), lp(f"F.FSetState {OWNER_ID} 1"), lp(f"F.FStart 5 {OWNER_ID}")]
    if cfg["boost"]:
        ops += [lp(f"F.FSetPct 5 {OWNER_ID} 2500"), lp(f"F.FSetFactors {OWNER_ID}")]
    ops += [st(f"ST.STopUp {OWNER_ID} {10 ** 40}"), st(f"ST.SSetRate 5 {OWNER_ID} {cfg['stk_rate']}"),
            st(f"ST.SSetState {OWNER_ID} 1"), st(f"ST.SStart 5 {OWNER_ID}")]
    if cfg["boost"]:
        ops += [st(f"ST.SSetPct 5 {OWNER_ID} 2500"), st(f"ST.SSetFactors {OWNER_ID}")]
    ops += [f"CHub (hw {u} {a})" for (u, a) in cfg.get("hub", {}).get("wl", [])]
    ops += [f"CHub (hb {OWNER_ID} {a})" for a in cfg.get("hub", {}).get("black", [])]
    return "[" + ";\n    ".join(ops) + "]"


def coq_init(cfg):
    opts = "[" + "; ".join(str(e) for e, _ in LOCK_OPTIONS) + "]"
    return (f"(init_c {10 ** 12} {opts} {LOCK_OPTIONS[2][0]} {10 ** 12} {cfg['apr']} 10 {cfg['fee']} {min(50, cfg['fee'])} "
            f"{b(cfg['stk_first'])} {OWNER_ID})")


def coq_history(cfg, trace):
    items = ";\n    ".join(f"({coq_cop(None, op, o)}, {coq_cobs(o)})" for op, o in trace)
    return f"(check_closed {coq_init(cfg)} {coq_setup(cfg)} [\n    {items}])"


IMPORTS_CLOSED = "Base.Prelude Gen.Params Model.MetaClosed Run.MetaClosedRun"

# ------------------------------------------------------------------ Coq emission: Model/MetaBehalf.v (answers = inputs)
MB_OPS = ("Stake", "Claim", "Unstake", "Xfer", "StakeOB", "ClaimOB", "Hub")


def env_stake(e):
    return (f"(mkES {b(e['fail'])} {two(e['sp'])} {e['sf'][0]} {zlit(e['sf'][1])} {zlit(e['bs'])} {e['lp'][0]} {zlit(e['lp'][1])} {zlit(e['bl'])})")


def env_claim(e):
    return (f"(mkEC {b(e['fail'])} {two(e['sp'])} {e['lp'][0]} {zlit(e['lp'][1])} {zlit(e['rl'])} {e['sf'][0]} {zlit(e['sf'][1])} {zlit(e['rs'])})")


def coq_mbop(op, o):
    k = op[0]
    if k in ("Stake", "Claim", "Unstake", "Xfer"):
        return f"MBOrd ({sm.coq_op(op, o)}) {zlit(max(0, o['w']))}"
    if k == "Hub":
        return f"MBHub ({HUB_COQ[op[1]]} {op[2]} {op[3]})"
    if k == "StakeOB":
        return f"MBStakeOB {op[1]} {op[2]} {coq_pays(op[3])} {env_stake(o['env'])} {zlit(max(0, o['w']))}"
    if k == "ClaimOB":
        return f"MBClaimOB {op[1]} {coq_pays(op[2])} {env_claim(o['env'])}"
    raise ValueError(k)


def own(v):
    return 0 if v in (None, -1) else v


def coq_bobs(o):
    lpo = coq_pairs(sorted((n, own(v)) for n, v in o["lpo"].items()))
    sfo = coq_pairs(sorted((n, own(v)) for n, v in o["sfo"].items()))
    return f"mkBObs {coq_mobs(o, pre='')} {lpo} {sfo} {coq_wl(o)}"


def coq_behalf_history(cfg, trace):
    tr = [(op, o) for op, o in trace if op[0] in MB_OPS]
    hub = "; ".join([f"MBHub (hw {u} {a})" for (u, a) in cfg.get("hub", {}).get("wl", [])] +
                    [f"MBHub (hb {OWNER_ID} {a})" for a in cfg.get("hub", {}).get("black", [])])
    items = ";\n    ".join(f"({coq_mbop(op, o)}, {coq_bobs(o)})" for op, o in tr)
    return f"(check_behalf (mbrun (init_mb {OWNER_ID}) [{hub}]) 0 [\n    {items}])"


IMPORTS_BEHALF = "Base.Prelude Gen.Params Model.MetaStaking Model.MetaBehalf Run.MetaStakingRun Run.MetaClosedRun"


# ------------------------------------------------------------------ generation
def gen_cfg(rng, scale=None):
    cfg = sm.gen_cfg(rng)
    wl = [(1, 4), (2, 4), (2, 5)]
    if rng.random() < 0.5:
        wl.append((3, 5))
    if rng.random() < 0.3:
        wl.append((3, 4))
    if rng.random() < 0.15:
        wl.append((2, 1))
    cfg["hub"] = dict(wl=wl, black=[5] if rng.random() < 0.12 else [])
    return cfg


def acct_tokens(w, x, code):
    pre = f"{code}:"
    return [(int(key.split(":")[1]), v) for key, v in w.last["users"].get(x, {}).items() if key.startswith(pre) and v > 0]


def dy_owner(w, n):
    """(LP-farm owner, staking-farm owner) recorded under dual-yield nonce n, as far as already read"""
    a = w.dy_attrs.get(n)
    if not a:
        return (None, None)
    return (w.lpf_owner.get(a[0]), w.sf_owner.get(a[2]))


def gen_op(rng, w, focus=False):
    roll = rng.random()
    lpf = {x: acct_tokens(w, x, TK_LPF) for x in ACCTS}
    dy = {x: acct_tokens(w, x, TK_DY) for x in ACCTS}
    wl = w.last.get("wl", {})
    auth = [(u, a) for (u, a), v in wl.items() if v and a in AGENTS]
    ob_share = 0.42 if focus else 0.30
    pend = w.__dict__.setdefault("pending_ops", [])
    while pend:
        it = pend.pop(0)
        op = it(lpf, dy) if callable(it) else it
        if op:
            return op
    if w.cfg.get("boost") and auth and rng.random() < (0.10 if focus else 0.07):
        # scripted: an on-behalf stake that pays out BOOSTED rewards of the LP farm (and of the staking farm): the user hands a
        # position to an authorised agent, the agent stakes part of it on behalf; a week passes, somebody else's LP-farm
        # operation folds that week's rewards into its pool, another week starts; the agent stakes the rest together with the
        # dual-yield token (the LP-farm merge pays the user's LP-farm boosted rewards)
        withe = [(u, a) for (u, a) in auth if lpf[u] and w.cfg.get("energy", {}).get(str(u)) and not w.last.get("black", {}).get(a)]
        if withe:
            u, a = rng.choice(withe)
            n, have = max(lpf[u], key=lambda t: t[1])
            if have >= 4:
                third = rng.choice([x for x in USERS if x != u])
                week = lambda: ["Time", rng.choice([3, 10, 100]), rng.choice([50, 700]), rng.choice([7, 7, 8])]

                def first(lpf_, dy_):
                    mine = dict(lpf_[a]).get(n, 0)
                    return ["StakeOB", a, u, [[TK_LPF, n, max(1, mine // 2)]]] if mine >= 2 else None

                def second(lpf_, dy_):
                    mine = dict(lpf_[a]).get(n, 0)
                    ds = [(dn, dh) for (dn, dh) in dy_[a] if dy_owner(w, dn) == (u, u)]
                    if not mine or not ds:
                        return None
                    dn, dh = max(ds)
                    return ["StakeOB", a, u, [[TK_LPF, n, mine if rng.random() < 0.5 else max(1, mine // 2)], [TK_DY, dn, dh]]]
                pend.extend([first, week(), ["Enter", third, max(1500, 10 ** rng.randint(4, 7))], week(), second])
                return ["XferLpf", u, a, n, have]
    if roll < 0.05:
        # hub operations
        c = rng.random()
        if c < 0.35:
            return ["Hub", "whitelist", rng.choice(USERS), rng.choice(AGENTS)]
        if c < 0.6 and auth:
            u, a = rng.choice(auth)
            return ["Hub", "removeWhitelist", u, a]
        if c < 0.75:
            return ["Hub", "blacklist", OWNER_ID, rng.choice(AGENTS)]
        if c < 0.9:
            return ["Hub", "removeBlacklist", OWNER_ID, rng.choice(AGENTS)]
        return ["Hub", rng.choice(HUB_KINDS), rng.choice(ACCTS), rng.choice(ACCTS)]
    if roll < 0.12:
        # hand positions / dual-yield tokens to an agent (mostly one authorised by the sender) or back
        c = rng.random()
        src_l = [x for x in USERS if lpf[x]]
        src_d = [x for x in USERS if dy[x]]
        if c < 0.45 and src_l:
            s = rng.choice(src_l)
            cands = [a for (u, a) in auth if u == s] or list(AGENTS)
            n, have = rng.choice(lpf[s])
            return ["XferLpf", s, rng.choice(cands) if rng.random() < 0.85 else rng.choice([x for x in ACCTS if x != s]), n, pick_amount(rng, have)]
        if c < 0.8 and src_d:
            s = rng.choice(src_d)
            cands = [a for (u, a) in auth if u == s] or list(AGENTS)
            n, have = rng.choice(dy[s])
            return ["Xfer", s, rng.choice(cands), n, pick_amount(rng, have)]
        back = [a for a in AGENTS if dy[a]]
        if back:
            a = rng.choice(back)
            n, have = rng.choice(dy[a])
            lo, so = dy_owner(w, n)
            dst = lo if (lo in USERS and rng.random() < 0.8) else rng.choice(USERS)
            return ["Xfer", a, dst, n, pick_amount(rng, have)]
    if roll < 0.12 + ob_share:
        op = gen_ob(rng, w, lpf, dy, auth)
        if op:
            return op
    elif roll < 0.12 + ob_share + 0.06:
        # the users' own operations on the LP farm
        cands = [x for x in USERS if lpf[x]]
        if cands:
            u = rng.choice(cands)
            n, have = rng.choice(lpf[u])
            return [rng.choice(["LpClaim", "LpClaim", "LpExit"]), u, n, pick_amount(rng, have)]
    op = sm.gen_op(rng, w)
    if op[0] in ("Stake", "Claim", "Unstake") and op[-1]:
        op[-1] = False          # explicit original caller from a plain account: covered by tools/props/c15.py
    return op


def gen_ob(rng, w, lpf, dy, auth):
    """mostly-valid on-behalf calls; a share with an unauthorised agent, a foreign owner at some payment index, mismatching
    underlying owners, malformed payments"""
    c = rng.random()
    agents = [a for a in AGENTS if lpf[a] or dy[a]]
    if not agents:
        return None
    a = rng.choice(agents)
    if w.last.get("black", {}).get(a) and rng.random() < 0.75:
        return None             # a blacklisted agent fails every time: keep the share small
    mal = rng.random() < 0.22
    own_l = {n: w.owner_of_lpf(w.addr[a], n) for n, _ in lpf[a]}
    if c < 0.5 and lpf[a]:
        n, have = rng.choice(lpf[a])
        u = own_l.get(n)
        if u not in USERS:
            u = rng.choice(USERS)
        if (u, a) not in auth and rng.random() < 0.6:
            return None
        if mal and rng.random() < 0.5:
            u = rng.choice([x for x in USERS if x != u])
        amt = have if rng.random() < 0.4 else rng.randint(1, have)
        pays = [[TK_LPF, n, amt]]
        mine = [(dn, dh) for (dn, dh) in dy[a] if dy_owner(w, dn) == (u, u)]
        other = [(dn, dh) for (dn, dh) in dy[a] if dy_owner(w, dn) != (u, u)]
        if mine and rng.random() < 0.5:
            for (dn, dh) in rng.sample(mine, min(len(mine), rng.choice([1, 1, 2]))):
                pays.append([TK_DY, dn, pick_amount(rng, dh)])
        if other and (mal or rng.random() < 0.08):
            dn, dh = rng.choice(other)
            pays.insert(rng.randint(1, len(pays)), [TK_DY, dn, pick_amount(rng, dh)])
        if mal and rng.random() < 0.2:
            pays = pays[1:] or [[TK_STK, 0, 5]]
        return ["StakeOB", a, u, pays]
    if dy[a]:
        good = [(dn, dh) for (dn, dh) in dy[a] if (dy_owner(w, dn)[0], a) in auth and dy_owner(w, dn)[0] == dy_owner(w, dn)[1]]
        n, have = rng.choice(good if (good and rng.random() < 0.8) else dy[a])
        pays = [[TK_DY, n, pick_amount(rng, have)]]
        if mal and rng.random() < 0.3:
            pays.append([TK_DY, n, 1])
        if mal and rng.random() < 0.2 and lpf[a]:
            pays = [[TK_LPF, lpf[a][0][0], 1]]
        return ["ClaimOB", a, pays]
    return None


def gen_history(seed, nops, focus=False):
    """returns (cfg, trace, gops): trace = set-up entries + one entry per executed transaction, each observation
    carrying [gi] = number of generated operations (gops) executed up to and including the one that produced it"""
    rng = random.Random(seed)
    cfg = gen_cfg(rng)
    w = ClosedWorld(cfg)
    trace = list(w.setup_trace)
    for _, o in trace:
        o["gi"] = 0
    nsetup = len(trace)
    gops = []
    try:
        n, tries = 0, 0
        while n < nops and tries < 8 * nops:
            tries += 1
            op = gen_op(rng, w, focus)
            gops.append(op)
            for e in w.exec(op):
                e[1]["gi"] = len(gops)
                trace.append(e)
                if e[1]["kind"] in ("proxy", "hub") or e[0][0] in ("XferLpf", "LpClaim", "LpExit"):
                    n += 1
    finally:
        skipped, skipped_v0 = w.skipped, getattr(w, "skipped_v0", 0)
        w.close()
    cfg = dict(cfg, nsetup=nsetup, skipped=skipped, skipped_v0=skipped_v0)
    return cfg, trace, gops


def replay_history(cfg, ops):
    """ops: the operations as GENERATED (compound "Enter" etc.), set-up excluded"""
    w = ClosedWorld({k: v for k, v in cfg.items() if k not in ("nsetup", "skipped", "skipped_v0")})
    trace = list(w.setup_trace)
    try:
        for op in ops:
            trace += w.exec(op)
    finally:
        w.close()
    return trace
