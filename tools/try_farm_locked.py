#!/usr/bin/env python3
"""Standalone driver for the farm-with-locked-rewards tie (no framework needed):

    python3 tools/try_farm_locked.py [N histories=200] [ops per history=40] [seed=1] [--no-coq] [--corpus] [--show K] [--dump file]

Runs N generated histories on the real contract (MXVM_BIN selects an executor built against another
tree), evaluates the C05 / C06 / C07 monitors and the contract's own "rewards leave only as locked
tokens" monitor on every observation, replays every history in Coq (Run/FarmLockedRun.lcheck_trace)
and prints the counters, the monitor failures grouped by key and the correspondence mismatches.
Exit status 1 when anything was reported."""
import os, sys, collections, json
sys.path.insert(0, os.path.dirname(os.path.abspath(__file__)))
from props import farm_locked_common as flc


def all_monitors(cfg, op, o):
    out = []
    for tag, m in (("C05", flc.monitors_c05), ("C06", flc.monitors_c06), ("C07", flc.monitors_c07), ("LOCK", flc.monitors_lock)):
        out += [(f"{tag}/{k}", w) for k, w in m(cfg, op, o)]
    return out


def all_nontrivial(cfg, op, o):
    ks = tuple(f(cfg, op, o) for f in (flc.nontrivial_c05, flc.nontrivial_c06, flc.nontrivial_c07))
    return ks if any(k is not None for k in ks) else None


def main():
    args, opts, it = [], {}, iter(sys.argv[1:])
    for a in it:
        if a in ("--show", "--dump"):
            opts[a] = next(it)
        elif a.startswith("--"):
            opts[a] = True
        else:
            args.append(a)
    nh = int(args[0]) if len(args) > 0 else 200
    nops = int(args[1]) if len(args) > 1 else 40
    seed = int(args[2]) if len(args) > 2 else 1
    show = int(opts.get("--show", 3))
    model_ok = "--no-coq" not in opts
    corpus = flc.corpus_locked("C05") if "--corpus" in opts else ()
    ex = flc.explore_locked("TRY", "quick", seed, all_monitors, all_nontrivial, "driver", model_ok=model_ok, nh=nh, nops=nops,
                            corpus=corpus)
    c = ex.counters
    ok, err = c.get("locked:ops:ok", 0), c.get("locked:ops:err", 0)
    print(f"executor: {os.environ.get('MXVM_BIN', 'default (/repo)')}")
    print(f"histories {ex.histories}  operations {ex.evaluations}  ok {ok}  err {err}  success {100.0 * ok / max(1, ok + err):.1f}%")
    print(f"boost on/off: {c.get('locked:cfg:boost', 0)}/{c.get('locked:cfg:no-boost', 0)}   boosted payouts > 0: {c.get('locked:boosted-payout>0', 0)}"
          f"   operations paying locked rewards: {c.get('locked:locked-reward-received', 0)}   distinct non-trivial classes: {len(ex.nontrivial)}")
    print("counters:")
    for k in sorted(c):
        print(f"  {k:55s} {c[k]}")
    by = collections.OrderedDict()
    for f in ex.failures:
        by.setdefault(f["key"], []).append(f)
    print(f"monitor failures: {len(ex.failures)} in {len(by)} keys")
    for k, fs in by.items():
        hs = len({f["replay"]["seed"] for f in fs})
        print(f"  {k}: {len(fs)} (in {hs} histories)")
        for f in fs[:show]:
            print(f"      seed {f['replay']['seed']} op#{len(f['replay']['ops'])}: {f['what'][:400]}")
    print(f"traces replayed in Coq: {ex.traces_validated}   correspondence mismatches: {len(ex.disagreements)}")
    fields = collections.Counter(d["field"] for d in ex.disagreements)
    if fields:
        print("  by field:", dict(fields))
    for d in ex.disagreements[:show]:
        print(f"  seed {d['seed']} cfg {d['cfg']} index {d['index']} field {d['field']} model {d['model']} impl {d['impl']} op {d['op']}")
        print(f"      observed: { {k: v for k, v in d['observed'].items() if k in ('ok', 'msg', 'outs', 'b', 'reserve', 'rps', 'supply', 'pool', 'recv', 'lockep', 'bal_rew')} }")
    if "--dump" in opts:
        p = opts["--dump"]
        json.dump(dict(failures=ex.failures[:20], disagreements=ex.disagreements[:20]), open(p, "w"), default=str)
    return 1 if (ex.failures or ex.disagreements) else 0


if __name__ == "__main__":
    sys.exit(main())
