"""Boosted-yields subsystem (property C11) on the two OTHER hosts of the farm-boosted-yields module, driven through the
mxvm executor.  Both worlds subclass tools/sys_boosted.py's BoostWorld and produce the SAME observation dictionary
(week-indexed storage maps read from the host's storage and cross-read through the real views, config register, claim
progress, user totals, per-week boosted payments = decrease of the completed weeks' pools, ghost ledger), plus a few
host-specific keys.

  LockedBoostWorld   real dex/farm-with-locked-rewards + the REAL energy-factory (it is the farm's energy source AND
                     creates the locked reward tokens through lockVirtual, which raises the receiver's energy) +
                     permissions-hub; deployment as in tools/sys_farm_locked.py.  Every reward reaches the user as
                     LOCKED tokens: `locked_recv` {user: LOCKED amount received in this operation} (enter / merge /
                     claimBoosted: exactly the boosted payment; claim / exit: base + boosted).
                     Energies change three ways: ["Lock", u, amount, option] = lockTokens through the real endpoint;
                     the locked rewards themselves; ["Energy", u, amount, tokens] = the factory's userEnergy(u) entry
                     written directly (what energy-factory-mock's setUserEnergy does: arbitrary entries, also running
                     out inside the window / below the minimum / zero / tokens without energy).
  StakingBoostWorld  real farm-staking + energy-factory-mock + permissions-hub; deployment as in tools/sys_staking.py.
                     Emission of a settlement = min(rate*blocks [if producing], supply*APR/10000/BLOCKS_IN_YEAR*blocks,
                     capacity - accumulated) — the host's own, read from its views; extra keys s_cap, s_accrued, s_apr.

Model ids (coq/Model/Boosted.v): OWNER = 100, users 1..NUSERS.  Coq side: Model/BoostedHosts.v, Run/BoostedHostsRun.v.

Ops (lists; (n, x) = amount x of farm-token nonce n).  Shared with sys_boosted: Advance, Energy, Transfer, SetRate,
Start, End, SetPct, SetFactors, Collect, UpdateEnergy, SetState, Merge.
  locked:   ["Enter", c, amt, adds] ["Claim", c, first, adds] ["Exit", c, p] ["Merge", c, ps] ["ClaimBoosted", c(, u)]
            ["Compound", c, first, adds] (no such endpoint: always fails)  ["Lock", u, amount, option]
  staking:  ["Stake", c, amt, adds] ["Claim", c, p] ["Compound", c, first, adds] ["Unstake", c, p] ["Merge", c, ps]
            ["ClaimBoosted", c(, u)] ["TopUp", who, amt] ["Withdraw", who, amt] ["SetApr", who, apr]
  both:     ["AllowExt", u, flag]  the allowExternalClaim(u) flag written directly (this version has no endpoint for
            it; claimBoostedRewards(opt_user) reads it) — so that claims FOR another user are exercised
`mon_op(op)` is the operation in sys_boosted's vocabulary (user in op[1]) for the ghost ledger and C11's monitors."""
import random
import sys_boosted as sb
from sys_boosted import (REW, LPF, FARM, NUSERS, USERS, OWNER, MAXP, BIG, EPOCHS_IN_WEEK, MAX_CLAIM_WEEKS, zlit, cb,
                         coq_en, coq_fac, coq_obs, log_amount, positions_of)
from vmx import *

LOCKED = b"LOCKED-abcdef"
LEGACY = b"LEGACY-abcdef"
LOCK_OPTIONS = ((360, 4000), (720, 6000), (1440, 8000))
BLOCKS_IN_YEAR = 31_536_000 // 6
IMPORTS = "Base.Prelude Gen.Params Model.Weekly Model.Boosted Model.BoostedHosts Run.BoostedRun Run.BoostedHostsRun"


def nest_bigint(n):
    if n == 0:
        return nest_u32(0)
    b = n.to_bytes((n.bit_length() + 8) // 8, "big", signed=True)
    return nest_u32(len(b)) + b


class HostWorld(sb.BoostWorld):
    """what the two hosts share: execution frame, observation tail, ghost ledger"""
    SYSTEM = None
    CLAIMING = ()          # host op kinds that settle a user's boosted rewards
    SETTLES = ()           # host op kinds that run generate_aggregated_rewards
    TO_MON = {}            # host op kind -> sys_boosted kind

    def init_ghost(self):
        self.g_frozen, self.g_paid, self.g_claimed, self.g_swept = {}, {}, {}, {}
        self.g_und = 0
        self.g_cuts = {}
        self.g_faclog = []
        self.owner_of = {}
        self.allow = {u: False for u in USERS}

    # ---- op helpers
    def user_of(self, op):
        """the user whose boosted rewards / energy entry the operation is about"""
        k = op[0]
        if k == "ClaimBoosted":
            return op[2] if len(op) > 2 else op[1]
        if k in self.CLAIMING:
            return op[1]
        if k == "UpdateEnergy":
            return op[2]
        return None

    def mon_op(self, op):
        k = op[0]
        if k == "ClaimBoosted":
            return ["ClaimBoosted", self.user_of(op)]
        if k == "Claim" and len(op) == 3:
            return ["Claim", op[1], op[2], []]         # farm-staking claimRewards: exactly one position
        return [self.TO_MON.get(k, k)] + list(op[1:])

    def emission(self, pre):
        return pre["rate"] * (self.blk - pre["last_nonce"]) if (pre["produce"] and self.blk > pre["last_nonce"]) else 0

    def call(self, op, pre, inp):
        raise NotImplementedError

    def common_call(self, op, pre, inp):
        """operations that are the same endpoint on every host; returns (result, reported boosted) or None"""
        vm, A, k = self.vm, self.addr, op[0]
        active = pre["state"] == 1
        pays = lambda ps: [(FARM, n, x) for (n, x) in ps]
        ret_b = None
        if k == "Advance":
            r = Result(0, "", [])
        elif k == "AllowExt":
            vm.sset(self.farm, b"allowExternalClaim" + A[op[1]], b"\x01" if op[2] else b"")
            self.allow[op[1]] = bool(op[2])
            r = Result(0, "", [])
        elif k == "Merge":
            _, c, ps = op
            inp["pre_ok"] = active and self.pays_ok(c, ps)
            r = vm.call(A[c], self.farm, "mergeFarmTokens", [], pays(ps))
            if r.ok:
                ret_b = dec_payment(r.out[1])[2]
        elif k == "ClaimBoosted":
            c, u = op[1], self.user_of(op)
            inp["pre_ok"] = active and (u == c or self.allow.get(u, False))
            r = vm.call(A[c], self.farm, "claimBoostedRewards", [] if len(op) == 2 else [A[u]])
            if r.ok:
                ret_b = dec_payment(r.out[0])[2]
        elif k == "Transfer":
            _, n, s, d, amt = op
            r = vm.transfer(A[s], A[d], [(FARM, n, amt)])
        elif k == "SetRate":
            inp["pre_ok"] = op[1] == OWNER and op[2] != 0
            r = vm.call(A[op[1]], self.farm, "setPerBlockRewardAmount", [top_u(op[2])])
        elif k == "Start":
            r = vm.call(A[op[1]], self.farm, "startProduceRewards", [])
        elif k == "End":
            inp["pre_ok"] = op[1] == OWNER
            r = vm.call(A[op[1]], self.farm, "endProduceRewards", [])
        elif k == "SetPct":
            r = vm.call(A[op[1]], self.farm, "setBoostedYieldsRewardsPercentage", [top_u(op[2])])
        elif k == "SetFactors":
            r = vm.call(A[op[1]], self.farm, "setBoostedYieldsFactors", [top_u(x) for x in op[2]])
        elif k == "Collect":
            r = vm.call(A[op[1]], self.farm, "collectUndistributedBoostedRewards", [])
        elif k == "UpdateEnergy":
            r = vm.call(A[op[1]], self.farm, "updateEnergyForUser", [A[op[2]]])
        elif k == "SetState":
            r = vm.call(A[op[1]], self.farm, "resume" if op[2] == 1 else "pause", [])
        else:
            return None
        return r, ret_b

    def exec(self, op):
        vm, k, pre = self.vm, op[0], self.last
        if k == "Advance":
            self.blk += op[1]
            self.ep += op[2]
        else:
            self.blk += 1
        vm.block(nonce=self.blk, round_=self.blk, epoch=self.ep, ts=6 * self.blk)
        inp = dict(pre_ok=True, cur=None, cur2=None, pos=0, posa=0, full=0, supply=0)
        user = self.user_of(op)
        if user is not None and user in USERS:
            inp["cur"] = self.energy_entry(user)          # get_energy_entry(user) as the boosted claim reads it
            inp["pos"] = pre["utot"][user]                # user_total_farm_position(user) BEFORE the operation
        full = self.emission(pre)
        self.before(op)
        res = self.common_call(op, pre, inp)
        r, ret_b = res if res is not None else self.call(op, pre, inp)
        o = self.observe()
        o["ok"], o["msg"], o["ret_b"] = r.ok, r.msg, ret_b
        inp["full"] = full if k in self.SETTLES else 0
        inp["supply"] = o["supply"]
        if user is not None and user in USERS:
            inp["posa"] = o["utot"][user]
            inp["cur2"] = self.energy_entry(user)         # the entry after the operation (same block: nothing decays)
        o["inp"] = inp
        mop = self.mon_op(op)
        mk = mop[0]
        cw = o["week"]
        paid = {}
        if r.ok and mk != "Collect":
            for w in set(pre["acc"]) | set(pre["rem"]):
                if w < cw:
                    d = pre["acc"].get(w, 0) + pre["rem"].get(w, 0) - o["acc"].get(w, 0) - o["rem"].get(w, 0)
                    if d != 0:
                        paid[w] = d
        o["paid"] = paid
        o["b"] = sum(paid.values())
        o["cut"] = (o["acc"].get(cw, 0) - pre["acc"].get(cw, 0)) if (r.ok and mk != "Advance") else 0
        o["pre"] = pre
        o["mop"] = mop
        o["system"] = self.SYSTEM
        self.after(op, o)
        self.ghost(mop, o, pre)
        o["ghost"] = dict(frozen=dict(self.g_frozen), paid=dict(self.g_paid), swept=dict(self.g_swept), und=self.g_und,
                          cuts=dict(self.g_cuts), faclog=list(self.g_faclog),
                          claimed={f"{u}:{w}": n for (u, w), n in self.g_claimed.items()})
        self.last = {x: v for x, v in o.items() if x not in ("pre", "ghost", "inp", "expected")}
        return o

    def before(self, op):
        pass

    def after(self, op, o):
        pass


# ====================================================================== farm-with-locked-rewards + real energy factory
class LockedBoostWorld(HostWorld):
    SYSTEM = "boosted-locked"
    CODE = "farm-with-locked-rewards"
    CLAIMING = ("Enter", "Claim", "Compound", "Exit", "Merge", "ClaimBoosted")
    SETTLES = ("Enter", "Claim", "Exit", "ClaimBoosted", "SetRate", "End", "SetPct")

    def __init__(self, cfg):
        """cfg: dsc, same, rate, epoch0, scale, late_factors, lockep"""
        self.cfg = cfg
        vm = self.vm = VM()
        self.addr = {OWNER: user_addr("owner")}
        for u in USERS:
            self.addr[u] = user_addr(f"user{u}")
        self.ids = {v: k for k, v in self.addr.items()}
        self.farm = sc_addr("lfarm1")
        self.efact = sc_addr("efactory")
        self.hub = sc_addr("permhub")
        for a in self.addr.values():
            vm.acct(a)
        self.blk, self.ep = 10, cfg.get("epoch0", 5)
        vm.block(nonce=self.blk, round_=self.blk, epoch=self.ep, ts=6 * self.blk)
        own = self.addr[OWNER]
        self.rew = REW
        self.farming = REW if cfg["same"] else LPF
        # --- the real energy factory: base asset = the farm's reward token (tools/sys_farm_locked.py)
        args = [REW, LEGACY, self.efact, top_u(0)]
        for e, p in LOCK_OPTIONS:
            args += [top_u(e), top_u(p)]
        r = vm.deploy(own, "energy-factory", args, new_addr=self.efact)
        assert r.ok, r
        vm.sset(self.efact, b"lockedTokenId", LOCKED)
        vm.roles(self.efact, REW, ["ESDTRoleLocalMint", "ESDTRoleLocalBurn"])
        vm.roles(self.efact, LOCKED, ["ESDTRoleNFTCreate", "ESDTRoleNFTAddQuantity", "ESDTRoleNFTBurn", "ESDTTransferRole"])
        assert vm.call(own, self.efact, "unpause").ok
        r = vm.deploy(own, "permissions-hub", [], new_addr=self.hub)
        assert r.ok, r
        r = vm.deploy(own, self.CODE, [self.rew, self.farming, top_u(cfg["dsc"]), ZERO_ADDR, own], new_addr=self.farm)
        assert r.ok, r
        vm.sset(self.farm, b"farm_token_id", FARM)
        vm.roles(self.farm, FARM, ["ESDTRoleNFTCreate", "ESDTRoleNFTAddQuantity", "ESDTRoleNFTBurn"])
        vm.roles(self.farm, self.farming, ["ESDTRoleLocalBurn"])
        for f, a in (("setLockingScAddress", [self.efact]), ("setLockEpochs", [top_u(cfg.get("lockep", 360))]),
                     ("setEnergyFactoryAddress", [self.efact]), ("setPermissionsHubAddress", [self.hub])):
            r = vm.call(own, self.farm, f, a)
            assert r.ok, (f, r)
        assert vm.call(own, self.efact, "addSCAddressToWhitelist", [self.farm]).ok
        for u in USERS:
            vm.setbal(self.addr[u], self.farming, 0, BIG)
            vm.setbal(self.addr[u], self.rew, 0, BIG)
        self.first_epoch = self.ep
        assert vm.call(own, self.farm, "setPerBlockRewardAmount", [top_u(cfg["rate"])]).ok
        assert vm.call(own, self.farm, "resume", []).ok
        assert vm.call(own, self.farm, "startProduceRewards", []).ok
        self.init_ghost()
        self.pre_locked = self.locked_holdings()
        self.last = self.observe()

    def locked_holdings(self):
        return {u: sum(a for (t, n, a) in self.vm.tokens(self.addr[u]) if t == LOCKED) for u in USERS}

    def before(self, op):
        self.pre_locked = self.locked_holdings()

    def after(self, op, o):
        now = self.locked_holdings()
        o["locked_recv"] = {u: now[u] - self.pre_locked[u] for u in USERS if now[u] != self.pre_locked[u]}

    def call(self, op, pre, inp):
        vm, A, k = self.vm, self.addr, op[0]
        active = pre["state"] == 1
        pays = lambda ps: [(FARM, n, x) for (n, x) in ps]
        ret_b = None
        if k == "Energy":
            # the factory's userEnergy(u) entry written directly (= energy-factory-mock setUserEnergy)
            _, u, en, locked = op
            vm.sset(self.efact, b"userEnergy" + A[u], nest_bigint(en) + nest_u64(self.ep) + nest_big(locked))
            r = Result(0, "", [])
        elif k == "Lock":
            _, u, amt, opt = op
            r = vm.call(A[u], self.efact, "lockTokens", [top_u(LOCK_OPTIONS[opt][0])], [(self.rew, 0, amt)])
            assert r.ok, r
        elif k == "Enter":
            _, c, amt, adds = op
            inp["pre_ok"] = active and amt > 0 and (not adds or self.pays_ok(c, adds))
            r = vm.call(A[c], self.farm, "enterFarm", [], [(self.farming, 0, amt)] + pays(adds))
            if r.ok:
                ret_b = dec_payment(r.out[1])[2]
        elif k == "Claim":
            _, c, first, adds = op
            inp["pre_ok"] = active and self.pays_ok(c, [first] + adds)
            r = vm.call(A[c], self.farm, "claimRewards", [], pays([first] + adds))
        elif k == "Compound":
            _, c, first, adds = op
            inp["pre_ok"] = False                                   # the contract has no compoundRewards endpoint
            r = vm.call(A[c], self.farm, "compoundRewards", [], pays([first] + adds))
        elif k == "Exit":
            _, c, p = op
            inp["pre_ok"] = active and self.pays_ok(c, [p])
            r = vm.call(A[c], self.farm, "exitFarm", [], pays([p]))
        else:
            raise ValueError(k)
        return r, ret_b


# ====================================================================== farm-staking + energy-factory-mock
class StakingBoostWorld(HostWorld):
    SYSTEM = "boosted-staking"
    CODE = "farm-staking"
    CLAIMING = ("Stake", "Claim", "Compound", "Unstake", "Merge", "ClaimBoosted")
    SETTLES = ("Stake", "Claim", "Compound", "Unstake", "ClaimBoosted", "SetRate", "End", "SetPct", "Withdraw", "SetApr")
    # the monitors' vocabulary: stakeFarm is the enter, unstakeFarm the exit; the settle-only admin endpoints count as
    # sys_boosted's settle-only "End" (C11's slice monitor only asks: did the operation settle, with which emission)
    TO_MON = dict(Stake="Enter", Unstake="Exit", Withdraw="End", SetApr="End")

    def __init__(self, cfg):
        """cfg: dsc, rate, epoch0, scale, late_factors, apr, minub, cap (initial topUpRewards)"""
        self.cfg = cfg
        vm = self.vm = VM()
        self.addr = {OWNER: user_addr("owner")}
        for u in USERS:
            self.addr[u] = user_addr(f"user{u}")
        self.ids = {v: k for k, v in self.addr.items()}
        self.farm = sc_addr("staking1")
        self.efact = sc_addr("efactory")
        self.hub = sc_addr("permhub")
        for a in self.addr.values():
            vm.acct(a)
        self.blk, self.ep = 10, cfg.get("epoch0", 5)
        vm.block(nonce=self.blk, round_=self.blk, epoch=self.ep, ts=6 * self.blk)
        own = self.addr[OWNER]
        self.rew = self.farming = REW                      # staking token = reward token
        assert vm.deploy(own, "energy-factory-mock", [], new_addr=self.efact).ok
        assert vm.deploy(own, "permissions-hub", [], new_addr=self.hub).ok
        r = vm.deploy(own, self.CODE, [REW, top_u(cfg["dsc"]), top_u(cfg["apr"]), top_u(cfg.get("minub", 3)), own], new_addr=self.farm)
        assert r.ok, r
        vm.sset(self.farm, b"farm_token_id", FARM)
        vm.roles(self.farm, FARM, ["ESDTRoleNFTCreate", "ESDTRoleNFTAddQuantity", "ESDTRoleNFTBurn"])
        assert vm.call(own, self.farm, "setEnergyFactoryAddress", [self.efact]).ok
        assert vm.call(own, self.farm, "setPermissionsHubAddress", [self.hub]).ok
        for u in USERS + [OWNER]:
            vm.setbal(self.addr[u], REW, 0, BIG)
        self.first_epoch = self.ep
        assert vm.call(own, self.farm, "topUpRewards", [], [(REW, 0, cfg["cap"])]).ok
        assert vm.call(own, self.farm, "setPerBlockRewardAmount", [top_u(cfg["rate"])]).ok
        assert vm.call(own, self.farm, "resume", []).ok
        assert vm.call(own, self.farm, "startProduceRewards", []).ok
        self.init_ghost()
        self.unbond = set()
        self.last = self.observe()

    def observe(self):
        vm = self.vm
        # position attributes here are {reward_per_share, compounded_reward, current_farm_amount, original_owner};
        # unbond tokens (8 bytes of attributes: the unlock epoch) share the farm token id and are not positions
        for u in USERS:
            for (t, n, a) in vm.tokens(self.addr[u]):
                if t == FARM and a > 0 and n not in self.owner_of:
                    b = vm.attrs(self.addr[u], FARM, n)
                    if len(b) == 8:
                        self.unbond.add(n)
                        self.owner_of[n] = -2
                    else:
                        d = Dec(b)
                        d.big(); d.big(); d.big()
                        self.owner_of[n] = self.ids.get(d.addr(), -1)
        o = sb.BoostWorld.observe(self)
        o["held"] = {u: {n: a for n, a in h.items() if n not in self.unbond} for u, h in o["held"].items()}
        o["owner_of"] = {n: x for n, x in o["owner_of"].items() if n not in self.unbond}
        o["s_cap"] = self.q("getRewardCapacity")
        o["s_accrued"] = self.q("getAccumulatedRewards")
        o["s_apr"] = self.q("getAnnualPercentageRewards")
        return o

    def emission(self, pre):
        """FarmStakingWrapper::generate_aggregated_rewards: min(min(rate*blocks, APR-bounded), capacity - accumulated)"""
        if self.blk <= pre["last_nonce"]:
            return 0
        d = self.blk - pre["last_nonce"]
        unb = pre["rate"] * d if pre["produce"] else 0
        aprb = (pre["supply"] * pre["s_apr"] // MAXP // BLOCKS_IN_YEAR) * d
        return min(unb, aprb, pre["s_cap"] - pre["s_accrued"])

    def call(self, op, pre, inp):
        vm, A, k = self.vm, self.addr, op[0]
        active = pre["state"] == 1
        pays = lambda ps: [(FARM, n, x) for (n, x) in ps]
        ret_b = None
        if k == "Energy":
            _, u, en, locked = op
            r = vm.call(A[OWNER], self.efact, "setUserEnergy", [A[u], top_u(en), top_u(locked)])
            assert r.ok
        elif k == "Stake":
            _, c, amt, adds = op
            inp["pre_ok"] = active and amt > 0 and (not adds or self.pays_ok(c, adds))
            r = vm.call(A[c], self.farm, "stakeFarm", [], [(REW, 0, amt)] + pays(adds))
            if r.ok:
                ret_b = dec_payment(r.out[1])[2]
        elif k == "Claim":
            _, c, p = op
            inp["pre_ok"] = active and self.pays_ok(c, [p])
            r = vm.call(A[c], self.farm, "claimRewards", [], pays([p]))
        elif k == "Compound":
            _, c, first, adds = op
            inp["pre_ok"] = active and self.pays_ok(c, [first] + adds)
            r = vm.call(A[c], self.farm, "compoundRewards", [], pays([first] + adds))
        elif k == "Unstake":
            _, c, p = op
            inp["pre_ok"] = active and self.pays_ok(c, [p])
            r = vm.call(A[c], self.farm, "unstakeFarm", [], pays([p]))
        elif k == "TopUp":
            r = vm.call(A[op[1]], self.farm, "topUpRewards", [], [(REW, 0, op[2])])
        elif k == "Withdraw":
            # settles first; then: amount <= capacity - accumulated (as settled)
            inp["pre_ok"] = op[1] == OWNER and op[2] <= pre["s_cap"] - pre["s_accrued"] - self.emission(pre)
            r = vm.call(A[op[1]], self.farm, "withdrawRewards", [top_u(op[2])])
        elif k == "SetApr":
            inp["pre_ok"] = op[1] == OWNER and op[2] != 0
            r = vm.call(A[op[1]], self.farm, "setMaxApr", [top_u(op[2])])
        else:
            raise ValueError(k)
        return r, ret_b


# ------------------------------------------------------------------ Coq emission
def _claim_args(op, o):
    i = o["inp"]
    u = op[2] if (op[0] == "ClaimBoosted" and len(op) > 2) else op[1]
    return f"{cb(i['pre_ok'])} {u} {coq_en(i['cur'])} {i['pos']}"


def coq_op_common(op, o):
    """the endpoints that call the module exactly as dex/farm's do: HBase; "" = not a module operation"""
    k, i = op[0], o["inp"]
    if k == "Advance":
        return f"HBase (BAdvance {op[2]})"
    if k in ("Energy", "Lock", "Transfer", "Start", "SetState", "AllowExt", "TopUp"):
        return ""
    if k == "Merge":
        return f"HBase (BMerge {_claim_args(op, o)})"
    if k == "ClaimBoosted":
        return f"HBase (BClaimBoosted {_claim_args(op, o)} {i['full']} {i['supply']})"
    if k in ("SetRate", "End", "Withdraw", "SetApr"):
        return f"HBase (BSettle {cb(i['pre_ok'])} {i['full']})"
    if k == "SetPct":
        return f"HBase (BSetPct {op[1]} {op[2]} {i['full']})"
    if k == "SetFactors":
        return f"HBase (BSetFactors {op[1]} {coq_fac(op[2])})"
    if k == "Collect":
        return f"HBase (BCollect {op[1]})"
    if k == "UpdateEnergy":
        return f"HBase (BUpdateEnergy {op[2]} {coq_en(i['cur'])})"
    return None


def coq_op_locked(op, o):
    c = coq_op_common(op, o)
    if c is not None:
        return c or None
    k, i = op[0], o["inp"]
    a = _claim_args(op, o)
    if k == "Enter":
        # the second energy entry: what update_energy_and_progress read after the boosted payout was locked
        return f"HLEnter {cb(i['pre_ok'])} {op[1]} {coq_en(i['cur'])} {coq_en(i['cur2'])} {i['pos']} {i['full']} {i['supply']}"
    if k == "Claim":
        return f"HBase (BClaim {a} {i['full']} {i['supply']})"
    if k == "Compound":
        return f"HBase (BCompound {a} {i['full']} {i['supply']})"
    if k == "Exit":
        return f"HBase (BExit {a} {i['posa']} {i['full']} {i['supply']})"
    raise ValueError(k)


def coq_op_staking(op, o):
    c = coq_op_common(op, o)
    if c is not None:
        return c or None
    k, i = op[0], o["inp"]
    a = _claim_args(op, o)
    if k == "Stake":
        return f"HBase (BEnter {a} {i['full']} {i['supply']})"
    if k == "Claim":
        return f"HSClaim {a} {i['full']} {i['supply']}"
    if k == "Compound":
        return f"HSCompound {a} {i['full']} {i['supply']}"
    if k == "Unstake":
        return f"HSUnstake {a} {i['posa']} {i['full']} {i['supply']}"
    raise ValueError(k)


COQ_OP = {"boosted-locked": coq_op_locked, "boosted-staking": coq_op_staking}
CHECKER = {"boosted-locked": "check_trace_locked", "boosted-staking": "check_trace_staking"}


def coq_history(system, cfg, trace):
    items = []
    for op, o in trace:
        c = COQ_OP[system](op, o)
        if c is not None:
            items.append(f"({c}, {coq_obs(o)})")
    return f"({CHECKER[system]} (init_b {cfg.get('epoch0', 5)}) 0 [\n    " + ";\n    ".join(items) + "])"


def model_trace(system, trace):
    return [(op, o) for op, o in trace if COQ_OP[system](op, o) is not None]


# ------------------------------------------------------------------ generation
def gen_cfg_locked(rng):
    cfg = sb.gen_cfg(rng)
    cfg["lockep"] = rng.choice([360, 360, 720, 1440])
    return cfg


def gen_cfg_staking(rng):
    """APR / capacity chosen so that the boosted pools are not starved: the APR-bounded per-block amount
    supply*apr/10000/5256000 is comparable to or above the per-block rate for the history's typical stake `scale`
    (apr 1e9 .. 1e15), sometimes binding (1e7); the capacity is ample in most histories and tight (crossed and
    topped up again) in almost half"""
    cfg = sb.gen_cfg(rng)
    cfg["same"] = True
    scale = cfg["scale"]
    cfg["apr"] = rng.choice([10 ** 7, 10 ** 9, 10 ** 9, 10 ** 12, 10 ** 12, 10 ** 15])
    cfg["rate"] = rng.choice([max(1, scale // 1000), scale, scale * 7 + 3, scale * 1000 + 1, 1000, 10 ** 6, 10 ** 9])
    cfg["minub"] = rng.choice([0, 1, 3, 10])
    cfg["cap"] = 10 ** 45 if rng.random() < 0.55 else cfg["rate"] * rng.choice([30, 100, 300, 1500]) + rng.randint(0, 9)
    return cfg


def _post_locked(rng, w, op):
    """sys_boosted's generated operation in the locked farm's vocabulary"""
    if op[0] == "Compound" and rng.random() < 0.9:
        return ["Claim"] + list(op[1:])            # the contract has no compoundRewards; keep a few as malformed calls
    return op


def _ext_ops(rng, w, roll, lo):
    """claimBoostedRewards FOR another user: the allowExternalClaim flag of two users is set once the farm is up; later
    mostly a user whose recorded progress is behind the current week (he still has weeks to settle) is claimed for.
    Also: the admin collects as soon as a week has left the claim window (sys_boosted's generator tries collects blindly)"""
    o = w.last
    if not w.__dict__.get("ext_init"):
        w.ext_init = True
        us = rng.sample(USERS, 2)
        w.script.append(["AllowExt", us[1], True])
        return ["AllowExt", us[0], True]
    if o["week"] - MAX_CLAIM_WEEKS - 1 > o["lastcol"] and rng.random() < 0.07:
        return ["Collect", OWNER]            # weeks have left the claim window and are not collected yet
    if roll < lo + 0.015:
        return ["AllowExt", rng.choice(USERS), rng.random() < 0.7]
    if roll < lo + 0.075:
        allowed = [u for u in USERS if w.allow.get(u) and o["utot"].get(u, 0) > 0]
        behind = [u for u in allowed if o["prog"].get(u) and o["prog"][u][3] < o["week"]]
        r = rng.random()
        u = rng.choice(behind) if (behind and r < 0.8) else rng.choice(allowed) if (allowed and r < 0.93) else rng.choice(USERS)
        return ["ClaimBoosted", rng.choice([c for c in USERS if c != u]), u]
    return None


def _week_change_ext(rng, w):
    """right after a week change: sometimes somebody claims FOR a user who allows it and still has the week to settle"""
    o = w.last
    if o["week"] > w.__dict__.get("seen_week", 1):
        w.seen_week = o["week"]
        cand = [u for u in USERS if w.allow.get(u) and o["utot"].get(u, 0) > 0 and o["prog"].get(u)]
        if cand and rng.random() < 0.45:
            u = rng.choice(cand)
            return ["ClaimBoosted", rng.choice([c for c in USERS if c != u]), u]
    return None


def gen_op_locked(rng, w):
    o = w.last
    roll = rng.random()
    x = _week_change_ext(rng, w)
    if x is not None:
        return x
    if not w.__dict__.get("script") and w.__dict__.get("stage", 0) >= 1:
        if roll < 0.05:
            # a real lock through the energy factory (raises the energy by amount * lock epochs)
            return ["Lock", rng.choice(USERS), log_amount(rng, 10 ** 9) * rng.choice([1, w.cfg["scale"]]), rng.randrange(len(LOCK_OPTIONS))]
        x = _ext_ops(rng, w, roll, 0.05)
        if x is not None:
            return x
    return _post_locked(rng, w, sb.gen_op(rng, w))


def _post_staking(rng, w, op):
    """sys_boosted's generated operation in farm-staking's vocabulary"""
    k = op[0]
    if k == "Enter":
        return ["Stake"] + list(op[1:])
    if k == "Exit":
        return ["Unstake"] + list(op[1:])
    if k == "Claim":
        _, c, first, adds = op
        if not adds:
            return ["Claim", c, first]             # claimRewards takes exactly one position
        return ["Compound", c, first, adds] if rng.random() < 0.5 else ["Merge", c, [first] + list(adds)]
    return op


def gen_op_staking(rng, w):
    o = w.last
    roll = rng.random()
    x = _week_change_ext(rng, w)
    if x is not None:
        return x
    if not w.__dict__.get("script") and w.__dict__.get("stage", 0) >= 1:
        rem = o["s_cap"] - o["s_accrued"]
        if rem <= o["s_cap"] // 10 and roll < 0.35:
            return ["TopUp", OWNER, max(1, w.cfg["rate"]) * rng.choice([50, 500, 5000])]
        if roll < 0.03:
            who = rng.choice([OWNER] * 5 + USERS[:2])
            return rng.choice([["TopUp", who, log_amount(rng, 10 ** 12) * w.cfg["scale"]],
                               ["Withdraw", who, rng.choice([0, 1, rem, rem + 1, rem // 2, max(0, rem - o["rate"] * 3)])],
                               ["SetApr", who, rng.choice([0, 10 ** 7, 10 ** 9, 10 ** 12, 10 ** 15])]])
        x = _ext_ops(rng, w, roll, 0.03)
        if x is not None:
            return x
    return _post_staking(rng, w, sb.gen_op(rng, w))


WORLD = {"boosted-locked": LockedBoostWorld, "boosted-staking": StakingBoostWorld}
GEN_CFG = {"boosted-locked": gen_cfg_locked, "boosted-staking": gen_cfg_staking}
GEN_OP = {"boosted-locked": gen_op_locked, "boosted-staking": gen_op_staking}


def normalize(op):
    """ops read back from JSON replays: payments as tuples"""
    k = op[0]
    t = lambda p: (p[0], p[1])
    if k in ("Enter", "Stake"):
        return [k, op[1], op[2], [t(p) for p in op[3]]]
    if k == "Compound" or (k == "Claim" and len(op) == 4):
        return [k, op[1], t(op[2]), [t(p) for p in op[3]]]
    if k in ("Exit", "Unstake", "Claim"):
        return [k, op[1], t(op[2])]
    if k == "Merge":
        return [k, op[1], [t(p) for p in op[2]]]
    return list(op)


def gen_history(system, seed, nops):
    rng = random.Random(seed)
    cfg = GEN_CFG[system](rng)
    w = WORLD[system](cfg)
    trace = []
    try:
        for _ in range(nops):
            op = normalize(GEN_OP[system](rng, w))
            trace.append((op, w.exec(op)))
    finally:
        w.close()
    return cfg, trace


def replay_history(system, cfg, ops):
    w = WORLD[system](cfg)
    trace = []
    try:
        for op in ops:
            op = normalize(op)
            trace.append((op, w.exec(op)))
    finally:
        w.close()
    return trace
