"""Closed proxy-DEX world (C16 closed composition; C08 for proxy positions): the world of tools/sys_proxydex.py (real pair +
two real farm-with-locked-rewards + real energy-factory + real proxy_dex, same deployment, reused by import) extended with

  * EVERY transaction of a history as a first-class, observed operation - also the ones sys_proxydex treats as environment
    (pool trades, time) - because the closed model (coq/Model/ProxyClosed.v) COMPUTES the callees' answers and therefore has
    to follow the callees' states;
  * more environment: the users' own energy-factory operations (lockTokens with the base asset / re-locking a locked token),
    direct positions of the outside trader in the base-asset farm (enterFarm / claimRewards / exitFarm, not through the proxy);
  * observations of the callees: pair (reserves, LP supply, LP balances of every holder), farms (farm token supply, reward per
    share, farming tokens held, farm tokens of the proxy and the trader), factory (energy entry and locked balances of every
    account);
  * inputs of the closed model measured here: the boosted payout of every farm call (enter / merge: the reward returned;
    claim / exit: reward - amount * (reward per share now - reward per share recorded in the position) / DSC), block / epoch;
  * the harness's tally of CARRIED locked tokens: every change of the proxy's REAL locked balances inside a transaction is
    attributed to the caller (deposits +, redemptions and burns -) - the attribution of DESIGN.md's watch-list made precise.

Locked-token nonces are translated to unlock epochs (the factory keeps one nonce per unlock epoch; Model/Energy.v identifies
a locked token with its unlock epoch) in payments, wrapped attributes, balances and nested answers.

Operations (lists), in addition to those of sys_proxydex (AddLiq, RemoveLiq, EnterFarm, ExitFarm, Claim, MergeWlp, MergeWfm,
IncLp, IncFm, SetPair, SetFarm, XferWlp, XferWfm, Trade, Time):
  ["Lock", u, amount, lock_epochs]            lockTokens(lock_epochs) with the base asset
  ["Extend", u, locked nonce, amount, epochs] lockTokens(epochs) with a locked token of the user
  ["FEnter", amount] ["FClaim", nonce, amount] ["FExit", nonce, amount]   the trader's own position in the base-asset farm
Model ids (coq/Model/ProxyClosed.v): users 1..3, trader 7, proxy 50, LP farm 60, owner 100.
"""
import random
from vmx import *
import sys_proxydex as sp
from sys_proxydex import (MEX, WEGLD, LP, FARML, FARMLP, LOCKED, WPLP, WPFARM, TOK, CODE, FARMTOK, NUSERS, OWNER, DSC, OPTS,
                          EPM, zlit, cbool, cpair, cmap, cmap_all, dec_energy, log_amount, part_amount)
from sys_farm import dec_attrs

TR = 7
ACCTS = tuple(range(1, NUSERS + 1)) + (TR,)
PROXY_OPS = ("AddLiq", "RemoveLiq", "EnterFarm", "ExitFarm", "Claim", "MergeWlp", "MergeWfm", "IncLp", "IncFm",
             "SetPair", "SetFarm", "XferWlp", "XferWfm")
NESTED = ("AddLiq", "RemoveLiq", "EnterFarm", "ExitFarm", "Claim", "MergeWlp", "MergeWfm", "IncLp", "IncFm")
IMPORTS = "Base.Prelude Gen.Params Model.ProxyDex Run.ProxyDexRun Model.ProxyClosed Run.ProxyClosedRun"


class ClosedWorld(sp.ProxyWorld):
    def __init__(self, cfg):
        self.carried = {}
        self.lp_burned = 0
        self.depositor_lp, self.depositor_fm = {}, {}
        self.moved_lp, self.moved_fm = set(), set()
        sp.ProxyWorld.__init__(self, cfg)
        self.addr7 = self.trader

    def A(self, u):
        return self.trader if u == TR else self.addr[u]

    def E(self, n):
        """unlock epoch of a locked nonce (0 for no token)"""
        return self.unlock.get(n, 0)

    # ------------------------------------------------------------ observation
    def observe(self):
        vm = self.vm
        o = sp.ProxyWorld.observe(self)
        o["frps"] = {i: from_top_u((vm.query(self.farms[i], "getRewardPerShare").out or [b""])[0]) for i in (0, 1)}
        tl, tf = {}, {}
        for t, n, amt in vm.tokens(self.trader):
            if t == LOCKED:
                tl[n] = amt
                if n not in self.unlock:
                    self.unlock[n] = sp.dec_locked_attrs(vm.attrs(self.trader, LOCKED, n))
            elif t == FARML:
                tf[n * 2] = amt
            elif t == FARMLP:
                tf[n * 2 + 1] = amt
        o["ulocked"][TR] = tl
        o["tfarm"] = tf
        o["energy"][TR] = dec_energy((vm.query(self.efact, "getEnergyEntryForUser", [self.trader]).out or [b""])[0])
        if o["energy"][TR] == (0, 0, 0):
            o["energy"][TR] = (0, self.epoch, 0)
        holders = dict(owner=self.addr[OWNER], proxy=self.proxy, farmlp=self.farm_l, pair=self.pair, trader=self.trader,
                       farmmex=self.farm_m)
        for u in range(1, NUSERS + 1):
            holders[f"user{u}"] = self.addr[u]
        o["lpbal"] = {k: vm.bal(a, LP) for k, a in holders.items()}
        o["f0mex"] = vm.bal(self.farm_m, MEX)
        o["pairmex"] = vm.bal(self.pair, MEX)
        o["lp_burned"] = getattr(self, "lp_burned", 0)
        return o

    def farm_rps_of(self, holder, farm, f):
        b = self.vm.attrs(holder, FARMTOK[farm], f)
        return dec_attrs(b)[0] if b else None

    def boosted_part(self, farm, amount, reward, rps_attr, rps_now):
        base = amount * (rps_now - rps_attr) // DSC if (rps_attr is not None and rps_attr < rps_now) else 0
        return reward - base

    def base_obs(self, pre, ok, msg, outs):
        o = self.observe()
        o.update(ok=ok, msg=msg, outs=[], eouts=outs, new_wlp={}, new_wfm={}, exit_pen=None)
        o["dbase"] = o["tbase"] - pre["tbase"]
        o["dlocked"] = o["tlocked"] - pre["tlocked"]
        o["epost"] = (0, self.epoch, 0)
        o["pre"] = pre
        o["wlp_tab"], o["wfm_tab"], o["unlock_tab"] = dict(self.wlp), dict(self.wfm), dict(self.unlock)
        self.last = {x: v for x, v in o.items() if x not in ("pre", "env", "wlp_tab", "wfm_tab", "unlock_tab")}
        return o

    # ------------------------------------------------------------ execution
    def exec(self, op):
        """-> observation dict (always); o['b'] / o['bm']: measured boosted payouts; o['car']: carried tally after the op"""
        vm, k = self.vm, op[0]
        pre = self.last
        if k == "Time":
            sp.ProxyWorld.exec(self, op)
            o = self.base_obs(pre, True, "", [])
            o["pre"] = pre
        elif k == "Trade":
            _, tin, amt = op
            r = vm.call(self.trader, self.pair, "swapTokensFixedInput", [TOK[1 - tin], top_u(1)], [(TOK[tin], 0, amt)])
            o = self.base_obs(pre, r.ok, r.msg, [dec_payment(r.out[0])[2]] if r.ok else [])
        elif k == "Lock":
            _, u, amt, le = op
            r = vm.call(self.A(u), self.efact, "lockTokens", [top_u(le)], [(MEX, 0, amt)])
            res = dec_payment(r.out[0]) if r.ok else None
            o = self.base_obs(pre, r.ok, r.msg, [])
            o["eouts"] = [self.E(res[1]), res[2]] if res else []
        elif k == "Extend":
            _, u, n, amt, le = op
            r = vm.call(self.A(u), self.efact, "lockTokens", [top_u(le)], [(LOCKED, n, amt)])
            res = dec_payment(r.out[0]) if r.ok else None
            o = self.base_obs(pre, r.ok, r.msg, [])
            o["eouts"] = [self.E(res[1]), res[2]] if res else []
        elif k in ("FEnter", "FClaim", "FExit"):
            rps_attr = None
            if k == "FEnter":
                r = vm.call(self.trader, self.farm_m, "enterFarm", [], [(MEX, 0, op[1])])
            else:
                rps_attr = self.farm_rps_of(self.trader, 0, op[1])
                r = vm.call(self.trader, self.farm_m, "claimRewards" if k == "FClaim" else "exitFarm", [], [(FARML, op[1], op[2])])
            pays = [dec_payment(x) for x in r.out] if r.ok else []
            o = self.base_obs(pre, r.ok, r.msg, [])
            b = 0
            if r.ok:
                if k == "FEnter":
                    b = pays[1][2]
                    o["eouts"] = [pays[0][1], pays[0][2], b]
                elif k == "FClaim":
                    b = self.boosted_part(0, op[2], pays[1][2], rps_attr, o["frps"][0])
                    o["eouts"] = [pays[0][1], pays[0][2], pays[1][2]]
                else:
                    b = self.boosted_part(0, op[2], pays[1][2], rps_attr, o["frps"][0])
                    o["eouts"] = [pays[0][2], pays[1][2]]
            o["b"] = b
        else:
            # ---- the proxy's endpoints: executed and observed by sys_proxydex, callee observations added
            rps_attr, farm = None, None
            if k in ("Claim", "ExitFarm"):
                p, farm = op[3], op[2]
                if p[0] == 4 and p[1] in self.wfm and farm in (0, 1):
                    rps_attr = self.farm_rps_of(self.proxy, farm, self.wfm[p[1]]["f"])
            n_wlp0, n_wfm0 = set(self.wlp), set(self.wfm)
            o = sp.ProxyWorld.exec(self, op)
            o["eouts"] = []
            b = bm = 0
            if o["ok"]:
                if k == "EnterFarm":
                    b = o["outs"][1][2]
                elif k in ("Claim", "ExitFarm"):
                    b = self.boosted_part(farm, op[3][2], o["outs"][1][2], rps_attr, o["frps"][farm])
                elif k == "MergeWfm":
                    bm = o["env"]["rew"][1]
                # who created which wrapped token; which wrapped tokens changed hands
                u = op[1]
                for n in set(self.wlp) - n_wlp0:
                    self.depositor_lp[n] = u
                for n in set(self.wfm) - n_wfm0:
                    self.depositor_fm[n] = u
                if k == "XferWlp": self.moved_lp.add(op[3])
                if k == "XferWfm": self.moved_fm.add(op[3])
                # LP tokens the LP farm burned as exit penalty
                if k == "ExitFarm" and op[2] == 1 and o.get("exit_pen"):
                    self.lp_burned += o["exit_pen"]
                    o["lp_burned"] = self.lp_burned
                    self.last["lp_burned"] = self.lp_burned
                # carried: the change of the proxy's REAL locked balances is attributed to the caller
                if k in NESTED:
                    for n in set(o["locked"]) | set(pre["locked"]):
                        d = o["locked"].get(n, 0) - pre["locked"].get(n, 0)
                        if d:
                            key = (u, self.E(n))
                            self.carried[key] = self.carried.get(key, 0) + d
            o["b"], o["bm"] = b, bm
        o.setdefault("b", 0)
        o.setdefault("bm", 0)
        o["blk"], o["now"] = self.blk, self.epoch
        o["car"] = dict(self.carried)
        o["changed_hands"] = self.changed_hands(op, o)
        return o

    def changed_hands(self, op, o):
        """the wrapped token redeemed / re-wrapped here was created by another account than the caller"""
        if not o["ok"]:
            return False
        k = op[0]
        if k in ("RemoveLiq", "IncLp"):
            p = op[3] if k == "RemoveLiq" else op[2]
            return self.depositor_lp.get(p[1], op[1]) != op[1]
        if k in ("ExitFarm", "Claim", "IncFm"):
            p = op[3] if k != "IncFm" else op[2]
            return self.depositor_fm.get(p[1], op[1]) != op[1]
        if k == "MergeWlp":
            return any(self.depositor_lp.get(p[1], op[1]) != op[1] for p in op[2])
        if k == "MergeWfm":
            return any(self.depositor_fm.get(p[1], op[1]) != op[1] for p in op[3])
        if k == "EnterFarm":
            return (op[3][0] == 3 and self.depositor_lp.get(op[3][1], op[1]) != op[1]) or \
                any(self.depositor_fm.get(p[1], op[1]) != op[1] for p in op[4])
        if k == "AddLiq":
            return any(self.depositor_lp.get(p[1], op[1]) != op[1] for p in op[5])
        return False


# ------------------------------------------------------------------ Coq emission
def tpay(w, p):
    return (p[0], w_E(w, p[1]) if p[0] == 2 else p[1], p[2])


def w_E(tab, n):
    return tab.get(n, 0)


def cpay(tab, p):
    t = tpay(tab, p)
    return f"({t[0]}, {t[1]}, {t[2]})"


def cpays(tab, ps):
    return "[" + "; ".join(cpay(tab, p) for p in ps) + "]"


def coq_op(op, o):
    k, tab = op[0], o["unlock_tab"]
    blk, now = o["blk"], o["now"]
    if k == "AddLiq":
        return f"CAddLiq {op[1]} {op[2]} {cpay(tab, op[3])} {cpay(tab, op[4])} {cpays(tab, op[5])} {op[6]} {op[7]}"
    if k == "RemoveLiq":
        return f"CRemoveLiq {op[1]} {op[2]} {cpay(tab, op[3])} {op[4]} {op[5]}"
    if k == "EnterFarm":
        return f"CEnterFarm {op[1]} {op[2]} {cpay(tab, op[3])} {cpays(tab, op[4])} {zlit(o['b'])}"
    if k == "ExitFarm":
        return f"CExitFarm {op[1]} {op[2]} {cpay(tab, op[3])} {zlit(o['b'])}"
    if k == "Claim":
        return f"CClaim {op[1]} {op[2]} {cpay(tab, op[3])} {zlit(o['b'])}"
    if k == "MergeWlp":
        return f"CMergeWlp {op[1]} {cpays(tab, op[2])}"
    if k == "MergeWfm":
        return f"CMergeWfm {op[1]} {op[2]} {cpays(tab, op[3])} {zlit(o['bm'])}"
    if k == "IncLp":
        return f"CIncLp {op[1]} {cpay(tab, op[2])} {op[3]}"
    if k == "IncFm":
        return f"CIncFm {op[1]} {cpay(tab, op[2])} {op[3]}"
    if k == "SetPair":
        return f"CSetPair {op[1]} {cbool(op[2])}"
    if k == "SetFarm":
        return f"CSetFarm {op[1]} {op[2]} {cbool(op[3])}"
    if k in ("XferWlp", "XferWfm"):
        return f"C{k} {op[1]} {op[2]} {op[3]} {op[4]}"
    if k == "Time":
        return f"CTime {op[1]} {op[2]}"
    if k == "Trade":
        bf = o["cfg_bf"]
        tin = (1 if bf else 2) if op[1] == 0 else (2 if bf else 1)
        return f"CPair (PR.SwapIn {TR} {tin} {op[2]} {3 - tin} 1)"
    if k == "Lock":
        return f"CEnergy (EN.Lock {op[1]} {op[2]} {op[3]} {op[1]})"
    if k == "Extend":
        return f"CEnergy (EN.Extend {op[1]} {w_E(tab, op[2])} {op[3]} {op[4]} {op[1]})"
    if k == "FEnter":
        return f"CFarm 0 (FL.LF (F.FEnter {blk} {now} {TR} {op[1]} [] {zlit(o['b'])}))"
    if k == "FClaim":
        return f"CFarm 0 (FL.LF (F.FClaim {blk} {now} {TR} ({op[1]}, {op[2]}) [] {zlit(o['b'])}))"
    if k == "FExit":
        return f"CFarm 0 (FL.LF (F.FExit {blk} {now} {TR} ({op[1]}, {op[2]}) {zlit(o['b'])}))"
    raise ValueError(k)


def emap(tab, d):
    """nonce-keyed map -> unlock-epoch-keyed map"""
    r = {}
    for n, v in d.items():
        e = w_E(tab, n)
        r[e] = r.get(e, 0) + v
    return r


def coq_env(tab, e):
    en = e["energy"]
    rew = (w_E(tab, e["rew"][0]), e["rew"][1])
    fact = (w_E(tab, e["fact"][0]), e["fact"][1])
    return (f"(mkEnv {e['now']} {cbool(e['ok'])} {cpair(e['pair'])} {cpair(e['farm'])} {cpair(e['fmerge'])} "
            f"{cpair(rew)} {cpair(fact)} (mkPEn {zlit(en[0])} {en[1]} {en[2]}) {e['unlock']})")


def ctriples(d):
    return "[" + "; ".join(f"({a}, {b}, {zlit(v)})" for (a, b), v in sorted(d.items())) + "]"


def coq_obs(op, o):
    tab = o["unlock_tab"]
    wl = "[" + "; ".join(f"({n}, ({w['T']}, {w_E(tab, w['k'])}, {w['L']}))" for n, w in sorted(o["new_wlp"].items())) + "]"
    wf = "[" + "; ".join(
        f"({n}, ({0 if w['ft'] == FARML else 1}, {w['f']}, {w['T']}, {0 if w['pt'] == LOCKED else 1}, "
        f"{w_E(tab, w['pn']) if w['pt'] == LOCKED else w['pn']}, {w['P']}))"
        for n, w in sorted(o["new_wfm"].items())) + "]"
    en = o["epost"]
    pob = (f"(mkObs {cbool(o['ok'])} {cpays(tab, o['outs'])} {o['base']} {o['other']} {o['lp']} {cmap(o['farm'])} "
           f"{cmap(emap(tab, o['locked']))} {cmap(o['pwlp'])} {cmap(o['hlp'])} {cmap(o['hfm'])} {wl} {wf} "
           f"{cmap_all(o['suplp'])} {cmap_all(o['supfm'])} {zlit(o['dbase'])} {zlit(o['dlocked'])} "
           f"(mkPEn {zlit(en[0])} {en[1]} {en[2]}))")
    env = coq_env(tab, o["env"]) if "env" in o else "(env0 0 (mkPEn 0 0 0) 0)"
    pair = f"[{o['rbase']}; {o['rother']}; {o['S']}]"
    farms = f"[{o['fsup'][0]}; {o['fsup'][1]}; {o['frps'][0]}; {o['frps'][1]}]"
    ens = "[" + "; ".join(f"({u}, ({zlit(o['energy'][u][0])}, {o['energy'][u][1]}, {o['energy'][u][2]}))" for u in ACCTS) + "]"
    epochs = sorted(set(tab.values()))
    ul = {}
    for u in ACCTS:
        own = emap(tab, o["ulocked"].get(u, {}))
        for e in epochs:
            ul[(u, e)] = own.get(e, 0)
    outs = "[" + "; ".join(zlit(x) for x in o["eouts"]) + "]"
    return f"mkCObs {pob} {env} {pair} {farms} {ens} {ctriples(ul)} {ctriples(o['car'])} {outs}"


def coq_setup(cfg):
    ops = []
    for f in (0, 1):
        ops += [f"CFarm {f} (FL.LF (F.FSetRate 10 100 {cfg['rate']}))", f"CFarm {f} (FL.LF (F.FSetState 100 1))",
                f"CFarm {f} (FL.LF (F.FStart 10 100))", f"CFarm {f} (FL.LF (F.FSetFactors 100))"]
        if cfg.get("boost"):
            ops.append(f"CFarm {f} (FL.LF (F.FSetPct 10 100 {cfg['boost']}))")
    for u in range(1, NUSERS + 1):
        for oi, amt in cfg["locks"][u - 1]:
            ops.append(f"CEnergy (EN.Lock {u} {amt} {OPTS[oi][0]} {u})")
    lb, lo = cfg["liq"]
    a1, a2 = (lb, lo) if cfg["base_first"] else (lo, lb)
    ops += [f"CPair (PR.AddInitial 100 {a1} {a2})", "CPair (PR.SetState 100 1)"]
    return "[" + ";\n    ".join(ops) + "]"


def coq_init(cfg):
    opts = "[" + "; ".join(f"({e}, {p})" for e, p in OPTS) + "]"
    return f"(init_c {cfg['fee']} {min(50, cfg['fee'])} {cbool(cfg['base_first'])} {DSC} {opts} {OPTS[0][0]} 10 {cfg['epoch0']})"


def coq_history(cfg, trace):
    for op, o in trace:
        o["cfg_bf"] = cfg["base_first"]
    items = ";\n    ".join(f"({coq_op(op, o)}, {coq_obs(op, o)})" for op, o in trace)
    return f"(check_closed {coq_init(cfg)}\n   {coq_setup(cfg)}\n   [\n    {items}])"


# ------------------------------------------------------------------ generation
def gen_op(rng, w, stats, focus=False):
    s = w.last
    now = w.epoch
    roll = rng.random()
    users = list(range(1, NUSERS + 1))
    # ---- additional environment: the users' own factory operations, the trader's own farm position
    if roll < 0.03:
        u = rng.choice(users)
        return ["Lock", u, log_amount(rng, 10 ** 16) + 1, rng.choice([e for e, _ in OPTS] + ([100] if rng.random() < 0.2 else []))]
    if roll < 0.05:
        u = rng.choice(users)
        mine = [(n, v) for n, v in s["ulocked"][u].items() if v > 0]
        if mine:
            n, v = rng.choice(mine)
            old = w.unlock.get(n, 0)
            good = [e for e, _ in OPTS if (now + e) - (now + e) % EPM > old]
            le = rng.choice(good) if good and rng.random() < 0.8 else rng.choice([e for e, _ in OPTS])
            return ["Extend", u, n, part_amount(rng, min(v, 10 ** 18)), le]
    if roll < 0.08:
        mine = [(k // 2, v) for k, v in s.get("tfarm", {}).items() if k % 2 == 0 and v > 0]
        c = rng.random()
        if not mine or c < 0.4:
            return ["FEnter", log_amount(rng, 10 ** 14) + 1]
        n, v = rng.choice(mine)
        return ["FClaim" if c < 0.6 else "FExit", n, part_amount(rng, v)]
    # ---- wrapped tokens change hands more often than in sys_proxydex (focus: much more often)
    if roll < (0.20 if focus else 0.11):
        u = rng.choice(users)
        my_lp = [(k // 16, v) for k, v in s["hlp"].items() if k % 16 == u and v > 0]
        my_fm = [(k // 16, v) for k, v in s["hfm"].items() if k % 16 == u and v > 0]
        d = rng.choice([x for x in users if x != u])
        if my_lp and (rng.random() < 0.5 or not my_fm):
            n, v = rng.choice(my_lp)
            return ["XferWlp", u, d, n, part_amount(rng, v)]
        if my_fm:
            n, v = rng.choice(my_fm)
            return ["XferWfm", u, d, n, part_amount(rng, v)]
    return sp.gen_op(rng, w, stats)


def gen_history(seed, nops, focus=False):
    rng = random.Random(seed)
    cfg = sp.gen_cfg(rng)
    w = ClosedWorld(cfg)
    trace, stats = [], {}
    try:
        for _ in range(nops):
            op = gen_op(rng, w, stats, focus)
            trace.append((op, w.exec(op)))
    finally:
        w.close()
    return cfg, trace


def replay_history(cfg, ops):
    w = ClosedWorld(cfg)
    trace = []
    try:
        for op in ops:
            trace.append((op, w.exec(op)))
    finally:
        w.close()
    return trace
