"""Check driver shared by all properties.

./check Cxx [--tier quick|thorough] [--replay file]

Signals per run (DESIGN.md §6):
  T  tie      : Gen/Params.v regenerated from /repo; harness rebuilt from /repo's working tree
  P  proofs   : `make Props/Cxx.vo` + Print Assumptions allow-list + forbidden-keyword scan
  C  corr.    : real contracts vs Gallina model on generated histories (vm_compute in coqc shards)
  M  monitors : the property's own predicates evaluated on the REAL observations
Verdict: exit 0 | KNOWN-FINDING lines | VIOLATION property=Cxx replay=<path> [no-failing-input-found]
"""
import os, sys, re, json, time, subprocess, hashlib, importlib, traceback

ROOT = os.path.dirname(os.path.dirname(os.path.abspath(__file__)))
COQ = os.path.join(ROOT, "coq")
sys.path.insert(0, os.path.join(ROOT, "tools"))

# coqchk -o lists the axioms of every LOADED library, used or not: Psatz (nia/lia) loads the stdlib Reals,
# whose three axioms therefore appear although no property theorem depends on them (Print Assumptions).
COQCHK_LIBRARY_AXIOMS = {
    "Coq.Logic.FunctionalExtensionality.functional_extensionality_dep",
    "Coq.Reals.ClassicalDedekindReals.sig_not_dec",
    "Coq.Reals.ClassicalDedekindReals.sig_forall_dec",
}
ALLOWED_AXIOMS = set()   # target: none. Names of stdlib axioms would be listed here and in DESIGN.md §9.
FORBIDDEN = re.compile(r"\b(Admitted|admit|Axiom|Parameter|Conjecture|Admit Obligations)\b|Unset Guard|bypass_check|type-in-type|impredicative-set")


class Exploration:
    """what a property's explorer returns"""

    def __init__(self):
        self.evaluations = 0            # operations / cases executed on the real code
        self.histories = 0
        self.nontrivial = set()         # distinct non-trivial case keys
        self.rule = ""
        self.samples = []
        self.traces_validated = 0       # histories replayed in Coq and compared
        self.disagreements = []         # list of dict(kind='corr', detail=..., replay=...)
        self.failures = []              # monitor failures: dict(key=..., what=..., replay=...)
        self.counters = {}
        self.notes = []

    def count(self, k, n=1):
        self.counters[k] = self.counters.get(k, 0) + n


def sh(cmd, timeout=None, cwd=None, env=None):
    p = subprocess.run(cmd, shell=True, capture_output=True, text=True, timeout=timeout, cwd=cwd, env=env)
    return p.returncode, p.stdout, p.stderr


# ------------------------------------------------------------------ T: tie
def regenerate_tie():
    import extract
    try:
        text = extract.generate()
    except extract.TieError as e:
        return False, f"Params extraction failed: {e}"
    out = extract.OUT
    old = open(out).read() if os.path.exists(out) else None
    if old != text:
        if os.environ.get("VERIF_REPO", "/repo").rstrip("/") != "/repo":
            return False, "constants extracted from the scratch tree differ from Gen/Params.v (shared file not overwritten in VERIF_REPO mode)"
        open(out, "w").write(text)
    return True, ""


def build_harness():
    """Builds the executor against /repo's working tree.  With VERIF_REPO=<scratch worktree> (used only to
    try seeded changes without touching /repo) an alternate copy of the crate manifest is generated
    with the path dependencies redirected, built into its own target dir, and used via MXVM_BIN."""
    env = dict(os.environ, CARGO_NET_OFFLINE="true")
    repo = os.environ.get("VERIF_REPO", "/repo").rstrip("/")
    if repo != "/repo":
        tag = hashlib.sha1(repo.encode()).hexdigest()[:10]
        alt = os.path.join(ROOT, ".cache", "alt", tag)
        os.makedirs(os.path.join(alt, ".cargo"), exist_ok=True)
        man = open(os.path.join(ROOT, "harness", "Cargo.toml")).read().replace('"/repo/', f'"{repo}/')
        open(os.path.join(alt, "Cargo.toml"), "w").write(man)
        open(os.path.join(alt, ".cargo", "config.toml"), "w").write(f'[net]\noffline = true\n[build]\ntarget-dir = "{alt}/target"\n')
        import shutil
        shutil.copy(os.path.join(repo, "Cargo.lock"), os.path.join(alt, "Cargo.lock"))
        if not os.path.exists(os.path.join(alt, "src")):
            os.symlink(os.path.join(ROOT, "harness", "src"), os.path.join(alt, "src"))
        rc, out, err = sh("cargo build --offline 2>&1 | tail -40", cwd=alt, env=env, timeout=3000)
        exe = os.path.join(alt, "target", "debug", "mxvm")
        ok = os.path.exists(exe) and "could not compile" not in out and rc == 0
        os.environ["MXVM_BIN"] = exe
        return ok, out
    env["CARGO_TARGET_DIR"] = os.path.join(ROOT, ".cache", "target")      # independent of where the tree is checked out
    rc, out, err = sh("cargo build --offline 2>&1 | tail -40", cwd=os.path.join(ROOT, "harness"), env=env, timeout=3000)
    ok = os.path.exists(os.path.join(ROOT, ".cache", "target", "debug", "mxvm")) and "error" not in out.lower().split("warning")[0] and "could not compile" not in out
    return ok, out


# ------------------------------------------------------------------ P: proofs
def ensure_makefile():
    mk = os.path.join(COQ, "Makefile")
    cp = os.path.join(COQ, "_CoqProject")
    if not os.path.exists(mk) or os.path.getmtime(mk) < os.path.getmtime(cp):
        sh("coq_makefile -f _CoqProject -o Makefile", cwd=COQ)


def prop_modules(pid):
    """Props/<pid>.v plus its continuation files Props/<pid>_*.v (e.g. Props/C05_closed.v): all of them hold
    property theorems of <pid> (same rules: statements + `exact lemma` + Print Assumptions)"""
    listed = {ln.strip() for ln in open(os.path.join(COQ, "_CoqProject")) if ln.strip().endswith(".v")}
    d = os.path.join(COQ, "Props")
    extra = sorted(f[:-2] for f in os.listdir(d)
                   if f.startswith(pid + "_") and f.endswith(".v") and f"Props/{f}" in listed)   # registered files only
    return [pid] + extra


def theorem_names(pid):
    names = []
    for m in prop_modules(pid):
        src = open(os.path.join(COQ, "Props", f"{m}.v")).read()
        src = re.sub(r"\(\*.*?\*\)", "", src, flags=re.S)
        names += re.findall(r"^\s*Theorem\s+([A-Za-z0-9_']+)", src, re.M)
    return names


def qualified(pid, name):
    for m in prop_modules(pid):
        src = re.sub(r"\(\*.*?\*\)", "", open(os.path.join(COQ, "Props", f"{m}.v")).read(), flags=re.S)
        if re.search(r"^\s*Theorem\s+" + re.escape(name) + r"\b", src, re.M):
            return f"MX.Props.{m}.{name}"
    return name


def closure_files(pid):
    """.v files Props/<pid>.v depends on (transitively), from coqdep; all files if that fails"""
    try:
        rc, out, err = sh("coqdep -Q . MX $(grep '\\.v$' _CoqProject)", cwd=COQ, timeout=120)
        deps = {}
        for ln in out.split("\n"):
            if ":" not in ln:
                continue
            lhs, rhs = ln.split(":", 1)
            tgt = [t for t in lhs.split() if t.endswith(".vo")]
            if not tgt:
                continue
            deps[tgt[0][:-1]] = [d[:-1] for d in rhs.split() if d.endswith(".vo")]
        todo, seen = [f"Props/{m}.v" for m in prop_modules(pid)], set()
        while todo:
            x = todo.pop()
            if x in seen:
                continue
            seen.add(x)
            todo.extend(deps.get(x, []))
        if len(seen) > 1:
            return sorted(seen)
    except Exception:
        pass
    return sorted(os.path.relpath(os.path.join(d, f), COQ) for d, _, fs in os.walk(COQ) for f in fs if f.endswith(".v"))


def forbidden_scan(pid):
    bad = []
    for rel in closure_files(pid):
        path = os.path.join(COQ, rel)
        if not os.path.exists(path):
            continue
        txt = open(path).read()
        txt = re.sub(r"\(\*.*?\*\)", "", txt, flags=re.S)
        for m in FORBIDDEN.finditer(txt):
            bad.append(f"{rel}: {m.group(0)}")
    return bad


def build_proofs(pid, clean=False, coqchk=False):
    """returns dict(ok, obligations, discharged, axioms, error, theorem)"""
    ensure_makefile()
    res = dict(ok=False, obligations=0, discharged=0, axioms={}, error="", theorem=None)
    names = theorem_names(pid)
    res["obligations"] = len(names)
    if clean:
        sh(" ; ".join(f"rm -f Props/{m}.vo Props/{m}.glob" for m in prop_modules(pid)), cwd=COQ)
    # trace checkers (Run/*.vo) are needed by the correspondence runs; keep going past other people's breakage
    runs = " ".join("Run/" + f[:-2] + ".vo" for f in sorted(os.listdir(os.path.join(COQ, "Run"))) if f.endswith(".v"))
    sh(f"timeout 3000 make -k -j16 {runs} >/dev/null 2>&1", cwd=COQ)
    rc, out, err = sh("timeout 3000 make -j16 " + " ".join(f"Props/{m}.vo" for m in prop_modules(pid)) + " 2>&1", cwd=COQ)
    if rc != 0:
        res["error"] = (out + err)[-3000:]
        m = re.search(r'File "\./([^"]+)", line (\d+)', out + err)
        if m:
            res["theorem"] = locate_lemma(m.group(1), int(m.group(2)))
        return res
    bad = forbidden_scan(pid)
    if bad:
        res["error"] = "forbidden keywords: " + "; ".join(bad[:10])
        return res
    # Print Assumptions of every property theorem, evaluated now (not read from a cached build log)
    tmp = os.path.join(ROOT, ".cache", f"assume_{pid}.v")
    os.makedirs(os.path.dirname(tmp), exist_ok=True)
    with open(tmp, "w") as f:
        for m in prop_modules(pid):
            f.write(f"From MX Require Props.{m}.\n")
        for n in names:
            f.write(f'Print Assumptions {qualified(pid, n)}.\n')
    rc, out, err = sh(f"timeout 600 coqc -noglob -Q {COQ} MX {tmp}")
    if rc != 0:
        res["error"] = "Print Assumptions failed: " + (out + err)[-2000:]
        return res
    blocks = re.split(r"(?=Closed under the global context|Axioms:)", out)
    blocks = [b for b in blocks if b.strip()]
    if len(blocks) != len(names):
        res["error"] = f"expected {len(names)} assumption reports, got {len(blocks)}"
        return res
    discharged = 0
    for n, b in zip(names, blocks):
        if b.startswith("Closed under the global context"):
            res["axioms"][n] = []
            discharged += 1
        else:
            ax = re.findall(r"^([A-Za-z0-9_.']+)\s*:", b, re.M)
            res["axioms"][n] = ax
            if all(a in ALLOWED_AXIOMS for a in ax):
                discharged += 1
            else:
                res["error"] += f"{n} depends on non-allow-listed axioms {ax}; "
                res["theorem"] = n
    res["discharged"] = discharged
    res["ok"] = discharged == len(names) and len(names) > 0
    if res["ok"] and coqchk:
        # independent re-check of the compiled closure (thorough tier)
        rc, out, err = sh("timeout 2400 coqchk -silent -o -Q . MX " + " ".join(f"MX.Props.{m}" for m in prop_modules(pid)) + " 2>&1", cwd=COQ)
        txt = out + err
        m = re.search(r"\* Axioms:(.*?)\n\s*\n", txt, re.S)
        listed = [a.strip() for a in (m.group(1).split("\n") if m else []) if a.strip() and a.strip() != "<none>"]
        res["coqchk"] = dict(exit=rc, axioms_of_loaded_libraries=listed)
        clean_flags = all(re.search(re.escape(k) + r":\s*<none>", txt) for k in
                          ("relying on type-in-type", "relying on unsafe (co)fixpoints", "positivity is assumed"))
        if rc != 0 or not clean_flags or any(a not in COQCHK_LIBRARY_AXIOMS for a in listed):
            res["ok"] = False
            res["discharged"] = 0
            res["error"] = "coqchk: " + txt[-1500:]
            res["theorem"] = f"coqchk MX.Props.{pid}"
    return res


def locate_lemma(relpath, line):
    """name of the Lemma/Theorem enclosing a line of a .v file"""
    try:
        lines = open(os.path.join(COQ, relpath)).read().split("\n")
    except OSError:
        return relpath
    for i in range(min(line, len(lines)) - 1, -1, -1):
        m = re.match(r"\s*(Lemma|Theorem|Corollary|Example|Definition|Fixpoint)\s+([A-Za-z0-9_']+)", lines[i])
        if m:
            return f"{relpath}:{m.group(2)}"
    return relpath


# ------------------------------------------------------------------ known findings
def load_known():
    path = os.path.join(ROOT, "known_findings.txt")
    known = []
    if os.path.exists(path):
        for ln in open(path):
            ln = ln.strip()
            if ln.startswith("finding:"):
                m = re.match(r"finding:\s*property=(\S+)\s+key=(\S+)\s*(.*)", ln)
                if m:
                    known.append((m.group(1), m.group(2), m.group(3)))
    return known


# ------------------------------------------------------------------ main
def jsonable(x):
    """dict keys to str (mixed int/str keys cannot be sorted), tuples to lists"""
    if isinstance(x, dict):
        return {str(k): jsonable(v) for k, v in x.items()}
    if isinstance(x, (list, tuple)):
        return [jsonable(v) for v in x]
    if isinstance(x, (bytes, bytearray)):
        return x.hex()
    return x


def write_replay(pid, name, data):
    data = jsonable(data)
    d = os.path.join(ROOT, "replays", pid)
    os.makedirs(d, exist_ok=True)
    path = os.path.join(d, name)
    with open(path, "w") as f:
        json.dump(data, f, indent=1, default=str)
    return os.path.relpath(path, ROOT)


def run_check(pid, tier, seed, replay=None):
    t0 = time.time()
    mod = importlib.import_module(f"props.{pid.lower()}")
    if replay:
        data = json.load(open(replay))
        fails = mod.replay(data)
        for f in fails:
            print(f"REPLAY-FAIL property={pid} key={f['key']} {f['what']}")
        if not fails:
            print(f"replay of {replay}: no monitor failure reproduced")
        return 1 if fails else 0

    problems = []          # (kind, detail, theorem/obligation name)
    ok_tie, msg = regenerate_tie()
    if not ok_tie:
        problems.append(("tie", msg, "Gen/Params.v"))
    ok_h, hout = build_harness()
    if not ok_h:
        problems.append(("harness-build", hout[-1500:], "harness"))
    proofs = build_proofs(pid, clean=(tier == "thorough"), coqchk=(tier == "thorough")) if ok_tie else dict(ok=False, obligations=len(theorem_names(pid)), discharged=0, axioms={}, error=msg, theorem="Gen/Params.v")
    if not proofs["ok"]:
        problems.append(("proof", proofs["error"], proofs.get("theorem") or f"Props/{pid}.v"))

    ex = Exploration()
    if ok_h:
        try:
            ex = mod.explore(tier, seed, model_ok=ok_tie and os.path.exists(os.path.join(COQ, "Model")))
        except Exception:
            problems.append(("explore-crash", traceback.format_exc()[-3000:], "harness"))
        # a broken proof / correspondence triggers the deeper search for a failing input
        if (problems or ex.disagreements) and not ex.failures and tier != "thorough":
            try:
                ex2 = mod.explore("thorough", seed + 1000, model_ok=False, focus=True)
                ex.failures.extend(ex2.failures)
                ex.evaluations += ex2.evaluations
                ex.histories += ex2.histories
                ex.nontrivial |= ex2.nontrivial
                ex.notes.append("search for a failing input at the thorough budget was run")
            except Exception:
                ex.notes.append("search crashed: " + traceback.format_exc()[-500:])

    known = load_known()
    violations = []
    known_hits = []
    for f in ex.failures:
        if any(k[0] == pid and k[1] == f["key"] for k in known):
            known_hits.append(f)
        else:
            violations.append(f)
    lines = []
    seen = set()
    for f in known_hits:
        if f["key"] not in seen:
            seen.add(f["key"])
            lines.append(f"KNOWN-FINDING: property={pid} key={f['key']} {f['what']}")
    exit_code = 0
    nviol = 0
    if violations:
        byk = {}
        for f in violations:
            byk.setdefault(f["key"], f)
        for key, f in byk.items():
            h = hashlib.sha1(json.dumps(jsonable(f.get("replay")), sort_keys=True, default=str).encode()).hexdigest()[:12]
            path = write_replay(pid, f"{h}.json", dict(property=pid, key=key, what=f["what"], replay=f.get("replay"),
                                                        also_broken=[p[0] + ":" + str(p[2]) for p in problems]))
            ln = f"VIOLATION property={pid} replay={path}"
            if ln not in lines:
                lines.append(ln)
                nviol += 1
        exit_code = 1
    elif problems or ex.disagreements:
        # nothing fails on the real code that a monitor can see: report what no longer checks
        what = []
        for kind, detail, name in problems:
            what.append(dict(kind=kind, obligation=name, detail=detail))
        for d in ex.disagreements[:5]:
            what.append(dict(kind="correspondence", obligation=d.get("where", "model-vs-implementation"), detail=d))
        first = what[0]
        tag = re.sub(r"[^A-Za-z0-9_.-]", "_", f"{first['kind']}-{first['obligation']}")[:80]
        path = write_replay(pid, f"{tag}.json", dict(property=pid, no_longer_checks=what,
                                                      note="no monitor failure found on the implementation at the search budget"))
        lines.append(f"VIOLATION property={pid} replay={path} no-failing-input-found")
        nviol += 1
        exit_code = 1

    wall = time.time() - t0
    axioms_used = sorted({a for v in proofs.get("axioms", {}).values() for a in v})
    evidence = dict(
        property_id=pid, tier=tier, seed=seed, level="proof",
        coverage=dict(
            obligations=proofs["obligations"], discharged=proofs["discharged"],
            checker_cmd=f"make -C coq Props/{pid}.vo (coqc 8.16.1, full .vo build) && coqc Print Assumptions of {proofs['obligations']} theorems",
            trusted_base=[
                "Coq 8.16.1 kernel incl. vm_compute (no native_compute)",
                "axioms reported by Print Assumptions: " + (", ".join(axioms_used) if axioms_used else "none (Closed under the global context)"),
                *(["coqchk -o on the compiled closure: exit %d; axioms of loaded libraries (Psatz loads Reals; none used by the property theorems): %s"
                   % (proofs["coqchk"]["exit"], ", ".join(proofs["coqchk"]["axioms_of_loaded_libraries"]) or "none")] if proofs.get("coqchk") else []),
                "tools/extract.py (constants regenerated from /repo into Gen/Params.v)",
                "harness/src/main.rs (mxvm executor over multiversx-chain-vm 0.10.0 debug VM, real contract code by path dependency)",
                "tools/*.py (generators, observers, monitors, Gallina case emission, output parsing)",
                "coq/Run/*.v trace checkers",
                "modelled not verified: ESDT transfer/mint/burn semantics and transaction atomicity of the debug VM (A-VM); u64 additions do not overflow (A-U64)",
            ],
            evaluations=ex.evaluations, distinct_nontrivial=len(ex.nontrivial), rule=ex.rule,
            samples=ex.samples[:6], traces_validated_against_impl=ex.traces_validated,
            disagreements_checked=len(ex.disagreements), histories=ex.histories, counters=ex.counters,
            theorems=theorem_names(pid), notes=ex.notes,
            **({"exhaustive": True} if getattr(ex, "exhaustive", False) else {}),
        ),
        assumptions=getattr(mod, "ASSUMPTIONS", []),
        wall_s=round(wall, 2), violations=nviol,
    )
    # runs against a scratch tree (VERIF_REPO) are experiments: their evidence does not describe /repo
    evdir = os.path.join(ROOT, "evidence") if os.environ.get("VERIF_REPO", "/repo").rstrip("/") == "/repo" \
        else os.path.join(ROOT, ".cache", "evidence_alt")
    os.makedirs(evdir, exist_ok=True)
    with open(os.path.join(evdir, f"{pid}.json"), "w") as f:
        json.dump(jsonable(evidence), f, indent=1, default=str)
    for ln in lines:
        print(ln)
    print(f"[{pid}] tier={tier} seed={seed} proofs {proofs['discharged']}/{proofs['obligations']} "
          f"histories={ex.histories} ops={ex.evaluations} nontrivial={len(ex.nontrivial)} "
          f"corr-mismatches={len(ex.disagreements)} monitor-failures={len(ex.failures)} wall={wall:.1f}s exit={exit_code}")
    return exit_code


def main(argv):
    import argparse
    ap = argparse.ArgumentParser()
    ap.add_argument("pid")
    ap.add_argument("--tier", default=os.environ.get("VERIF_TIER", "quick"))
    ap.add_argument("--replay")
    a = ap.parse_args(argv)
    seed = int(os.environ.get("VERIF_SEED", "1"))
    return run_check(a.pid, a.tier if a.tier in ("quick", "thorough") else "quick", seed, a.replay)
