"""Position-level farm-staking world: the world of tools/sys_staking.py (same deployment) with

  * observations that contain the attributes of EVERY live position nonce, every live unbond token,
    who holds how much of which nonce, and the per-user totals,
  * an op vocabulary with position-level detail: which nonces with which amounts are paid in, merges of
    several positions with different indexes (also twice the same nonce), partial unstake, position
    transfers between users followed by claim / unstake / merge / stake-with-merge / compound by the
    receiver, the whitelisted proxy acting for an original caller (virtual principal, new value, tokens
    sent along, and the plain endpoints with an explicit original caller), unbond-token transfers.

Model ids: OWNER = 100, users 1..NUSERS, PROXY = 50.  Coq side: Model/StakingPos.v, Run/StakingPosRun.v.

Ops (lists; (n, x) = amount x of farm-token nonce n):
  ["Stake", c, u, amt, adds]          stakeFarm by c for original caller u (argument passed iff u != c)
  ["StakeProxy", c, u, amt, adds]     stakeFarmThroughProxy(amt, u) by c
  ["Claim", c, u, p]                  claimRewards
  ["ClaimNewValue", c, u, p, newv]    claimRewardsWithNewValue(newv, u)
  ["Compound", c, first, adds]        compoundRewards
  ["Unstake", c, u, p]                unstakeFarm
  ["UnstakeProxy", c, u, p, t]        unstakeFarmThroughProxy(u) with t staking tokens sent along
  ["Unbond", c, n, amt]               unbondFarm
  ["Merge", c, ps]                    mergeFarmTokens
  ["ClaimBoosted", c]                 claimBoostedRewards
  ["Transfer", n, s, d, amt]          plain ESDT transfer of a position token
  ["TransferUb", n, s, d, amt]        plain ESDT transfer of an unbond token
  admin / time / energy ops: exactly those of sys_staking.py
"""
import random
from vmx import *
import sys_staking as ss
from sys_staking import STK, FARM, NUSERS, OWNER, PROXY, MAXP, BLOCKS_IN_YEAR, zlit, log_amount

ADMIN_OPS = ("TopUp", "Withdraw", "SetRate", "Start", "End", "SetApr", "SetMinUnbond", "SetPct", "SetFactors", "SetState", "Donate")
USER_OPS = ("Stake", "StakeProxy", "Claim", "ClaimNewValue", "Compound", "Unstake", "UnstakeProxy", "Merge", "ClaimBoosted")
EXTRA_KEYS = ("attrs", "ubattrs", "sc_farm", "paid")


def hkey(n, h):
    return n * 1000 + h


class StakingPosWorld(ss.StakingWorld):
    def __init__(self, cfg):
        self.paid = 0          # ghost: rewards that left the reserve (payments + compounded)
        super().__init__(cfg)

    # -------------------------------------------------------------- observation
    def observe(self):
        o = super().observe()
        vm = self.vm
        attrs, ubattrs = {}, {}
        for (n, u), v in o["held"].items():
            if v > 0 and n not in attrs:
                rps, comp, amt, owner = ss.dec_sattrs(vm.attrs(self.addr[u], FARM, n))
                attrs[n] = (rps, comp, amt, self.ids.get(owner, -1))
        for (n, u), v in o["ubheld"].items():
            if v > 0 and n not in ubattrs:
                ubattrs[n] = from_top_u(vm.attrs(self.addr[u], FARM, n))
        o["attrs"], o["ubattrs"] = attrs, ubattrs
        o["sc_farm"] = sum(a for (t, n, a) in vm.tokens(self.sc) if t == FARM)
        o["paid"] = self.paid
        return o

    # -------------------------------------------------------------- one operation
    def exec(self, op):
        k = op[0]
        if k in ("Time", "Energy", "Upgrade"):
            return super().exec(op)
        if k in ADMIN_OPS:
            o = super().exec(op)
            for x in EXTRA_KEYS:
                self.last[x] = o[x]
            return o
        vm, A = self.vm, self.addr
        pre = self.last
        pre_pool = pre["pool"]
        pre_cfg = dict(self.shadow)
        pays = lambda ps: [(FARM, n, x) for (n, x) in ps]
        outs, b, settles, new_pos, new_ub, left = [], 0, False, None, None, 0
        if k == "Stake":
            _, c, u, amt, adds = op
            r = vm.call(A[c], self.sc, "stakeFarm", [] if u == c else [A[u]], [(STK, 0, amt)] + pays(adds))
            if r.ok:
                p0, p1 = dec_payment(r.out[0]), dec_payment(r.out[1])
                outs, b, new_pos, left = [p0[1], p0[2], p1[2]], p1[2], p0[1], p1[2]
            settles = True
        elif k == "StakeProxy":
            _, c, u, amt, adds = op
            r = vm.call(A[c], self.sc, "stakeFarmThroughProxy", [top_u(amt), A[u]], pays(adds))
            if r.ok:
                p0, p1 = dec_payment(r.out[0]), dec_payment(r.out[1])
                outs, b, new_pos, left = [p0[1], p0[2], p1[2]], p1[2], p0[1], p1[2]
            settles = True
        elif k == "Claim":
            _, c, u, p = op
            r = vm.call(A[c], self.sc, "claimRewards", [] if u == c else [A[u]], pays([p]))
            if r.ok:
                p0, p1 = dec_payment(r.out[0]), dec_payment(r.out[1])
                outs, new_pos, left = [p0[1], p0[2], p1[2]], p0[1], p1[2]
            settles = True
        elif k == "ClaimNewValue":
            _, c, u, p, newv = op
            r = vm.call(A[c], self.sc, "claimRewardsWithNewValue", [top_u(newv), A[u]], pays([p]))
            if r.ok:
                p0, p1 = dec_payment(r.out[0]), dec_payment(r.out[1])
                outs, new_pos, left = [p0[1], p0[2], p1[2]], p0[1], p1[2]
            settles = True
        elif k == "Compound":
            _, c, first, adds = op
            r = vm.call(A[c], self.sc, "compoundRewards", [], pays([first] + adds))
            if r.ok:
                p0 = dec_payment(r.out[0])
                outs, new_pos = [p0[1], p0[2]], p0[1]
                left = p0[2] - first[1] - ss.psum(adds)
            settles = True
        elif k == "Unstake":
            _, c, u, p = op
            r = vm.call(A[c], self.sc, "unstakeFarm", [] if u == c else [A[u]], pays([p]))
            if r.ok:
                p0, p1 = dec_payment(r.out[0]), dec_payment(r.out[1])
                outs, new_ub, left = [p0[1], p0[2], p1[2]], p0[1], p1[2]
            settles = True
        elif k == "UnstakeProxy":
            _, c, u, p, t = op
            r = vm.call(A[c], self.sc, "unstakeFarmThroughProxy", [A[u]], [(STK, 0, t)] + pays([p]))
            if r.ok:
                p0, p1 = dec_payment(r.out[0]), dec_payment(r.out[1])
                outs, new_ub, left = [p0[1], p0[2], p1[2]], p0[1], p1[2]
            settles = True
        elif k == "Unbond":
            _, c, n, amt = op
            r = vm.call(A[c], self.sc, "unbondFarm", [], [(FARM, n, amt)])
            if r.ok:
                outs = [dec_payment(r.out[0])[2]]
        elif k == "Merge":
            _, c, ps = op
            r = vm.call(A[c], self.sc, "mergeFarmTokens", [], pays(ps))
            if r.ok:
                p0, p1 = dec_payment(r.out[0]), dec_payment(r.out[1])
                outs, b, new_pos, left = [p0[1], p0[2], p1[2]], p1[2], p0[1], p1[2]
        elif k == "ClaimBoosted":
            _, c = op
            r = vm.call(A[c], self.sc, "claimBoostedRewards", [])
            if r.ok:
                p0 = dec_payment(r.out[0])
                outs, b, left = [p0[2]], p0[2], p0[2]
            settles = True
        elif k in ("Transfer", "TransferUb"):
            _, n, s, d, amt = op
            r = vm.transfer(A[s], A[d], [(FARM, n, amt)])
        else:
            raise ValueError(k)
        cut = self.expected_cut(self.blk) if (settles and r.ok) else 0
        total = self.expected_total(self.blk) if (settles and r.ok) else 0
        if r.ok and new_ub is not None:
            self.ub[new_ub] = None
        if r.ok:
            self.paid += left
        o = self.observe()
        o["ok"], o["msg"], o["outs"] = r.ok, r.msg, outs
        if r.ok and k in ("Claim", "ClaimNewValue", "Unstake", "UnstakeProxy", "Compound"):
            b = pre_pool + cut - o["pool"]
        o["b"] = b if r.ok else 0
        o["left"] = left if r.ok else 0
        o["blk"], o["ep"] = self.blk, self.ep
        o["exp_total"] = total
        o["new_ub"] = {}
        if r.ok and new_ub is not None:
            self.ub[new_ub] = o["ubattrs"].get(new_ub)
            if self.ub[new_ub] is None:     # zero-amount unbond token: nobody holds it
                self.ub[new_ub] = self.ep + pre_cfg["minub"]
            o["new_ub"][new_ub] = self.ub[new_ub]
        o["new_pos"] = {}
        if r.ok and new_pos is not None:
            o["new_pos"][new_pos] = o["attrs"].get(new_pos)
            self.pos[new_pos] = o["new_pos"][new_pos]
        if r.ok:
            if settles and self.blk > self.shadow["last"]:
                self.shadow["last"] = self.blk
            if k == "StakeProxy": self.virt += op[3]
            elif k == "UnstakeProxy": self.virt -= op[3][1]
            elif k == "ClaimNewValue": self.virt += op[4] - op[3][1]
        o["virt"], o["donated"] = self.virt, self.donated
        o["pos"] = dict(self.pos)
        o["ub"] = dict(self.ub)
        o["cfg"] = dict(self.shadow)
        o["pre_cfg"] = pre_cfg
        o["settles"] = settles
        o["pre"] = pre
        self.last = {x: o[x] for x in ("supply", "reserve", "rps", "last", "cap", "acc", "pool", "bal", "state", "held", "ubheld",
                                       "ubtot", "utot", "pos", "ub") + EXTRA_KEYS}
        return o


# ------------------------------------------------------------------ Coq emission
def plist(ps):
    return "[" + "; ".join(f"({n}, {x})" for n, x in ps) + "]"


def coq_op(op, o):
    k = op[0]
    blk, ep, b = o["blk"], o["ep"], o["b"]
    if k == "Stake":
        return f"PStake {blk} {ep} {op[1]} {op[2]} {op[3]} {plist(op[4])} {zlit(b)}"
    if k == "StakeProxy":
        return f"PStakeProxy {blk} {ep} {op[1]} {op[2]} {op[3]} {plist(op[4])} {zlit(b)}"
    if k == "Claim":
        return f"PClaim {blk} {ep} {op[1]} {op[2]} ({op[3][0]}, {op[3][1]}) {zlit(b)}"
    if k == "ClaimNewValue":
        return f"PClaimNewValue {blk} {ep} {op[1]} {op[2]} ({op[3][0]}, {op[3][1]}) {op[4]} {zlit(b)}"
    if k == "Compound":
        return f"PCompound {blk} {ep} {op[1]} ({op[2][0]}, {op[2][1]}) {plist(op[3])} {zlit(b)}"
    if k == "Unstake":
        return f"PUnstake {blk} {ep} {op[1]} {op[2]} ({op[3][0]}, {op[3][1]}) {zlit(b)}"
    if k == "UnstakeProxy":
        return f"PUnstakeProxy {blk} {ep} {op[1]} {op[2]} ({op[3][0]}, {op[3][1]}) {op[4]} {zlit(b)}"
    if k == "Unbond":
        return f"PUnbond {ep} {op[1]} {op[2]} {op[3]}"
    if k == "Merge":
        return f"PMerge {blk} {ep} {op[1]} {plist(op[2])} {zlit(b)}"
    if k == "ClaimBoosted":
        return f"PClaimBoosted {blk} {ep} {op[1]} {zlit(b)}"
    if k == "Transfer":
        return f"PTransfer {op[1]} {op[2]} {op[3]} {op[4]}"
    if k == "TransferUb":
        return f"PTransferUb {op[1]} {op[2]} {op[3]} {op[4]}"
    return f"PAdmin ({ss.coq_op(op, o)})"


def coq_obs(op, o):
    pre = o["pre"]
    outs_s = "[" + "; ".join(zlit(x) for x in o["outs"]) + "]"
    pairs = lambda cur, old: "[" + "; ".join(f"({hkey(n, u)}, {cur.get((n, u), 0)})" for (n, u) in sorted(set(cur) | set(old))) + "]"
    held = pairs({k: v for k, v in o["held"].items() if v}, {k: v for k, v in pre["held"].items() if v})
    ubheld = pairs({k: v for k, v in o["ubheld"].items() if v}, {k: v for k, v in pre["ubheld"].items() if v})
    utot = "[" + "; ".join(f"({u}, {v})" for u, v in sorted(o["utot"].items())) + "]"
    attrs = "[" + "; ".join(f"({n}, ({a[0]}, {a[1]}, {a[2]}, {zlit(a[3])}))" for n, a in sorted(o["attrs"].items())) + "]"
    ub = "[" + "; ".join(f"({n}, {e})" for n, e in sorted(o["ubattrs"].items())) + "]"
    return (f"mkPObs {'true' if o['ok'] else 'false'} {outs_s} {o['supply']} {o['reserve']} {o['rps']} {o['last']} "
            f"{o['cap']} {o['acc']} {o['pool']} {o['bal']} {sum(o['held'].values())} {o['ubtot']} {utot} {held} {ubheld} {attrs} {ub}")


def coq_history(cfg, trace):
    items = ";\n    ".join(f"({coq_op(op, o)}, {coq_obs(op, o)})" for op, o in trace)
    return f"(check_trace (init_sp {cfg['dsc']} {cfg['apr']} {cfg['minub']}) 0 [\n    {items}])"


# ------------------------------------------------------------------ generation
def gen_cfg(rng):
    """scale = typical stake size of the history (so that rewards per settlement are comparable to the supply
    and the index really moves, also for DSC = 1: the APR cap alone limits the index growth per block to
    apr*DSC/(10000*5256000)); the max APR spans 'always binds' to 'never binds'"""
    dsc = rng.choice([1, 10, 10 ** 6, 10 ** 12, 10 ** 18])
    if dsc <= 10:
        apr = rng.choice([1, 10000, 10 ** 9, 10 ** 12, 10 ** 12, 10 ** 15, 10 ** 15, 10 ** 18, 10 ** 18])
    else:
        apr = rng.choice([1, 500, 10000, 10 ** 6, 10 ** 9, 10 ** 12, 10 ** 12, 10 ** 15, 10 ** 18])
    return dict(dsc=dsc, apr=apr, minub=rng.choice([0, 1, 3, 10, 30]), boost=rng.random() < 0.5, scale=10 ** rng.randint(0, 20))


def stake_amount(rng, w):
    sc = w.cfg.get("scale", 10 ** 6)
    return rng.choice([1, 2, rng.randint(1, 100), sc + rng.randint(0, 9), max(1, int(sc * rng.uniform(0.05, 20))) + rng.randint(0, 9),
                       max(1, int(sc * rng.uniform(0.05, 20))) + rng.randint(0, 9), log_amount(rng)])


def rate_amount(rng, w):
    sc = w.cfg.get("scale", 10 ** 6)
    if w.cfg["dsc"] <= 10 and rng.random() < 0.6:
        return rng.choice([sc * 7 + 3, sc * 1000, sc * 1000 + 1, sc * 10 ** 5 + 1])
    return rng.choice([1, max(1, sc // 10 ** 6), max(1, sc // 1000), max(1, sc // 10), sc, sc * 7 + 3, sc * 7 + 3, sc * 1000, sc * 1000 + 1, log_amount(rng)])


def topup_amount(rng, w):
    sc = w.cfg.get("scale", 10 ** 6)
    return rng.choice([sc * 10 ** 3, sc * 10 ** 6, sc * 10 ** 9, sc * 10 ** 9 + 7, sc * 50, log_amount(rng)])


def positions_of(w, u):
    return [(n, v) for (n, h), v in sorted(w.last["held"].items()) if h == u and v > 0]


def gen_op(rng, w):
    sh = w.shadow
    _pend = w.__dict__.setdefault("pending", [])
    if _pend:
        return _pend.pop(0)
    users = list(range(1, NUSERS + 1))
    roll = rng.random()
    # ---- bring the farm up
    if sh["rate"] == 0 and roll < 0.7:
        return ["SetRate", OWNER, rate_amount(rng, w)]
    if sh["state"] != 1 and roll < 0.7:
        return ["SetState", OWNER, 1]
    if w.last["cap"] - w.last["acc"] <= w.last["cap"] // 10 and roll < 0.7:
        return ["TopUp", OWNER, topup_amount(rng, w)]
    if sh["rate"] != 0 and not sh["produce"] and roll < 0.6:
        # production was stopped (or never started): let an idle gap pass before the restart about a third of the
        # time, so that "restart is not retroactive" is exercised with blocks between endProduceRewards and start
        if roll < 0.2 and sh.get("last", 0) >= w.blk:
            return ["Time", rng.choice([1, 10, 100, 10000]), rng.choice([7, 7, 8, 14, 1])]
        return ["Start", OWNER]
    if w.cfg.get("boost"):
        st = w.__dict__.setdefault("boost_stage", 0)
        if st == 0:
            w.boost_stage = 1
            return ["SetPct", OWNER, rng.choice([2500, 1, 5000, 10000])]
        if st == 1:
            w.boost_stage = 2
            return ["SetFactors", OWNER, [rng.choice([1, 2, 10]), rng.choice([0, 1, 3]), rng.choice([1, 2]), rng.choice([1, 10]), rng.choice([1, 100])]]
        if st in (2, 3, 4):
            w.boost_stage = st + 1
            return ["Energy", st - 1, log_amount(rng, 10 ** 9) + 100, log_amount(rng, 10 ** 6) + 10]
        if roll < 0.12:
            return ["Time", rng.choice([1, 10, 100, 10000]), rng.choice([7, 7, 8, 14, 1])]
    part = lambda v: v if rng.random() < 0.5 else rng.randint(1, v)
    # ---- a transferred position is used by the receiver next
    hot = w.__dict__.get("hot")
    if hot is not None:
        w.hot = None
        d, n = hot
        v = w.last["held"].get((n, d), 0)
        if v > 0 and rng.random() < 0.75:
            mine = [p for p in positions_of(w, d) if p[0] != n]
            kind = rng.random()
            if kind < 0.22:
                return ["Claim", d, d, (n, part(v))]
            if kind < 0.42:
                return ["Unstake", d, d, (n, part(v))]
            if kind < 0.62:
                extra = [(n2, part(v2)) for n2, v2 in rng.sample(mine, min(len(mine), rng.randint(0, 2)))]
                ps = [(n, part(v))] + extra
                rng.shuffle(ps)
                return ["Merge", d, ps]
            if kind < 0.82:
                extra = [(n2, part(v2)) for n2, v2 in rng.sample(mine, min(len(mine), rng.randint(0, 1)))]
                return ["Stake", d, d, stake_amount(rng, w), [(n, part(v))] + extra]
            extra = [(n2, part(v2)) for n2, v2 in rng.sample(mine, min(len(mine), rng.randint(0, 1)))]
            ps = [(n, part(v))] + extra
            rng.shuffle(ps)
            return ["Compound", d, ps[0], ps[1:]]
    if roll < 0.19:
        return ["Time", rng.choice([1, 1, 3, 10, 100, 10000, 10 ** 6, 10 ** 6]), rng.choice([0, 0, 1, 1, 3, 7, 10, 30, 31])]
    _paid = max(0, w.last["acc"] - w.last["reserve"])
    if _paid > 0 and rng.random() < 0.03:
        # the admin tries to withdraw capacity that was already accrued AND paid out (only un-accrued capacity may leave)
        _rem = max(0, w.last["cap"] - w.last["acc"])
        return ["Withdraw", OWNER, _rem + rng.choice([1, _paid, max(1, _paid // 2)])]
    if type(w).__name__ in ("FarmWorld", "LockedFarmWorld", "StakingPosWorld") and w.last["supply"] > 0 and rng.random() < 0.02:
        return ["Upgrade"]          # only the base worlds (their derived worlds have their own observation code)
    if roll < 0.23:
        kind = rng.random()
        who = rng.choice([OWNER] * 7 + users)
        rem = max(0, w.last["cap"] - w.last["acc"])
        if kind < 0.15:
            return ["SetRate", who, rng.choice([0, rate_amount(rng, w)])]
        if kind < 0.20:
            return ["End", who]
        if kind < 0.4:
            return ["TopUp", who, topup_amount(rng, w)]
        if kind < 0.55:
            paid = max(0, w.last["acc"] - w.last["reserve"])        # accrued and already paid out: must NOT be withdrawable
            return ["Withdraw", who, rng.choice([0, 1, rem, rem + 1, rem // 2, rng.randint(0, rem + 2),
                                                 rem + max(1, paid), rem + max(1, paid // 2), max(0, rem - 1)])]
        if kind < 0.70:
            cur = max(1, sh["apr"])
            val = rng.choice([0, 1, 500, 10000, 10 ** 9, max(1, cur // 2), cur * 2, cur + 1, cur * 10, max(1, cur // 10)])
            if who == OWNER and rng.random() < 0.6:
                # let blocks pass first: the elapsed blocks must be settled under the OLD cap (never retroactive)
                _pend.append(["SetApr", OWNER, val])
                return ["Time", rng.choice([1, 10, 100, 1000]), 0]
            return ["SetApr", who, val]
        if kind < 0.78:
            return ["SetMinUnbond", who, rng.choice([0, 1, 5, 30, 31])]
        if kind < 0.84:
            return ["SetState", who, rng.choice([0, 1, 1])]
        if kind < 0.92:
            return ["SetPct", who, rng.choice([0, 2500, 10000, 10001])]
        return ["Donate", log_amount(rng, 10 ** 9)]
    c = rng.choice(users)
    # ---- unbond tokens
    ubs = [(n, u, v) for (n, u), v in sorted(w.last["ubheld"].items()) if v > 0]
    if ubs and sh["minub"] > 0 and not w.__dict__.get("minub_zeroed") and rng.random() < 0.05:
        # the admin sets the unbond period to 0 while unbond tokens are outstanding: a token keeps ITS unlock epoch
        n, u, v = rng.choice(ubs)
        if u != PROXY:
            w.minub_zeroed = True
            _pend.append(["Unbond", u, n, v])
            return ["SetMinUnbond", OWNER, 0]
    if ubs and roll < 0.30:
        n, u, v = rng.choice(ubs)
        kind = rng.random()
        if kind < 0.80:
            return ["Unbond", u, n, v if rng.random() < 0.6 else rng.randint(1, v)]
        if kind < 0.90 and u != PROXY:
            return ["TransferUb", n, u, rng.choice([x for x in users if x != u]), part(v)]
        if kind < 0.95:
            return ["Unbond", u, n, v + 1]                                    # more than held
        return ["Unbond", rng.choice([x for x in users + [PROXY] if x != u]), n, 1]   # not the holder
    mine = positions_of(w, c)
    pp = positions_of(w, PROXY)
    # ---- the whitelisted proxy
    if roll < 0.38 and (pp or rng.random() < 0.7):
        kind = rng.random()
        u = rng.choice(users)
        if kind < 0.04:
            return ["StakeProxy", c, u, rng.randint(1, 1000), []]               # not whitelisted
        if kind < 0.07 and mine:
            n, v = rng.choice(mine)
            return rng.choice([["ClaimNewValue", c, c, (n, part(v)), v], ["UnstakeProxy", c, c, (n, part(v)), 1]])   # not whitelisted
        if kind < 0.40 or not pp:
            adds = [(n, part(v)) for n, v in rng.sample(pp, min(len(pp), rng.choice([0, 0, 1, 1, 2])))]
            return ["StakeProxy", PROXY, u, stake_amount(rng, w), adds]
        n, v = rng.choice(pp)
        x = part(v)
        if kind < 0.60:
            return ["UnstakeProxy", PROXY, u, (n, x), rng.choice([x, max(1, x // 2), x + rng.randint(0, 5), log_amount(rng, max(10, x * 2))])]
        if kind < 0.80:
            return ["ClaimNewValue", PROXY, u, (n, x), rng.choice([x, x + 1, max(0, x - 1), x * 2, log_amount(rng, max(10, x * 2))])]
        # the plain endpoints with an explicit original caller
        if kind < 0.87:
            return ["Claim", PROXY, u, (n, x)]
        if kind < 0.94:
            return ["Unstake", PROXY, u, (n, x)]
        return ["Stake", PROXY, u, stake_amount(rng, w), [(n, x)] if rng.random() < 0.5 else []]
    # ---- users
    if roll < 0.52 or not mine:
        amt = stake_amount(rng, w)
        adds = []
        if mine and rng.random() < 0.45:
            for (n, v) in rng.sample(mine, min(len(mine), rng.randint(1, 3))):
                adds.append((n, part(v)))
        if mine and rng.random() < 0.03:
            return ["Stake", c, rng.choice([x for x in users if x != c]), amt, adds]      # original caller without whitelist
        return ["Stake", c, c, amt, adds]
    n, v = rng.choice(mine)
    if roll < 0.62:
        return ["Claim", c, c, (n, part(v))]
    if roll < 0.72:
        return ["Unstake", c, c, (n, part(v))]
    if roll < 0.80:
        sel = rng.sample(mine, min(len(mine), rng.choice([1, 2, 3, 4])))
        ps = [(n2, part(v2)) for n2, v2 in sel]
        if rng.random() < 0.15 and ps[0][1] < dict(mine)[ps[0][0]]:
            ps.append((ps[0][0], rng.randint(1, dict(mine)[ps[0][0]] - ps[0][1])))     # the same nonce twice
        return ["Merge", c, ps]
    if roll < 0.83:
        return ["ClaimBoosted", c]
    if roll < 0.92:
        d = rng.choice([u for u in users if u != c])
        w.hot = (d, n)
        return ["Transfer", n, c, d, part(v)]
    if roll < 0.98:
        sel = rng.sample(mine, min(len(mine), rng.choice([1, 1, 2, 3])))
        ps = [(n2, part(v2)) for n2, v2 in sel]
        return ["Compound", c, ps[0], ps[1:]]
    # ---- malformed: more than held / somebody else's nonce
    kind = rng.random()
    if kind < 0.5:
        return ["Claim", c, c, (n, v + 1)]
    other = [p for u in users if u != c for p in positions_of(w, u) if (p[0], c) not in w.last["held"]]
    if other:
        n2, v2 = rng.choice(other)
        return rng.choice([["Unstake", c, c, (n2, 1)], ["Merge", c, [(n, v), (n2, 1)]]])
    return ["Unstake", c, c, (n, v + rng.randint(1, 10))]


def gen_history(seed, nops, cfg=None):
    rng = random.Random(seed)
    if cfg is None:
        cfg = gen_cfg(rng)
    w = StakingPosWorld(cfg)
    trace = []
    try:
        for _ in range(nops):
            op = gen_op(rng, w)
            trace.append((op, w.exec(op)))
    finally:
        w.close()
    return cfg, trace


def norm_op(op):
    """JSON round trip turns (n, x) tuples into lists; restore them"""
    def fix(x):
        if isinstance(x, list) and len(x) == 2 and all(isinstance(y, int) for y in x):
            return tuple(x)
        if isinstance(x, list) and x and all(isinstance(y, list) for y in x):
            return [fix(y) for y in x]
        return x
    if op[0] == "SetFactors":
        return list(op)
    return [fix(x) for x in op]


def replay_history(cfg, ops):
    w = StakingPosWorld(cfg)
    trace = []
    try:
        for op in ops:
            op = norm_op(op)
            trace.append((op, w.exec(op)))
    finally:
        w.close()
    return trace
