"""Pair subsystem: real dex/pair (+ real fees-collector, + second real pair as trusted swap pair)
driven through the mxvm executor; op generator; observation; Coq case emission; monitors.

Account ids used by the model (coq/Model/Pair.v): 0 = the pair itself, 100 = owner,
1..NUSERS = plain users, 50 = whitelisted caller ("contract"), 60.. = fee destination addresses.
Token codes: 0 = LP, 1 = first, 2 = second, 3 = foreign token traded by the second pair.
"""
import random
from vmx import *

T = {1: b"WEGLD-abcdef", 2: b"MEX-abcdef", 3: b"OTHER-abcdef", 0: b"LPTOK-abcdef", 9: b"LPTWO-abcdef",
     8: b"LOCKED-abcdef"}
NUSERS = 3
OWNER, WL = 100, 50
BIG = 10 ** 80


def zlit(n):
    return f"({n})" if n < 0 else str(n)


class PairWorld:
    def __init__(self, cfg):
        """cfg: dict(fee, sfee, adder(0/None or user id), second(bool))"""
        self.cfg = cfg
        vm = self.vm = VM()
        self.addr = {OWNER: user_addr("owner"), WL: user_addr("wlcaller")}
        for u in range(1, NUSERS + 1):
            self.addr[u] = user_addr(f"user{u}")
        for d in (60, 61, 62):
            self.addr[d] = user_addr(f"dest{d}")
        self.pair = sc_addr("pair1")
        self.pair2 = sc_addr("pair2")
        self.coll = sc_addr("collector")
        self.efact = sc_addr("efactory")
        self.addr[0] = self.pair
        for a in self.addr.values():
            if a != self.pair:
                vm.acct(a)
        vm.block(nonce=1, round_=1, epoch=1, ts=6)
        own = self.addr[OWNER]
        adder = self.addr[cfg["adder"]] if cfg.get("adder") else ZERO_ADDR
        r = vm.deploy(own, "pair", [T[1], T[2], own, own, top_u(cfg["fee"]), top_u(cfg["sfee"]), adder],
                      new_addr=self.pair)
        assert r.ok, r
        assert vm.call(own, self.pair, "setLpTokenIdentifier", [T[0]]).ok
        vm.roles(self.pair, T[0], ["ESDTRoleLocalMint", "ESDTRoleLocalBurn"])
        for t in (1, 2, 3):
            vm.roles(self.pair, T[t], ["ESDTRoleLocalBurn"])
        # fees collector (real contract); energy factory address only needs to be an SC address
        vm.acct(self.efact, code="energy-factory-mock", owner=own)
        r = vm.deploy(own, "fees-collector", [T[8], self.efact], new_addr=self.coll)
        assert r.ok, r
        assert vm.call(own, self.coll, "addKnownContracts", [self.pair]).ok
        assert vm.call(own, self.coll, "addKnownTokens", [T[1], T[2]]).ok
        # second pair (T1, T3), active, with liquidity; first pair is whitelisted there
        r = vm.deploy(own, "pair", [T[1], T[3], own, own, top_u(300), top_u(50), ZERO_ADDR], new_addr=self.pair2)
        assert r.ok, r
        assert vm.call(own, self.pair2, "setLpTokenIdentifier", [T[9]]).ok
        vm.roles(self.pair2, T[9], ["ESDTRoleLocalMint", "ESDTRoleLocalBurn"])
        for t in (1, 3):
            vm.roles(self.pair2, T[t], ["ESDTRoleLocalBurn"])
        assert vm.call(own, self.pair2, "resume").ok
        assert vm.call(own, self.pair2, "whitelist", [self.pair]).ok
        vm.setbal(own, T[1], 0, BIG)
        vm.setbal(own, T[3], 0, BIG)
        l2 = cfg["liq2"]
        r = vm.call(own, self.pair2, "addLiquidity", [top_u(1), top_u(1)], [(T[1], 0, l2[0]), (T[3], 0, l2[1])])
        assert r.ok, r
        for u in list(range(1, NUSERS + 1)) + [WL, OWNER]:
            vm.setbal(self.addr[u], T[1], 0, BIG)
            vm.setbal(self.addr[u], T[2], 0, BIG)
        self.lp_accounts = [0, OWNER, WL] + list(range(1, NUSERS + 1))
        self.all_accounts = list(self.addr.values()) + [self.pair2, self.coll]
        self.round = 1
        self.shadow = dict(fee=cfg['fee'], sfee=cfg['sfee'], wl=False, dests={}, coll=None, trusted=False)
        self.last = self.observe_state()

    def close(self):
        self.vm.close()

    # ------------------------------------------------------------ observation
    def observe_state(self):
        vm = self.vm
        r = vm.query(self.pair, "getReservesAndTotalSupply")
        assert r.ok
        r1, r2, S = [from_top_u(x) for x in r.out]
        st = vm.query(self.pair, "getState")
        fe = vm.query(self.pair, "getTotalFeePercent")
        sf = vm.query(self.pair, "getSpecialFee")
        fs = vm.query(self.pair, "getFeeState")
        o = dict(r1=r1, r2=r2, S=S, b1=vm.bal(self.pair, T[1]), b2=vm.bal(self.pair, T[2]),
                 lp={a: vm.bal(self.addr[a], T[0]) for a in self.lp_accounts},
                 lp_other=sum(vm.bal(a, T[0]) for a in (self.pair2, self.coll, self.addr[60], self.addr[61], self.addr[62])),
                 state=from_top_u(st.out[0]) if st.ok and st.out else 0,
                 fee=from_top_u(fe.out[0]) if fe.out else 0, sfee=from_top_u(sf.out[0]) if sf.out else 0,
                 fee_on=bool(fs.out and fs.out[0]))
        return o

    def totals(self):
        tot = {1: 0, 2: 0, 3: 0}
        for a in self.all_accounts:
            for t in (1, 2, 3):
                tot[t] += self.vm.bal(a, T[t])
        return tot

    # ------------------------------------------------------------ execution
    def exec(self, op):
        vm = self.vm
        k = op[0]
        A = self.addr
        caller = None
        if k in ("AddInitial", "Add", "Remove", "SwapIn", "SwapOut", "SwapNoFee", "RemoveBuyBack"):
            caller = op[1]
            for t in (1, 2):      # callers never run out of pool tokens (amounts can reach reserve^2)
                vm.setbal(A[caller], T[t], 0, 10 ** 300)
        pre_tot = self.totals()
        pre_c = {t: vm.bal(A[caller], T[t]) for t in (1, 2)} if caller is not None else None
        others = [u for u in list(range(1, NUSERS + 1)) + [WL, OWNER, 60, 61, 62] if u != caller]
        pre_oth = {(u, t): vm.bal(A[u], T[t]) for u in others for t in (1, 2, 3)}
        pre_coll = {t: vm.bal(self.coll, T[t]) for t in (1, 2)}
        pre_p2 = {t: vm.bal(self.pair2, T[t]) for t in (1, 3)}
        pre_dig = vm.digest([self.pair])
        if k == "AddInitial":
            _, c, a1, a2 = op
            r = vm.call(A[c], self.pair, "addInitialLiquidity", [], [(T[1], 0, a1), (T[2], 0, a2)])
            outs = [dec_payment(x)[2] for x in r.out] if r.ok else []
        elif k == "Add":
            _, c, a1, a2, m1, m2 = op
            r = vm.call(A[c], self.pair, "addLiquidity", [top_u(m1), top_u(m2)], [(T[1], 0, a1), (T[2], 0, a2)])
            outs = [dec_payment(x)[2] for x in r.out] if r.ok else []
        elif k == "Remove":
            _, c, lp, m1, m2 = op
            # the view getTokensForGivenPosition is one of C04's observation points: queried in the same state
            vq = vm.query(self.pair, "getTokensForGivenPosition", [top_u(lp)])
            self._view_pos = [dec_payment(x)[2] for x in vq.out] if vq.ok else None
            r = vm.call(A[c], self.pair, "removeLiquidity", [top_u(m1), top_u(m2)], [(T[0], 0, lp)])
            outs = [dec_payment(x)[2] for x in r.out] if r.ok else []
        elif k == "SwapIn":
            _, c, tin, ain, tout, mn = op
            r = vm.call(A[c], self.pair, "swapTokensFixedInput", [T[tout], top_u(mn)], [(T[tin], 0, ain)])
            outs = [dec_payment(x)[2] for x in r.out] if r.ok else []
        elif k == "SwapOut":
            _, c, tin, amax, tout, aout = op
            r = vm.call(A[c], self.pair, "swapTokensFixedOutput", [T[tout], top_u(aout)], [(T[tin], 0, amax)])
            outs = [dec_payment(x)[2] for x in r.out] if r.ok else []
        elif k == "SwapNoFee":
            _, c, tin, ain, tout = op
            r = vm.call(A[c], self.pair, "swapNoFeeAndForward", [T[tout], A[60]], [(T[tin], 0, ain)])
            outs = []
        elif k == "RemoveBuyBack":
            _, c, lp, tok = op
            r = vm.call(A[c], self.pair, "removeLiquidityAndBuyBackAndBurnToken", [T[tok]], [(T[0], 0, lp)])
            outs = []
        elif k == "SetFee":
            _, c, f, sf = op
            r = vm.call(A[c], self.pair, "setFeePercents", [top_u(f), top_u(sf)])
            outs = []
        elif k == "SetFeeOn":
            _, c, en, a, tok = op
            r = vm.call(A[c], self.pair, "setFeeOn", [top_bool(en), A[a], T[tok]])
            outs = []
        elif k == "SetCollector":
            _, c, cut = op
            r = vm.call(A[c], self.pair, "setupFeesCollector", [self.coll, top_u(cut)])
            outs = []
        elif k == "SetState":
            _, c, st = op
            r = vm.call(A[c], self.pair, {0: "pause", 1: "resume", 2: "setStateActiveNoSwaps"}[st])
            outs = []
        elif k == "WlAdd":
            _, c, a = op
            r = vm.call(A[c], self.pair, "whitelist", [A[a]])
            outs = []
        elif k == "WlRm":
            _, c, a = op
            r = vm.call(A[c], self.pair, "removeWhitelist", [A[a]])
            outs = []
        elif k == "Trust":
            _, c, ta, tb = op
            r = vm.call(A[c], self.pair, "addTrustedSwapPair", [self.pair2, T[ta], T[tb]])
            outs = []
        elif k == "LpTransfer":
            _, s, d, amt = op
            r = vm.transfer(A[s], A[d], [(T[0], 0, amt)])
            outs = []
        elif k == "Donate":
            _, tok, amt = op
            r = vm.transfer(A[OWNER], self.pair, [(T[tok], 0, amt)])
            outs = []
        elif k == "Round":
            self.round += op[1]
            vm.block(nonce=self.round, round_=self.round, ts=6 * self.round)
            return None
        else:
            raise ValueError(k)
        o = self.observe_state()
        post_tot = self.totals()
        o["ok"] = r.ok
        o["msg"] = r.msg
        o["outs"] = outs
        o["burn"] = {t: pre_tot[t] - post_tot[t] for t in (1, 2, 3)}
        if caller is not None:
            o["dcaller"] = {t: vm.bal(A[caller], T[t]) - pre_c[t] for t in (1, 2)}
        o["dcoll"] = {t: vm.bal(self.coll, T[t]) - pre_coll[t] for t in (1, 2)}
        o["dothers"] = {f"{u}:{t}": vm.bal(A[u], T[t]) - v for (u, t), v in pre_oth.items() if vm.bal(A[u], T[t]) != v}
        o["view_pos"] = self.__dict__.pop("_view_pos", None) if k == "Remove" else None
        o["dp2"] = {t: vm.bal(self.pair2, T[t]) - pre_p2[t] for t in (1, 3)}
        q = vm.query(self.pair2, "getReservesAndTotalSupply")
        o["q1"], o["q2"] = from_top_u(q.out[0]), from_top_u(q.out[1])
        if not r.ok:
            o["unchanged"] = (vm.digest([self.pair]) == pre_dig)
        if r.ok:
            sh = self.shadow
            if k == "SetFee": sh['fee'], sh['sfee'] = op[2], op[3]
            elif k == "WlAdd": sh['wl'] = True
            elif k == "WlRm": sh['wl'] = False
            elif k == "SetFeeOn":
                if op[2]: sh['dests'][op[3]] = op[4]
                else: sh['dests'].pop(op[3], None)
            elif k == "SetCollector": sh['coll'] = op[2]
            elif k == "Trust": sh['trusted'] = True
        o["pre"] = self.last
        self.last = {k_: o[k_] for k_ in ("r1", "r2", "S", "b1", "b2", "lp", "lp_other", "state", "fee", "sfee", "fee_on")}
        return o


# ------------------------------------------------------------------ Coq emission
def coq_op(op):
    k = op[0]
    if k == "SetFeeOn":
        _, c, en, a, tok = op
        return f"SetFeeOn {c} {'true' if en else 'false'} {a} {tok}"
    return k + " " + " ".join(zlit(x) for x in op[1:])


def coq_pairs(d):
    return "[" + "; ".join(f"({zlit(k)}, {zlit(v)})" for k, v in d) + "]"


def coq_obs(o):
    outs = "[" + "; ".join(zlit(x) for x in o["outs"]) + "]"
    burn = coq_pairs([(t, o["burn"][t]) for t in (1, 2)]) if o["ok"] else "[]"
    coll = coq_pairs(sorted(o["dcoll"].items())) if o["ok"] else "[]"
    return (f"mkObs {'true' if o['ok'] else 'false'} {outs} {o['r1']} {o['r2']} {o['S']} "
            f"{o['b1']} {o['b2']} {coq_pairs(sorted(o['lp'].items()))} {burn} {coll} {o['q1']} {o['q2']}")


def coq_init(cfg):
    ad = f"(Some {cfg['adder']})" if cfg.get("adder") else "None"
    l2 = cfg["liq2"]
    return f"(init_world {cfg['fee']} {cfg['sfee']} {ad} {l2[0]} {l2[1]})"


def coq_history(cfg, trace):
    """trace: list of (op, obs) with Round ops already removed"""
    items = ";\n    ".join(f"({coq_op(op)}, {coq_obs(o)})" for op, o in trace)
    return f"(check_trace {coq_init(cfg)} 0 [\n    {items}])"


# ------------------------------------------------------------------ generation
def log_amount(rng, hi=10 ** 30):
    e = rng.uniform(0, len(str(hi)) - 1)
    return max(1, int(10 ** e) + rng.randint(0, 9))


def gen_cfg(rng):
    fee = rng.choice([0, 0, 1, 30, 300, 300, 1000, 4999, 5000])
    sfee = rng.choice([0, 0, fee, fee // 2, min(fee, 50), rng.randint(0, fee)])
    adder = rng.choice([None, None, 1])
    # ext: a fee destination that wants the THIRD token through the trusted second pair is configured early, so the
    # local-swap-then-external-swap fee path (fee.rs send_fee_slice) is exercised in about a third of the histories
    ext = rng.random() < 0.35
    if ext and sfee == 0:
        fee = rng.choice([30, 300, 300, 1000, 5000])
        sfee = rng.choice([fee, fee // 2, min(fee, 50), rng.randint(1, fee)])
    return dict(fee=fee, sfee=sfee, adder=adder, ext=ext,
                liq2=[log_amount(rng, 10 ** 20) + 2000, log_amount(rng, 10 ** 20) + 2000])


def gen_op(rng, w, stats):
    """mostly-valid op from the world's last observed state"""
    s = w.last
    _pend = w.__dict__.setdefault("pending", [])
    if _pend:
        return _pend.pop(0)
    r1, r2, S = s["r1"], s["r2"], s["S"]
    users = list(range(1, NUSERS + 1))
    c = rng.choice(users)
    roll = rng.random()
    sh = w.shadow
    st = s["state"]
    if S == 0:
        # bootstrap phase
        if roll < 0.15:
            return ["SetState", OWNER, rng.choice([1, 2, 1, 0])]
        if w.cfg.get("adder") and st != 0 and roll < 0.5:
            return ["SetState", OWNER, 0]
        if not w.cfg.get("adder") and st == 0 and roll < 0.4:
            return ["SetState", OWNER, rng.choice([1, 2])]
        cls = rng.random()
        if cls < 0.3:
            a1, a2 = rng.randint(1001, 1012), rng.randint(1001, 1012)
        elif cls < 0.4:
            a1, a2 = rng.randint(1, 1001), log_amount(rng)
        else:
            a1, a2 = log_amount(rng) + 1000, log_amount(rng) + 1000
        want_initial = (st == 0) if rng.random() < 0.85 else (roll < 0.6)
        if want_initial:
            who = w.cfg["adder"] if (w.cfg.get("adder") and rng.random() < 0.85) else c
            return ["AddInitial", who, a1, a2]
        return ["Add", c, a1, a2, 1, 1]
    if st == 1 and not w.__dict__.get("reseed_tried") and rng.random() < 0.04:
        # the owner pauses a FUNDED pool and somebody calls addInitialLiquidity on it (must be refused: initial liquidity
        # was already added - otherwise the LP supply is overwritten while the old LP tokens keep circulating); then resume
        w.reseed_tried = True
        who = w.cfg["adder"] if (w.cfg.get("adder") and rng.random() < 0.5) else c
        a = rng.choice([2000, 5000, log_amount(rng) + 1001])
        _pend.extend([["AddInitial", who, a, rng.choice([a, log_amount(rng) + 1001])], ["SetState", OWNER, 1]])
        return ["SetState", OWNER, 0]
    if st != 1 and rng.random() < 0.45:
        return ["SetState", OWNER, 1]
    if not sh['wl'] and rng.random() < 0.08:
        return ["WlAdd", OWNER, WL]
    if w.cfg.get("ext") and not any(v == 3 for v in sh['dests'].values()) and sh['coll'] is None and rng.random() < 0.5:
        return ["SetFeeOn", OWNER, True, rng.choice([60, 61, 62]), 3]
    if w.cfg.get("ext") and any(v == 3 for v in sh['dests'].values()) and not sh['trusted']:
        return ["Trust", OWNER, 1, 3]
    if not sh['dests'] and sh['coll'] is None and rng.random() < 0.12:
        if rng.random() < 0.6:
            return ["SetFeeOn", OWNER, True, rng.choice([60, 61, 62]), rng.choice([1, 2, 1, 2, 3])]
        return ["SetCollector", OWNER, rng.choice([1, 10000, 50000, 100000, rng.randint(1, 100000)])]
    if any(v == 3 for v in sh['dests'].values()) and not sh['trusted'] and rng.random() < 0.5:
        return ["Trust", OWNER, rng.choice([1, 2]), 3]
    if roll < 0.06:
        return ["Round", rng.choice([1, 1, 2, 10, 1000])]
    if roll < 0.12:
        kind = rng.random()
        if kind < 0.25:
            f = rng.choice([0, 1, 300, 5000, 5001, rng.randint(0, 5000)])
            return ["SetFee", rng.choice([OWNER] * 5 + users), f, rng.choice([0, f, rng.randint(0, f + 1)])]
        if kind < 0.5:
            return ["SetFeeOn", rng.choice([OWNER] * 5 + users), rng.random() < 0.7, rng.choice([60, 61, 62]),
                    rng.choice([1, 2, 1, 2, 3])]
        if kind < 0.6:
            return ["SetCollector", OWNER, rng.choice([1, 10000, 50000, 100000, rng.randint(1, 100000)])]
        if kind < 0.75:
            return ["SetState", rng.choice([OWNER] * 5 + users), rng.choice([1, 1, 1, 2, 0])]
        if kind < 0.85:
            return ["WlAdd", OWNER, WL]
        if kind < 0.9:
            return ["WlRm", OWNER, WL]
        return ["Trust", OWNER, rng.choice([1, 2]), 3]
    if roll < 0.15:
        return ["Donate", rng.choice([1, 2]), log_amount(rng, 10 ** 12)]
    if roll < 0.19:
        src = rng.choice(users)
        have = s["lp"].get(src, 0)
        if have > 0:
            return ["LpTransfer", src, rng.choice(users + [WL]), rng.randint(1, have)]
    if roll < 0.37:
        # add liquidity: balanced / skewed / tiny
        cls = rng.random()
        a1 = log_amount(rng)
        if cls < 0.35:
            a2 = a1 * r2 // r1 + rng.choice([-1, 0, 1, 0])
        elif cls < 0.6:
            a2 = log_amount(rng)
        elif cls < 0.8:
            a1, a2 = rng.randint(1, 5), rng.randint(1, 5)
        else:
            a1 = rng.randint(1, 3) * max(1, r1 // max(S, 1)) + rng.randint(0, 2)
            a2 = a1 * r2 // max(r1, 1) + rng.randint(0, 2)
        a2 = max(1, a2)
        q2 = a1 * r2 // r1
        if q2 <= a2:
            o1, o2 = a1, q2
        else:
            o1, o2 = a2 * r1 // r2, a2
        m = rng.random()
        m1, m2 = (1, 1) if m < 0.6 else (max(1, o1 + rng.choice([-1, 0, 0, 0, 1])), max(1, o2 + rng.choice([-1, 0, 0, 0, 1])))
        if 0.6 <= m < 0.72:
            # a minimum strictly between the amount USED and the amount SENT on the side that has excess: must be refused
            if a1 > o1:
                m1 = rng.randint(o1 + 1, a1)
            elif a2 > o2:
                m2 = rng.randint(o2 + 1, a2)
        return ["Add", c, a1, a2, m1, m2]
    if roll < 0.50:
        who = rng.choice(users + [WL])
        have = s["lp"].get(who, 0)
        if have > 0:
            cls = rng.random()
            lp = have if cls < 0.3 else (rng.randint(1, have) if cls < 0.8 else rng.randint(1, min(have, 10)))
            x1, x2 = lp * r1 // S, lp * r2 // S
            m = rng.random()
            m1, m2 = (1, 1) if m < 0.6 else (max(1, x1 + rng.choice([-1, 0, 0, 1])), max(1, x2 + rng.choice([0, 0, 1])))
            if who == WL and rng.random() < 0.7:
                return ["RemoveBuyBack", WL, lp, rng.choice([1, 2, 1, 2, 3])]
            return ["Remove", who, lp, m1, m2]
    if roll < 0.56:
        tin = rng.choice([1, 2])
        return ["SwapNoFee", rng.choice([WL] * 8 + users), tin, log_amount(rng, max(10, (r1 if tin == 1 else r2) * 3)), 3 - tin]
    # swaps
    tin = rng.choice([1, 2])
    tout = 3 - tin
    ri, ro = (r1, r2) if tin == 1 else (r2, r1)
    if rng.random() < 0.03:
        tout = rng.choice([tin, 3])
    if roll < 0.80:
        cls = rng.random()
        if cls < 0.5:
            ain = log_amount(rng, max(10, ri * 100))
        elif cls < 0.7:
            ain = rng.randint(1, 20)
        elif cls < 0.85:
            ain = max(1, ri // rng.choice([1, 2, 10, 1000]) + rng.randint(-2, 2))
        else:
            ain = log_amount(rng)
        F = sh['fee']
        exp = ain * (100000 - F) * ro // (ri * 100000 + ain * (100000 - F)) if ri > 0 else 0
        m = rng.random()
        mn = 1 if m < 0.6 else max(1, exp + rng.choice([-2, -1, 0, 1, 5]))
        return ["SwapIn", c, tin, ain, tout, mn]
    cls = rng.random()
    if cls < 0.5:
        aout = rng.randint(1, max(1, ro - 1))
    elif cls < 0.7:
        aout = max(1, ro - rng.choice([1, 1, 2, 3, 0]))
    elif cls < 0.85:
        aout = rng.randint(1, min(20, max(1, ro)))
    else:
        aout = log_amount(rng, max(10, ro))
    F = sh['fee']
    need = (ri * aout * 100000 // ((ro - aout) * (100000 - F)) + 1) if 0 < aout < ro else 10 ** 6
    m = rng.random()
    amax = need * 2 + 10 if m < 0.6 else max(1, need + rng.choice([-1, 0, 0, 1, 100]))
    return ["SwapOut", c, tin, amax, tout, aout]


def gen_history(seed, nops):
    rng = random.Random(seed)
    cfg = gen_cfg(rng)
    w = PairWorld(cfg)
    trace = []
    stats = {}
    try:
        for _ in range(nops):
            op = gen_op(rng, w, stats)
            o = w.exec(op)
            trace.append((op, o))
    finally:
        w.close()
    return cfg, trace


def replay_history(cfg, ops):
    w = PairWorld(cfg)
    trace = []
    try:
        for op in ops:
            trace.append((op, w.exec(op)))
    finally:
        w.close()
    return trace
