#!/usr/bin/env python3
"""Writes MANIFEST.json from the table below (kept in one place so it is always valid)."""
import json, os
ROOT = os.path.dirname(os.path.dirname(os.path.abspath(__file__)))

NOTE = ("Trusted base: Coq 8.16.1 kernel (vm_compute, no native_compute), no axioms (Print Assumptions checked by name "
        "on every run), tools/extract.py (constants), harness mxvm + Python generators/monitors (correspondence), "
        "debug VM ESDT semantics (A-VM), u64 additions do not overflow (A-U64). Everything in /repo is modelled; what is "
        "verified is the model; the tie is the per-run correspondence on the real contracts.")

CLAIMED = {
 "C01": ("Invariant PairInv (balance >= reserve, S = sum of LP held, reserves positive, 1000 LP locked) proved preserved by every "
         "operation of the pair model incl. all fee paths and the trusted external pair, lifted to every reachable state by induction; "
         "model tied to dex/pair by per-run differential replay of generated histories in Coq.", "7 C01",
         "Coq inductive invariant + model/implementation correspondence"),
 "C02": ("Per-step theorem r1 r2 S'^2 <= r1' r2' S^2 for every successful operation (nonlinear arithmetic over floor bounds), "
         "corollaries for arbitrary swap sequences and add-then-remove; same correspondence as C01 plus K/S^2 monitor on real observations.",
         "7 C02", "Coq per-step monotonicity theorem + correspondence"),
}
CLAIMED["C03"] = ("Theorems: every successful fixed-input / fixed-output swap of the model returns the unique floor of the documented rational "
    "(cross-multiplied is_floor), respects min/max, charges floor+1 which is proved sufficient (in_enough), special fee bounded and leaving only via "
    "burn/collector/trusted pair; failing below the minimum. Tied to dex/pair by differential replay + formula/conservation monitors on real swaps.",
    "7 C03", "Coq characterisation theorems (floor uniqueness) + correspondence")
CLAIMED["C04"] = ("Theorems: add uses the largest at-ratio deposit that fits, mints min of the two floors, refunds the rest; remove pays the exact floors or fails; "
    "first deposit locks MINIMUM_LIQUIDITY in the pair and LP supply can never fall below it afterwards (step_S_floor); initial-adder gate. "
    "Tied to dex/pair by differential replay + pro-rata monitors.", "7 C04", "Coq characterisation theorems + inductive floor invariant + correspondence")
CLAIMED["C05"] = ("Inductive invariants for every reachable state of three models: dex/farm (Model/Farm.v), farm-with-locked-rewards (Model/FarmLocked.v, refines the farm model; rewards leave only as locked tokens) and farm-staking at position level (Model/StakingPos.v): "
    "reserve = generated - paid, reward balance = reserve + donations (minting farm), farming tokens held = farm-token supply = sum of outstanding positions, DSC*(reserve - boosted pools) >= un-floored claimable base rewards of all positions "
    "(solvency, uses the ceil-merge lemma) and its floor form, principal backed, no legitimate operation fails on a negative counter (C05_staking_d_no_spurious_failure). "
    "In the CLOSED model of dex/farm (Props/C05_closed.v: Farm x Boosted, the boosted payout is computed, not an input) the farm's boosted pool equals the sum of the weekly pools + undistributed, the reserve covers claims plus those actual pools, and the computed payout is always payable. Props/C05_staking_closed.v: the same closed construction for farm-staking (link invariant, payout payable before the slice, fails-iff-guard-fails). Props/C05_total.v: on every reachable state of the farm model and of the closed model an operation fails IF AND ONLY IF a documented guard fails (no counter, debit, division or lookup can abort a legitimate call). "
    "Tied to the three real contracts by differential replay; the repaired defects F1/F4 stay as regression histories.", "46 C05", "Coq inductive invariants (accounting, ledger, solvency, refinement between models) + correspondence")
CLAIMED["C06"] = ("Theorems: settlement grows the index by exactly floor((rate*blocks - boosted cut)*DSC/supply) and never otherwise; index monotone; claim pays floor(amount*(RPS_now-RPS_entry)/DSC) + boosted; "
    "a new position records the index settled to its own block (not retroactive); base paid <= base generated over every history; admin changes settle with the old parameters first.", "7 C06",
    "Coq characterisation theorems + reachability invariant + correspondence")
CLAIMED["C07"] = ("Theorems: supply = sum of outstanding positions = sum held by accounts in every reachable state; merge preserves principal/compounded sums and never raises the un-rounded entitlement "
    "(ceil-weighted index), for any number of merged positions; split floors the compounded share and complementary parts never exceed the whole; each user's tracked total = sum of outstanding positions recorded for that user in every reachable state, also after transfers and use by another account. "
    "Proved for dex/farm (Model/Farm.v), farm-with-locked-rewards (Model/FarmLocked.v), farm-staking at position level (Model/StakingPos.v: incl. the saturating decrease never saturating) and for histories containing the on-behalf endpoints with a real permissions hub (Props/C07_behalf.v: the agent holds the token, the user's total counts it). "
    "Tied to the three real contracts by differential replay of attributes, holdings and per-user totals.", "32 C07",
    "Coq ledger invariant + merge/split algebra + correspondence")
CLAIMED["C17"] = ("25 theorems on the price-discovery model: phase = documented piecewise function of the block and monotone; gates per phase; linear-then-fixed penalty exact, within bounds, "
    "staying in the pool; tracked balances = real holdings and supply = circulating redeem tokens in every reachable state before redeem; redeem pays floor(pool*amount/supply) once, total payouts <= pool over any history; "
    "price floor for withdrawals and launched-token deposits (after the F6 repair, with the bootstrap case stated). Tied to dex/price-discovery by differential replay + monitors.", "7 C17",
    "Coq invariants + characterisation theorems + correspondence")
CLAIMED["C08"] = ("Refinement invariant proved for every history of the composed model (energy factory + token-unstake + lkmex-transfer + locked-token-wrapper): each account's lazily updated energy entry "
    "equals sum balance*(unlock-now) over the locked tokens it holds (signed), its total equals sum balance, escrows carry no energy and are backed; every new token unlocks strictly in the future. "
    "Extension (Props/C08_proxy.v, 8 theorems, closed proxy_dex composition): tokens at work through proxy_dex - outside the operation list of the property text - are attributed by caller (signed carried ledger): the depositor keeps their energy, a wrapped token changing hands moves no energy, the account whose call burns them is debited exactly amt*(unlock-now) incl. the refund for expired locks. Tied to the real contracts by differential replay; monitors recompute both sums from real balances and attributes.", "17 C08", "Coq refinement invariant by induction over operations + correspondence")
CLAIMED["C18"] = ("22 theorems on the governance-v2 model: status = documented function with rational thresholds (integer forms proved equivalent), None iff unused/cancelled; one vote per address per proposal, only while Active, "
    "power = isqrt(energy) (specified and proved), quorum weight = energy, tallies = sums over distinct ballots; fee escrow: leaves at most once, exact refund/burn split, contract balance = sum of un-withdrawn fees. "
    "Tied to governance-v2 + energy mock + fees collector by differential replay with boundary-aligned vote multisets.", "7 C18", "Coq invariants + characterisation theorems + correspondence")
CLAIMED["C13"] = ("Refinement proved for every ring capacity N >= 2 (instantiated with the extracted MAX_OBSERVATIONS): the ring + binary search + interpolation/extrapolation compute exactly the prefix sums of "
    "start-of-round reserves; ring layout, strictly increasing rounds, search correctness within fuel, exact lookup, documented integer average, rejection of bad windows; composed with the pair model "
    "(pre-operation reserves feed the ring, any number of operations per round). Tied to dex/pair by differential replay incl. injected full/wrapped rings of the real 65536 capacity.", "7 C13",
    "Coq refinement proof (ring = prefix sums) + correspondence")
CLAIMED["C09"] = ("24 theorems on the locking model (energy factory lock/unlock/penalty paths + token-unstake): every option list addLockOptions accepts is well-formed; the penalty percentage is the floor of the "
    "piecewise-linear interpolation, monotone, bounded, no division by zero; reduction formula exact; penalty amount exact; lock/unlock 1:1 and time-locked; unbond entries released only when matured, once; "
    "burn/collector split exact; base supply only re-appears through unlocks of burned amounts plus emission (invariant over all histories). Tied to the real contracts by differential replay and an exhaustive getPenaltyAmount sweep per sampled option set.",
    "7 C09", "Coq function laws for all option lists + inductive ledger invariant + correspondence (exhaustive view sweep)")
CLAIMED["C10"] = ("18 theorems on the generic weekly-rewards-splitting model instantiated for the fees collector: share = floor(total*e/E); claim window = the four most recent completed weeks, each (user, week) paid at most once "
    "over any history; totals frozen once by a claim; deposits claimable from the next week; the expiry-bucket invariant and total_energy(week) = sum of users' decayed energies (safe_sub never saturates); "
    "sum paid <= deposited per week and token; the collector's balance covers the claimable window; permitted claims never abort. Tied to fees-collector + energy mock by differential replay.", "7 C10",
    "Coq inductive invariants (bucket bookkeeping refinement) + ghost-ledger history theorem + correspondence")
CLAIMED["C12"] = ("16 theorems. Inductive invariant of the staking money-flow model for every history: accrued <= capacity; staking-token balance = direct principal + outstanding unbond amounts + un-accrued capacity + reserve (+ donations); "
    "per-settlement accrual bounded by supply*APR/(10000*blocks_per_year) per block (cross-multiplied), by the rate, by capacity; unbond tokens unlock exactly min_unbond epochs after unstake, the epoch never changes, "
    "unbond never succeeds earlier and pays the token amount once; admin withdrawal bounded by un-accrued capacity after settling. Reward amounts and position payments are inputs guarded by the same counters as the code. "
    "In the CLOSED staking model (Props/C12_closed.v: StakingPos x boosted module, payouts computed) the same invariant holds on every reachable state and the balance identity is itemised with the actual weekly boosted pools. Tied to farm-staking by differential replay incl. proxy (virtual) stakes.", "16 C12", "Coq inductive invariant + characterisation theorems + correspondence")
CLAIMED["C14"] = ("23 theorems on the router model (registry + world of Model.Pair contracts + ledger) for every reachable world: one pair per unordered token pair, order-insensitive exact lookup, listed pairs distinct and consistent; "
    "createPair guard set and effect, removePair; management endpoints, upgrade, user-enabled swaps and every multiPairSwap hop act only on registered pairs and an unregistered hop fails the call; "
    "multi-hop ledger: router delta 0 for every token, caller delta = -input + payments, each hop is exactly Pair.step on that pair alone (C03 formulas apply), any failing hop fails all, failed step leaves the world unchanged. "
    "Tied to router + pair template by differential replay (registry views, flags, balances, 12 observables per pair).", "23 C14", "Coq reachable-state invariant + characterisation theorems + correspondence")
CLAIMED["C15"] = ("59 theorems: 2 in Props/C15_twap.v (the trace checker that evaluates law L7 - registered staking value = documented time-weighted average of start-of-round reserves - on an independent ledger is sound); 16 on the CLOSED composition (Props/C15_closed.v: the LP-farm, staking-farm answers are computed by Model/FarmLocked / Model/StakingPos, all laws discharged, backing/parts/unstake/safe hold with NO law hypothesis, cross-contract conservation: proxy balances = positions the callee models hold for the proxy, staking virtual principal = sum recorded in outstanding dual-yield tokens), 22 on the on-behalf endpoints with the permissions hub (Props/C15_behalf.v), and 19 theorems on the farm-staking-proxy model (callee answers are inputs; interface laws L1-L7 are boolean predicates checked on every real answer and ALL proved on the callee models: L1-L3 on Model/Farm, L3-L5 on Model/StakingPos, L6 on Model/Pair, L7 on Model/SafePrice): "
    "for every history the proxy holds exactly the LP-farm and staking-farm tokens its outstanding dual-yield tokens record, all fungible balances 0; partial redemption = floor of the proportional share, sum of parts never exceeds the whole; "
    "unstake output order and unbond amount; registered staking value is the staking side of the safe-price (TWAP) answer and the only price query. Tied to the real pair + farm-with-locked-rewards + farm-staking + proxy by differential replay.",
    "59 C15", "Coq inductive invariant + characterisation theorems relative to stated callee laws + correspondence")
CLAIMED["C19"] = ("83 theorems: 24 on the permissions / pausable state machine over histories (Props/C19_perm.v: add = or, remove = and-not and never gains a bit, idempotence, holders = granted and not since revoked, a revoked keeper can neither pause nor resume); 27 on the behavioural on-behalf models (Props/C19_behalf.v: a call succeeds only for a hub-listed, non-blacklisted agent with every paid position recorded for the user; rewards incl. locked receipts go to the user only; failure leaves the state unchanged; no principal leaves through on-behalf endpoints) and 32 on the table: the access table (648 rows = every exported endpoint of the 16 contracts in Gen/Endpoints.v, regenerated from the source each run, plus on-behalf variants incl. mixed-owner multi-payment calls; 13,230 cells) proved exhaustively by vm_compute + forallb_forall: allowed => caller holds the demanded role / is a configured counterparty / authorised agent; "
    "fund-moving rows disallowed when inactive or paused (pair bootstrap exception), partial-active = liquidity only; inventory covered, #[only_owner] attributes agree; for all inputs: require_any_of rule, no escalation and powerless callers over every permissions/hub history, on-behalf rule = hub view, revocation/blacklist stick, rewards to the original owner; "
    "on Model.Pair / Model.Farm for all states and arguments: inactive => no user-funds operation. Tied by executing the complete endpoint x role x state matrix on the real contracts (state restored between cells) and comparing every verdict; failing calls must not change state.",
    "83 C19", "Coq finite decision table proved exhaustively + for-all-input guard/state-machine theorems + full matrix correspondence")
CLAIMED["C16"] = ("86 theorems: 11 on the two-pair model (Props/C16_multi.v: backing per LP token id; wrapped-LP / wrapped-farm merges succeed only within one pair / one farm and fail across them with the state unchanged); 23 on the CLOSED composition proxy_dex x pair x two locked farms x energy factory (Props/C16_closed.v: every closed step is a lawful ProxyDex step - the laws are discharged, not assumed - so backing / locked-stays-locked / mint-burn / energy theorems hold with no law hypothesis; cross-contract links: proxy LP = LP the pair model holds for it, proxy farm tokens = positions the farm models hold for it; pool and farm round trips conserve base+locked supply incl. the callee state) and 52 theorems on the proxy_dex model (pair, farms and energy factory are environment answers; the interface laws are boolean predicates evaluated where each answer is consumed, checked on every real answer, and each proved on the callee model - Model/Pair, Model/FarmLocked, Model/Energy/Penalty - with closed compositions C16_closed_*): "
    "Backed invariant for every lawful history and all positions at once (LP held >= user-held wrapped LP; farm tokens per nonce >= outstanding wrapped-farm supply; locked tokens per nonce >= sum of floor shares + wrapped-farm supply); "
    "remove returns locked tokens of the recorded nonce = min(received, part), base asset only as pool surplus, burns base + locked = part; exit with/without penalty for both farming-token kinds; base asset never paid except that surplus; merge; "
    "base minted on entry = base + locked burned on exit; energy drops by exactly burned*(unlock - now) incl. expired locks; into_part = floor share, aborts on zero, parts never sum past the whole. "
    "Tied to the real pair + two farm-with-locked-rewards + energy factory + proxy_dex by differential replay.", "86 C16",
    "Coq inductive invariant + characterisation theorems relative to stated callee laws + correspondence")
CLAIMED["C11"] = ("66 theorems: 26 on the boosted-yields model (farm-boosted-yields on top of the generic weekly-rewards-splitting model; farm-level facts - emission, supply, user position, energy entry - are operation inputs read from the real farm): "
    "invariant with ghost ledger for every reachable state; per processed week the payment is exactly min(maxF*R*f/F, (R*cE*e/E + R*cF*f/F)/(cE+cF)) with floor divisions and cross-multiplied bounds against the rational formula, 0 below the minimums / with E, F or R = 0; "
    "claim range = last four completed weeks from the progress week on; (user, week) pairs pairwise distinct over any history; per week cuts = accumulated + remaining + paid + swept, paid <= cuts, frozen total never changes; slice = full*pct/10000 into the running week only; "
    "collectUndistributed sweeps exactly weeks (last, current-5] once, never inside the window, admin only; every leftover ends in undistributed; 5-slot factor register refines week -> factors of the last accepted call; every accepted configuration has cE + cF > 0 and the formula never divides by zero in any reachable state (after the F7 repair); conservation; and 7 on the CLOSED dex/farm model (Props/C11_closed.v): for every completed week paid + the unguarded amounts of all still-pending users <= the pool (C11_no_underflow), so the guard on remaining(week) never fires and no endpoint aborts in the module half; 9 in Props/C11_staking_closed.v (C11_staking_no_underflow on the closed staking model); 24 in Props/C11_hosts.v: the same statements for the calling patterns of farm-with-locked-rewards (enterFarm re-reads the energy after lockVirtual) and farm-staking. "
    "Tied to dex/farm + energy-factory-mock, farm-with-locked-rewards + real energy factory, and farm-staking by differential replay of all boosted views; monitors recompute the formula with the user's position BEFORE the operation.", "66 C11",
    "Coq inductive invariant with ghost ledger + characterisation/refinement theorems + correspondence")
CLAIMED["C20"] = ("21 theorems: each view defined on the existing models (pair, farm, staking, penalty, price discovery) equals what the corresponding operation delivers in the same state, for all states satisfying the model invariants and all arguments: "
    "getAmountOut/getAmountIn vs both swap modes (quote = delivered / charged, refund = max - quote; view refuses => swap fails; liveness without fee destinations), getTokensForGivenPosition vs removeLiquidity (iff characterisation of the extra guards), "
    "farm calculateRewardsForGivenPosition = reward output of claimRewards incl. the in-query settlement, getPenaltyAmount = penalty charged by unlockEarly / reduceLockPeriod, getCurrentPhase/getCurrentPrice = phase gating and floor price of deposit/withdraw/redeem; views are pure. "
    "farm-staking (after the F3 repair): the view with the claimer named, or by default for the recorded original owner, = the reward claimRewards pays; C20_staking_default_user says exactly when the default differs (transferred position: it quotes the owner's boosted part). "
    "Tied by view -> storage digest -> execute-in-same-block runs on the real pair, farm, farm-with-locked-rewards, farm-staking, energy factory and price discovery.", "21 C20",
    "Coq view-equals-execution theorems on the subsystem models + correspondence")
NOT_YET = {}

def main():
    props = [json.loads(l) for l in open(os.path.join(ROOT, "properties.jsonl"))]
    checks, na = [], []
    for p in props:
        pid = p["id"]
        if pid in CLAIMED and os.path.exists(os.path.join(ROOT, "coq", "Props", pid + ".v")) \
                and os.path.exists(os.path.join(ROOT, "tools", "props", pid.lower() + ".py")):
            text, ref, tech = CLAIMED[pid]
            checks.append(dict(property_id=pid, quick_cmd=f"./check {pid} --tier quick",
                               thorough_cmd=f"./check {pid} --tier thorough", evidence_file=f"evidence/{pid}.json",
                               replay_cmd_template=f"./check {pid} --replay {{path}}", engine="coq-mxvm",
                               level_claimed=dict(category="proof", text=text, design_ref="DESIGN.md §" + ref),
                               level_note=NOTE, technique=tech))
        else:
            na.append(dict(property_id=pid, reason=NOT_YET.get(pid, "model and theorems for this property are not built yet in this development; no other technique is substituted")))
    m = dict(version=1, setup_cmd="./setup.sh",
             hooks=dict(guard="mx_exchange_sc_verif", enable='RUSTFLAGS="--cfg mx_exchange_sc_verif" (reserved; no hook is needed, so nothing in /repo is guarded)',
                        baseline_off_cmd="cd /repo && cargo test --workspace --no-fail-fast --offline", source_commits=[], add_only=True),
             engines=[dict(name="coq-mxvm", path="check", serves_properties=[c["property_id"] for c in checks],
                           kind_free_text="Coq 8.16 theorems over hand-written Gallina models (coq/), tied to /repo by regenerated constants and per-run differential replay of real-contract histories (harness/ mxvm executor + tools/)")],
             checks=checks, not_applicable=na,
             notes="See DESIGN.md. Evidence is rewritten by every run of ./check.")
    json.dump(m, open(os.path.join(ROOT, "MANIFEST.json"), "w"), indent=1)
    print(f"{len(checks)} checks, {len(na)} not_applicable")

if __name__ == "__main__":
    main()
