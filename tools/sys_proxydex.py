"""Proxy-DEX subsystem (property C16): the full composed real system of
locked-asset/proxy_dex/tests/proxy_dex_test_setup — real pair, two real farm-with-locked-rewards
(farming token = base asset / = LP token), real energy-factory, real proxy_dex — driven through the
mxvm executor; op generator; observation; derivation of the nested responses; Coq emission.

Model ids (coq/Model/ProxyDex.v): users 1..NUSERS, OWNER = 100.  Token codes: 0 base asset (MEX),
1 other pool token (WEGLD), 2 LOCKED, 3 wrapped LP, 4 wrapped farm.  Farm ids: 0 = base-asset farm,
1 = LP farm, 2 = an address that is not an intermediated farm.  Pair ids: 0 = the pair, 1 = another address.
Keys: holders nonce*16 + user, farm tokens nonce*2 + farm.

The pair, the farms and the energy factory are ENVIRONMENT for the model: what they answered to the
proxy inside a transaction is reconstructed here from observables that do not belong to the proxy
(pair reserves / LP supply, farm token supply, farm token attributes, the factory's energy view,
locked-token attributes) or, where only the proxy records it, from the attributes of the wrapped
token it created; the Coq checker evaluates the interface laws on these responses (field 900).
Whether a guard of a nested contract fires ([v_ok]) is predicted here from the callee's documented
guards (pair quote / slippage / minimum liquidity, factory lock options, "still locked", the caller's
energy entry covering the debited amount) — a wrong prediction shows up as an Ok/Err mismatch.

Configurations draw: pair token order, fee, pool size and ratio, per-block rewards, boosted-yields
percentage of the farms (0 as in the repository's setup, or > 0 as in production: then
mergeWrappedFarmTokens makes the farm pay the caller's boosted rewards to the proxy, which keeps
them), start epoch, the users' lock options and amounts.
"""
import random
from vmx import *

MEX, WEGLD, LP = b"MEX-123456", b"WEGLD-123456", b"LPTOK-123456"
FARML, FARMLP = b"FARML-123456", b"FARMLP-123456"
LOCKED, LEGACY = b"LOCKED-123456", b"LEGACY-123456"
WPLP, WPFARM = b"WPLP-123456", b"WPFARM-123456"
TOK = {0: MEX, 1: WEGLD, 2: LOCKED, 3: WPLP, 4: WPFARM}
CODE = {v: k for k, v in TOK.items()}
FARMTOK = {0: FARML, 1: FARMLP}
NUSERS = 3
OWNER = 100
DSC = 10 ** 18
OPTS = [(360, 4000), (1800, 6000), (3600, 8000)]
EPM = 30                      # EPOCHS_PER_MONTH of the factory (start-of-month rounding)
FARM_MAXP = 10000
USER_BAL = 10 ** 24


def zlit(n):
    return f"({n})" if n < 0 else str(n)


def dec_energy(b):
    if not b:
        return (0, 0, 0)
    d = Dec(b)
    r = (d.bigint(), d.u64(), d.big())
    assert d.done()
    return r


def dec_wlp(b):
    d = Dec(b)
    lpid, T = d.bytes_(), d.big()
    tid, k, L = d.payment()
    assert d.done() and lpid == LP
    return dict(T=T, tid=tid, k=k, L=L)


def dec_wfm(b):
    d = Dec(b)
    ft, f, T = d.payment()
    pt, pn, P = d.payment()
    assert d.done()
    return dict(ft=ft, f=f, T=T, pt=pt, pn=pn, P=P)


def dec_farm_attrs(b):
    d = Dec(b)
    rps, ep, comp, amt, owner = d.big(), d.u64(), d.big(), d.big(), d.addr()
    return dict(ep=ep, amt=amt)


def dec_locked_attrs(b):
    d = Dec(b)
    tok, n, e = d.bytes_(), d.u64(), d.u64()
    return e


def pair_add(ra, rb, S, a, b, amin, bmin):
    """pair.addLiquidity in pair token order -> (lp, a_used, b_used) or None"""
    if amin <= 0 or bmin <= 0 or a <= 0 or b <= 0 or S == 0:
        return None
    bo = a * rb // ra
    if bo <= b:
        ao = a
    else:
        ao = b * ra // rb
        if ao > a:
            return None
        bo = b
    if ao < amin or bo < bmin:
        return None
    liq = min(ao * S // ra, bo * S // rb)
    if liq <= 0:
        return None
    return liq, ao, bo


def pair_remove(ra, rb, S, lp, amin, bmin):
    if amin <= 0 or bmin <= 0 or lp <= 0 or S < lp + 1000:
        return None
    x, y = lp * ra // S, lp * rb // S
    if x <= 0 or y <= 0 or x < amin or y < bmin or ra <= x or rb <= y:
        return None
    return x, y


class ProxyWorld:
    def __init__(self, cfg):
        """cfg: base_first, liq=[base, other], fee, rate, epoch0, locks=[option index per user]"""
        self.cfg = cfg
        vm = self.vm = VM()
        self.addr = {OWNER: user_addr("owner")}
        for u in range(1, NUSERS + 1):
            self.addr[u] = user_addr(f"user{u}")
        self.trader = user_addr("trader")
        self.pair, self.efact, self.farm_m, self.farm_l, self.proxy, self.dummy = [
            sc_addr(n) for n in ("pair", "efactory", "farmmex", "farmlp", "proxy", "dummy")]
        self.farms = {0: self.farm_m, 1: self.farm_l, 2: self.dummy}
        self.pairs = {0: self.pair, 1: self.farm_m}
        for a in list(self.addr.values()) + [self.trader]:
            vm.acct(a)
        self.epoch, self.blk = cfg["epoch0"], 10
        vm.block(nonce=self.blk, round_=self.blk, epoch=self.epoch, ts=6 * self.blk)
        own = self.addr[OWNER]
        first, second = (MEX, WEGLD) if cfg["base_first"] else (WEGLD, MEX)
        r = vm.deploy(own, "pair", [first, second, own, own, top_u(cfg["fee"]), top_u(min(50, cfg["fee"])), ZERO_ADDR], new_addr=self.pair)
        assert r.ok, r
        assert vm.call(own, self.pair, "setLpTokenIdentifier", [LP]).ok
        vm.roles(self.pair, LP, ["ESDTRoleLocalMint", "ESDTRoleLocalBurn"])
        # energy factory (real)
        vm.acct(self.dummy, code="energy-factory-mock", owner=own)
        args = [MEX, LEGACY, self.dummy, top_u(0)]
        for e, p in OPTS:
            args += [top_u(e), top_u(p)]
        r = vm.deploy(own, "energy-factory", args, new_addr=self.efact)
        assert r.ok, r
        vm.sset(self.efact, b"lockedTokenId", LOCKED)
        vm.roles(self.efact, MEX, ["ESDTRoleLocalMint", "ESDTRoleLocalBurn"])
        vm.roles(self.efact, LOCKED, ["ESDTRoleNFTCreate", "ESDTRoleNFTAddQuantity", "ESDTRoleNFTBurn", "ESDTTransferRole"])
        vm.roles(self.efact, LEGACY, ["ESDTRoleNFTBurn"])
        assert vm.call(own, self.efact, "unpause").ok
        # farms with locked rewards
        for fa, farming, ftok in ((self.farm_m, MEX, FARML), (self.farm_l, LP, FARMLP)):
            r = vm.deploy(own, "farm-with-locked-rewards", [MEX, farming, top_u(DSC), ZERO_ADDR, own], new_addr=fa)
            assert r.ok, r
            vm.sset(fa, b"farm_token_id", ftok)
            vm.roles(fa, ftok, ["ESDTRoleNFTCreate", "ESDTRoleNFTAddQuantity", "ESDTRoleNFTBurn"])
            vm.roles(fa, farming, ["ESDTRoleLocalBurn"])
            vm.roles(fa, MEX, ["ESDTRoleLocalMint", "ESDTRoleLocalBurn"])
            for f, a in [("setPerBlockRewardAmount", [top_u(cfg["rate"])]), ("resume", []), ("startProduceRewards", []),
                         ("setBoostedYieldsFactors", [top_u(x) for x in (10, 3, 2, 1, 1)]),
                         ("setLockingScAddress", [self.efact]), ("setLockEpochs", [top_u(OPTS[0][0])]),
                         ("setEnergyFactoryAddress", [self.efact])] + \
                        ([("setBoostedYieldsRewardsPercentage", [top_u(cfg["boost"])])] if cfg.get("boost") else []):
                r = vm.call(own, fa, f, a)
                assert r.ok, (f, r)
        # proxy
        r = vm.deploy(own, "proxy_dex", [LEGACY, self.efact, self.efact], new_addr=self.proxy)
        assert r.ok, r
        vm.sset(self.proxy, b"wrappedLpTokenId", WPLP)
        vm.sset(self.proxy, b"wrappedFarmTokenId", WPFARM)
        for f, a in [("addPairToIntermediate", [self.pair]), ("addFarmToIntermediate", [self.farm_m]),
                     ("addFarmToIntermediate", [self.farm_l]), ("setEnergyFactoryAddress", [self.efact])]:
            r = vm.call(own, self.proxy, f, a)
            assert r.ok, (f, r)
        vm.roles(self.proxy, MEX, ["ESDTRoleLocalMint", "ESDTRoleLocalBurn"])
        vm.roles(self.proxy, LOCKED, ["ESDTRoleNFTBurn"])
        for t in (WPLP, WPFARM):
            vm.roles(self.proxy, t, ["ESDTRoleNFTCreate", "ESDTRoleNFTAddQuantity", "ESDTRoleNFTBurn"])
        for fa in (self.farm_m, self.farm_l):
            assert vm.call(own, fa, "addSCAddressToWhitelist", [self.proxy]).ok
            assert vm.call(own, self.efact, "addSCAddressToWhitelist", [fa]).ok
        assert vm.call(own, self.efact, "addSCAddressToWhitelist", [self.proxy]).ok
        assert vm.call(own, self.efact, "addToTokenTransferWhitelist", [self.proxy]).ok
        # balances, initial locks, initial liquidity by the owner directly on the pair
        for a in list(self.addr.values()) + [self.trader]:
            vm.setbal(a, MEX, 0, USER_BAL)
            vm.setbal(a, WEGLD, 0, USER_BAL)
        for u in range(1, NUSERS + 1):
            for oi, amt in cfg["locks"][u - 1]:
                r = vm.call(self.addr[u], self.efact, "lockTokens", [top_u(OPTS[oi][0])], [(MEX, 0, amt)])
                assert r.ok, r
        lb, lo = cfg["liq"]
        pays = [(MEX, 0, lb), (WEGLD, 0, lo)] if cfg["base_first"] else [(WEGLD, 0, lo), (MEX, 0, lb)]
        r = vm.call(own, self.pair, "addInitialLiquidity", [], pays)
        assert r.ok, r
        assert vm.call(own, self.pair, "resume").ok
        self.accounts = list(self.addr.values()) + [self.trader, self.pair, self.efact, self.farm_m, self.farm_l,
                                                    self.proxy, self.dummy]
        self.wlp = {}        # wrapped LP nonce -> attrs
        self.wfm = {}        # wrapped farm nonce -> attrs
        self.unlock = {}     # locked nonce -> unlock epoch
        self.flags = dict(pair=True, farm0=True, farm1=True)
        self.last = self.observe()

    def close(self):
        self.vm.close()

    # ------------------------------------------------------------ observation
    def observe(self):
        vm = self.vm
        toks = {a: vm.tokens(a) for a in self.accounts}
        o = dict(base=0, other=0, lp=0, farm={}, locked={}, pwlp={}, pwfm={}, hlp={}, hfm={}, ulocked={},
                 suplp={}, supfm={}, tbase=0, tlocked=0, now=self.epoch)
        for a, ts in toks.items():
            for t, n, amt in ts:
                if t == MEX:
                    o["tbase"] += amt
                elif t == LOCKED:
                    if a != self.efact:          # the factory keeps one unit of every nonce it created for itself
                        o["tlocked"] += amt
                    if n not in self.unlock:
                        self.unlock[n] = dec_locked_attrs(vm.attrs(a, LOCKED, n))
                elif t == WPLP:
                    o["suplp"][n] = o["suplp"].get(n, 0) + amt
                    if n not in self.wlp:
                        self.wlp[n] = dec_wlp(vm.attrs(a, WPLP, n))
                elif t == WPFARM:
                    o["supfm"][n] = o["supfm"].get(n, 0) + amt
                    if n not in self.wfm:
                        self.wfm[n] = dec_wfm(vm.attrs(a, WPFARM, n))
        for n in self.wlp:
            o["suplp"].setdefault(n, 0)
        for n in self.wfm:
            o["supfm"].setdefault(n, 0)
        for t, n, amt in toks[self.proxy]:
            if t == MEX: o["base"] = amt
            elif t == WEGLD: o["other"] = amt
            elif t == LP: o["lp"] = amt
            elif t == FARML: o["farm"][n * 2] = amt
            elif t == FARMLP: o["farm"][n * 2 + 1] = amt
            elif t == LOCKED: o["locked"][n] = amt
            elif t == WPLP: o["pwlp"][n] = amt
            elif t == WPFARM: o["pwfm"][n] = amt
        o["ubase"], o["uother"] = {}, {}
        for u in range(1, NUSERS + 1):
            o["ulocked"][u] = {}
            o["ubase"][u], o["uother"][u] = 0, 0
            for t, n, amt in toks[self.addr[u]]:
                if t == MEX: o["ubase"][u] = amt
                elif t == WEGLD: o["uother"][u] = amt
                if t == WPLP: o["hlp"][n * 16 + u] = amt
                elif t == WPFARM: o["hfm"][n * 16 + u] = amt
                elif t == LOCKED: o["ulocked"][u][n] = amt
        q = vm.query(self.pair, "getReservesAndTotalSupply")
        assert q.ok
        r1, r2, S = [from_top_u(x) for x in q.out]
        o["rbase"], o["rother"] = (r1, r2) if self.cfg["base_first"] else (r2, r1)
        o["S"] = S
        o["fsup"] = {i: from_top_u((vm.query(self.farms[i], "getFarmTokenSupply").out or [b""])[0]) for i in (0, 1)}
        o["energy"] = {u: dec_energy((vm.query(self.efact, "getEnergyEntryForUser", [self.addr[u]]).out or [b""])[0])
                       for u in range(1, NUSERS + 1)}
        return o

    def farm_penalty(self, farm, f, a):
        """what the farm keeps of an exit of [a] farm tokens of nonce f (its own documented rule)"""
        at = dec_farm_attrs(self.vm.attrs(self.proxy, FARMTOK[farm], f))
        q = lambda name: from_top_u((self.vm.query(self.farms[farm], name).out or [b""])[0])
        if self.epoch - at["ep"] >= q("getMinimumFarmingEpoch"):
            return 0
        return a * q("getPenaltyPercent") // FARM_MAXP

    def wlp_part(self, n, a):
        w = self.wlp.get(n)
        if not w or w["T"] == 0 or a <= 0:
            return 0
        return w["L"] if a == w["T"] else w["L"] * a // w["T"]

    def locked_live(self, ks):
        return all(self.unlock.get(k, 0) > self.epoch for k in ks)

    def wlp_locked_part(self, p):
        """(locked nonce, locked amount) behind a wrapped LP payment, None if into_part aborts"""
        w = self.wlp.get(p[1])
        if p[0] != 3 or not w or p[2] <= 0:
            return None
        r = rule3(w["T"], p[2], w["L"])
        return None if r is None else (w["k"], r)

    def wfm_locked_part(self, p):
        """(locked nonce, locked amount) behind a wrapped farm payment"""
        w = self.wfm.get(p[1])
        if p[0] != 4 or not w or p[2] <= 0:
            return None
        pp = rule3(w["T"], p[2], w["P"])
        if pp is None:
            return None
        if w["pt"] == LOCKED:
            return (w["pn"], pp)
        return self.wlp_locked_part([3, w["pn"], pp])

    def factory_takes(self, u, parts):
        """guards of the factory's mergeTokens / extendLockPeriod seen from the proxy: every token still locked,
        and the caller's energy entry covers the locked amounts it is debited for"""
        if any(x is None for x in parts):
            return True          # the proxy aborts before the nested call; the flag is irrelevant
        tot = self.last["energy"].get(u, (0, 0, 0))[2]
        return self.locked_live([k for k, _ in parts]) and sum(a for _, a in parts) <= tot

    # ------------------------------------------------------------ execution
    def real_pay(self, p):
        return (TOK[p[0]], p[1], p[2])

    def exec(self, op):
        vm = self.vm
        A = self.addr
        k = op[0]
        pre = self.last
        if k == "Time":
            self.blk += op[1]
            self.epoch += op[2]
            vm.block(nonce=self.blk, round_=self.blk, epoch=self.epoch, ts=6 * self.blk)
            self.last = self.observe()
            return None
        if k == "Trade":
            _, tin, amt = op
            tout = 1 - tin
            r = vm.call(self.trader, self.pair, "swapTokensFixedInput", [TOK[tout], top_u(1)], [(TOK[tin], 0, amt)])
            self.last = self.observe()
            return None
        now = self.epoch
        u = op[1]
        env = dict(now=now, ok=True, pair=(0, 0, 0), farm=(0, 0), fmerge=(0, 0), rew=(0, 0), fact=(0, 0),
                   energy=pre["energy"].get(u, (0, now, 0)), unlock=0)
        n_wlp0, n_wfm0 = len(self.wlp), len(self.wfm)
        pre_dig = vm.digest([self.proxy])
        outs = []
        exit_pen = None
        if k == "AddLiq":
            _, u, pid, p1, p2, extra, m1, m2 = op
            r = vm.call(A[u], self.proxy, "addLiquidityProxy", [self.pairs[pid], top_u(m1), top_u(m2)],
                        [self.real_pay(p) for p in [p1, p2] + extra])
            # will the pair accept?  payments must be (first, second) of the pair after unwrapping the locked token
            und = [0 if p[0] == 2 else p[0] for p in (p1, p2)]
            want = [0, 1] if self.cfg["base_first"] else [1, 0]
            ok = und == want
            if ok:
                ra, rb = (pre["rbase"], pre["rother"]) if self.cfg["base_first"] else (pre["rother"], pre["rbase"])
                exp = pair_add(ra, rb, pre["S"], p1[2], p2[2], m1, m2)
                ok = exp is not None
            if ok and extra:
                lk, used = (p1[1], exp[1]) if p1[0] == 2 else (p2[1], exp[2])
                ok = self.factory_takes(u, [(lk, used)] + [self.wlp_locked_part(p) for p in extra])
            env["ok"] = ok
        elif k == "RemoveLiq":
            _, u, pid, p, m1, m2 = op
            r = vm.call(A[u], self.proxy, "removeLiquidityProxy", [self.pairs[pid], top_u(m1), top_u(m2)], [self.real_pay(p)])
            ra, rb = (pre["rbase"], pre["rother"]) if self.cfg["base_first"] else (pre["rother"], pre["rbase"])
            env["ok"] = pair_remove(ra, rb, pre["S"], p[2], m1, m2) is not None
            if p[0] == 3 and p[1] in self.wlp:
                env["unlock"] = self.unlock.get(self.wlp[p[1]]["k"], 0)
        elif k == "EnterFarm":
            _, u, farm, p, extra = op
            r = vm.call(A[u], self.proxy, "enterFarmProxy", [self.farms[farm]], [self.real_pay(x) for x in [p] + extra])
            if extra:
                first = (p[1], p[2]) if p[0] == 2 else self.wlp_locked_part(p)
                env["ok"] = self.factory_takes(u, [first] + [self.wfm_locked_part(x) for x in extra])
        elif k == "ExitFarm":
            _, u, farm, p = op
            if p[0] == 4 and p[1] in self.wfm and farm in (0, 1) and FARMTOK[farm] == self.wfm[p[1]]["ft"] \
                    and 0 < p[2] <= pre["hfm"].get(p[1] * 16 + u, 0):
                exit_pen = self.farm_penalty(farm, self.wfm[p[1]]["f"], p[2])
            r = vm.call(A[u], self.proxy, "exitFarmProxy", [self.farms[farm]], [self.real_pay(p)])
            if p[0] == 4 and p[1] in self.wfm:
                w = self.wfm[p[1]]
                kk = w["pn"] if w["pt"] == LOCKED else self.wlp.get(w["pn"], {}).get("k", 0)
                env["unlock"] = self.unlock.get(kk, 0)
        elif k == "Claim":
            _, u, farm, p = op
            r = vm.call(A[u], self.proxy, "claimRewardsProxy", [self.farms[farm]], [self.real_pay(p)])
        elif k == "MergeWlp":
            _, u, ps = op
            r = vm.call(A[u], self.proxy, "mergeWrappedLpTokens", [], [self.real_pay(p) for p in ps])
            env["ok"] = self.factory_takes(u, [self.wlp_locked_part(p) for p in ps])
        elif k == "MergeWfm":
            _, u, farm, ps = op
            r = vm.call(A[u], self.proxy, "mergeWrappedFarmTokens", [self.farms[farm]], [self.real_pay(p) for p in ps])
            env["ok"] = self.factory_takes(u, [self.wfm_locked_part(p) for p in ps])
        elif k in ("IncLp", "IncFm"):
            _, u, p, epochs = op
            r = vm.call(A[u], self.proxy, "increaseProxyPairTokenEnergy" if k == "IncLp" else "increaseProxyFarmTokenEnergy",
                        [top_u(epochs)], [self.real_pay(p)])
            part = self.wlp_locked_part(p) if k == "IncLp" else self.wfm_locked_part(p)
            if part is not None:
                old = self.unlock.get(part[0], 0)
                new = (now + epochs) - (now + epochs) % EPM
                env["ok"] = epochs in [e for e, _ in OPTS] and new > now and new > old \
                    and part[1] <= pre["energy"].get(u, (0, 0, 0))[2]
        elif k == "SetPair":
            _, u, b = op
            r = vm.call(A[u], self.proxy, "addPairToIntermediate" if b else "removeIntermediatedPair", [self.pair])
        elif k == "SetFarm":
            _, u, farm, b = op
            r = vm.call(A[u], self.proxy, "addFarmToIntermediate" if b else "removeIntermediatedFarm", [self.farms[farm]])
        elif k == "XferWlp":
            _, s, d, n, a = op
            r = vm.transfer(A[s], A[d], [(WPLP, n, a)])
        elif k == "XferWfm":
            _, s, d, n, a = op
            r = vm.transfer(A[s], A[d], [(WPFARM, n, a)])
        else:
            raise ValueError(k)
        o = self.observe()
        o["ok"], o["msg"] = r.ok, r.msg
        if r.ok and k not in ("SetPair", "SetFarm", "XferWlp", "XferWfm"):
            outs = []
            for x in r.out:
                t, n, a = dec_payment(x)
                outs.append([CODE.get(t, 9), n, a])
        o["outs"] = outs
        if not r.ok:
            o["unchanged"] = (vm.digest([self.proxy]) == pre_dig)
        o["exit_pen"] = exit_pen
        new_wlp = sorted(n for n in self.wlp if n > n_wlp0)
        new_wfm = sorted(n for n in self.wfm if n > n_wfm0)
        o["new_wlp"] = {n: self.wlp[n] for n in new_wlp}
        o["new_wfm"] = {n: self.wfm[n] for n in new_wfm}
        o["dbase"] = o["tbase"] - pre["tbase"]
        o["dlocked"] = o["tlocked"] - pre["tlocked"]
        # ---- nested responses, reconstructed
        if r.ok:
            if k == "AddLiq":
                ub, uo = o["rbase"] - pre["rbase"], o["rother"] - pre["rother"]
                first_is_base = op[3][0] in (0, 2)
                env["pair"] = (o["S"] - pre["S"], ub, uo) if first_is_base else (o["S"] - pre["S"], uo, ub)
                if op[5] and new_wlp:
                    w = self.wlp[new_wlp[-1]]
                    env["fact"] = (w["k"], w["L"])
            elif k == "RemoveLiq":
                env["pair"] = (0, pre["rbase"] - o["rbase"], pre["rother"] - o["rother"])
            elif k == "EnterFarm":
                farm = op[2]
                env["farm"] = (self.wfm[new_wfm[-1]]["f"] if not op[4] else 0, o["fsup"][farm] - pre["fsup"][farm])
                env["rew"] = (outs[1][1], outs[1][2])
                if op[4]:
                    w = self.wfm[new_wfm[-1]]
                    env["fmerge"] = (w["f"], w["T"])
                    env["fact"] = (w["pn"], w["P"]) if w["pt"] == LOCKED else (self.wlp[w["pn"]]["k"], self.wlp[w["pn"]]["L"])
            elif k == "ExitFarm":
                env["farm"] = (0, op[3][2] - (exit_pen or 0))
                env["rew"] = (outs[1][1], outs[1][2])
                ra = outs[1][2]
                if ra > 0:      # the factory credited the locked reward to the caller before the proxy read the entry
                    ea, eu, et = env["energy"]
                    ue = self.unlock[outs[1][1]]
                    env["energy"] = (ea + (ra * (ue - now) if ue > now else 0), eu, et + ra)
            elif k == "Claim":
                farm = op[2]
                w = self.wfm[new_wfm[-1]]
                env["farm"] = (w["f"], op[3][2] + o["fsup"][farm] - pre["fsup"][farm])
                env["rew"] = (outs[1][1], outs[1][2])
            elif k == "MergeWlp":
                w = self.wlp[new_wlp[-1]]
                env["fact"] = (w["k"], w["L"])
            elif k == "MergeWfm":
                w = self.wfm[new_wfm[-1]]
                if o["dlocked"] > 0:
                    # boosted rewards the farm locked for the caller and sent to the proxy (they stay there):
                    # the only locked tokens minted in a merge; their nonce is the farm's lock option from now
                    ue = (now + OPTS[0][0]) - (now + OPTS[0][0]) % EPM
                    env["rew"] = ([n for n, e in self.unlock.items() if e == ue][0], o["dlocked"])
                env["fmerge"] = (w["f"], w["T"])
                env["fact"] = (w["pn"], w["P"]) if w["pt"] == LOCKED else (self.wlp[w["pn"]]["k"], self.wlp[w["pn"]]["L"])
            elif k == "IncLp":
                w = self.wlp[new_wlp[-1]]
                env["fact"] = (w["k"], w["L"])
            elif k == "IncFm":
                w = self.wfm[new_wfm[-1]]
                env["fact"] = (w["pn"], w["P"]) if w["pt"] == LOCKED else (self.wlp[w["pn"]]["k"], self.wlp[w["pn"]]["L"])
            if k == "SetPair": self.flags["pair"] = op[2]
            if k == "SetFarm": self.flags[f"farm{op[2]}"] = op[3]
        o["env"] = env
        o["epost"] = o["energy"].get(u, (0, now, 0)) if isinstance(u, int) else (0, now, 0)
        o["pre"] = pre
        o["wlp_tab"] = dict(self.wlp)
        o["wfm_tab"] = dict(self.wfm)
        o["unlock_tab"] = dict(self.unlock)
        self.last = {x: v for x, v in o.items() if x not in ("pre", "env", "wlp_tab", "wfm_tab", "unlock_tab")}
        return o


# ------------------------------------------------------------------ Coq emission
def cpay(p):
    return f"({p[0]}, {p[1]}, {p[2]})"


def cpays(ps):
    return "[" + "; ".join(cpay(p) for p in ps) + "]"


def cbool(b):
    return "true" if b else "false"


def cpair(t):
    return "(" + ", ".join(zlit(x) for x in t) + ")"


def coq_env(e):
    en = e["energy"]
    return (f"(mkEnv {e['now']} {cbool(e['ok'])} {cpair(e['pair'])} {cpair(e['farm'])} {cpair(e['fmerge'])} "
            f"{cpair(e['rew'])} {cpair(e['fact'])} (mkPEn {zlit(en[0])} {en[1]} {en[2]}) {e['unlock']})")


def coq_op(op, o):
    k = op[0]
    e = coq_env(o["env"]) if "env" in o else ""
    if k == "AddLiq":
        return f"AddLiq {op[1]} {op[2]} {cpay(op[3])} {cpay(op[4])} {cpays(op[5])} {e}"
    if k == "RemoveLiq":
        return f"RemoveLiq {op[1]} {op[2]} {cpay(op[3])} {e}"
    if k == "EnterFarm":
        return f"EnterFarm {op[1]} {op[2]} {cpay(op[3])} {cpays(op[4])} {e}"
    if k == "ExitFarm":
        return f"ExitFarm {op[1]} {op[2]} {cpay(op[3])} {e}"
    if k == "Claim":
        return f"ClaimRew {op[1]} {op[2]} {cpay(op[3])} {e}"
    if k == "MergeWlp":
        return f"MergeWlp {op[1]} {cpays(op[2])} {e}"
    if k == "MergeWfm":
        return f"MergeWfm {op[1]} {op[2]} {cpays(op[3])} {e}"
    if k == "IncLp":
        return f"IncLp {op[1]} {cpay(op[2])} {e}"
    if k == "IncFm":
        return f"IncFm {op[1]} {cpay(op[2])} {e}"
    if k == "SetPair":
        return f"SetPair {op[1]} {cbool(op[2])}"
    if k == "SetFarm":
        return f"SetFarm {op[1]} {op[2]} {cbool(op[3])}"
    if k in ("XferWlp", "XferWfm"):
        return f"{k} {op[1]} {op[2]} {op[3]} {op[4]}"
    raise ValueError(k)


def cmap(d):
    return "[" + "; ".join(f"({zlit(k)}, {zlit(v)})" for k, v in sorted(d.items()) if v != 0) + "]"


def cmap_all(d):
    return "[" + "; ".join(f"({zlit(k)}, {zlit(v)})" for k, v in sorted(d.items())) + "]"


def coq_obs(o):
    wl = "[" + "; ".join(f"({n}, ({w['T']}, {w['k']}, {w['L']}))" for n, w in sorted(o["new_wlp"].items())) + "]"
    wf = "[" + "; ".join(
        f"({n}, ({0 if w['ft'] == FARML else 1}, {w['f']}, {w['T']}, {0 if w['pt'] == LOCKED else 1}, {w['pn']}, {w['P']}))"
        for n, w in sorted(o["new_wfm"].items())) + "]"
    en = o["epost"]
    return (f"mkObs {cbool(o['ok'])} {cpays(o['outs'])} {o['base']} {o['other']} {o['lp']} {cmap(o['farm'])} "
            f"{cmap(o['locked'])} {cmap(o['pwlp'])} {cmap(o['hlp'])} {cmap(o['hfm'])} {wl} {wf} "
            f"{cmap_all(o['suplp'])} {cmap_all(o['supfm'])} {zlit(o['dbase'])} {zlit(o['dlocked'])} "
            f"(mkPEn {zlit(en[0])} {en[1]} {en[2]})")


def coq_history(cfg, trace):
    items = ";\n    ".join(f"({coq_op(op, o)}, {coq_obs(o)})" for op, o in trace)
    return f"(check_trace init_state 0 [\n    {items}])"


# ------------------------------------------------------------------ generation
def log_amount(rng, hi):
    if hi <= 1:
        return 1
    e = rng.uniform(0, len(str(hi)) - 1)
    return max(1, min(hi, int(10 ** e) + rng.randint(0, 9)))


def rule3(total, cur, full):
    """rule_of_three_non_zero_result; None when it aborts"""
    if cur == total:
        r = full
    elif total == 0:
        return None
    else:
        r = full * cur // total
    return r if r > 0 else None


def gen_cfg(rng):
    lb = log_amount(rng, 10 ** 14) + 10 ** 4
    lo = max(2000, lb * rng.choice([1, 1, 2, 3, 7, 1000]) // rng.choice([1, 2, 3, 5, 1000]))
    locks = []
    for u in range(NUSERS):
        l = [(rng.choice([0, 0, 1, 2]), log_amount(rng, 10 ** 20) + 10 ** 9)]
        if rng.random() < 0.5:
            l.append((rng.choice([0, 1, 2]), log_amount(rng, 10 ** 16) + 10 ** 6))
        locks.append(l)
    return dict(base_first=rng.random() < 0.6, liq=[lb, lo], fee=rng.choice([0, 300, 300, 1000]),
                rate=rng.choice([1, 5000, 5000, 10 ** 9]), epoch0=rng.choice([1, 1, 47, 200]), locks=locks,
                boost=rng.choice([0, 0, 2500, 6000]))


def part_amount(rng, have):
    c = rng.random()
    if c < 0.3:
        return have
    if c < 0.7:
        return rng.randint(1, have)
    if c < 0.85:
        return min(have, log_amount(rng, have))
    return min(have, rng.randint(1, 6))


def gen_op(rng, w, stats):
    s = w.last
    users = list(range(1, NUSERS + 1))
    u = rng.choice(users)
    now = w.epoch
    my_lp = [(k // 16, v) for k, v in s["hlp"].items() if k % 16 == u and v > 0]
    my_fm = [(k // 16, v) for k, v in s["hfm"].items() if k % 16 == u and v > 0]
    my_lk = [(n, v) for n, v in s["ulocked"][u].items() if v > 0]
    live_lk = [(n, v) for n, v in my_lk if w.unlock.get(n, 0) > now]
    roll = rng.random()
    if not w.flags["pair"] or not w.flags["farm0"] or not w.flags["farm1"]:
        if rng.random() < 0.5:
            if not w.flags["pair"]:
                return ["SetPair", OWNER, True]
            return ["SetFarm", OWNER, 0 if not w.flags["farm0"] else 1, True]
    # ---------------- malformed / out-of-phase stream
    if roll < 0.10:
        c = rng.randint(0, 11)
        if c == 0 and len(my_lk) >= 1:
            n, v = rng.choice(my_lk)
            return ["AddLiq", u, 0, [2, n, min(v, 1000)], [2, n, min(v, 1000)], [], 1, 1]
        if c == 1:
            return ["AddLiq", u, 0, [0, 0, 1000], [1, 0, 1000], [], 1, 1]
        if c == 2 and my_lk:
            n, v = rng.choice(my_lk)
            p1, p2 = [2, n, min(v, 5000)], [1, 0, 5000]
            if w.cfg["base_first"]:
                p1, p2 = p2, p1            # wrong order for the pair
            return ["AddLiq", u, 0, p1, p2, [], 1, 1]
        if c == 3 and my_lk:
            n, v = rng.choice(my_lk)
            p1, p2 = [2, n, min(v, 5000)], [1, 0, 5000]
            if not w.cfg["base_first"]:
                p1, p2 = p2, p1
            return ["AddLiq", u, 1, p1, p2, [], 1, 1]
        if c == 4 and my_fm:
            n, v = rng.choice(my_fm)
            wf = w.wfm[n]
            right = 0 if wf["ft"] == FARML else 1
            return [rng.choice(["ExitFarm", "Claim"]), u, rng.choice([1 - right, 2]), [4, n, rng.randint(1, v)]]
        if c == 5 and my_lp:
            n, v = rng.choice(my_lp)
            return rng.choice([["ExitFarm", u, 1, [3, n, v]], ["IncFm", u, [3, n, v], 1800],
                               ["RemoveLiq", u, 0, [3, n, v + rng.randint(1, 5)], 1, 1],
                               ["EnterFarm", u, 0, [3, n, rng.randint(1, v)], []]])
        if c == 6 and my_fm:
            n, v = rng.choice(my_fm)
            return rng.choice([["RemoveLiq", u, 0, [4, n, v], 1, 1], ["IncLp", u, [4, n, v], 1800],
                               ["ExitFarm", u, 0 if w.wfm[n]["ft"] == FARML else 1, [4, n, v + 1]],
                               ["MergeWfm", u, 0 if w.wfm[n]["ft"] == FARML else 1, [[4, n, v]]]])
        if c == 7 and my_lp:
            n, v = rng.choice(my_lp)
            return ["MergeWlp", u, [[3, n, rng.randint(1, v)]]]
        if c == 8 and len(my_fm) >= 2:
            (n1, v1), (n2, v2) = rng.sample(my_fm, 2)
            return ["MergeWfm", u, rng.choice([0, 1]), [[4, n1, rng.randint(1, v1)], [4, n2, rng.randint(1, v2)]]]
        if c == 9 and my_lp:
            n, v = rng.choice(my_lp)
            return ["IncLp", u, [3, n, rng.randint(1, v)], rng.choice([100, 359, 360, 7200])]
        if c == 10:
            return rng.choice([["SetPair", u, False], ["SetFarm", u, rng.choice([0, 1]), False], ["SetFarm", OWNER, 2, False]])
        if c == 11 and live_lk:
            n, v = rng.choice(live_lk)
            return ["EnterFarm", u, rng.choice([1, 2]), [2, n, min(v, 10 ** 6)], []]
        roll = rng.random() * 0.90 + 0.10
    if (any(v > 0 for v in s["hlp"].values()) or any(v > 0 for v in s["hfm"].values())) and not w.__dict__.get("bigjump") and rng.random() < 0.05:
        # jump past the unlock epoch of locked tokens that are at work through the proxy: a later remove / exit that burns
        # locked tokens must then REFUND the negative energy the expired tokens accumulated (update_after_unlock_any)
        w.bigjump = True
        return ["Time", 5, rng.choice([361, 400, 725, 1500])]
    if roll < 0.15:
        return ["Time", rng.choice([1, 5, 20, 100]), rng.choice([0, 1, 1, 2, 7, 7, 8, 40, 400 if rng.random() < 0.3 else 5])]
    if roll < 0.22:
        tin = rng.choice([0, 1])
        r = s["rbase"] if tin == 0 else s["rother"]
        return ["Trade", tin, max(1, r // rng.choice([1, 2, 3, 10, 50]) + rng.randint(0, 5))]
    if roll < 0.24:
        if rng.random() < 0.5 and my_lp:
            n, v = rng.choice(my_lp)
            return ["XferWlp", u, rng.choice([x for x in users if x != u]), n, part_amount(rng, v)]
        if my_fm:
            n, v = rng.choice(my_fm)
            return ["XferWfm", u, rng.choice([x for x in users if x != u]), n, part_amount(rng, v)]
    if roll < 0.248:
        return rng.choice([["SetPair", OWNER, False], ["SetFarm", OWNER, rng.choice([0, 1]), False]])
    if 0.62 <= roll < 0.92 and not my_fm and (my_lp or live_lk):
        roll = 0.55                      # nothing to exit / claim / merge yet: enter a farm instead
    want_add = roll < 0.35 or (not my_lp and not my_fm and roll < 0.6)
    if want_add and live_lk:
        n, v = rng.choice(live_lk) if rng.random() < 0.9 or not my_lk else rng.choice(my_lk)
        cap = min(v, s["rbase"] * 1000, 10 ** 16)
        al = log_amount(rng, cap) if rng.random() < 0.8 else rng.randint(1, min(cap, 20))
        c = rng.random()
        if c < 0.4:
            ao = max(1, al * s["rother"] // s["rbase"] + rng.choice([-1, 0, 0, 1, 2]))
        elif c < 0.7:
            ao = max(1, al * s["rother"] // s["rbase"] * rng.choice([2, 3, 10]) + rng.randint(0, 9))
        else:
            ao = max(1, al * s["rother"] // s["rbase"] // rng.choice([2, 3, 10]) + rng.randint(0, 3))
        ao = min(ao, 10 ** 22)
        pl, po = [2, n, al], [1, 0, ao]
        p1, p2 = (pl, po) if w.cfg["base_first"] else (po, pl)
        ra, rb = (s["rbase"], s["rother"]) if w.cfg["base_first"] else (s["rother"], s["rbase"])
        exp = pair_add(ra, rb, s["S"], p1[2], p2[2], 1, 1)
        m = rng.random()
        if m < 0.75 or exp is None:
            m1, m2 = 1, 1
        else:
            m1, m2 = max(1, exp[1] + rng.choice([-1, 0, 0, 1])), max(1, exp[2] + rng.choice([-1, 0, 0, 1]))
        extra = []
        if my_lp and rng.random() < 0.3:
            for (nn, vv) in rng.sample(my_lp, min(len(my_lp), rng.choice([1, 1, 2]))):
                extra.append([3, nn, part_amount(rng, vv)])
        return ["AddLiq", u, 0, p1, p2, extra, m1, m2]
    if roll < 0.46 and my_lp:
        n, v = rng.choice(my_lp)
        a = part_amount(rng, v)
        ra, rb = (s["rbase"], s["rother"]) if w.cfg["base_first"] else (s["rother"], s["rbase"])
        exp = pair_remove(ra, rb, s["S"], a, 1, 1)
        if exp is None or rng.random() < 0.8:
            m1, m2 = 1, 1
        else:
            m1, m2 = max(1, exp[0] + rng.choice([-1, 0, 0, 1])), max(1, exp[1] + rng.choice([0, 0, 1]))
        return ["RemoveLiq", u, 0, [3, n, a], m1, m2]
    if roll < 0.62:
        # enter a farm with locked tokens or wrapped LP tokens, sometimes merging existing positions in
        use_lp = my_lp and (rng.random() < 0.55 or not live_lk)
        if use_lp:
            n, v = rng.choice(my_lp)
            p, farm, kind = [3, n, part_amount(rng, v)], 1, WPLP
        elif live_lk:
            n, v = rng.choice(live_lk)
            p, farm, kind = [2, n, log_amount(rng, min(v, 10 ** 16))], 0, LOCKED
        else:
            p = None
        if p:
            extra = []
            cands = [(m, v) for m, v in my_fm if w.wfm[m]["pt"] == kind and w.wfm[m]["ft"] == FARMTOK[farm]]
            if cands and rng.random() < 0.3:
                for (m, v) in rng.sample(cands, min(len(cands), rng.choice([1, 1, 2]))):
                    extra.append([4, m, part_amount(rng, v)])
            return ["EnterFarm", u, farm, p, extra]
    if roll < 0.77 and my_fm:
        n, v = rng.choice(my_fm)
        return ["ExitFarm", u, 0 if w.wfm[n]["ft"] == FARML else 1, [4, n, part_amount(rng, v)]]
    if roll < 0.83 and my_fm:
        n, v = rng.choice(my_fm)
        return ["Claim", u, 0 if w.wfm[n]["ft"] == FARML else 1, [4, n, part_amount(rng, v)]]
    if roll < 0.87 and my_lp:
        if len(my_lp) >= 2 and rng.random() < 0.8:
            sel = rng.sample(my_lp, rng.choice([2, 2, 3]) if len(my_lp) >= 3 else 2)
            return ["MergeWlp", u, [[3, n, part_amount(rng, v)] for n, v in sel]]
        n, v = rng.choice(my_lp)
        if v >= 2:
            a = rng.randint(1, v - 1)
            return ["MergeWlp", u, [[3, n, a], [3, n, rng.randint(1, v - a)]]]
    if roll < 0.92 and my_fm:
        n, v = rng.choice(my_fm)
        wf = w.wfm[n]
        same = [(m, x) for m, x in my_fm if m != n and w.wfm[m]["pt"] == wf["pt"] and w.wfm[m]["ft"] == wf["ft"]]
        farm = 0 if wf["ft"] == FARML else 1
        if same:
            sel = [(n, v)] + rng.sample(same, min(len(same), rng.choice([1, 1, 2])))
            return ["MergeWfm", u, farm, [[4, m, part_amount(rng, x)] for m, x in sel]]
        if v >= 2:
            a = rng.randint(1, v - 1)
            return ["MergeWfm", u, farm, [[4, n, a], [4, n, rng.randint(1, v - a)]]]
    if roll < 0.96 and my_lp:
        n, v = rng.choice(my_lp)
        old = w.unlock.get(w.wlp[n]["k"], 0)
        good = [e for e, _ in OPTS if (now + e) - (now + e) % EPM > old]
        ep = rng.choice(good) if good and rng.random() < 0.85 else rng.choice([e for e, _ in OPTS])
        return ["IncLp", u, [3, n, part_amount(rng, v)], ep]
    if my_fm:
        n, v = rng.choice(my_fm)
        wf = w.wfm[n]
        kk = wf["pn"] if wf["pt"] == LOCKED else w.wlp[wf["pn"]]["k"]
        old = w.unlock.get(kk, 0)
        good = [e for e, _ in OPTS if (now + e) - (now + e) % EPM > old]
        ep = rng.choice(good) if good and rng.random() < 0.85 else rng.choice([e for e, _ in OPTS])
        return ["IncFm", u, [4, n, part_amount(rng, v)], ep]
    return ["Time", 1, 0]


def gen_history(seed, nops):
    rng = random.Random(seed)
    cfg = gen_cfg(rng)
    w = ProxyWorld(cfg)
    trace = []
    stats = {}
    try:
        for _ in range(nops):
            op = gen_op(rng, w, stats)
            o = w.exec(op)
            trace.append((op, o))
    finally:
        w.close()
    return cfg, trace


def replay_history(cfg, ops):
    w = ProxyWorld(cfg)
    trace = []
    try:
        for op in ops:
            trace.append((op, w.exec(op)))
    finally:
        w.close()
    return trace
