"""Governance subsystem: real energy-integration/governance-v2 + real energy-factory-mock + real
fees-collector driven through the mxvm executor; scenario-based op generator; observation; Coq emission.

Account ids used by the model (coq/Model/Governance.v): 0 = the governance contract, 100 = owner,
50 = a caller with a smart-contract address, 1..NUSERS = plain users.
Payment token codes of Propose: 0 = no payment, 1 = the fee token, 2 = another ESDT.
"""
import random
from math import isqrt
from vmx import *

FEE = b"MEX-123456"
OTHER = b"OTHER-123456"
XMEX = b"XMEX-123456"
NUSERS = 6
OWNER, SCC = 100, 50
FULL = 10000
ST_NONE, ST_PENDING, ST_ACTIVE, ST_DEFEATED, ST_VETO, ST_SUCCEEDED = 0, 1, 2, 3, 4, 5
MIN_FEE_LO = 2_000_000 * 10 ** 18
MIN_FEE_HI = 200_000_000_000 * 10 ** 18
COLS = ("status", "live", "proposer", "fee", "minq", "delay", "period", "wpct", "total", "start", "withdrawn",
        "up", "down", "veto", "abstain", "quorum")
CFG_KEYS = ("min_energy", "min_fee", "quorum", "delay", "period", "wpct")
CFG_STORE = (b"minEnergyForPropose", b"minFeeForPropose", b"quorumPercentage", b"votingDelayInBlocks",
             b"votingPeriodInBlocks", b"witdrawPercentageDefeated")


def zlit(n):
    return f"({n})" if n < 0 else str(n)


class GovWorld:
    def __init__(self, cfg):
        """cfg: dict(min_energy, min_fee, quorum, delay, period, wpct, block0, bals={id: amount})"""
        self.cfg = cfg
        vm = self.vm = VM()
        self.addr = {OWNER: user_addr("owner"), SCC: sc_addr("sccaller")}
        for u in range(1, NUSERS + 1):
            self.addr[u] = user_addr(f"user{u}")
        self.gov = sc_addr("gov")
        self.ef = sc_addr("efactory")
        self.fc = sc_addr("collector")
        self.addr[0] = self.gov
        self.ids = {a: i for i, a in self.addr.items()}
        for i, a in self.addr.items():
            if i != 0:
                vm.acct(a)
        self.block = cfg["block0"]
        vm.block(nonce=self.block, round_=self.block, epoch=5, ts=6 * self.block)
        own = self.addr[OWNER]
        r = vm.deploy(own, "energy-factory-mock", [], new_addr=self.ef)
        assert r.ok, r
        r = vm.deploy(own, "fees-collector", [XMEX, self.ef], new_addr=self.fc)
        assert r.ok, r
        r = vm.deploy(own, "governance-v2",
                      [top_u(cfg["min_energy"]), top_u(cfg["min_fee"]), top_u(cfg["quorum"]), top_u(cfg["delay"]),
                       top_u(cfg["period"]), top_u(cfg["wpct"]), self.ef, self.fc, FEE], new_addr=self.gov)
        assert r.ok, r
        vm.roles(self.gov, FEE, ["ESDTRoleLocalBurn"])
        self.accounts = sorted(self.addr)                       # ids incl. 0
        for i in self.accounts:
            if i == 0:
                continue
            vm.setbal(self.addr[i], FEE, 0, cfg["bals"].get(i, 0))
            vm.setbal(self.addr[i], OTHER, 0, 10 ** 40)
        self.everyone = [self.addr[i] for i in self.accounts] + [self.ef, self.fc]
        self.supply0 = self.supply()
        self.donated = 0
        self.cur_id = 0            # id of the proposal the current scenario is about
        self.energy = {}           # shadow of the energy factory (what SetEnergy wrote)
        self.synced = {}           # shadow of the collector's per-user energy
        self.last = self.observe_state()

    def close(self):
        self.vm.close()

    def supply(self):
        return sum(self.vm.bal(a, FEE) for a in self.everyone)

    # ------------------------------------------------------------ observation
    def decode_proposal(self, raw):
        if not raw:
            return None
        d = Dec(raw)
        pid = d.u32()
        proposer = d.addr()
        for _ in range(d.u32()):            # actions
            d.u64(); d.addr(); d.bytes_()
            for _ in range(d.u32()):
                d.bytes_()
        d.bytes_()                          # description
        tok, nonce, fee = d.payment()
        minq, delay, period, wpct = d.u64(), d.u64(), d.u64(), d.u64()
        total = d.big()
        start = d.u64()
        withdrawn = d.bool_()
        assert d.done()
        assert tok == FEE and nonce == 0 and pid > 0
        return dict(live=1, proposer=self.ids.get(proposer, -1), fee=fee, minq=minq, delay=delay, period=period,
                    wpct=wpct, total=total, start=start, withdrawn=int(withdrawn), pid=pid)

    def observe_state(self):
        vm = self.vm
        n = from_top_u(vm.sget(self.gov, b"proposals.len"))
        props = []
        for pid in range(1, n + 1):
            st = vm.query(self.gov, "getProposalStatus", [top_u(pid)])
            assert st.ok, st
            p = self.decode_proposal(vm.sget(self.gov, b"proposals.item" + nest_u32(pid)))
            if p is None:
                p = dict(live=0, proposer=0, fee=0, minq=0, delay=0, period=0, wpct=0, total=0, start=0, withdrawn=0)
            else:
                assert p.pop("pid") == pid
            p["status"] = from_top_u(st.out[0]) if st.out else 0
            v = vm.query(self.gov, "getProposalVotes", [top_u(pid)])
            if v.ok:
                d = Dec(v.out[0])
                p["up"], p["down"], p["veto"], p["abstain"], p["quorum"] = d.big(), d.big(), d.big(), d.big(), d.big()
                assert d.done()
                p["votes_view"] = 1
            else:
                p["up"] = p["down"] = p["veto"] = p["abstain"] = p["quorum"] = 0
                p["votes_view"] = 0
            props.append(p)
        nx = vm.query(self.gov, "getProposalStatus", [top_u(n + 1)])
        assert nx.ok
        voted = {}
        for u in self.accounts:
            if u == 0:
                continue
            r = vm.query(self.gov, "getUserVotedProposals", [self.addr[u]])
            assert r.ok
            voted[u] = [from_top_u(x) for x in r.out]
        wk = vm.query(self.fc, "getLastGlobalUpdateWeek")
        assert wk.ok
        tq = vm.query(self.fc, "getTotalEnergyForWeek", [wk.out[0] if wk.out else b""])
        assert tq.ok
        energy = {}
        for u in self.accounts:
            if u == 0:
                continue
            e = vm.query(self.ef, "getEnergyAmountForUser", [self.addr[u]])
            assert e.ok
            energy[u] = from_top_u(e.out[0]) if e.out else 0
        return dict(block=self.block, props=props, next=from_top_u(nx.out[0]) if nx.out else 0, voted=voted,
                    bal={i: vm.bal(self.addr[i], FEE) for i in self.accounts},
                    burned=self.supply0 - self.supply(),
                    total=from_top_u(tq.out[0]) if tq.out else 0,
                    cfg={k: from_top_u(vm.sget(self.gov, s)) for k, s in zip(CFG_KEYS, CFG_STORE)},
                    energy=energy, donated=self.donated)

    # ------------------------------------------------------------ execution
    def exec(self, op):
        vm = self.vm
        k = op[0]
        A = self.addr
        outs = []
        pre_dig = vm.digest([self.gov])
        if k == "Propose":
            _, c, tok, amt, nact, gas = op
            args = [b"proposal text"]
            for j in range(nact):
                args += [top_u(gas), A[1 + j % NUSERS], b"someEndpoint", nest_bytes(b"arg1") + nest_bytes(b"")]
            pays = [] if tok == 0 else [(FEE if tok == 1 else OTHER, 0, amt)]
            r = vm.call(A[c], self.gov, "propose", args, pays)
            outs = [from_top_u(x) for x in r.out] if r.ok else []
        elif k == "Vote":
            _, c, pid, kind = op
            r = vm.call(A[c], self.gov, "vote", [top_u(pid), top_u(kind)])
        elif k == "Cancel":
            _, c, pid = op
            r = vm.call(A[c], self.gov, "cancel", [top_u(pid)])
        elif k == "Withdraw":
            _, c, pid = op
            r = vm.call(A[c], self.gov, "withdrawDeposit", [top_u(pid)])
        elif k == "Block":
            self.block += op[1]
            vm.block(nonce=self.block, round_=self.block, ts=6 * self.block)
            r = Result(0, "", [])
        elif k == "SetEnergy":
            _, u, e = op
            r = vm.call(A[OWNER], self.ef, "setUserEnergy", [A[u], top_u(e), top_u(0)])
            if r.ok:
                self.energy[u] = e
        elif k == "Sync":
            _, u = op
            r = vm.call(A[u], self.fc, "claimRewards", [])
            if r.ok:
                self.synced[u] = self.energy.get(u, 0)
        elif k == "Donate":
            _, c, amt = op
            r = vm.transfer(A[c], self.gov, [(FEE, 0, amt)])
            if r.ok:
                self.donated += amt
        elif k in ("ChangeMinEnergy", "ChangeMinFee", "ChangeQuorum", "ChangeWithdrawPct", "ChangeDelay", "ChangePeriod"):
            _, c, v = op
            ep = {"ChangeMinEnergy": "changeMinEnergyForProposal", "ChangeMinFee": "changeMinFeeForProposal",
                  "ChangeQuorum": "changeQuorumPercentage", "ChangeWithdrawPct": "changeWithdrawPercentage",
                  "ChangeDelay": "changeVotingDelayInBlocks", "ChangePeriod": "changeVotingPeriodInBlocks"}[k]
            r = vm.call(A[c], self.gov, ep, [top_u(v)])
        else:
            raise ValueError(k)
        o = self.observe_state()
        o["ok"] = r.ok
        o["msg"] = r.msg
        o["outs"] = outs
        if not r.ok:
            o["unchanged"] = (vm.digest([self.gov]) == pre_dig)
        if k == "Propose" and r.ok:
            self.cur_id = outs[0]
        o["pre"] = self.last
        self.last = {k_: v for k_, v in o.items() if k_ not in ("pre", "ok", "msg", "outs", "unchanged")}
        return o


# ------------------------------------------------------------------ Coq emission
def coq_op(op):
    return op[0] + " " + " ".join(zlit(x) for x in op[1:])


def coq_list(l):
    return "[" + "; ".join(zlit(x) for x in l) + "]"


def coq_pairs(d):
    return "[" + "; ".join(f"({zlit(k)}, {zlit(v)})" for k, v in d) + "]"


def coq_obs(o):
    rows = "[" + "; ".join(coq_list([p[c] for c in COLS]) for p in o["props"]) + "]"
    voted = "[" + "; ".join(f"({u}, {coq_list(l)})" for u, l in sorted(o["voted"].items())) + "]"
    return (f"mkObs {'true' if o['ok'] else 'false'} {coq_list(o['outs'])} {rows} {o['next']} {voted} "
            f"{coq_pairs(sorted(o['bal'].items()))} {o['burned']} {o['total']} {coq_list([o['cfg'][k] for k in CFG_KEYS])}")


def coq_init(cfg):
    return (f"(init_gov {cfg['min_energy']} {cfg['min_fee']} {cfg['quorum']} {cfg['delay']} {cfg['period']} "
            f"{cfg['wpct']} {cfg['block0']} {coq_pairs(sorted(cfg['bals'].items()))})")


def coq_history(cfg, trace):
    items = ";\n    ".join(f"({coq_op(op)}, {coq_obs(o)})" for op, o in trace)
    return f"(check_trace {coq_init(cfg)} 0 [\n    {items}])"


# ------------------------------------------------------------------ generation
def log_amount(rng, hi=10 ** 24):
    e = rng.uniform(0, len(str(hi)) - 1)
    return max(1, int(10 ** e) + rng.randint(0, 9))


def gen_fee(rng):
    cls = rng.random()
    if cls < 0.25:
        return MIN_FEE_LO + rng.randint(1, 20000)
    if cls < 0.35:
        return MIN_FEE_HI - rng.randint(1, 20000)
    if cls < 0.5:
        return (MIN_FEE_LO // FULL + rng.randint(1, 10 ** 6)) * FULL            # refund split exact
    e = rng.uniform(24.4, 29.2)
    return min(MIN_FEE_HI - 1, max(MIN_FEE_LO + 1, int(10 ** e) + rng.randint(0, 99999)))


def gen_wpct(rng):
    return rng.choice([0, 1, 3333, 5000, 5000, 9999, 10000, rng.randint(0, 10000), rng.randint(0, 10000)])


def gen_cfg(rng):
    fee = gen_fee(rng)
    bals = {u: 10 ** 31 for u in range(1, NUSERS + 1)}
    bals[NUSERS] = rng.choice([10 ** 20, fee - 1, fee, 10 ** 31])       # a user that may be unable to pay
    bals[OWNER] = 10 ** 31
    bals[SCC] = 10 ** 31
    return dict(min_energy=rng.choice([0, 0, 1, 1000, 10 ** 6]), min_fee=fee,
                quorum=rng.choice([1000, 4000, 5999, rng.randint(1000, 5999)]),
                delay=rng.choice([1, 1, 2, 10, 100799, rng.randint(1, 100799)]),
                period=rng.choice([14400, 14400, 14401, 201599, rng.randint(14400, 201599)]),
                wpct=gen_wpct(rng), block0=rng.choice([0, 1, 10, 10 ** 6, rng.randint(0, 10 ** 9)]), bals=bals)


def energy_for_power(rng, w):
    """an energy whose floor square root is w (w >= 1): bottom, interior or top of [w^2, (w+1)^2 - 1]"""
    return rng.choice([w * w, w * w, w * w + 1, (w + 1) ** 2 - 1, rng.randint(w * w, (w + 1) ** 2 - 1)])


def cur(w):
    """row of the scenario's proposal in the last observation (or None)"""
    ps = w.last["props"]
    p = ps[w.cur_id - 1] if 1 <= w.cur_id <= len(ps) else None
    return p if p and p["live"] else None


def block_to(w, target):
    d = target - w.last["block"]
    return ["Block", d] if d > 0 else None


def plan_votes(rng, w, users):
    """crafted tallies: returns (list of (user, kind, energy), optional (z, delta) for the quorum boundary)"""
    cls = rng.choice(["half", "half", "third", "third", "veto", "quorum", "quorum", "quorum", "random", "random", "none", "single"])
    base = max(2, log_amount(rng, 10 ** 12))
    # keep the voters' weight above everything synced so far, so the quorum side is under control
    tcur = w.last["total"]
    if tcur > 0:
        base = max(base, isqrt(tcur) + 2)
    votes, qplan = [], None
    us = users[:]
    rng.shuffle(us)
    if cls == "half":
        d_, a_ = base, rng.choice([0, 0, base // 3 + 1])
        delta = rng.choice([-1, 0, 0, 1, 1])
        up = max(1, d_ + a_ + delta)
        votes = [(us[0], 0, energy_for_power(rng, up)), (us[1], 1, energy_for_power(rng, d_))]
        if a_:
            votes.append((us[2], 3, energy_for_power(rng, a_)))
    elif cls in ("third", "veto"):
        v_ = base
        delta = rng.choice([-1, -1, 0, 0, 1, 2]) if cls == "third" else -rng.choice([1, 2, v_, 2 * v_ - 1])
        rest = max(1, 2 * v_ + delta)
        votes = [(us[0], 2, energy_for_power(rng, v_))]
        if rng.random() < 0.5 or rest < 2:
            votes.append((us[1], 0, energy_for_power(rng, rest)))
        else:
            r1 = rng.randint(rest // 2 + 1, rest) if rng.random() < 0.7 else rng.randint(1, rest - 1)
            r1 = min(r1, rest - 1)
            votes.append((us[1], 0, energy_for_power(rng, r1)))
            votes.append((us[2], rng.choice([1, 3]), energy_for_power(rng, rest - r1)))
        if rng.random() < 0.4:
            # the same tallies WITHOUT quorum: a non-voter's energy pushes the total above the boundary
            # (veto above a third must still give "defeated with veto", the quorum only conditions success)
            qplan = (us[3], rng.choice([1, 1, 2, 10 ** 6, 10 ** 12]), False)
    elif cls == "quorum":
        nv = rng.choice([1, 2, 3])
        es = [energy_for_power(rng, base + rng.randint(0, 5)) for _ in range(nv)]
        votes = [(us[i], 0 if i == 0 or rng.random() < 0.6 else rng.choice([1, 3]), es[i]) for i in range(nv)]
        qplan = (us[nv], rng.choice([-1, -1, 0, 0, 0, 1, 1]))
    elif cls == "random":
        for u in us[:rng.randint(1, 5)]:
            votes.append((u, rng.choice([0, 0, 1, 2, 3]), log_amount(rng, 10 ** rng.choice([2, 6, 12, 24]))))
    elif cls == "single":
        votes = [(us[0], rng.choice([0, 0, 1, 2, 3]), rng.choice([1, 2, 3, 4, log_amount(rng)]))]
    rng.shuffle(votes)
    return cls, votes, qplan


def plan_scenario(rng, w):
    """a list of thunks, each evaluated against the world's latest state when its turn comes"""
    users = list(range(1, NUSERS + 1))
    payers = [u for u in users if w.last["bal"][u] >= w.last["cfg"]["min_fee"]] or users
    proposer = rng.choice(payers)
    others = [u for u in users if u != proposer]
    plan = []
    add = plan.append
    # configuration changes by the owner between proposals
    if rng.random() < 0.55:
        for _ in range(rng.choice([1, 1, 2])):
            k = rng.choice(["ChangeWithdrawPct", "ChangeWithdrawPct", "ChangeQuorum", "ChangeDelay", "ChangePeriod",
                            "ChangeMinFee", "ChangeMinEnergy"])
            v = {"ChangeWithdrawPct": gen_wpct(rng), "ChangeQuorum": rng.choice([1000, 2500, 4000, 5999, rng.randint(1000, 5999)]),
                 "ChangeDelay": rng.choice([1, 2, 5, 100799, rng.randint(1, 2000)]),
                 "ChangePeriod": rng.choice([14400, 14401, 201599, rng.randint(14400, 30000)]),
                 "ChangeMinFee": gen_fee(rng), "ChangeMinEnergy": rng.choice([0, 0, 1, 10 ** 3])}[k]
            add(lambda k=k, v=v: [k, OWNER, v])
    # the proposer needs the minimum energy
    add(lambda: ["SetEnergy", proposer, max(w.last["cfg"]["min_energy"], w.energy.get(proposer, 0), 1) + rng.choice([0, 0, 5])]
        if w.last["energy"].get(proposer, 0) < w.last["cfg"]["min_energy"] or rng.random() < 0.1 else None)
    nact = rng.choice([0, 0, 1, 2, 4])
    gas = rng.choice([0, 1000, 10 ** 6, 149_999_999])
    add(lambda: ["Propose", proposer, 1, w.last["cfg"]["min_fee"], nact, gas])
    # configuration changes while the proposal is live: it must keep the values it was created with
    if rng.random() < 0.35:
        for _ in range(rng.choice([1, 2])):
            k = rng.choice(["ChangeWithdrawPct", "ChangeWithdrawPct", "ChangeQuorum", "ChangeDelay", "ChangePeriod"])
            v = {"ChangeWithdrawPct": gen_wpct(rng), "ChangeQuorum": rng.choice([1000, 2500, 5999, rng.randint(1000, 5999)]),
                 "ChangeDelay": rng.choice([1, 3, 50, rng.randint(1, 2000)]),
                 "ChangePeriod": rng.choice([14400, 14401, 20000, rng.randint(14400, 30000)])}[k]
            add(lambda k=k, v=v: [k, OWNER, v])
    path = rng.choice(["cancel", "vote", "vote", "vote", "vote", "vote"])
    someone = lambda: rng.choice(others)
    if path == "cancel":
        if rng.random() < 0.5:
            add(lambda: ["Cancel", someone(), w.cur_id])
        if rng.random() < 0.5:
            add(lambda: block_to(w, cur(w)["start"] + cur(w)["delay"] - 1) if cur(w) else None)
        if rng.random() < 0.3:
            add(lambda: ["Withdraw", proposer, w.cur_id])
        add(lambda: ["Cancel", proposer, w.cur_id])
        tail = [lambda: ["Cancel", proposer, w.cur_id], lambda: ["Withdraw", proposer, w.cur_id],
                lambda: ["Withdraw", someone(), w.cur_id], lambda: ["Vote", someone(), w.cur_id, 0]]
        rng.shuffle(tail)
        plan += tail[:rng.choice([0, 1, 2])]
        return plan
    cls, votes, qplan = plan_votes(rng, w, users)
    w.scenario_class = cls
    # energies are put in place while the proposal is pending or active (before each vote at the latest)
    early = rng.random() < 0.5 or bool(qplan)
    if early and not qplan:
        for (u, kind, e) in votes:
            add(lambda u=u, e=e: ["SetEnergy", u, e])
    if qplan:
        z, delta = qplan[0], qplan[1]
        exact = rng.random() < 0.75 and (len(qplan) < 3 or qplan[2])

        def align():
            # evaluated after the proposal exists: its minimum quorum is known
            p = cur(w)
            if p and exact and votes:
                s0 = sum(e for (_, _, e) in votes)
                u, kind, e = votes[-1]
                votes[-1] = (u, kind, e + (-s0) % p["minq"])
            return None
        add(align)
        for i in range(len(votes)):
            add(lambda i=i: ["SetEnergy", votes[i][0], votes[i][2]])

        def set_z():
            p = cur(w)
            if not p:
                return None
            s = sum(e for (_, _, e) in votes)
            others_t = w.last["total"] - w.synced.get(z, 0)
            want_t = s * FULL // p["minq"] + delta if s * FULL % p["minq"] == 0 else s * FULL // p["minq"] + max(0, delta)
            return ["SetEnergy", z, max(0, want_t - others_t)]
        add(set_z)
        add(lambda: ["Sync", z])
    elif rng.random() < 0.3:
        add(lambda: ["Sync", rng.choice(users)])
    # around the start of voting
    if rng.random() < 0.5:
        add(lambda: block_to(w, cur(w)["start"] + cur(w)["delay"] - 1) if cur(w) else None)
        add(lambda: ["Vote", votes[0][0] if votes else someone(), w.cur_id, 0] if rng.random() < 0.6 else ["Cancel", proposer, w.cur_id] if rng.random() < 0.15 else None)
    add(lambda: block_to(w, cur(w)["start"] + cur(w)["delay"] + rng.choice([0, 0, 0, 1, 7])) if cur(w) else None)
    for (u, kind, e) in votes:
        if not early:
            add(lambda u=u, e=e: ["SetEnergy", u, e])
        add(lambda u=u, kind=kind: ["Vote", u, w.cur_id, kind])
        r = rng.random()
        if r < 0.12:
            add(lambda u=u: ["Vote", u, w.cur_id, rng.choice([0, 1, 2, 3])])       # second vote, same address
        elif r < 0.18:
            add(lambda: ["Cancel", proposer, w.cur_id])
        elif r < 0.24:
            add(lambda: ["Withdraw", rng.choice([proposer, someone()]), w.cur_id])
        elif r < 0.3:
            add(lambda: ["Block", rng.choice([0, 1, 3, 100])])
        elif r < 0.42 and not qplan:
            add(lambda u=u: ["Sync", u])
    # around the end of voting
    if rng.random() < 0.5:
        add(lambda: block_to(w, cur(w)["start"] + cur(w)["delay"] + cur(w)["period"] - 1) if cur(w) else None)
        r = rng.random()
        if r < 0.4:
            add(lambda: ["Withdraw", proposer, w.cur_id])
        elif r < 0.7 and cls in ("random", "single", "none"):
            voters = {u for (u, _, _) in votes}
            left = [u for u in users if u not in voters]
            if left:
                lu = rng.choice(left)
                add(lambda: ["SetEnergy", lu, log_amount(rng, 10 ** 9)])
                add(lambda: ["Vote", lu, w.cur_id, rng.choice([0, 1, 2, 3])])
    add(lambda: block_to(w, cur(w)["start"] + cur(w)["delay"] + cur(w)["period"] + rng.choice([0, 0, 0, 1, 1000])) if cur(w) else None)
    # every order of withdraw / cancel / vote attempts by the proposer and others
    tail = [lambda: ["Withdraw", proposer, w.cur_id], lambda: ["Withdraw", proposer, w.cur_id],
            lambda: ["Withdraw", someone(), w.cur_id], lambda: ["Cancel", proposer, w.cur_id],
            lambda: ["Vote", someone(), w.cur_id, rng.choice([0, 1, 2, 3])], lambda: ["Withdraw", OWNER, w.cur_id]]
    first = rng.random()
    if first < 0.55:
        tail = [tail[0]] + rng.sample(tail[1:], rng.choice([1, 2, 2, 3]))
    else:
        rng.shuffle(tail)
        tail = tail[:rng.choice([2, 3, 4])]
    plan += tail
    return plan


def noise_op(rng, w):
    """malformed / unauthorised / out-of-phase calls and harmless environment moves"""
    users = list(range(1, NUSERS + 1))
    n = len(w.last["props"])
    pid = rng.choice([w.cur_id, w.cur_id, rng.randint(0, n + 1), n + 1, 0]) if n else rng.choice([0, 1])
    r = rng.random()
    if r < 0.12:
        return ["Vote", rng.choice(users + [OWNER, SCC]), pid, rng.choice([0, 1, 2, 3, 4, 7])]
    if r < 0.2:
        return ["Cancel", rng.choice(users + [OWNER]), pid]
    if r < 0.3:
        return ["Withdraw", rng.choice(users + [OWNER]), pid]
    if r < 0.42:
        fee = w.last["cfg"]["min_fee"]
        bad = rng.choice(["sc", "tok", "nopay", "fee+1", "fee-1", "acts", "gas", "gassum", "poor", "energy"])
        c = rng.choice(users[:-1])
        if bad == "sc":
            return ["Propose", SCC, 1, fee, 0, 0]
        if bad == "tok":
            return ["Propose", c, 2, fee, 0, 0]
        if bad == "nopay":
            return ["Propose", c, 0, 0, 0, 0]
        if bad == "fee+1":
            return ["Propose", c, 1, fee + 1, 1, 5]
        if bad == "fee-1":
            return ["Propose", c, 1, fee - 1, 0, 0]
        if bad == "acts":
            return ["Propose", c, 1, fee, 5, 10]
        if bad == "gas":
            return ["Propose", c, 1, fee, 1, rng.choice([600_000_000, 599_999_999, 10 ** 12])]
        if bad == "gassum":
            return ["Propose", c, 1, fee, rng.choice([2, 3, 4]), rng.choice([300_000_000, 200_000_000, 150_000_000, 299_999_999])]
        if bad == "poor":
            return ["Propose", NUSERS, 1, fee, 0, 0]
        return ["Propose", rng.choice(users), 1, fee, 0, 0]
    if r < 0.55:
        k = rng.choice(["ChangeWithdrawPct", "ChangeQuorum", "ChangeDelay", "ChangePeriod", "ChangeMinFee", "ChangeMinEnergy"])
        v = {"ChangeWithdrawPct": rng.choice([10001, 10000, 20000, 77]), "ChangeQuorum": rng.choice([999, 6000, 1000, 5999]),
             "ChangeDelay": rng.choice([0, 100800, 100799, 1]), "ChangePeriod": rng.choice([14399, 201600, 14400, 201599]),
             "ChangeMinFee": rng.choice([MIN_FEE_LO, MIN_FEE_HI, MIN_FEE_LO + 1, MIN_FEE_HI - 1, 5]),
             "ChangeMinEnergy": rng.choice([0, 5])}[k]
        who = rng.choice([OWNER, OWNER, rng.choice(users)])
        if who == OWNER and k in ("ChangeDelay", "ChangePeriod", "ChangeMinFee") and rng.random() < 0.5:
            who = rng.choice(users)      # keep most accepted changes for the planned ones
        return [k, who, v]
    if r < 0.65:
        return ["Donate", rng.choice(users), log_amount(rng, 10 ** 20)]
    if r < 0.75:
        return ["Block", rng.choice([0, 0, 1, 1, 2])]
    if r < 0.85:
        return ["Sync", rng.choice(users)]
    # zero-energy voter
    u = rng.choice(users)
    return ["SetEnergy", u, rng.choice([0, w.energy.get(u, 0)])]


def gen_op(rng, w, stats):
    """next op: mostly the current scenario's plan, sometimes noise"""
    if not hasattr(w, "plan"):
        w.plan = []
    for _ in range(200):
        if not w.plan:
            w.plan = plan_scenario(rng, w)
        if rng.random() < 0.13:
            return noise_op(rng, w)
        op = w.plan.pop(0)()
        if op is not None:
            return op
    return ["Block", 0]


def gen_history(seed, nops):
    rng = random.Random(seed)
    cfg = gen_cfg(rng)
    w = GovWorld(cfg)
    trace = []
    stats = {}
    try:
        for _ in range(nops):
            op = gen_op(rng, w, stats)
            o = w.exec(op)
            o["scenario"] = getattr(w, "scenario_class", "")
            trace.append((op, o))
    finally:
        w.close()
    return cfg, trace


def replay_history(cfg, ops):
    if isinstance(cfg.get("bals"), dict):
        cfg = dict(cfg, bals={int(k): v for k, v in cfg["bals"].items()})
    w = GovWorld(cfg)
    trace = []
    try:
        for op in ops:
            trace.append((op, w.exec(op)))
    finally:
        w.close()
    return trace
