#!/usr/bin/env python3
"""Standalone driver for the closed proxy-DEX tie (no framework needed):

    python3 tools/try_proxy_closed.py [N histories=150] [ops per history=40] [seed=1] [--no-coq] [--show K] [--focus] [--errors]

Runs N generated histories on the real contracts (MXVM_BIN selects an executor built against another tree), evaluates
every monitor of tools/props/proxy_closed_common.py on every observation, replays every history in Coq on the closed
model (Run/ProxyClosedRun.v check_closed) and prints the counters, the monitor failures grouped by key and the
correspondence mismatches.  Exit status 1 when anything was reported."""
import os, sys, collections
sys.path.insert(0, os.path.dirname(os.path.abspath(__file__)))
from props import proxy_closed_common as pcc


def main():
    args, opts, it = [], {}, iter(sys.argv[1:])
    for a in it:
        if a in ("--show",):
            opts[a] = next(it)
        elif a.startswith("--"):
            opts[a] = True
        else:
            args.append(a)
    nh = int(args[0]) if len(args) > 0 else 150
    nops = int(args[1]) if len(args) > 1 else 40
    seed = int(args[2]) if len(args) > 2 else 1
    show = int(opts.get("--show", 2))
    ex = pcc.explore_proxy_closed("TRY", "quick", seed, model_ok="--no-coq" not in opts, focus="--focus" in opts, scale=(nh, nops))
    c = ex.counters
    print(f"executor: {os.environ.get('MXVM_BIN', 'default (/repo)')}")
    print(f"histories {ex.histories}  operations {ex.evaluations}  distinct non-trivial classes {len(ex.nontrivial)}")
    ok, err = c.get("ops:ok", 0), c.get("ops:err", 0)
    print(f"  ops {ok + err}  ok {ok}  err {err}  success {100.0 * ok / max(1, ok + err):.1f}%")
    pok, perr = c.get("proxy:ok", 0), c.get("proxy:err", 0)
    print(f"  proxy endpoints {pok + perr}  ok {pok}  err {perr}  success {100.0 * pok / max(1, pok + perr):.1f}%")
    print("counters:")
    for k in sorted(c):
        if k.startswith("err:") and "--errors" not in opts:
            continue
        print(f"  {k:72s} {c[k]}")
    by = collections.OrderedDict()
    for f in ex.failures:
        by.setdefault(f["key"], []).append(f)
    print(f"monitor failures: {len(ex.failures)} in {len(by)} keys")
    for k, fs in by.items():
        hs = len({f["replay"]["seed"] for f in fs})
        print(f"  {k}: {len(fs)} (in {hs} histories)")
        for f in fs[:show]:
            print(f"      seed {f['replay']['seed']} op#{len(f['replay']['ops'])}: {f['what'][:700]}")
    print(f"traces replayed in Coq: {ex.traces_validated}   correspondence mismatches: {len(ex.disagreements)}")
    fields = collections.Counter((d.get("where"), d.get("field")) for d in ex.disagreements)
    if fields:
        print("  by (checker, field):", dict(fields))
    for d in ex.disagreements[:show + 2]:
        if "index" not in d:
            print("  ", d)
            continue
        print(f"  {d['where']} seed {d['seed']} index {d['index']} field {d['field']} model {d['model']} impl {d['impl']} op {d['op']}")
        print(f"      observed: { {k: v for k, v in d['observed'].items() if k in ('ok', 'msg', 'outs', 'eouts', 'b', 'bm', 'env', 'now', 'blk')} }")
    return 1 if (ex.failures or ex.disagreements) else 0


if __name__ == "__main__":
    sys.exit(main())
