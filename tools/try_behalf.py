#!/usr/bin/env python3
"""Standalone driver for the on-behalf tie (no framework needed):

    python3 tools/try_behalf.py [N histories per host=150] [ops per history=40] [seed=1] [--hosts farm,locked,staking] [--no-coq] [--show K]

Runs N generated histories per host on the real contracts (MXVM_BIN selects an executor built against another tree),
evaluates every on-behalf monitor of tools/props/behalf_common.py on every observation, replays every history in Coq
(Run/BehalfRun.v) and prints the counters, the monitor failures grouped by key and the correspondence mismatches.
Exit status 1 when anything was reported."""
import os, sys, collections
sys.path.insert(0, os.path.dirname(os.path.abspath(__file__)))
from props import behalf_common as bc


def main():
    args, opts, it = [], {}, iter(sys.argv[1:])
    for a in it:
        if a in ("--show", "--hosts"):
            opts[a] = next(it)
        elif a.startswith("--"):
            opts[a] = True
        else:
            args.append(a)
    nh = int(args[0]) if len(args) > 0 else 150
    nops = int(args[1]) if len(args) > 1 else 40
    seed = int(args[2]) if len(args) > 2 else 1
    show = int(opts.get("--show", 2))
    hosts = tuple(opts.get("--hosts", ",".join(bc.HOSTS)).split(","))
    ex = bc.explore_behalf("TRY", "quick", seed, model_ok="--no-coq" not in opts, hosts=hosts, nh=nh, nops=nops)
    c = ex.counters
    print(f"executor: {os.environ.get('MXVM_BIN', 'default (/repo)')}")
    print(f"histories {ex.histories}  operations {ex.evaluations}  distinct non-trivial classes {len(ex.nontrivial)}")
    for h in hosts:
        ok, err = c.get(f"{h}:ops:ok", 0), c.get(f"{h}:ops:err", 0)
        ob = sum(c.get(f"{h}:{k}:{r}", 0) for k in ("EnterOB", "ClaimOB") for r in ("ok", "err"))
        print(f"  {h:8s} ops {ok + err}  ok {ok}  err {err}  success {100.0 * ok / max(1, ok + err):.1f}%   on-behalf calls {ob}")
    if "--counters" in opts or True:
        print("counters:")
        for k in sorted(c):
            if "-err:" in k and "--errors" not in opts:
                continue
            print(f"  {k:64s} {c[k]}")
    by = collections.OrderedDict()
    for f in ex.failures:
        by.setdefault(f["key"], []).append(f)
    print(f"monitor failures: {len(ex.failures)} in {len(by)} keys")
    for k, fs in by.items():
        hs = len({(f["replay"]["host"], f["replay"]["seed"]) for f in fs})
        hosts_hit = sorted({f["replay"]["host"] for f in fs})
        print(f"  {k}: {len(fs)} (in {hs} histories; hosts {hosts_hit})")
        for f in fs[:show]:
            print(f"      {f['replay']['host']} seed {f['replay']['seed']} op#{len(f['replay']['ops'])}: {f['what'][:500]}")
    print(f"traces replayed in Coq: {ex.traces_validated}   correspondence mismatches: {len(ex.disagreements)}")
    fields = collections.Counter((d.get("host"), d.get("field")) for d in ex.disagreements)
    if fields:
        print("  by (host, field):", dict(fields))
    for d in ex.disagreements[:show + 2]:
        if "index" not in d:
            print("  ", d)
            continue
        print(f"  {d['host']} seed {d['seed']} cfg {d['cfg']} index {d['index']} field {d['field']} model {d['model']} impl {d['impl']} op {d['op']}")
        print(f"      observed: { {k: v for k, v in d['observed'].items() if k in ('ok', 'msg', 'outs', 'b', 'acct', 'utot')} }")
    return 1 if (ex.failures or ex.disagreements) else 0


if __name__ == "__main__":
    sys.exit(main())
