"""C11 — Boosted rewards: per-week formula, single payment, bounded by the week's pool.

Monitors evaluate the property text on the REAL observations of dex/farm (views / storage of
accumulatedRewardsForWeek, remainingBoostedRewardsToDistribute, farmSupplyForWeek, totalEnergyForWeek,
totalRewardsForWeek, undistributedBoostedRewards, boostedYieldsConfig, currentClaimProgress,
userTotalFarmPosition; the per-week boosted payment = decrease of the completed week's pool); the model
is only used by the correspondence run."""
import concurrent.futures
from fractions import Fraction
import sys_boosted as sb
import coqrun
from framework import Exploration

ASSUMPTIONS = ["A-VM", "A-U64",
               "A-ENERGY-SOURCE: user energy is whatever the energy factory's userEnergy storage holds (energy-factory-mock)",
               "farm_position_migration_nonce at its default (no pre-migration positions); callers act for themselves "
               "(no whitelisted proxy caller, no external claim permission)",
               "the model takes the farm-level facts of every operation (emission of the settlement, supply after the "
               "operation, the caller's total farm position before the operation, the caller's energy entry) as inputs read "
               "from the real contracts — the same style as Model/Farm.v's boosted input b, which is this model's output",
               "farm-with-locked-rewards and farm-staking host the same module; their own histories are explored too "
               "(tools/sys_boosted_hosts.py, Model/BoostedHosts.v); there, claims for another user are exercised by writing "
               "allowExternalClaim straight into storage (this version of config.rs has no setter endpoint)"]
RULE = ("stateful mostly-valid generator over 4 users with different and changing energies (long locks, locks running out "
        "inside the window, below the minimum energy, zero, tokens without energy) on the real dex/farm with boosted yields: "
        "enter (with merge) / claim / compound / exit (partial) / merge / claimBoostedRewards, farm-token transfers between "
        "users followed by the receiver using the received token (optionally after the sender settled), week advances of "
        "1..7 weeks, intra-week epoch advances, setBoostedYieldsFactors between weeks (incl. rejected argument sets: zero "
        "minimums, cE=cF=0), percentage changes (0..10000, 10001), percentage before factors, collectUndistributedBoostedRewards by "
        "admin and non-admin, updateEnergyForUser, pause/resume, rate changes, malformed payments; energies and positions exactly at / "
        "one off the configured minimums; factor changes right after a week change; plus scripted corpus histories (sender "
        "settles, transfers, receiver compounds; percentage before factors; nobody eligible, then collect).  non-trivial = successful "
        "user operation that pays a boosted reward for at least one week, or a collect that sweeps a non-empty week; "
        "distinct by (operation, weeks paid, binding bound, inexact division, position received from another user, "
        "first claim of the week, magnitude) / (weeks swept, never-frozen pool swept)")
IMPORTS = "Base.Prelude Gen.Params Model.Weekly Model.Boosted Run.BoostedRun"
SLACK = 3          # three floor divisions separate the paid amount from the documented rational value


def budgets(tier):
    return (60, 40) if tier == "quick" else (1200, 60)


def strip(o):
    return {k: v for k, v in o.items() if k not in ("pre", "ghost", "owner_of", "held")}


def slot_for_week(cfg, w):
    """the factors the stored config yields for week w once brought to a current week >= w"""
    lw, slots = cfg
    if w >= lw:
        return slots[-1]
    off = lw - w
    return slots[len(slots) - 1 - off] if off < len(slots) else None


def monitor(cfg, op, o):
    out = []
    pre = o["pre"]
    k = op[0]
    cw = o["week"]
    g = o["ghost"]
    fac_valid = k == "SetFactors" and op[1] == sb.OWNER and op[2][3] > 0 and op[2][4] > 0 and (op[2][1] > 0 or op[2][2] > 0)
    if not o["ok"]:
        if k == "SetFactors" and fac_valid:
            out.append(("set-factors-guard", f"{op} by the admin with positive minimums and a positive reward constant was rejected: {o['msg']!r}"))
        # the formula's division can never fail: the setter rejects cE = cF = 0
        if k in sb.USER_OPS and ("panic occurred" in o["msg"].lower() or "division" in o["msg"].lower()):
            out.append((f"boosted-division-by-zero:{k}", f"{op} at week {cw} aborted with {o['msg']!r}; stored factors {pre['cfg']}"))
        return out
    # ---- accepted configuration calls: exactly the documented guards
    if k == "SetFactors" and not fac_valid:
        out.append(("set-factors-guard", f"{op} was accepted (caller must be admin, both minimums > 0, cE > 0 or cF > 0)"))
    if k == "Collect" and op[1] != sb.OWNER:
        out.append(("collect-by-non-admin", f"{op} succeeded"))
    # ---- the factors of a week = the latest accepted ones when the week ended (last 4 completed weeks + running one)
    if o["cfg"] is not None:
        for w in range(max(1, cw - sb.MAX_CLAIM_WEEKS), cw + 1):
            want = None
            log = g["faclog"]
            if log:
                want = log[0][1]
                for wk, fac in log:
                    if wk <= w:
                        want = fac
            got = slot_for_week(o["cfg"], w)
            if got is not None and want is not None and list(got) != list(want):
                out.append(("factors-for-week", f"after {op} (week {cw}): stored factors for week {w} are {got}, the latest accepted when it ended were {want}"))
    # ---- the slice: percentage of every emission goes to the running week's pool
    if k in sb.SETTLING:
        full = o["inp"]["full"]
        exp = full * pre["pct"] // sb.MAXP if (pre["pct"] > 0 and pre["cfg"] is not None) else 0
        if o["cut"] != exp:
            out.append(("slice-amount", f"{op}: accumulated rewards of the running week {cw} grew by {o['cut']}, emission {full} * {pre['pct']} / 10000 = {exp}"))
    elif k not in ("Advance", "Collect") and o["cut"] != 0:
        out.append(("slice-amount", f"{op}: accumulated rewards of the running week changed by {o['cut']} without a settlement"))
    # ---- life cycle of a completed week's pool
    for w in set(pre["acc"]) | set(o["acc"]):
        if w < cw and o["acc"].get(w, 0) > pre["acc"].get(w, 0):
            out.append(("accumulated-grew-after-week-end", f"{op} at week {cw}: accumulated({w}) {pre['acc'].get(w, 0)} -> {o['acc'].get(w, 0)}"))
    for w, r in pre["rewards"].items():
        if r and w >= cw - sb.MAX_CLAIM_WEEKS and o["rewards"].get(w) != r:
            out.append(("frozen-total-changed", f"{op}: total rewards of week {w} changed {r} -> {o['rewards'].get(w)}"))
    for w, R in o.get("froze", {}).items():
        if not (cw - sb.MAX_CLAIM_WEEKS <= w < cw):
            out.append(("frozen-outside-window", f"{op} at week {cw}: pool of week {w} frozen"))
        if R != pre["acc"].get(w, 0):
            out.append(("freeze-amount", f"{op}: week {w} frozen at {R}, accumulated was {pre['acc'].get(w, 0)}"))
        if o["acc"].get(w, 0) != 0:
            out.append(("freeze-accumulated-not-consumed", f"{op}: accumulated({w}) still {o['acc'].get(w, 0)} after freezing"))
        if R != g["cuts"].get(w, 0):
            out.append(("frozen-vs-cuts", f"{op}: week {w} frozen at {R}, the week's slices add up to {g['cuts'].get(w, 0)}"))
    for w, R in g["frozen"].items():
        p = g["paid"].get(w, 0)
        if p > R:
            out.append(("paid-more-than-pool", f"after {op}: week {w} paid {p} in total > pool {R}"))
        if w not in g["swept"] and o["rem"].get(w, 0) != R - p:
            out.append(("remaining-vs-ledger", f"after {op}: remaining({w}) = {o['rem'].get(w, 0)}, pool {R} - paid {p} = {R - p}"))
    for w, p in g["paid"].items():
        if p > 0 and w not in g["frozen"]:
            out.append(("paid-from-unfrozen-week", f"after {op}: week {w} paid {p} but its pool was never frozen"))
    # ---- the user's settlement
    if k in sb.USER_OPS:
        ex = {e["w"]: e for e in o.get("expected", [])}
        for w, x in o["paid"].items():
            if x < 0:
                out.append(("completed-week-pool-grew", f"{op} at week {cw}: pool of week {w} grew by {-x}"))
            elif w not in ex:
                out.append(("paid-outside-window", f"{op} at week {cw}: paid {x} for week {w}; user progress {pre['prog'].get(op[1])}, "
                                                   f"claimable weeks {sorted(ex)}"))
            elif o["claimed_before"].get(w, 0) > 0:
                out.append(("week-paid-twice", f"{op}: user {op[1]} is paid {x} for week {w} again"))
        for w, e in ex.items():
            x = o["paid"].get(w, 0)
            if e["x"] is None:      # cE + cF = 0 in force for an eligible week: must be impossible
                out.append((f"boosted-division-by-zero:{k}", f"{op} at week {cw}: the factors of week {w} are {e['fac']} (cE + cF = 0)"))
                continue
            if x > e["x"] or (e["x"] == 0 and x != 0) or x <= e["x"] - SLACK and x >= 0:
                out.append(("boosted-formula", f"{op} at week {cw}: paid {x} for week {w}; min(maxF*R*f/F, R*(cE*e/E+cF*f/F)/(cE+cF)) = "
                                               f"{float(e['x'])} with R={e['R']} f={e['f']} F={e['F']} e={e['e']} E={e['E']} factors={e['fac']}"))
        if o["ret_b"] is not None and o["ret_b"] != o["b"]:
            out.append(("reported-vs-pool-decrease", f"{op}: endpoint reports boosted {o['ret_b']}, the weeks' pools decreased by {o['b']}"))
    elif k != "Collect":
        if o["paid"]:
            out.append(("pool-moved-without-claim", f"{op}: completed weeks' pools changed by {o['paid']}"))
    # ---- undistributed: exactly the leftovers of weeks (last collected, current-5], once
    if k == "Collect":
        exp_last = max(pre["lastcol"], cw - sb.MAX_CLAIM_WEEKS - 1)
        if o["lastcol"] != exp_last:
            out.append(("collect-range", f"{op} at week {cw}: last collect week {pre['lastcol']} -> {o['lastcol']}, expected {exp_last}"))
        tot = 0
        for w, x in o.get("swept_now", {}).items():
            tot += x
            if w > cw - sb.MAX_CLAIM_WEEKS - 1:
                out.append(("collected-inside-window", f"{op} at week {cw}: week {w} swept"))
            if o.get("swept_before", {}).get(w):
                out.append(("week-collected-twice", f"{op}: week {w} swept again"))
            if o["acc"].get(w, 0) != 0 or o["rem"].get(w, 0) != 0:
                out.append(("swept-week-not-emptied", f"{op}: week {w} holds acc {o['acc'].get(w, 0)} rem {o['rem'].get(w, 0)} after the sweep"))
        if o["und"] - pre["und"] != tot:
            out.append(("undistributed-growth", f"{op}: undistributed grew by {o['und'] - pre['und']}, leftovers of weeks "
                                                f"{sorted(o.get('swept_now', {}))} add up to {tot}"))
        for m in ("acc", "rem"):
            for w in set(pre[m]) | set(o[m]):
                if w not in o.get("swept_now", {}) and pre[m].get(w, 0) != o[m].get(w, 0):
                    out.append(("collect-touched-other-week", f"{op}: {m}({w}) {pre[m].get(w, 0)} -> {o[m].get(w, 0)}"))
        for w in set(o["acc"]) | set(o["rem"]):
            if w <= cw - sb.MAX_CLAIM_WEEKS - 1 and (o["acc"].get(w, 0) or o["rem"].get(w, 0)):
                out.append(("leftover-stuck", f"after {op} at week {cw}: week {w} still holds acc {o['acc'].get(w, 0)} rem {o['rem'].get(w, 0)}"))
    elif o["und"] != pre["und"] or o["lastcol"] != pre["lastcol"]:
        out.append(("undistributed-moved", f"{op}: undistributed {pre['und']} -> {o['und']}, last collect week {pre['lastcol']} -> {o['lastcol']}"))
    if o["und"] != g["und"]:
        out.append(("undistributed-vs-swept", f"after {op}: undistributed {o['und']} != everything swept so far {g['und']}"))
    # ---- conservation of the module's reward tokens
    held = sum(o["acc"].values()) + sum(o["rem"].values()) + o["und"] + sum(g["paid"].values())
    if held != sum(g["cuts"].values()):
        out.append(("conservation", f"after {op}: pools {sum(o['acc'].values())}+{sum(o['rem'].values())} + undistributed {o['und']} + paid "
                                    f"{sum(g['paid'].values())} != slices taken {sum(g['cuts'].values())}"))
    return out


def mag(n):
    return min(9, len(str(n)) // 4)


def nontrivial(cfg, op, o):
    if not o["ok"]:
        return None
    k = op[0]
    if k == "Collect":
        sw = o.get("swept_now", {})
        if not any(sw.values()):
            return None
        never = any(x > 0 and w not in o["ghost"]["frozen"] for w, x in sw.items())
        return ("Collect", min(len(sw), 6), never, mag(sum(sw.values())))
    if k not in sb.USER_OPS or o["b"] <= 0:
        return None
    ex = {e["w"]: e for e in o.get("expected", [])}
    pre = o["pre"]
    bound, inexact, first = set(), False, False
    for w, x in o["paid"].items():
        e = ex.get(w)
        if e and e["fac"] and x > 0:
            mx, ce, cf = e["fac"][0], e["fac"][1], e["fac"][2]
            a = mx * e["R"] * e["f"] // e["F"]
            bound.add("cap" if x == a else "share")
            if (e["R"] * ce * e["e"]) % e["E"] or (e["R"] * cf * e["f"]) % e["F"]:
                inexact = True
        if w in o.get("froze", {}):
            first = True
    received = False
    if k in ("Enter", "Claim", "Compound", "Merge", "Exit"):
        ps = op[3] if k == "Enter" else ([op[2]] + op[3] if k in ("Claim", "Compound") else ([op[2]] if k == "Exit" else op[2]))
        received = any(pre["owner_of"].get(n) not in (None, op[1]) for n, _ in ps)
    return (k, min(len([x for x in o["paid"].values() if x > 0]), 4), tuple(sorted(bound)), inexact, received, first, mag(o["b"]))


E18 = 10 ** 18
# scripted histories run in every exploration besides the generated ones (deterministic regression corpus)
CORPUS = [
    # the history that showed the zero-constants defect before fix fee846b: the second setting is now rejected and
    # every later settlement of the eligible users succeeds
    dict(name="zero-reward-constants-rejected",
         cfg=dict(dsc=10 ** 12, same=True, rate=10 ** 6, epoch0=5, scale=1000, late_factors=False),
         ops=[["SetPct", 100, 2500], ["SetFactors", 100, [2, 0, 0, 1, 1]], ["SetFactors", 100, [3, 1, 2, 1, 100]],
              ["Energy", 1, 28537554272, 0], ["Energy", 2, 5000, 1], ["Energy", 4, 5823, 0],
              ["Enter", 3, 445000, []], ["Enter", 4, 1000, []], ["Enter", 2, 238000, []], ["Enter", 1, 65000, []],
              ["SetFactors", 100, [2, 0, 0, 1, 1000]], ["SetFactors", 100, [2, 0, 0, 1, 1]], ["Enter", 3, 103000, []],
              ["Advance", 10, 7],
              ["Enter", 4, 69, []], ["Enter", 2, 1, []], ["ClaimBoosted", 4], ["Exit", 1, (4, 65000)],
              ["Merge", 4, [(2, 665)]], ["Claim", 2, (3, 238000), []], ["Compound", 3, (5, 103000), []],
              ["SetFactors", 100, [1, 0, 1, 1, 1]], ["Advance", 10, 7], ["ClaimBoosted", 4], ["ClaimBoosted", 2]]),
    dict(name="transfer-then-receiver-compounds",
         cfg=dict(dsc=10 ** 12, same=True, rate=10 ** 15, epoch0=5, scale=E18, late_factors=False),
         ops=[["SetPct", 100, 2500], ["SetFactors", 100, [2, 3, 2, 1, 1]],
              ["Energy", 1, 7000 * E18, 10 * E18], ["Energy", 2, 3000 * E18, 10 * E18], ["Energy", 3, 500 * E18, E18],
              ["Enter", 1, E18, []], ["Enter", 2, 2 * E18, []], ["Enter", 3, E18, []],
              ["Advance", 100, 7],
              ["ClaimBoosted", 1], ["Transfer", 1, 1, 2, E18], ["Compound", 2, (2, 2 * E18), [(1, E18)]],
              ["Claim", 3, (3, E18), []],
              ["Advance", 100, 7], ["SetFactors", 100, [1, 1, 1, 1, 1]],
              ["Transfer", 5, 3, 1, E18 // 2], ["Claim", 1, (5, E18 // 2), []], ["Exit", 3, (5, E18 // 4)],
              ["Merge", 2, [(4, E18)]], ["Enter", 4, 5 * E18, []],
              ["Advance", 1000, 49], ["Collect", 2], ["Collect", 100], ["Collect", 100], ["ClaimBoosted", 2]]),
    dict(name="percentage-before-factors",
         cfg=dict(dsc=10 ** 12, same=False, rate=10 ** 6, epoch0=0, scale=1000, late_factors=True),
         ops=[["SetPct", 100, 2500], ["Energy", 1, 10 ** 9, 10 ** 5], ["Energy", 2, 10 ** 8, 10 ** 5],
              ["Enter", 1, 100, []], ["Enter", 2, 100, []], ["Advance", 10, 7],
              ["Enter", 3, 10 ** 8, []], ["Transfer", 3, 3, 1, 10 ** 8], ["Claim", 1, (3, 10 ** 8), []],
              ["SetFactors", 100, [2, 1, 1, 1, 1]], ["Advance", 10, 7],
              ["ClaimBoosted", 1], ["Enter", 1, 5, []], ["Claim", 2, (2, 100), []],
              ["Advance", 10, 7], ["ClaimBoosted", 1], ["ClaimBoosted", 2]]),
    # a user returns after more than USER_MAX_CLAIM_WEEKS + 1 weeks while another one claimed every week: the skipped weeks must
    # decay his recorded energy week by week (advance_multiple_weeks), the four claimable weeks use the decayed values
    dict(name="long-absence-energy-decays-over-skipped-weeks",
         cfg=dict(dsc=10 ** 12, same=False, rate=10 ** 15, epoch0=5, scale=E18, late_factors=False),
         ops=[["SetPct", 100, 2500], ["SetFactors", 100, [10, 3, 2, 1, 1]],
              ["Energy", 1, 100000 * E18, 1000 * E18], ["Energy", 2, 100000 * E18, 1000 * E18],
              ["Enter", 1, 50 * E18, []], ["Enter", 2, 50 * E18, []], ["Enter", 3, 50 * E18, []]]
             + [x for _ in range(7) for x in (["Advance", 10, 7], ["ClaimBoosted", 2])]
             + [["ClaimBoosted", 1], ["Advance", 10, 7], ["ClaimBoosted", 2], ["ClaimBoosted", 1],
                ["Advance", 10, 14], ["Exit", 1, (1, 50 * E18)], ["ClaimBoosted", 2]]),
    dict(name="nobody-eligible-then-collect",
         cfg=dict(dsc=10 ** 12, same=False, rate=10 ** 6, epoch0=5, scale=1000, late_factors=False),
         ops=[["SetFactors", 100, [2, 1, 1, 10, 10]], ["SetPct", 100, 2500],
              ["Enter", 1, 1000, []], ["Enter", 2, 3000, []], ["Energy", 3, 5, 0], ["Enter", 3, 3000, []],
              ["Advance", 10, 7], ["Claim", 1, (1, 1000), []], ["Claim", 3, (3, 3000), []],
              ["Advance", 10, 56], ["Exit", 2, (2, 1000)], ["Collect", 100],
              ["Advance", 10, 7], ["Collect", 100], ["Collect", 1]]),
]


def _gen(args):
    seed, nops = args
    cfg, trace = sb.gen_history(seed, nops)
    return seed, cfg, trace


def explore_module(tier, seed, model_ok=True, focus=False):
    ex = Exploration()
    ex.rule = RULE
    nh, nops = budgets(tier)
    seeds = [seed * 100000 + i for i in range(nh)]
    hist = []
    for c in CORPUS:
        hist.append((f"corpus:{c['name']}", c["cfg"], sb.replay_history(c["cfg"], c["ops"])))
    with concurrent.futures.ProcessPoolExecutor(max_workers=16) as pool:
        for sd, cfg, trace in pool.map(_gen, [(s, nops) for s in seeds], chunksize=2):
            hist.append((sd, cfg, trace))
    terms = []
    for sd, cfg, trace in hist:
        ex.histories += 1
        ex.evaluations += len(trace)
        ops_all = [t[0] for t in trace]
        for i, (op, o) in enumerate(trace):
            ex.count(op[0] + (":ok" if o["ok"] else ":err"))
            ex.count("ops")
            ex.count("ok" if o["ok"] else "err")
            if not o["ok"]:
                ex.count("err:" + o["msg"][:40])
            if op[0] in sb.USER_OPS and o["ok"]:
                ex.count("user-op:boosted-paid" if o["b"] > 0 else "user-op:nothing-paid")
                ex.count("weeks-paid", len([x for x in o["paid"].values() if x > 0]))
            if o.get("froze"):
                ex.count("weeks-frozen", len(o["froze"]))
            if op[0] == "Collect" and o["ok"]:
                ex.count("weeks-swept", len(o.get("swept_now", {})))
            k = nontrivial(cfg, op, o)
            if k is not None:
                ex.nontrivial.add(k)
            for key, what in monitor(cfg, op, o):
                ex.failures.append(dict(key=key, what=what, replay=dict(cfg=cfg, ops=ops_all[:i + 1], seed=sd, observed=strip(o))))
        terms.append(sb.coq_history(cfg, trace))
        if len(ex.samples) < 3:
            ex.samples.append(dict(seed=sd, cfg=cfg, ops=[[op, "ok" if o["ok"] else o["msg"], o["paid"]] for op, o in trace[:14]]))
    if model_ok:
        res = coqrun.eval_terms(IMPORTS, terms, tag="C11", per_file=max(1, min(25, len(terms) // 16 + 1)))
        ex.traces_validated = len(res)
        for (sd, cfg, trace), r in zip(hist, res):
            if r:
                tr = [(op, o) for op, o in trace if sb.coq_op(op, o) is not None]
                i = r[0]
                ex.disagreements.append(dict(where="Run.BoostedRun.check_trace", seed=sd, cfg=cfg, index=i, field=r[1],
                                             model=r[2], impl=r[3], op=tr[i][0], observed=strip(tr[i][1]),
                                             ops=[t[0] for t in trace]))
    return ex


def explore(tier, seed, model_ok=True, focus=False):
    """the boosted module on its own (farm-level facts read from the real farm), then dex/farm as ONE closed model
    (Model/FarmFull.v): weekly pools never over-subscribed, the guard on remaining(week) never fires"""
    ex = explore_module(tier, seed, model_ok, focus)
    from props import farm_full_common as ffc
    ex = ffc.merge_exploration(ex, ffc.explore_farm_full("C11", tier, seed, ffc.monitors_for_c11, ffc.nontrivial_all, ffc.RULE, model_ok, focus, scale=0.5))
    # the same module inside the two other hosts: farm-with-locked-rewards and farm-staking (Model/BoostedHosts.v)
    from props import staking_full_common as sfc
    ex = sfc.merge_exploration(ex, sfc.explore_staking_full("C11", tier, seed, sfc.monitors_for_c11, sfc.nontrivial_all, sfc.RULE, model_ok, focus, scale=0.5))
    from props import c11_hosts_common as hc
    return hc.merge_exploration(ex, hc.explore_hosts("C11", tier, seed, model_ok, focus, scale=0.5))


def replay_module(data):
    rp = data["replay"]
    trace = sb.replay_history(rp["cfg"], rp["ops"])
    fails = []
    for op, o in trace:
        for key, what in monitor(rp["cfg"], op, o):
            fails.append(dict(key=key, what=what))
    return fails


def replay(data):
    if data.get("replay", {}).get("system") == "staking-full":
        from props import staking_full_common as sfc
        return sfc.replay_staking_full(data, sfc.monitors_for_c11)
    if data.get("replay", {}).get("system") == "farm-full":
        from props import farm_full_common as ffc
        return ffc.replay_farm_full(data, ffc.monitors_for_c11)
    if data.get("replay", {}).get("system") in ("boosted-locked", "boosted-staking"):
        from props import c11_hosts_common as hc
        return hc.replay_hosts(data)
    return replay_module(data)
