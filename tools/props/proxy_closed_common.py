"""C16 closed composition / C08 for proxy positions: exploration driver and monitors evaluated on REAL observations
(tools/sys_proxy_closed.py; Coq side Model/ProxyClosed.v, Run/ProxyClosedRun.v, Props/C16_closed.v, Props/C08_proxy.v).

Monitors (keys are stable identifiers of the failing clause).
 Part B - cross-contract conservation (only the composition can state them):
  xc-lp-conservation               the pair's LP supply != LP balances of every holder (owner, pair, proxy, LP farm, ...) + LP the
                                   LP farm burned as exit penalties (so the proxy's LP tokens ARE what the pair credited to it)
  xc-lp-third-party                a proxy endpoint moved LP tokens of somebody else than the proxy / the LP farm
  xc-farm-supply-vs-holdings:<f>   farm token supply of farm f != farm tokens held by the proxy and the trader
                                   (so the proxy's farm tokens ARE the positions outstanding in the farm, with the proxy as holder)
  xc-farm-principal:<f>            farming tokens the farm holds (base asset / LP) != its farm token supply
  xc-proxy-holds-base              the proxy holds base asset or the other pool token after a transaction
  xc-failed-state-changed          a failed transaction changed a callee observable
  + every C16 monitor of tools/props/c16.py on the proxy's endpoints (backing, locked-stays-locked, mint = burn, energy)
 Part C - C08 for proxy positions:
  c08p-energy-amount / c08p-energy-total    an account's entry != sum over (tokens it holds + tokens CARRIED for it) of
                                   amount * (unlock - now) / amount, CARRIED = net locked tokens the account's own calls moved into
                                   the proxy's custody (tallied from the proxy's real balances: deposits +, redemptions and burns -)
  c08p-carried-vs-proxy            sum over accounts of carried(unlock epoch) != the proxy's locked balance of that epoch
  c08p-transfer-moves-energy       a transfer of a wrapped token changed an energy entry
  c08p-third-party-energy          a proxy endpoint changed the entry of another account than the caller
"""
import json, concurrent.futures
import sys_proxy_closed as pc
import sys_proxydex as sp
import coqrun
from framework import Exploration
from props import c16

RULE = ("closed composed histories on the real pair + base-asset farm + LP farm (both with locked rewards) + energy factory + "
        "proxy_dex: 3 users, an outside trader; every transaction is an observed operation: the proxy's endpoints as in C16 "
        "(add with either side binding / merge, partial removes after the price moved both ways, enter / exit / claim with locked "
        "tokens and wrapped LP, both merges, both increase-energy endpoints, malformed stream), wrapped tokens changing hands "
        "before being redeemed, the users' own lockTokens / re-lock of locked tokens, the trader's own positions in the "
        "base-asset farm, pool trades, time (penalty window, expired locks). non-trivial = C16's classes extended with "
        "(changed hands, expired) plus environment operations by kind")
CALLEE_KEYS = ("rbase", "rother", "S", "fsup", "frps", "lpbal", "f0mex", "energy")


def budgets(tier):
    return (24, 40) if tier == "quick" else (400, 60)


def spec(o, u):
    """(sum amount*(unlock-now), sum amount) over the tokens the account holds and the tokens carried for it"""
    now, tab = o["now"], o["unlock_tab"]
    a = t = 0
    for n, v in o["ulocked"].get(u, {}).items():
        a += v * (tab.get(n, 0) - now)
        t += v
    for (uu, e), v in o["car"].items():
        if uu == u:
            a += v * (e - now)
            t += v
    return a, t


def monitor(cfg, op, o):
    out = []
    k = op[0]
    pre = o["pre"]
    # ---------------------------------------------------------------- part B
    tot = sum(o["lpbal"].values()) + o["lp_burned"]
    if tot != o["S"]:
        out.append(("xc-lp-conservation", f"{op}: pair LP supply {o['S']}, LP balances {o['lpbal']} + burned by the LP farm {o['lp_burned']}"))
    if k in pc.PROXY_OPS:
        for h in o["lpbal"]:
            if h not in ("proxy", "farmlp") and o["lpbal"][h] != pre["lpbal"][h]:
                out.append(("xc-lp-third-party", f"{op}: LP balance of {h} moved {pre['lpbal'][h]} -> {o['lpbal'][h]}"))
    for f in (0, 1):
        held = sum(v for key, v in o["farm"].items() if key % 2 == f) + sum(v for key, v in o["tfarm"].items() if key % 2 == f)
        if held != o["fsup"][f]:
            out.append((f"xc-farm-supply-vs-holdings:{f}", f"{op}: farm {f} token supply {o['fsup'][f]}, held by proxy + trader {held}"))
    if o["f0mex"] != o["fsup"][0]:
        out.append(("xc-farm-principal:0", f"{op}: the base-asset farm holds {o['f0mex']} base asset, its farm token supply is {o['fsup'][0]}"))
    if o["lpbal"]["farmlp"] != o["fsup"][1]:
        out.append(("xc-farm-principal:1", f"{op}: the LP farm holds {o['lpbal']['farmlp']} LP tokens, its farm token supply is {o['fsup'][1]}"))
    if o["base"] != 0 or o["other"] != 0:
        out.append(("xc-proxy-holds-base", f"{op}: the proxy holds base asset {o['base']}, other token {o['other']}"))
    if not o["ok"]:
        for key in CALLEE_KEYS:
            if o[key] != pre[key]:
                out.append(("xc-failed-state-changed", f"failed {op} ({o['msg']}) changed {key}: {pre[key]} -> {o[key]}"))
    # ---------------------------------------------------------------- C16 on the proxy's endpoints
    if k in pc.PROXY_OPS:
        out += c16.monitor(cfg, op, o)
    # ---------------------------------------------------------------- part C
    for u in pc.ACCTS:
        ea, eu, et = o["energy"][u]
        sa, st_ = spec(o, u)
        if ea != sa:
            out.append(("c08p-energy-amount", f"after {op}: account {u} entry amount {ea}, held + carried tokens give {sa} "
                        f"(held {o['ulocked'].get(u)}, carried { {e: v for (x, e), v in o['car'].items() if x == u and v} })"))
        if et != st_:
            out.append(("c08p-energy-total", f"after {op}: account {u} total locked {et}, held + carried {st_}"))
    carsum = {}
    for (u, e), v in o["car"].items():
        carsum[e] = carsum.get(e, 0) + v
    held = pc.emap(o["unlock_tab"], o["locked"])
    for e in set(carsum) | set(held):
        if carsum.get(e, 0) != held.get(e, 0):
            out.append(("c08p-carried-vs-proxy", f"after {op}: unlock epoch {e}: carried {carsum.get(e, 0)}, the proxy holds {held.get(e, 0)}"))
    if o["ok"] and k in ("XferWlp", "XferWfm"):
        if o["energy"] != pre["energy"]:
            out.append(("c08p-transfer-moves-energy", f"{op}: entries {pre['energy']} -> {o['energy']}"))
    if o["ok"] and k in pc.NESTED:
        for u in pc.ACCTS:
            if u != op[1] and o["energy"][u] != pre["energy"][u]:
                out.append(("c08p-third-party-energy", f"{op}: entry of account {u} changed {pre['energy'][u]} -> {o['energy'][u]}"))
    return out


def safe_monitor(cfg, op, o):
    try:
        return monitor(cfg, op, o)
    except Exception as e:  # an unevaluable observation is a failure, not a crash of the check
        import traceback
        return [(f"monitor-cannot-evaluate:{op[0]}", f"{op}: {type(e).__name__}: {e} | " + traceback.format_exc().splitlines()[-3].strip())]


def burned_of(op, o):
    """(locked tokens the proxy burned, their unlock epoch) of a successful remove / exit"""
    k = op[0]
    if not o["ok"] or k not in ("RemoveLiq", "ExitFarm"):
        return 0, 0
    return max(0, -(o["dlocked"] - (o["outs"][1][2] if k == "ExitFarm" else 0))), o["env"]["unlock"]


def nontrivial(cfg, op, o):
    k = op[0]
    if k in pc.PROXY_OPS:
        nk = c16.nontrivial(cfg, op, o)
        if nk is None:
            return None
        b, ue = burned_of(op, o)
        return nk + (o["changed_hands"], b > 0 and ue < o["now"], o["b"] > 0 or o["bm"] > 0)
    if k in ("Lock", "Extend", "FEnter", "FClaim", "FExit"):
        return (k, o["ok"], o["b"] > 0)
    return None


def strip(o):
    return {k: v for k, v in o.items() if k not in ("pre", "wlp_tab", "wfm_tab", "unlock_tab", "car")}


def jsonable(x):
    return json.loads(json.dumps(x, default=str))


def _gen(args):
    seed, nops, focus = args
    return (seed,) + tuple(pc.gen_history(seed, nops, focus))


def explore_proxy_closed(pid, tier, seed, model_ok=True, focus=False, scale=None):
    """scale: (histories, operations per history) overriding the tier's budget"""
    ex = Exploration()
    ex.rule = RULE
    nh, nops = scale or budgets(tier)
    seeds = [seed * 100000 + 40000 + i for i in range(nh)]
    hist = []
    with concurrent.futures.ProcessPoolExecutor(max_workers=16) as pool:
        for sd, cfg, trace in pool.map(_gen, [(s, nops, focus) for s in seeds], chunksize=2):
            hist.append((sd, cfg, trace))
    terms = []
    for sd, cfg, trace in hist:
        ex.histories += 1
        ops_all = [t[0] for t in trace]
        for j, (op, o) in enumerate(trace):
            k = op[0]
            ex.evaluations += 1
            ex.count(f"{k}:" + ("ok" if o["ok"] else "err"))
            ex.count("ops:ok" if o["ok"] else "ops:err")
            if k in pc.PROXY_OPS:
                ex.count("proxy:ok" if o["ok"] else "proxy:err")
            if not o["ok"]:
                ex.count("err:" + k + ":" + o["msg"][:44])
            else:
                b, ue = burned_of(op, o)
                if b > 0:
                    ex.count("case:locked-tokens-burned-with-energy-deduction")
                    if ue < o["now"]:
                        ex.count("case:burn-of-EXPIRED-locked-tokens (energy refund)")
                    if o["changed_hands"]:
                        ex.count("case:burn-debits-a-caller-who-is-not-the-depositor")
                if o["changed_hands"]:
                    ex.count("case:wrapped-token-changed-hands-before-" + k)
                if o["b"] > 0 or o["bm"] > 0:
                    ex.count(f"{k}:boosted>0")
                if k == "MergeWfm" and o["bm"] > 0:
                    ex.count("case:merge-farm:boosted-rewards-kept-by-proxy")
                if any(v < 0 for v in o["car"].values()):
                    ex.count("state:some-account-carries-a-NEGATIVE-amount")
            nk = nontrivial(cfg, op, o)
            if nk is not None:
                ex.nontrivial.add(nk)
                if k in pc.PROXY_OPS:
                    for c in c16.distinguishing(op, o, nk):
                        ex.count(c)
            for key, what in safe_monitor(cfg, op, o):
                ex.failures.append(dict(key=key, what=what, replay=dict(system="proxy_closed", cfg=cfg, ops=ops_all[:j + 1], seed=sd,
                                                                          observed=jsonable(strip(o)))))
        terms.append(pc.coq_history(cfg, trace))
        if len(ex.samples) < 2:
            ex.samples.append(dict(system="proxy_closed", seed=sd, cfg=cfg,
                                   ops=[[op, "ok" if o["ok"] else o["msg"], o["outs"] or o["eouts"]] for op, o in trace[:14]]))
    ex.notes.append("closed model inputs measured on the real run: boosted payouts of the farm calls (reward - base part from the "
                    "reward-per-share views), block / epoch; every other callee answer is computed by the callee models and compared")
    if model_ok:
        try:
            res = coqrun.eval_terms(pc.IMPORTS, terms, tag=f"{pid}pc", per_file=max(1, min(8, len(terms) // 16 + 1)))
        except Exception as e:
            ex.disagreements.append(dict(where="Run.ProxyClosedRun.check_closed", detail=f"evaluation failed: {str(e)[-1500:]}"))
            return ex
        ex.traces_validated += len(res)
        ex.count("traces replayed on the closed model", len(res))
        for (sd, cfg, trace), r in zip(hist, res):
            if r:
                i = r[0]
                if i < 0 or i >= len(trace):
                    ex.disagreements.append(dict(where="Run.ProxyClosedRun.check_closed", system="proxy_closed", seed=sd, cfg=cfg,
                                                 detail=f"set-up failed in the model: {r}"))
                    continue
                ex.disagreements.append(dict(where="Run.ProxyClosedRun.check_closed", system="proxy_closed", seed=sd, cfg=cfg, index=i,
                                             field=r[1], model=r[2], impl=r[3], op=trace[i][0], observed=jsonable(strip(trace[i][1])),
                                             ops=[t[0] for t in trace[:i + 1]]))
    return ex


def replay_proxy_closed(data):
    rp = data["replay"]
    trace = pc.replay_history(rp["cfg"], rp["ops"])
    fails = []
    for op, o in trace:
        for key, what in safe_monitor(rp["cfg"], op, o):
            fails.append(dict(key=key, what=what))
    return fails


def merge(ex, ex2):
    ex.evaluations += ex2.evaluations
    ex.histories += ex2.histories
    ex.nontrivial |= ex2.nontrivial
    ex.failures += ex2.failures
    ex.disagreements += ex2.disagreements
    ex.traces_validated += ex2.traces_validated
    ex.samples += ex2.samples[:1]
    ex.notes += ex2.notes
    for k, v in ex2.counters.items():
        ex.counters[k] = ex.counters.get(k, 0) + v
    return ex
