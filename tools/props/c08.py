"""C08 — energy equals the time-weighted sum of the account's locked tokens.

The monitor recomputes, after EVERY operation and for EVERY user account, sum amount*(unlock_epoch - now)
and sum amount from the REAL locked-token balances and the REAL token attributes of the account and
compares them with getEnergyEntryForUser / getEnergyAmountForUser of the real energy factory.
Tokens held by token-unstake (unbonding), lkmex-transfer (pending transfer) and the wrapper (wrapped)
are in no user's balance, hence must be in nobody's entry.
"""
import concurrent.futures
import sys_energy as se
import coqrun
from framework import Exploration

ASSUMPTIONS = ["A-VM", "A-U64",
               "A-ATTR-PROXY: locked tokens at work through proxy_dex are attributed by CALLER (signed carried ledger, Props/C08_proxy.v): the "
               "depositor keeps their energy, the account that redeems / burns them is debited; proxy_dex operations are outside the "
               "operation list of C08's text, they are explored as an extension"]
IMPORTS = "Base.Prelude Gen.Params Model.Energy Run.EnergyRun8"
RULE = ("stateful mostly-valid generator over lock (own / other destination / lockVirtual), extend (own / via whitelisted "
        "contract), merge (2-3 nonces, same nonce twice, via contract), reduce, unlock (several nonces), unlockEarly, "
        "claimUnlockedTokens, cancelUnbond, lockFunds / withdraw / cancelTransfer, wrap / unwrap / wrapped-token transfer, "
        "unauthorised direct calls of the energy setters, epoch jumps to and across unlock epochs, unbond epochs and month "
        "boundaries; 3 accounts, partial amounts (1 unit ... 10^24), random lock-option sets (1-10 options), unbond 0-30, "
        "cooldowns 0-6; non-trivial = successful operation after which an account's energy sum has a term (it holds locked "
        "tokens) ; distinct by (operation, number of distinct unlock epochs held, expired token held, sign of the energy, "
        "unbond queue / pending transfer / wrapped supply non-empty, magnitude class)")


def spec(o, u):
    """(sum amount*(unlock - now), sum amount) from the real balances + attributes of user u"""
    now = o["now"]
    return (sum(b * (e - now) for (n, e, b) in o["utok"][u]), sum(b for (n, e, b) in o["utok"][u]))


def monitor(cfg, op, o):
    out = []
    for u in sorted(o["utok"]):
        amt, upd, tot, view = o["en"][u]
        want_e, want_t = spec(o, u)
        if amt != want_e:
            out.append((f"energy-amount:{op[0]}", f"after {op}: getEnergyEntryForUser(user{u}).amount = {amt}, but its locked tokens "
                        f"{[(e, b) for (n, e, b) in o['utok'][u]]} at epoch {o['now']} give {want_e}"))
        if tot != want_t:
            out.append((f"total-locked:{op[0]}", f"after {op}: getEnergyEntryForUser(user{u}).total_locked_tokens = {tot}, "
                        f"but it holds {want_t} locked tokens"))
        if view != max(0, want_e):
            out.append((f"amount-view:{op[0]}", f"after {op}: getEnergyAmountForUser(user{u}) = {view}, expected max(0, {want_e})"))
    for h, name in ((se.H_UNSTAKE, "token-unstake"), (se.H_XFER, "lkmex-transfer"), (se.H_WRAP, "locked-token-wrapper")):
        amt, upd, tot, view = o["en"][h]
        if amt != 0 or tot != 0 or view != 0:
            out.append((f"escrow-energy:{name}", f"after {op}: the escrow account {name} has an energy entry "
                        f"(amount {amt}, total {tot}, view {view}) while holding {o['tot'][h]} locked tokens"))
    return out


def nontrivial(cfg, op, o):
    if not o["ok"]:
        return None
    best = None
    for u in sorted(o["utok"]):
        toks = o["utok"][u]
        if not toks:
            continue
        eps = {e for (n, e, b) in toks}
        amt = o["en"][u][0]
        key = (op[0], min(3, len(eps)), any(e < o["now"] for e in eps), (amt > 0) - (amt < 0),
               any(o["queue"][x] for x in o["queue"]), bool(o.get("pending")), bool(o["whold"]),
               len(str(o["en"][u][2])) // 5)
        if op[0] != "Advance" and len(op) > 1 and op[1] == u:
            return key
        best = best or key
    return best


# the non-vacuity history of coq/Props/C08.v (c08_cfg / c08_ops), replayed on the real contracts in every run
CORPUS = [dict(name="C08_nonvacuous",
               cfg=dict(opts=[[360, 4000], [720, 6000], [1440, 8000]], unbond=10, burn=5000, minlock=4, cool=6, epoch0=5),
               ops=[["Lock", 1, 1000, 360, 1], ["Lock", 1, 5000, 1440, 1], ["Lock", 2, 700, 720, 3], ["LockVirtual", 2, 900, 360],
                    ["Reduce", 1, 1440, 1000, 360], ["UnlockEarly", 1, 360, 300], ["UnlockEarly", 3, 720, 50],
                    ["Wrap", 1, 1440, 500], ["WTransfer", 1, 2, 1440, 200], ["LockFunds", 1, 3, [[1440, 100], [360, 50]]],
                    ["Advance", 5], ["Withdraw", 3, 1], ["Unwrap", 2, 1440, 200], ["Extend", 3, 720, 100, 1440, 3],
                    ["ExtendVia", 1, 360, 100, 720], ["Merge", 1, [[1440, 10], [720, 20]]], ["Advance", 360],
                    ["Unlock", 2, [[360, 400]]], ["CancelUnbond", 1], ["Claim", 3], ["UnlockEarly", 1, 1440, 90],
                    ["LockFunds", 2, 1, [[1440, 10]]]])]


def _gen(args):
    seed, nops = args
    cfg, trace = se.gen_history(seed, nops)
    return seed, cfg, trace


def budgets(tier):
    return (48, 40) if tier == "quick" else (1600, 60)


def strip(o):
    return {k: v for k, v in o.items() if k != "pre"}


def explore(tier, seed, model_ok=True, focus=False):
    ex = Exploration()
    ex.rule = RULE
    nh, nops = budgets(tier)
    seeds = [seed * 100000 + i for i in range(nh)]
    hist = []
    for c in CORPUS:
        tr = se.replay_history(c["cfg"], c["ops"])
        bad = [i for i, (_, o) in enumerate(tr) if not o["ok"]]
        if bad:
            # a corpus history is made of legitimate operations only: one that is refused is a finding with a replay,
            # not a reason to stop exploring (the monitors and the model comparison still run on it)
            i = bad[0]
            ex.failures.append(dict(key="corpus-history-refused", what=f"corpus history {c['name']}: legitimate operation {tr[i][0]} is refused "
                                                                        f"({tr[i][1]['msg']})",
                                    replay=dict(cfg=c["cfg"], ops=[t[0] for t in tr[:i + 1]], seed=c["name"], observed=strip(tr[i][1]))))
        hist.append((c["name"], c["cfg"], tr))
    with concurrent.futures.ProcessPoolExecutor(max_workers=16) as pool:
        for sd, cfg, trace in pool.map(_gen, [(s, nops) for s in seeds], chunksize=4):
            hist.append((sd, cfg, trace))
    terms = []
    for sd, cfg, trace in hist:
        ex.histories += 1
        ex.evaluations += len(trace)
        for i, (op, o) in enumerate(trace):
            ex.count(op[0] + (":ok" if o["ok"] else ":err"))
            ex.count("ops:ok" if o["ok"] else "ops:err")
            if not o["ok"]:
                ex.count("err:" + o["msg"][:40])
                if o.get("unchanged") is False:
                    ex.failures.append(dict(key="failed-tx-changed-state", what=f"{op} failed but storage/balances changed",
                                            replay=dict(cfg=cfg, ops=[t[0] for t in trace[:i + 1]])))
            if o["proxy_left"]:
                ex.failures.append(dict(key="pass-through-account-kept-tokens", what=f"after {op} the pass-through account holds {o['proxy_left']}",
                                        replay=dict(cfg=cfg, ops=[t[0] for t in trace[:i + 1]], seed=sd, observed=strip(o))))
            k = nontrivial(cfg, op, o)
            if k is not None:
                ex.nontrivial.add(k)
            for key, what in monitor(cfg, op, o):
                ex.failures.append(dict(key=key, what=what, replay=dict(cfg=cfg, ops=[t[0] for t in trace[:i + 1]], seed=sd,
                                                                          observed=strip(o))))
        terms.append(se.coq_history(cfg, trace))
        if len(ex.samples) < 3:
            ex.samples.append(dict(seed=sd, cfg=cfg, ops=[[op, "ok" if o["ok"] else o["msg"], o["outs"]] for op, o in trace[:12]]))
    if model_ok:
        res = coqrun.eval_terms(IMPORTS, terms, tag="C08", per_file=max(1, min(25, len(terms) // 16 + 1)))
        ex.traces_validated = len(res)
        for (sd, cfg, trace), r in zip(hist, res):
            if r:
                i = r[0]
                ex.disagreements.append(dict(where="Run.EnergyRun8.check_trace", seed=sd, cfg=cfg, index=i, field=r[1],
                                             model=r[2], impl=r[3], op=trace[i][0], observed=strip(trace[i][1]),
                                             ops=[t[0] for t in trace]))
    # closed composition proxy_dex x pair x two locked farms x energy factory (Model/ProxyClosed.v)
    from props import proxy_closed_common as pcc
    ex = pcc.merge(ex, pcc.explore_proxy_closed("C08", tier, seed, model_ok, focus, scale=((12, 40) if tier == "quick" else None)))
    return ex


def replay(data):
    if data.get("replay", {}).get("system") == "proxy_closed":
        from props import proxy_closed_common as pcc
        return pcc.replay_proxy_closed(data)
    rp = data["replay"]
    trace = se.replay_history(rp["cfg"], rp["ops"])
    fails = []
    for op, o in trace:
        for key, what in monitor(rp["cfg"], op, o):
            fails.append(dict(key=key, what=what))
    if data.get("key") == "corpus-history-refused" and trace and not trace[-1][1]["ok"]:
        fails.append(dict(key="corpus-history-refused", what=f"{trace[-1][0]} is refused ({trace[-1][1]['msg']})"))
    return fails
