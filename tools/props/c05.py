"""C05 — farm reward accounting exact; principal backed (dex/farm)."""
from props.farm_common import explore_farm, replay_farm

ASSUMPTIONS = ["A-VM", "farm_position_migration_nonce at its default (no pre-migration positions)",
               "boosted payout of claim/exit derived from the observed change of the boosted pools",
               "farm-with-locked-rewards histories are explored here too (tools/sys_farm_locked.py, Model/FarmLocked.v); farm-staking shares the base functions, its money flow is C12 and its index C06"]
RULE = ("stateful mostly-valid generator over enter (with merge), claim, compound, exit (partial), merge, claimBoosted, "
        "position transfers, energy changes, admin rate/percentage/factors/pause changes, top-ups and block/epoch/week "
        "advances (tools/sys_farm.py); DSC in {1,10,1e6,1e12,1e18}; non-trivial = successful user operation with a boosted "
        "payout, an exit penalty, a merge, or a settlement with supply > 0; distinct by (op, flags, magnitudes)")
USER_OPS = ("Enter", "Claim", "Compound", "Exit", "Merge", "ClaimBoosted")


def monitor(cfg, op, o):
    out = []
    if not o["ok"]:
        m = o["msg"].lower()
        if op[0] in USER_OPS and ("cannot subtract because result would be negative" in m or "panic" in m or "overflow" in m):
            out.append((f"counter-underflow:{op[0]}", f"{op} failed with '{o['msg']}'"))
        return out
    same = cfg["same"]
    if same:
        if o["bal_rew"] != o["reserve"] + o["supply"] + o["donated"]:
            out.append(("reward-balance-vs-reserve", f"after {op}: balance {o['bal_rew']} != reserve {o['reserve']} + supply {o['supply']} + donated {o['donated']}"))
    else:
        if o["bal_rew"] != o["reserve"] + o["donated"]:
            out.append(("reward-balance-vs-reserve", f"after {op}: reward balance {o['bal_rew']} != reserve {o['reserve']} + donated {o['donated']}"))
        if o["bal_farming"] != o["supply"]:
            out.append(("principal-not-backed", f"after {op}: farming tokens held {o['bal_farming']} != farm token supply {o['supply']}"))
    if o["pool"] > o["reserve"]:
        out.append(("boosted-pools-exceed-reserve", f"after {op}: boosted pools {o['pool']} > reserve {o['reserve']}"))
    # solvency: reserve - pools covers all claimable base rewards (un-floored)
    claimable = 0
    for key, v in o["held"].items():
        if v:
            a = o["attrs"].get(key // 1000)
            if a:
                claimable += v * max(0, o["rps"] - a[0])
    if claimable > cfg["dsc"] * (o["reserve"] - o["pool"]):
        out.append(("reserve-does-not-cover-claims", f"after {op}: claimable {claimable} > DSC*(reserve-pools) = {cfg['dsc'] * (o['reserve'] - o['pool'])}"))
    return out


def nontrivial(cfg, op, o):
    if not o["ok"] or op[0] not in USER_OPS:
        return None
    pen = op[0] == "Exit" and o["outs"][0] < op[2][1]
    merged = (op[0] in ("Enter", "Claim", "Compound") and len(op[3]) > 0) or (op[0] == "Merge" and len(op[2]) > 1)
    settled = o["rps"] > o["pre"]["rps"]
    if not (o["b"] > 0 or pen or merged or settled):
        return None
    return (op[0], o["b"] > 0, pen, merged, settled, cfg["dsc"], cfg["same"], len(str(o["supply"])) // 4)


def corpus():
    import os, json, glob
    d = os.path.join(os.path.dirname(os.path.dirname(os.path.dirname(os.path.abspath(__file__)))), "corpus", "C05")
    out = []
    for f in sorted(glob.glob(os.path.join(d, "*.json"))):
        c = json.load(open(f))
        c["ops"] = [[tuple(x) if isinstance(x, list) and len(x) == 2 and all(isinstance(y, int) for y in x) and op[0] in ("Claim", "Exit", "Compound") and i == 2 else x
                     for i, x in enumerate(op)] for op in c["ops"]]
        out.append(c)
    return out


STAKING_USER_OPS = ("Stake", "StakeProxy", "Claim", "ClaimNewValue", "Compound", "Unstake", "UnstakeProxy", "Unbond", "Merge", "ClaimBoosted")


def staking_monitor(cfg, op, o):
    """C05 on farm-staking (money flow): no legitimate user operation fails on a negative counter; the staking-token
    balance backs direct principal + unbond amounts + un-accrued capacity + reserve; reserve = accrued - paid"""
    out = []
    if not o["ok"]:
        m = o["msg"].lower()
        if op[0] in STAKING_USER_OPS and ("cannot subtract because result would be negative" in m or "panic" in m or "overflow" in m):
            out.append((f"staking-counter-underflow:{op[0]}", f"{op} failed with '{o['msg']}'"))
        return out
    ident = (o["supply"] - o["virt"]) + o["ubtot"] + (o["cap"] - o["acc"]) + o["reserve"] + o["donated"]
    if o["bal"] != ident:
        out.append(("staking-principal-not-backed", f"after {op}: balance {o['bal']} != principal {o['supply'] - o['virt']} + unbond {o['ubtot']} + unaccrued {o['cap'] - o['acc']} + reserve {o['reserve']} + donated {o['donated']}"))
    pre = o["pre"]
    k = op[0]
    if k in ("Stake", "StakeProxy", "Merge", "ClaimBoosted"):
        paid = o["b"]                                       # only the boosted part is paid by these
    elif k in ("Claim", "ClaimNewValue", "Unstake", "UnstakeProxy"):
        paid = o["outs"][-1]
    elif k == "Compound":
        paid = o["supply"] - pre["supply"]                  # the reward becomes principal
    else:
        paid = 0
    if o["reserve"] - pre["reserve"] != (o["acc"] - pre["acc"]) - paid and op[0] in STAKING_USER_OPS:
        out.append((f"staking-reserve-vs-accrued-minus-paid:{op[0]}", f"{op}: reserve {pre['reserve']} -> {o['reserve']}, accrued +{o['acc'] - pre['acc']}, paid {paid}"))
    return out


def staking_nontrivial(cfg, op, o):
    if not o["ok"] or op[0] not in STAKING_USER_OPS:
        return None
    pre = o["pre"]
    return ("staking", op[0], o["acc"] == o["cap"], o["reserve"] == 0, len(str(o["supply"])) // 5, o["acc"] > pre["acc"])


def explore(tier, seed, model_ok=True, focus=False):
    """dex/farm histories, then farm-with-locked-rewards histories (same farm modules, rewards paid as locked tokens)"""
    from props.farm_locked_common import explore_locked, merge_into, corpus_locked, monitors_c05_with_lock, nontrivial_c05
    ex = explore_farm("C05", tier, seed, monitor, nontrivial, RULE, model_ok, focus, corpus=corpus())
    ex2 = explore_locked("C05", tier, seed, monitors_c05_with_lock, nontrivial_c05, RULE, model_ok, focus, scale=0.5, corpus=corpus_locked("C05"))
    ex = merge_into(ex, ex2)
    # farm-staking, position-level world and model (Model/StakingPos.v): reserve = accrued - paid, reserve covers the
    # claimable base rewards of all live positions + boosted pools, principal backed, no counter underflow
    from props import staking_pos_common as spc
    ex3 = spc.explore_staking_pos("C05", tier, seed, spc.monitors_c05, spc.nontrivial_c05, spc.RULE, model_ok, focus, scale=0.5)
    ex = spc.merge_exploration(ex, ex3)
    # dex/farm as ONE closed model (Model/FarmFull.v): the boosted payout is computed by the model, the farm's boosted pool is
    # linked to the weekly pools, no negative counter on any user operation
    from props import farm_full_common as ffc
    ex = ffc.merge_exploration(ex, ffc.explore_farm_full("C05", tier, seed, ffc.monitors_for_c05, ffc.nontrivial_all, ffc.RULE, model_ok, focus, scale=0.5))
    # farm-staking as ONE closed model (Model/StakingFull.v = StakingPos x BoostedHosts)
    from props import staking_full_common as sfc
    return sfc.merge_exploration(ex, sfc.explore_staking_full("C05", tier, seed, sfc.monitors_for_c05, sfc.nontrivial_all, sfc.RULE, model_ok, focus, scale=0.5))


def replay(data):
    if data.get("replay", {}).get("system") == "staking-full":
        from props import staking_full_common as sfc
        return sfc.replay_staking_full(data, sfc.monitors_for_c05)
    if data.get("replay", {}).get("system") == "farm-full":
        from props import farm_full_common as ffc
        return ffc.replay_farm_full(data, ffc.monitors_for_c05)
    if data.get("replay", {}).get("system") == "stakingpos":
        from props import staking_pos_common as spc
        return spc.replay_staking_pos(data, spc.monitors_c05)
    if data.get("replay", {}).get("system") == "staking":
        from props.staking_common import replay_staking
        return replay_staking(data, staking_monitor)
    if data.get("replay", {}).get("system") == "farm-locked":
        from props.farm_locked_common import replay_locked, monitors_c05_with_lock
        return replay_locked(data, monitors_c05_with_lock)
    return replay_farm(data, monitor)
