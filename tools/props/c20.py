"""C20 — Quotes equal execution: a view's promise is what the operation delivers."""
import concurrent.futures, json
import sys_quotes as sq
import sys_pair as sp
import sys_pricediscovery as spd
import coqrun
from framework import Exploration

ASSUMPTIONS = ["A-VM", "A-U64",
               "A-C20-BOOSTED: in Model/Farm.v and Model/Staking.v the boosted-yields amount of a user is an input of "
               "the operation (the weekly splitting is C11's subject); the dex/farm theorem therefore says 'same boosted "
               "input -> same total', and that view and claimRewards really compute the same boosted amount in the same "
               "state is decided on the real contracts by this property's monitor",
               "A-C20-STAKING-DEFAULT: farm-staking's view without the user argument uses the position's recorded original "
               "owner; for a TRANSFERRED position claimed by somebody else that quote contains the owner's boosted part "
               "(theorem C20_staking_default_user) and is not compared with the claimer's payout - the quote with the claimer "
               "passed explicitly is, always",
               "A-C20-ARGS: getPenaltyAmount is quoted with the arguments the endpoints themselves pass to "
               "calculate_penalty_amount (remaining epochs of the token paid in, remaining epochs of the token received)"]
M = 100000

RULE = ("five subsystems, each driven by its own stateful mostly-valid generator on the real contracts (pair: both swap "
        "modes and directions, fees 0..5%, special fee/collector on and off, liquidity add/remove, quotes against an "
        "empty pool, unknown token, zero / at-reserve amounts; dex/farm: enter/claim/exit/merge/compound/transfer with "
        "boosted yields on and off, energy, week changes; farm-staking: the same with APR cap and capacity, its view "
        "queried twice per claim: with the claimer as explicit user and without the argument (compared when the claimer "
        "is the position's original owner; a transferred position quoted without the argument is only counted); energy "
        "factory: lock/extend/unlockEarly/reduceLockPeriod over random option tables, epochs on and off month "
        "boundaries, amounts 1..1e22; dex/farm-with-locked-rewards with a real energy factory (monitor only, no model "
        "replay); price discovery: every phase boundary at -1/0/+1, deposits and withdrawals at the "
        "price floor +-1). Right before each quotable operation the view is queried in the same block between two "
        "storage digests, then the operation is executed and the delivered amount compared with the quote. "
        "Non-trivial = a quote followed by a SUCCESSFUL operation whose amount is not a trivial 0 and where rounding or "
        "settlement matters (inexact floor, blocks elapsed since the last settlement, penalty > 0, boosted part > 0, "
        "price floor in force), or a quote and an operation that both refuse for a view-level guard; distinct by "
        "(subsystem, view, direction/side/phase, fee or boosted class, inexactness, magnitude classes)")

# minimised histories replayed before the random ones
CORPUS = [
    dict(system="staking", name="f3-pending-boosted",       # = StkQ.f3_state of coq/Proofs/QuotesProofs.v; since e810a71: view 4791 = claim 4791
         expect=dict(view=4791, paid=4791),
         cfg=dict(dsc=10 ** 12, apr=10 ** 6, minub=10, boost=True),
         ops=[["SetRate", 100, 1000], ["SetState", 100, 1], ["TopUp", 100, 10 ** 9], ["Start", 100],
              ["SetPct", 100, 2500], ["SetFactors", 100, [2, 1, 1, 1, 1]],
              ["Energy", 1, 9800, 100], ["Energy", 2, 4900, 350],
              ["Stake", 1, 10 ** 8, []], ["Stake", 2, 10 ** 8, []],
              ["Time", 10, 0], ["Claim", 1, [1, 10 ** 8]], ["Claim", 2, [2, 10 ** 8]],
              ["Time", 10, 7], ["Claim", 2, [4, 10 ** 8]]]),
    dict(system="farm", name="farm-boosted-claim",           # boosted part > 0 on dex/farm: view(user) = claim(user)
         cfg=dict(dsc=10 ** 12, same=False, boost=True),
         ops=[["SetRate", 100, 1000], ["SetState", 100, 1], ["Start", 100],
              ["SetPct", 100, 2500], ["SetFactors", 100, [2, 1, 1, 1, 1]],
              ["Energy", 1, 9800, 100], ["Energy", 2, 4900, 350],
              ["Enter", 1, 10 ** 8, []], ["Enter", 2, 10 ** 8, []],
              ["Time", 10, 0], ["Claim", 1, [1, 10 ** 8], []], ["Claim", 2, [2, 10 ** 8], []],
              ["Time", 10, 7], ["Claim", 2, [4, 10 ** 8], []],
              ["Time", 10, 7], ["Claim", 1, [3, 5 * 10 ** 7], []]]),
    dict(system="pair", name="pair-nonvacuous",               # = c20_pair_state of coq/Props/C20.v
         cfg=dict(fee=300, sfee=50, adder=None, liq2=[5000, 5000]),
         ops=[["SetState", 100, 1], ["Add", 1, 1000000, 4000000, 1, 1], ["SwapIn", 2, 1, 12345, 2, 1],
              ["SwapOut", 2, 2, 10 ** 9, 1, 777], ["Remove", 1, 333333, 1, 1]]),
]


def budgets(tier):
    """histories per subsystem, operations per history"""
    if tier == "quick":
        return dict(pair=40, farm=36, staking=36, locking=24, pd=24, lfarm=12), 40
    return dict(pair=600, farm=540, staking=540, locking=360, pd=360, lfarm=200), 60


def strip(o):
    return {k: v for k, v in o.items() if k not in ("pre", "attrs", "held", "pos", "ub", "ubheld", "bal", "q", "lp")}


def mag(n):
    return min(9, len(str(abs(n))) // 3)


# ====================================================================== monitors (REAL observations only)
def common_q(system, o, out):
    for q in o.get("q20", []):
        if not q["unchanged"]:
            out.append((f"{system}:{q['view']}:state-changed", f"storage or balances changed across the query {q['view']}"))
        if q.get("tx_ok"):
            out.append((f"{system}:{q['view']}:callable-in-transaction",
                        f"{q['view']} succeeded inside a transaction (require_queried did not refuse it)"))


def main_q(o, **match):
    for q in o.get("q20", []):
        if all(q.get(k) == v for k, v in match.items()):
            return q
    return None


def mon_pair(cfg, op, o):
    out = []
    common_q("pair", o, out)
    k = op[0]
    pre = o["pre"]
    if k == "SwapIn":
        _, c, tin, ain, tout, mn = op
        q = main_q(o, kind=0, tok=tin, amt=ain)
        if q is None:
            return out
        ro = pre["r2"] if tin == 1 else pre["r1"]
        if o["ok"]:
            got = o["outs"][0] if o["outs"] else None
            if not q["ok"] or q["v"][0] != got:
                out.append(("pair:getAmountOut:swapTokensFixedInput",
                            f"{op}: getAmountOut quoted {q['v'][0] if q['ok'] else 'error ' + q['msg']}, swap delivered {got}"))
        elif q["ok"] and q["v"][0] > 0 and tout == 3 - tin and 0 < mn <= q["v"][0] and pre["state"] == 1 and not pre["fee_on"]:
            # C20_amount_out_live: Active, opposite token, minimum <= quote, no fee destination => must deliver
            out.append(("pair:getAmountOut:swap-rejects-quoted-amount",
                        f"{op}: quoted {q['v'][0]} >= minimum {mn}, pair active, no fee destination, but the swap refused with '{o['msg']}'"))
    elif k == "SwapOut":
        _, c, tin, amax, tout, aout = op
        q = main_q(o, kind=1, tok=tout, amt=aout)
        if q is None:
            return out
        if o["ok"]:
            ok2 = len(o["outs"]) == 2
            charged = amax - o["outs"][1] if ok2 else None
            if not q["ok"] or not ok2 or q["v"][0] != charged or o["outs"][0] != aout:
                out.append(("pair:getAmountIn:swapTokensFixedOutput",
                            f"{op}: getAmountIn quoted {q['v'][0] if q['ok'] else 'error ' + q['msg']}, swap charged {charged} "
                            f"and delivered {o['outs'][:1]}"))
        elif q["ok"] and tin == 3 - tout and q["v"][0] <= amax and pre["state"] == 1 and not pre["fee_on"]:
            out.append(("pair:getAmountIn:swap-rejects-quoted-amount",
                        f"{op}: quoted charge {q['v'][0]} <= maximum {amax}, pair active, no fee destination, but the swap refused with '{o['msg']}'"))
    elif k == "Remove":
        _, c, lp, m1, m2 = op
        q = main_q(o, kind=2, amt=lp)
        if q is None:
            return out
        if o["ok"]:
            if not q["ok"] or list(q["v"]) != list(o["outs"]):
                out.append(("pair:getTokensForGivenPosition:removeLiquidity",
                            f"{op}: view quoted {q['v']}, removeLiquidity paid {o['outs']}"))
        elif q["ok"] and 0 < m1 <= q["v"][0] < pre["r1"] and 0 < m2 <= q["v"][1] < pre["r2"] and pre["state"] in (1, 2) \
                and 0 < lp <= pre["lp"].get(c, 0) and lp + 1000 <= pre["S"]:
            # C20_tokens_for_position_iff: all of remove's own guards hold => the quoted pair must be paid
            out.append(("pair:getTokensForGivenPosition:remove-rejects-quoted-amounts",
                        f"{op}: quoted {q['v']} >= minimums and every guard of removeLiquidity holds, but it refused with '{o['msg']}'"))
    return out


def mon_farm(cfg, op, o, system="farm"):
    out = []
    common_q(system, o, out)
    if op[0] != "Claim":
        return out
    q = main_q(o, view="calculateRewardsForGivenPosition")
    if q is None:
        return out
    if o["ok"]:
        paid = o["outs"][2]
        if not q["ok"] or q["v"] != paid:
            out.append((f"{system}:calculateRewardsForGivenPosition:claimRewards",
                        f"{op} at block {o['blk']}: view quoted {q['v'] if q['ok'] else 'error ' + q['msg']} for the caller, "
                        f"claimRewards paid {paid} (boosted part {o['b']})"))
    return out


def mon_staking(cfg, op, o):
    out = []
    common_q("farm-staking", o, out)
    if op[0] != "Claim" or not o["ok"]:
        return out
    paid = o["outs"][2]
    c = op[1]
    for q in o.get("q20", []):
        if q.get("view") != "calculateRewardsForGivenPosition":
            continue
        if q["mode"] == "default" and q["owner"] != c:
            continue        # transferred position quoted without the user argument: the view quotes the OWNER's boosted part
        if not q["ok"] or q["v"] != paid:
            how = "with the claimer passed" if q["mode"] == "explicit" else "without user argument (claimer = original owner)"
            out.append(("farm-staking:calculateRewardsForGivenPosition:claimRewards",
                        f"{op} at block {o['blk']}: view {how} quoted {q['v'] if q['ok'] else 'error ' + q['msg']}, "
                        f"claimRewards paid {paid} (boosted part {o['b']})"))
    return out


def mon_locking(cfg, op, o):
    out = []
    common_q("energy-factory", o, out)
    q = main_q(o, view="getPenaltyAmount")
    if q is None:
        return out
    if op[0] == "UnlockEarly" and o["ok"]:
        _, c, e, amt = op
        ent = o["q"][c][-1] if o["q"].get(c) else None
        charged = (ent[2] - ent[3]) if ent else None
        if not q["ok"] or ent is None or ent[2] != amt or charged != q["v"]:
            out.append(("energy-factory:getPenaltyAmount:unlockEarly",
                        f"{op} at epoch {o['now']}: getPenaltyAmount({amt},{q['prev']},0) = "
                        f"{q['v'] if q['ok'] else 'error ' + q['msg']}, unlockEarly charged {charged} (queue entry {ent})"))
    elif op[0] == "Reduce" and o["ok"]:
        _, c, e, amt, le = op
        new_unlock, un = o["outs"]
        if new_unlock - o["now"] == q["new"]:
            charged = amt - un
            if not q["ok"] or charged != q["v"]:
                out.append(("energy-factory:getPenaltyAmount:reduceLockPeriod",
                            f"{op} at epoch {o['now']}: getPenaltyAmount({amt},{q['prev']},{q['new']}) = "
                            f"{q['v'] if q['ok'] else 'error ' + q['msg']}, reduceLockPeriod charged {charged}"))
    return out


def mon_pd(cfg, op, o):
    out = []
    common_q("price-discovery", o, out)
    q = main_q(o, view="getCurrentPhase/getCurrentPrice")
    if q is None:
        return out
    ph, pct = q["phase"], q["pct"]
    k = op[0]
    allowed = dict(Deposit=(1, 2), Withdraw=(1, 2, 3), Redeem=(4,))[k]
    gate_msg = dict(Deposit="Deposit not allowed in this phase", Withdraw="Withdraw not allowed in this phase",
                    Redeem="Redeem not allowed in this phase")[k]
    if not q["okph"]:
        out.append(("price-discovery:getCurrentPhase:view-failed", f"{op}: getCurrentPhase failed"))
        return out
    if o["ok"] and ph not in allowed:
        out.append((f"price-discovery:getCurrentPhase:{k.lower()}-gate", f"{op} succeeded although getCurrentPhase reported phase {ph}"))
    if not o["ok"] and o["msg"] == gate_msg and ph in allowed:
        out.append((f"price-discovery:getCurrentPhase:{k.lower()}-gate", f"{op} refused as out of phase although getCurrentPhase reported phase {ph}"))
    if not o["ok"] and ph not in allowed and o["msg"] != gate_msg and "not allowed" in o["msg"]:
        out.append((f"price-discovery:getCurrentPhase:{k.lower()}-gate", f"{op}: unexpected gate message '{o['msg']}' in phase {ph}"))
    if o["ok"] and (o["phase"], o["pct"]) != (ph, pct):
        out.append(("price-discovery:getCurrentPhase:changed-within-block", f"{op}: phase view {ph}/{pct} before, {o['phase']}/{o['pct']} after, same block"))
    prec = 10 ** cfg["dec"]
    if k == "Withdraw" and o["ok"]:
        amt = op[3]
        exp = amt - amt * pct // spd.MAXP
        if o["outs"] != [exp]:
            out.append(("price-discovery:getCurrentPhase:withdraw-penalty",
                        f"{op}: paid {o['outs']}, the penalty {pct} reported by getCurrentPhase gives {exp}"))
        if o["price"] < cfg["minp"]:
            out.append(("price-discovery:getCurrentPrice:withdraw-floor",
                        f"{op} accepted, getCurrentPrice afterwards {o['price']} < minimum {cfg['minp']}"))
    if k == "Deposit" and o["ok"] and op[2] == 1 and o["ab"] > 0 and o["price"] < cfg["minp"]:
        out.append(("price-discovery:getCurrentPrice:deposit-floor",
                    f"{op} accepted, getCurrentPrice afterwards {o['price']} < minimum {cfg['minp']}"))
    if not o["ok"] and o["msg"] == "Launched token below min price" and q["okpr"]:
        # the price the view would report on the balances the operation would have left
        pre = o["pre"]
        lb, ab = pre["lb"], pre["ab"]
        if k == "Deposit":
            lb, ab = (lb + op[3], ab) if op[2] == 1 else (lb, ab + op[3])
        elif k == "Withdraw" and op[2] in (1, 2):
            w = op[3] - op[3] * pct // spd.MAXP
            lb, ab = (lb - w, ab) if op[2] == 1 else (lb, ab - w)
        if lb > 0 and ab * prec // lb >= cfg["minp"]:
            out.append(("price-discovery:getCurrentPrice:floor-rejection",
                        f"{op} refused for the price floor although the post-operation price would be {ab * prec // lb} >= {cfg['minp']}"))
    return out


MONITORS = dict(pair=mon_pair, farm=mon_farm, staking=mon_staking, locking=mon_locking, pd=mon_pd,
                lfarm=lambda cfg, op, o: mon_farm(cfg, op, o, system="farm-with-locked-rewards"))


def monitor(system, cfg, op, o):
    return MONITORS[system](cfg, op, o)


# ====================================================================== non-trivial classes
def nontrivial(system, cfg, op, o):
    qs = o.get("q20", [])
    if not qs:
        return None
    k = op[0]
    if system == "pair":
        pre = o["pre"]
        F = pre["fee"]
        if k == "SwapIn":
            q = main_q(o, kind=0, tok=op[2], amt=op[3])
            if q is None:
                return None
            if not o["ok"]:
                return ("pair", "out", "both-refuse", q["msg"][:18]) if not q["ok"] else None
            ri, ro = (pre["r1"], pre["r2"]) if op[2] == 1 else (pre["r2"], pre["r1"])
            num, den = op[3] * (M - F) * ro, ri * M + op[3] * (M - F)
            return ("pair", "out", op[2], F == 0, pre["fee_on"], num % den != 0, mag(ri), mag(ro), mag(op[3]))
        if k == "SwapOut":
            q = main_q(o, kind=1, tok=op[4], amt=op[5])
            if q is None:
                return None
            if not o["ok"]:
                return ("pair", "in", "both-refuse", q["msg"][:18]) if not q["ok"] else None
            ri, ro = (pre["r1"], pre["r2"]) if op[2] == 1 else (pre["r2"], pre["r1"])
            return ("pair", "in", op[2], F == 0, pre["fee_on"], len(o["outs"]) == 2 and o["outs"][1] > 0, mag(ri), mag(ro), mag(op[5]))
        if k == "Remove" and o["ok"]:
            S = pre["S"]
            return ("pair", "pos", (op[2] * pre["r1"]) % S != 0, (op[2] * pre["r2"]) % S != 0, mag(S), mag(op[2]))
        return None
    if system in ("farm", "staking", "lfarm"):
        if k != "Claim" or not o["ok"]:
            return None
        q = qs[0]
        paid = o["outs"][2]
        if paid == 0:
            return None
        settled = o["blk"] > o["pre"]["last"]
        x = op[2][1]
        inexact = (x * max(0, o["rps"] - q["rps"])) % cfg["dsc"] != 0
        return (system, o["b"] > 0, settled, inexact, mag(paid), mag(x), len(op[3]) > 0 if system != "staking" else False)
    if system == "locking":
        q = qs[0]
        if not o["ok"]:
            return ("locking", k, "both-refuse", q["msg"][:18]) if not q["ok"] else None
        if q["v"] == 0:
            return None
        return ("locking", k, mag(q["amt"]), mag(q["v"]), q["new"] > 0, len(cfg["opts"]), q["prev"] // 360)
    if system == "pd":
        q = qs[0]
        if not o["ok"]:
            if "not allowed" in o["msg"]:
                return ("pd", k, "gate", q["phase"])
            if "below min price" in o["msg"]:
                return ("pd", k, "floor", q["phase"], op[2])
            return None
        if k == "Withdraw":
            amt = op[3]
            return ("pd", k, q["phase"], op[2], q["pct"] > 0, (amt * q["pct"]) % spd.MAXP != 0, cfg["minp"] > 0, mag(amt))
        if k == "Deposit":
            return ("pd", k, q["phase"], op[2], cfg["minp"] > 0, o["ab"] > 0, mag(op[3]))
        return ("pd", k, op[2], mag(op[3]))
    return None


# ====================================================================== exploration
def _gen(args):
    system, seed, nops = args
    cfg, h = sq.gen_history(system, seed, nops)
    return system, seed, cfg, h


def _jsonable_ops(ops):
    return json.loads(json.dumps(ops))


def explore(tier, seed, model_ok=True, focus=False):
    ex = Exploration()
    ex.rule = RULE
    nh, nops = budgets(tier)
    jobs = []
    for si, system in enumerate(sq.SYSTEMS + sq.REAL_ONLY):
        for i in range(nh[system]):
            jobs.append((system, seed * 100000 + si * 10000 + i, nops))
    hist = []
    for c in CORPUS:
        cfg, h = sq.replay_history(c["system"], c["cfg"], c["ops"])
        hist.append((c["system"], ("corpus", c["name"]), cfg, h))
    with concurrent.futures.ProcessPoolExecutor(max_workers=16) as pool:
        for item in pool.map(_gen, jobs, chunksize=2):
            hist.append(item)
    terms = {s: [] for s in sq.SYSTEMS}
    index = {s: [] for s in sq.SYSTEMS}
    if focus:
        model_ok = False
    for system, sd, cfg, h in hist:
        trace = sq.trace_of(system, h)
        ops_all = _jsonable_ops([t[0] for t in trace])
        if isinstance(sd, tuple) and sd[0] == "corpus":
            exp = next((c.get("expect") for c in CORPUS if c["name"] == sd[1]), None)
            if exp:
                lo = trace[-1][1]
                got = dict(view=[q["v"] for q in lo.get("q20", [])], paid=lo["outs"][2] if lo["ok"] else None)
                if not lo["ok"] or got["paid"] != exp["paid"] or any(v != exp["view"] for v in got["view"]) or not got["view"]:
                    ex.failures.append(dict(key=f"corpus:{sd[1]}", what=f"regression history {sd[1]}: views {got['view']}, paid "
                                            f"{got['paid']}; expected view {exp['view']} = paid {exp['paid']}",
                                            replay=dict(system=system, cfg=cfg, ops=ops_all, seed=sd)))
        ex.histories += 1
        ex.count(f"{system}:histories")
        for idx, (op, o) in enumerate(trace):
            if o is None:
                continue
            ex.evaluations += 1
            ex.count(f"{system}:ops")
            ex.count(f"{system}:{'ok' if o['ok'] else 'err'}")
            qs = o.get("q20", [])
            if qs:
                ex.count(f"{system}:quotes", len(qs))
                ex.count(f"{system}:quoted-op:{op[0]}:{'ok' if o['ok'] else 'err'}")
                if all(q["unchanged"] for q in qs):
                    ex.count(f"{system}:digest-unchanged", len(qs))
                if system in ("farm", "staking", "lfarm") and o["ok"] and o.get("b", 0) > 0:
                    ex.count(f"{system}:quoted-claim-with-boosted>0")
                if system in ("farm", "staking", "lfarm") and any(q.get("tx_ok") is False for q in qs):
                    ex.count(f"{system}:view-refused-in-transaction")
                if system == "staking" and o["ok"]:
                    for q in qs:
                        ex.count(f"staking:quote-{q['mode']}")
                        if o.get("b", 0) > 0:
                            ex.count(f"staking:quote-{q['mode']}-with-boosted>0")
                        if q["mode"] == "default" and q["owner"] != op[1]:
                            ex.count("staking:default-quote-on-transferred-position(not compared)")
                            if q["ok"] and q["v"] != o["outs"][2]:
                                ex.count("staking:default-quote-on-transferred-position-differs-from-payout")
                if system == "locking" and qs[0].get("raw") is not None and qs[0]["ok"] and qs[0]["raw"] != qs[0]["v"]:
                    ex.count("locking:quote-with-raw-lock-option-differs")
            k = nontrivial(system, cfg, op, o)
            if k is not None:
                ex.nontrivial.add(k)
            for key, what in monitor(system, cfg, op, o):
                ex.failures.append(dict(key=key, what=what,
                                        replay=dict(system=system, cfg=cfg, ops=ops_all[:idx + 1], seed=sd, observed=strip(o))))
        if system in terms:
            terms[system].append(sq.coq_history(system, cfg, h))
            index[system].append((sd, cfg, trace))
        if len([s for s in ex.samples if s["system"] == system]) < 1:
            ex.samples.append(dict(system=system, seed=sd, cfg=cfg,
                                   ops=[[op, "ok" if o["ok"] else o["msg"], o.get("outs"),
                                         [{k2: v for k2, v in q.items() if k2 in ("view", "ok", "v", "phase", "pct", "price", "unchanged")} for q in o.get("q20", [])]]
                                        for op, o in trace if o is not None][:10]))
    if model_ok:
        def run(system):
            ts = terms[system]
            return system, coqrun.eval_terms(sq.IMPORTS[system], ts, tag="C20" + system, per_file=max(1, min(8, len(ts) // 6 + 1)), jobs=6)
        with concurrent.futures.ThreadPoolExecutor(max_workers=5) as tp:
            results = list(tp.map(run, [s for s in sq.SYSTEMS if terms[s]]))
        for system, res in results:
            ex.traces_validated += len(res)
            for (sd, cfg, trace), r in zip(index[system], res):
                if r:
                    tr = [(op, o) for op, o in trace if o is not None and not (system == "staking" and op[0] == "Transfer")]
                    i = r[0]
                    d = dict(where=f"Run.QuotesRun ({system})", system=system, seed=sd, cfg=cfg, index=i, field=r[1], model=r[2],
                             impl=r[3], ops=_jsonable_ops([t[0] for t in trace]))
                    if 0 <= i < len(tr):
                        d["op"] = tr[i][0]
                        d["observed"] = strip(tr[i][1])
                    ex.disagreements.append(d)
    return ex


def replay(data):
    rp = data["replay"]
    system = rp["system"]
    cfg, h = sq.replay_history(system, rp["cfg"], rp["ops"])
    fails = []
    for op, o in sq.trace_of(system, h):
        if o is None:
            continue
        for key, what in monitor(system, cfg, op, o):
            fails.append(dict(key=key, what=what))
    return fails
