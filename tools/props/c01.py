"""C01 — pair fully backed; LP supply = circulating LP; reserves stay positive."""
from props.pair_common import explore_pair, replay_pair

ASSUMPTIONS = ["A-VM: ESDT ledger semantics of multiversx-chain-vm 0.10.0",
               "LP issuance via the router/system SC is outside the debug VM: LP identifier set directly"]
RULE = ("stateful mostly-valid generator over add/remove/swaps/no-fee swaps/buy-back/admin/LP transfers/donations "
        "(tools/sys_pair.py), fee configs drawn per history; non-trivial = successful pool operation with fee "
        "handling active or reserves < 2000 or LP held by >= 2 users; distinct by (op kind, fee config class, magnitude class)")


def monitor(cfg, op, o):
    out = []
    if o["b1"] < o["r1"]:
        out.append(("balance-below-reserve:first", f"pair holds {o['b1']} of first token but reports reserve {o['r1']} after {op}"))
    if o["b2"] < o["r2"]:
        out.append(("balance-below-reserve:second", f"pair holds {o['b2']} of second token but reports reserve {o['r2']} after {op}"))
    held = sum(o["lp"].values()) + o["lp_other"]
    if held != o["S"]:
        out.append(("lp-supply-mismatch", f"LP supply {o['S']} but accounts hold {held} after {op}"))
    if o["S"] > 0:
        if o["r1"] <= 0 or o["r2"] <= 0:
            out.append(("reserve-not-positive", f"reserves ({o['r1']},{o['r2']}) with LP supply {o['S']} after {op}"))
        if o["lp"][0] < 1000:
            out.append(("locked-liquidity-missing", f"pair holds only {o['lp'][0]} LP after {op}"))
    return out


def nontrivial(cfg, op, o):
    if not o["ok"] or op[0] not in ("Add", "AddInitial", "Remove", "SwapIn", "SwapOut", "SwapNoFee", "RemoveBuyBack"):
        return None
    small = min(o["r1"], o["r2"]) < 2000
    holders = sum(1 for a, v in o["lp"].items() if v > 0 and a != 0)
    feeact = any(o["burn"].values()) or any(o["dcoll"].values()) or any(o["dp2"].values())
    if not (small or holders >= 2 or feeact):
        return None
    return (op[0], small, holders >= 2, feeact, len(str(o["r1"])) // 4, len(str(o["r2"])) // 4)


def explore(tier, seed, model_ok=True, focus=False):
    return explore_pair("C01", tier, seed, monitor, nontrivial, RULE, model_ok, focus)


def replay(data):
    return replay_pair(data, monitor)
