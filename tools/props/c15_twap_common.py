"""C15, clause "the staked value it registers is the pool's safe price of the position, not the spot price" against an
INDEPENDENT reference (tools/sys_metastaking_twap.py; Coq side Run/MetaTwapRun.v).

tools/props/c15.py compares the value the staking farm registers with what the REAL pair's safe-price view
answers at the same block; a pair that answers something that is not the documented safe price satisfies that
monitor.  Here the reference is the world's own ledger of the pair's start-of-round reserves and LP supply
(read from getReservesAndTotalSupply before the first pair action of every round / when the round advances)
and the documented time-weighted average over the window farm-staking-proxy's query uses
(updateAndGetTokensForGivenPositionWithSafePrice = default offset: the last min(600, rounds since the oldest
recording round) rounds), computed by the C13 oracle (sys_safeprice.Shadow prefix sums + props.c13.window_expect).

Monitors on REAL observations (keys):
  staked-value-not-twap     a successful stakeFarmTokens made the staking farm's token supply grow by something
                            else than the staking-token side of floor(liq * avg(reserve) / avg(LP supply)) for the
                            LP amount liq of the LP-farm position paid in (or no documented window exists)
  claim-value-not-twap      a successful claimDualYield moved the supply by something else than that value of the
                            redeemed part's LP amount minus the redeemed amount
  + every monitor of tools/props/c15.py on every operation of this world.
Coq: law L7 (premise of Props/C15.v C15_safe_twap) evaluated by Run/MetaTwapRun.check_twap on the ledger and
compared with every registered value (a difference is a correspondence mismatch, field 50 / 51)."""
import concurrent.futures
import sys_metastaking_twap as mt
import coqrun
from framework import Exploration
from props import c15

RULE = ("metastaking histories of tools/props/c15.py (3 users: stake with merged tokens / claim / unstake / transfer / malformed) in a "
        "pool traded by third parties with every reserve-changing endpoint: swapTokensFixedInput, swapTokensFixedOutput (amount out "
        "from 1 unit to half the reserve), addLiquidity / removeLiquidity by the pool owner, the users' own addLiquidity, the proxy's "
        "removeLiquidity; ~40 % of the rounds are opened by a third-party action (half of them a fixed-output swap), several pair "
        "actions per round, quiet gaps of 1..1000 rounds (1, 2, 3, 5, 10, 37, 100, 300, 599, 600, 601, 750, 1000). non-trivial = "
        "successful stake / claim whose documented safe price differs from the spot price; distinct by (endpoint, kind of the first "
        "pair action of the round or none yet (extrapolation), window shorter than / equal to the default offset, window start on a "
        "recording round or between two (interpolation), inexactness of the three averaging divisions and of the final division, "
        "staking token first / second, magnitude)")
KEYS = ("staked-value-not-twap", "claim-value-not-twap")


def budgets(tier):
    return (16, 40) if tier == "quick" else (400, 60)


def twap_monitor(cfg, op, o):
    out = []
    k = op[0]
    if k not in ("Stake", "Claim") or not o["ok"]:
        return out
    m = o["meas"]
    tw = m.get("tw")
    if tw is None:
        return out
    liq = m["liq"]
    if k == "Stake":
        got, base, key = m["dreg"], 0, "staked-value-not-twap"
    else:
        base = op[2][0][2]
        got, key = m["dreg"] + base, "claim-value-not-twap"
    if tw["exp"] is None:
        out.append((key, f"{op}: registered {got} for {liq} LP at round {o['rnd']} although no documented safe-price window exists "
                         f"({tw['why']}; oldest recording round {tw['oldest']})"))
        return out
    if got != tw["stk"]:
        s, e = tw["win"]
        n = e - s
        out.append((key, f"{op}: staking farm registered {got}" + (f" (supply moved by {m['dreg']}, redeemed {base})" if k == "Claim" else "") +
                         f" for {liq} LP at round {e}; averages of the start-of-round reserves / LP supply over ({s}, {e}] are "
                         f"{[x // n for x in tw['sums']]} giving {tw['exp']} (staking side {tw['stk']}); spot {m['spot']}; pair's own answer "
                         f"{m['safe']}; first pair action of the round: {tw['opener']}"))
    return out


def monitor(cfg, op, o):
    return c15.monitor(cfg, op, o) + twap_monitor(cfg, op, o)


def safe_monitor(cfg, op, o):
    try:
        return monitor(cfg, op, o)
    except Exception as e:  # an unevaluable observation is a failure, not a crash of the check
        import traceback
        return [(f"monitor-cannot-evaluate:{op[0]}", f"{op}: {type(e).__name__}: {e} | " + traceback.format_exc().splitlines()[-3].strip())]


def tw_class(cfg, op, o, rec_rounds=None):
    """class key of a successful stake / claim with a documented window, None otherwise"""
    if op[0] not in ("Stake", "Claim") or not o["ok"] or not o.get("meas") or not o["meas"].get("tw"):
        return None
    tw = o["meas"]["tw"]
    if tw["exp"] is None:
        return None
    s, e = tw["win"]
    n = e - s
    inexact = tuple(int(x % n != 0) for x in tw["sums"])
    w1, w2, wl = (x // n for x in tw["sums"])
    liq = o["meas"]["liq"]
    fin = (int((liq * w1) % wl != 0), int((liq * w2) % wl != 0))
    return (op[0], tw["opener"] or "none-yet", n == mt.DOC_OFFSET, tw.get("start_cls"), inexact, fin, bool(cfg["stk_first"]),
            c15.mag(liq))


def nontrivial(cfg, op, o):
    k = tw_class(cfg, op, o)
    if k is None:
        return None
    m = o["meas"]
    return k if m["tw"]["four"] != m["spot"] else None


def strip(o):
    return {k: v for k, v in o.items() if k not in ("pre",)}


def _gen(args):
    seed, nops, focus = args
    return (seed,) + tuple(mt.gen_history(seed, nops, focus))


def explore_twap(pid, tier, seed, model_ok=True, focus=False, scale=None):
    """scale: (histories, operations per history) overriding the tier's budget"""
    ex = Exploration()
    ex.rule = RULE
    nh, nops = scale or budgets(tier)
    seeds = [seed * 100000 + 80000 + i for i in range(nh)]
    hist = []
    with concurrent.futures.ProcessPoolExecutor(max_workers=16) as pool:
        for sd, cfg, trace, info in pool.map(_gen, [(s, nops, focus) for s in seeds], chunksize=1):
            hist.append((sd, cfg, trace, info))
    terms = []
    for sd, cfg, trace, info in hist:
        ex.histories += 1
        ex.count("twap:env-ops", sum(1 for _, o in trace if o is None))
        ex.count("twap:ledger entries (recording rounds)", info["calls"])
        ex.count("twap:skipped quantity-0 (A-NFT0)", info["skipped"])
        for k, v in info["stat"].items():
            ex.count("twap:" + k, v)
        for idx, (op, o) in enumerate(trace):
            if o is None:
                continue
            ex.evaluations += 1
            ex.count(f"twap:{op[0]}:" + ("ok" if o["ok"] else "err"))
            ex.count("twap:ops:ok" if o["ok"] else "twap:ops:err")
            tw = o["meas"].get("tw") if o.get("meas") else None
            if tw is not None and o["ok"]:
                m = o["meas"]
                kk = op[0]
                ex.count(f"twap:{kk} valued by the oracle")
                if tw["exp"] is not None:
                    if tw["four"] != m["spot"]:
                        ex.count(f"twap:{kk}: oracle != spot")
                    if tw["stk"] != c15.stk_side(m["spot"]):
                        ex.count(f"twap:{kk}: oracle staking side != spot staking side")
                    if tw["four"] != m["safe"]:
                        ex.count(f"twap:{kk}: oracle != pair's own safe-price answer")
                    ex.count(f"twap:{kk}: round opened by {tw['opener'] or 'nothing yet (extrapolation)'}")
                    if tw["opener"] == "SwapOut":
                        ex.count("twap:valued in a round opened by a fixed-output swap")
                    if tw["win"][1] - tw["win"][0] == mt.DOC_OFFSET:
                        ex.count(f"twap:{kk}: full default window")
                    if tw["acts"] > 1:
                        ex.count(f"twap:{kk}: after several pair actions in the round")
                else:
                    ex.count(f"twap:{kk}: no documented window ({tw['why']})")
            nk = nontrivial(cfg, op, o)
            if nk is not None:
                ex.nontrivial.add(nk)
            for key, what in safe_monitor(cfg, op, o):
                ex.failures.append(dict(key=key, what=what, replay=dict(system="meta_twap", cfg=cfg, ops=[t[0] for t in trace[:idx + 1]],
                                                                          seed=sd, observed=strip(o))))
        terms.append(mt.coq_items(info["items"]))
        if len(ex.samples) < 2:
            ex.samples.append(dict(system="meta_twap", seed=sd, cfg=cfg,
                                   ops=[[op, "env" if o is None else ("ok" if o["ok"] else o["msg"]),
                                         None if o is None or not o.get("meas") or not o["meas"].get("tw") else
                                         dict(window=o["meas"]["tw"]["win"], oracle=o["meas"]["tw"]["exp"], spot=o["meas"]["spot"],
                                              registered=o["meas"]["tw"].get("reg"))] for op, o in trace[:16]]))
    ex.notes.append("meta_twap: the reference safe price is computed from the world's own ledger of start-of-round reserves / LP supply "
                    "(views read before the first pair action of each round) with the C13 oracle; the pair's safe-price answer is not used")
    if model_ok:
        try:
            res = coqrun.eval_terms(mt.IMPORTS, terms, tag=f"{pid}tw", per_file=max(1, min(8, len(terms) // 16 + 1)))
        except Exception as e:
            ex.disagreements.append(dict(where="Run.MetaTwapRun.check_twap", detail=f"evaluation failed: {str(e)[-1500:]}"))
            res = []
        ex.traces_validated += len(res)
        ex.count("twap:traces replayed on Model/SafePrice (law L7)", len(res))
        for (sd, cfg, trace, info), r in zip(hist, res):
            ex.count("twap:registered values compared with the model", sum(1 for it in info["items"] if it[0] == "TQ"))
            if r:
                i = r[0]
                hit = [(j, op, o) for j, (op, o) in enumerate(trace)
                       if o is not None and o.get("meas") and o["meas"].get("tw") and o["meas"]["tw"].get("item") == i]
                if len(r) != 4 or not hit:
                    ex.disagreements.append(dict(where="Run.MetaTwapRun.check_twap", system="meta_twap", seed=sd, cfg=cfg,
                                                 detail=f"mismatch vector without a valid item index: {r}"))
                    continue
                j, op, o = hit[0]
                ex.disagreements.append(dict(where="Run.MetaTwapRun.check_twap", system="meta_twap", seed=sd, cfg=cfg, index=i, field=r[1],
                                             model=r[2], impl=r[3], op=op, observed=strip(o), ops=[t[0] for t in trace[:j + 1]]))
    return ex


def replay_twap(data):
    rp = data["replay"]
    trace = mt.replay_history(rp["cfg"], rp["ops"])
    fails = []
    for op, o in trace:
        if o is None:
            continue
        for key, what in safe_monitor(rp["cfg"], op, o):
            fails.append(dict(key=key, what=what))
    return fails


def merge(ex, ex2):
    ex.evaluations += ex2.evaluations
    ex.histories += ex2.histories
    ex.nontrivial |= ex2.nontrivial
    ex.failures += ex2.failures
    ex.disagreements += ex2.disagreements
    ex.traces_validated += ex2.traces_validated
    ex.samples += ex2.samples[:1]
    ex.notes += ex2.notes
    for k, v in ex2.counters.items():
        ex.counters[k] = ex.counters.get(k, 0) + v
    return ex
