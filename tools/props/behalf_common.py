"""On-behalf endpoints of dex/farm, farm-with-locked-rewards and farm-staking (C07 owner totals with positions HELD by an
agent; C19 "acting on behalf requires the user's explicit, non-blacklisted authorisation ... rewards claimed on behalf go
to the position owner"): exploration driver and monitors evaluated on REAL observations (tools/sys_behalf.py; Coq side
Model/FarmBehalf.v, Model/StakingBehalf.v, Run/BehalfRun.v).

Monitors (keys are stable identifiers of the failing clause):
  behalf-owner-total                      C07: userTotalFarmPosition(v) = sum of held amounts whose recorded owner is v (any holder)
  behalf-unauthorised-accepted:<ep>       an on-behalf call succeeded although the hub does not list the caller for the user / blacklists it
  behalf-foreign-owner-accepted:<ep>@i    ... although payment i records another owner (or none)
  behalf-reward-not-to-owner:<ep>         the user's reward-token (LOCKED, in the locked farm) balance did not grow by the reported reward
  behalf-reward-to-agent:<ep>             the caller's reward-token / LOCKED balance moved although it is not the user
  behalf-third-party-balance:<ep>         a balance of somebody else moved
  behalf-farming-payment:<ep>             the caller did not pay exactly the farming tokens it sent (or received some)
  behalf-position-to-agent:<ep>           the new position is not held by the caller with the reported amount
  behalf-position-owner:<ep>              the new position does not record the user as original owner
  behalf-position-amount:<ep>             new amount != farming amount + position payments
  behalf-user-total:<ep>                  the user's total did not move as if the user had acted / another total moved
  behalf-failed-state-changed:<ep>        a failed on-behalf (or hub) call changed an observable
  hub-view-vs-storage                     isWhitelisted(user, agent) differs from (agent in the user's stored list and not in the stored blacklist)
  farming-tokens-without-exit             an account's farming-token balance grew in an operation that is not its own exitFarm
"""
import concurrent.futures
import sys_behalf as sb
import coqrun
from framework import Exploration

ACCTS = sb.ACCTS
HOSTS = ("farm", "locked", "staking")
RULE = ("per host (dex/farm, farm-with-locked-rewards, farm-staking; real permissions-hub, 3 users, 4 agents: authorised by one user, "
        "by several, later revoked, blacklisted): the host's own mostly-valid generator over 7 accounts mixed 50/50 with hub operations "
        "(whitelist/removeWhitelist by users, blacklist/removeBlacklist by the hub owner and by others), transfers of positions to agents, "
        "enter/stake-on-behalf and claim-on-behalf with 0-3 additional positions; malformed share: unauthorised / revoked / blacklisted "
        "caller, a position of another owner at every payment index; non-trivial = on-behalf call by (authorised?, #payments, foreign "
        "index, reward > 0, boosted > 0) or an ordinary operation by a holder that is not the recorded owner")


def endpoint(host, k):
    if k == "EnterOB":
        return "stakeFarmOnBehalf" if host == "staking" else "enterFarmOnBehalf"
    return "claimRewardsOnBehalf"


def owner_of(host, attrs, n):
    a = attrs.get(n)
    if not a:
        return None
    return a[3] if host == "staking" else a[4]


def held_items(host, o):
    """[(nonce, holder, amount)]"""
    if host == "staking":
        return [(n, h, v) for (n, h), v in o["held"].items()]
    return [(key // 1000, key % 1000, v) for key, v in o["held"].items()]


def pays_of(op):
    if op[0] == "EnterOB":
        return list(op[4])
    if op[0] == "ClaimOB":
        return [op[2]] + list(op[3])
    return []


def owner_totals(host, op, o):
    out = []
    attrs = o["attrs"]
    sums = {}
    for n, h, v in held_items(host, o):
        if v:
            ow = owner_of(host, attrs, n)
            sums[ow] = sums.get(ow, 0) + v
    for v, t in o["utot"].items():
        if sums.get(v, 0) != t:
            out.append(("behalf-owner-total", f"after {op}: account {v} total farm position {t} != sum of outstanding positions recorded as its own {sums.get(v, 0)}"))
    return out


STATE_KEYS = {"farm": ("supply", "reserve", "rps", "pool", "utot", "held", "acct", "wl", "listed", "black"),
              "locked": ("supply", "reserve", "rps", "pool", "utot", "held", "acct", "wl", "listed", "black"),
              "staking": ("supply", "reserve", "rps", "pool", "utot", "held", "ubheld", "acct", "wl", "listed", "black", "cap", "acc")}


def _nz(v):
    return {k: x for k, x in v.items() if x} if isinstance(v, dict) and all(isinstance(x, int) for x in v.values()) else v


def monitor(host, cfg, op, o):
    out = owner_totals(host, op, o)
    pre = o["pre"]
    k = op[0]
    same = host == "staking" or bool(cfg.get("same"))
    d = {x: tuple(o["acct"][x][i] - pre["acct"][x][i] for i in range(3)) for x in ACCTS}
    # (4) history level: farming tokens reach an account only through its own exit
    if not same:
        for x in ACCTS:
            if d[x][1] > 0 and not (k == "Exit" and op[1] == x and o["ok"]):
                out.append(("farming-tokens-without-exit", f"{op}: farming-token balance of account {x} grew by {d[x][1]}"))
    # the hub's answer is its stored state: listed by the user and not blacklisted
    for (uu, aa), v in o["wl"].items():
        if v != (o["listed"][(uu, aa)] and not o["black"][aa]):
            out.append(("hub-view-vs-storage", f"after {op}: isWhitelisted({uu}, {aa}) = {v}, stored: listed {o['listed'][(uu, aa)]}, blacklisted {o['black'][aa]}"))
            break
    if k == "Hub" and not o["ok"]:
        for key in STATE_KEYS[host]:
            if _nz(o[key]) != _nz(pre[key]):
                out.append(("behalf-failed-state-changed:hub", f"failed {op} changed {key}"))
    if k not in ("EnterOB", "ClaimOB"):
        return out
    ep = endpoint(host, k)
    a = op[1]
    pays = pays_of(op)
    owners = [owner_of(host, pre["attrs"], n) for n, _ in pays]
    if k == "EnterOB":
        u, amt = op[2], op[3]
    else:
        u, amt = owners[0], 0
    # authorisation as STORED in the hub before the call (not the answer of the hub's own isWhitelisted code)
    authorised = u is not None and u != a and pre["listed"].get((u, a), False) and not pre["black"].get(a, False)
    first_index = 1 if k == "EnterOB" else 0
    foreign = [i + first_index for i, ow in enumerate(owners) if ow != u or ow in (None, 0, -1)]
    if not o["ok"]:
        for key in STATE_KEYS[host]:
            if _nz(o[key]) != _nz(pre[key]):
                out.append((f"behalf-failed-state-changed:{ep}", f"failed {op} ({o['msg']}) changed {key}: {_nz(pre[key])} -> {_nz(o[key])}"))
        return out
    # ---- the call succeeded
    if u is not None and u != a and not authorised:
        why = "blacklisted" if pre["black"].get(a) else "not listed by the user"
        out.append((f"behalf-unauthorised-accepted:{ep}", f"{op}: succeeded although caller {a} is {why} in the hub's storage (user {u})"))
    for i in foreign:
        out.append((f"behalf-foreign-owner-accepted:{ep}@{i}", f"{op}: succeeded although payment {i} records owner {owners[i - first_index]}, not user {u}"))
    n, x, reward = o["outs"][0], o["outs"][1], o["outs"][2]
    ri = 2 if host == "locked" else 0                 # where rewards arrive: LOCKED tokens in the locked farm
    if u is not None and u != a:
        exp_u = [0, 0, 0]
        exp_a = [0, 0, 0]
        exp_u[ri] += reward
        if host == "staking":
            exp_a[0] -= amt
            exp_a[1] -= amt
            exp_u[1] += reward
        else:
            exp_a[1] -= amt
            if same:
                exp_a[0] -= amt
                if host == "farm":
                    exp_u[1] += reward
        if d[u][ri] != exp_u[ri]:
            out.append((f"behalf-reward-not-to-owner:{ep}", f"{op}: reported reward {reward}, user {u}'s reward balance moved by {d[u][ri]} (all deltas {d[u]})"))
        if d[a][ri] != exp_a[ri] or (host == "locked" and not same and d[a][0] != 0):
            out.append((f"behalf-reward-to-agent:{ep}", f"{op}: caller {a}'s reward balance moved by {d[a][ri]} (all deltas {d[a]}, expected {tuple(exp_a)}); reported reward {reward}"))
        if d[a][1] != exp_a[1]:
            out.append((f"behalf-farming-payment:{ep}", f"{op}: caller {a}'s farming-token balance moved by {d[a][1]}, expected {exp_a[1]}"))
        if tuple(d[u]) != tuple(exp_u):
            out.append((f"behalf-reward-not-to-owner:{ep}", f"{op}: user {u}'s balances moved by {d[u]}, expected {tuple(exp_u)}"))
        for y in ACCTS:
            if y not in (u, a) and any(d[y]):
                out.append((f"behalf-third-party-balance:{ep}", f"{op}: balances of account {y} moved by {d[y]}"))
    # the new position: held by the caller, recorded owner = the user, amount = everything paid in
    got = {(nn, h): v for nn, h, v in held_items(host, o)}
    if got.get((n, a), 0) != x:
        out.append((f"behalf-position-to-agent:{ep}", f"{op}: new position {n} amount {x}; the caller {a} holds {got.get((n, a), 0)} of it"))
    now = owner_of(host, o["attrs"], n)
    if now != u:
        out.append((f"behalf-position-owner:{ep}", f"{op}: new position {n} records original owner {now}, the user is {u}"))
    if x != amt + sum(v for _, v in pays):
        out.append((f"behalf-position-amount:{ep}", f"{op}: new position amount {x} != {amt} + {sum(v for _, v in pays)}"))
    # user totals: as if the user had acted (all paid positions are the user's: only the new principal is added)
    if not foreign and u is not None:
        for v, t in o["utot"].items():
            exp = pre["utot"].get(v, 0) + (amt if v == u else 0)
            if t != exp:
                out.append((f"behalf-user-total:{ep}", f"{op}: total farm position of account {v} {pre['utot'].get(v, 0)} -> {t}, expected {exp}"))
    return out


def nontrivial(host, cfg, op, o):
    k = op[0]
    pre = o["pre"]
    if k in ("EnterOB", "ClaimOB"):
        pays = pays_of(op)
        owners = [owner_of(host, pre["attrs"], n) for n, _ in pays]
        u = op[2] if k == "EnterOB" else (owners[0] if owners else None)
        a = op[1]
        listed = bool(u is not None and pre["listed"].get((u, a), False))
        black = bool(pre["black"].get(a, False))
        authorised = listed and not black
        first_index = 1 if k == "EnterOB" else 0
        foreign = tuple(i + first_index for i, ow in enumerate(owners) if ow != u)
        reward = o["outs"][2] if o["ok"] else 0
        return (host, k, o["ok"], authorised, len(pays), foreign, reward > 0, o.get("b", 0) > 0, a in sb.AGENTS, listed, black)
    if k == "Hub":
        return (host, "Hub", op[1], o["ok"])
    if not o["ok"]:
        return None
    # an ordinary operation by a holder that is not the recorded owner (e.g. the agent itself claims / exits a user's position)
    ps = []
    if k in ("Enter",):
        ps = op[3]
    elif k in ("Claim", "Compound") and host != "staking":
        ps = [op[2]] + list(op[3])
    elif k == "Exit":
        ps = [op[2]]
    elif k == "Merge":
        ps = op[2]
    elif host == "staking" and k in ("Claim", "Unstake"):
        ps = [op[3]]
    elif host == "staking" and k == "Stake":
        ps = op[4]
    elif host == "staking" and k == "Compound":
        ps = [op[2]] + list(op[3])
    c = op[1]
    if any(owner_of(host, pre["attrs"], n) not in (None, c) for n, _ in ps):
        return (host, k, "foreign-holder", c in sb.AGENTS, len(ps))
    return None


# ------------------------------------------------------------------ exploration
def _gen(args):
    host, seed, nops = args
    return (host, seed) + tuple(sb.gen_history(host, seed, nops))


def strip(o):
    return {k: v for k, v in o.items() if k not in ("pre", "attrs", "held", "pos", "ub", "ubheld", "ubattrs", "pre_energy", "energy", "wl", "listed", "black")}


def budgets(tier):
    return (16, 40) if tier == "quick" else (300, 60)


def explore_behalf(pid, tier, seed, model_ok=True, focus=False, hosts=HOSTS, nh=None, nops=None, keys=None):
    """keys: restrict the reported monitor failures to keys accepted by this predicate (C07 merges only the
    owner-total clause, C19 the authorisation / reward clauses); None = all"""
    ex = Exploration()
    ex.rule = RULE
    bh, bo = budgets(tier)
    nh = bh if nh is None else nh
    nops = bo if nops is None else nops
    jobs = [(h, seed * 100000 + 90000 + 1000 * HOSTS.index(h) + i, nops) for h in hosts for i in range(nh)]
    hist = []
    with concurrent.futures.ProcessPoolExecutor(max_workers=16) as pool:
        for host, sd, cfg, trace in pool.map(_gen, jobs, chunksize=2):
            hist.append((host, sd, cfg, trace))
    terms = {h: [] for h in hosts}
    index = {h: [] for h in hosts}
    for hi, (host, sd, cfg, trace) in enumerate(hist):
        tr = [(op, o) for op, o in trace if o is not None]
        ever = set(tuple(p) for p in cfg["hub"]["wl"])        # pairs that were listed at some point of this history
        ex.histories += 1
        ex.evaluations += len(tr)
        ops_all = [t[0] for t in trace]
        for idx, (op, o) in enumerate(trace):
            if o is None:
                ex.count(f"{host}:{op[0]}:env")
                continue
            k = op[0]
            ex.count(f"{host}:{k}" + (":ok" if o["ok"] else ":err"))
            ex.count(f"{host}:ops:ok" if o["ok"] else f"{host}:ops:err")
            if not o["ok"]:
                ex.count(f"{host}-err:" + o["msg"][:44])
            if k in ("EnterOB", "ClaimOB"):
                nk = nontrivial(host, cfg, op, o)
                tag = ("ok" if o["ok"] else "err") + (":authorised" if nk[3] else ":unauthorised") + (":foreign@" + ",".join(map(str, nk[5])) if nk[5] else "")
                ex.count(f"{host}:{k}:{tag}")
                if not nk[3]:
                    u_ = op[2] if k == "EnterOB" else owner_of(host, o["pre"]["attrs"], pays_of(op)[0][0])
                    why = "blacklisted" if (nk[9] and nk[10]) else ("revoked" if (u_, op[1]) in ever else "never-listed")
                    ex.count(f"{host}:{k}:caller-{why}:" + ("ok" if o["ok"] else "err"))
                if o["ok"] and o["outs"][2] > 0:
                    ex.count(f"{host}:{k}:reward>0")
                if o["ok"] and o.get("b", 0) > 0:
                    ex.count(f"{host}:{k}:boosted>0")
                if o["ok"] and len(pays_of(op)) - (0 if k == "EnterOB" else 1) > 0:
                    ex.count(f"{host}:{k}:with-additional-positions")
            if k == "Hub" and o["ok"] and op[1] == "whitelist":
                ever.add((op[2], op[3]))
            nk = nontrivial(host, cfg, op, o)
            if nk is not None:
                ex.nontrivial.add(nk)
            try:
                fails = monitor(host, cfg, op, o)
            except Exception as e:      # an unevaluable observation is a failure, not a crash of the check
                fails = [("behalf-monitor-crash", f"{op}: {type(e).__name__}: {e}")]
            for key, what in fails:
                if keys is not None and not keys(key):
                    continue
                ex.failures.append(dict(key=key, what=what, replay=dict(system="behalf", host=host, cfg=cfg, ops=ops_all[:idx + 1], seed=sd,
                                                                        observed=strip(o))))
        terms[host].append(sb.coq_history(host, cfg, tr))
        index[host].append(hi)
        if len(ex.samples) < 3 and host == hosts[len(ex.samples) % len(hosts)]:
            ex.samples.append(dict(system="behalf", host=host, seed=sd, cfg=cfg, ops=[[op, "ok" if o["ok"] else o["msg"], o["outs"]] for op, o in tr[:14]]))
    if model_ok:
        for host in hosts:
            if not terms[host]:
                continue
            try:
                res = coqrun.eval_terms(sb.IMPORTS[host], terms[host], tag=f"{pid}ob{host[0]}", per_file=max(1, min(8, len(terms[host]) // 16 + 1)))
            except Exception as e:
                ex.disagreements.append(dict(where="Run.BehalfRun", host=host, detail=f"evaluation failed: {str(e)[-1500:]}"))
                continue
            ex.traces_validated += len(res)
            for hi, r in zip(index[host], res):
                if r:
                    _, sd, cfg, trace = hist[hi]
                    tr = [(op, o) for op, o in trace if o is not None]
                    i = r[0]
                    ex.disagreements.append(dict(where="Run.BehalfRun." + dict(farm="F.bcheck_trace", locked="F.lbcheck_trace", staking="S.check_trace")[host],
                                                 system="behalf", host=host, seed=sd, cfg=cfg, index=i, field=r[1], model=r[2], impl=r[3],
                                                 op=tr[i][0], observed=strip(tr[i][1]), ops=[t[0] for t in trace]))
    return ex


def replay_behalf(data, keys=None):
    rp = data["replay"]
    host = rp["host"]
    trace = sb.replay_history(host, rp["cfg"], rp["ops"])
    fails = []
    for op, o in trace:
        if o is None:
            continue
        for key, what in monitor(host, rp["cfg"], op, o):
            if keys is None or keys(key):
                fails.append(dict(key=key, what=what))
    return fails


def keys_c07(key):
    return key in ("behalf-owner-total", "behalf-monitor-crash") or key.startswith(("behalf-user-total", "behalf-position-owner", "behalf-position-amount"))


def keys_c19(key):
    return not key.startswith(("behalf-owner-total", "behalf-position-amount"))


def merge(ex, ex2):
    ex.evaluations += ex2.evaluations
    ex.histories += ex2.histories
    ex.nontrivial |= ex2.nontrivial
    ex.failures += ex2.failures
    ex.disagreements += ex2.disagreements
    ex.traces_validated += ex2.traces_validated
    ex.samples += ex2.samples[:1]
    for k, v in ex2.counters.items():
        ex.counters[k] = ex.counters.get(k, 0) + v
    return ex
