"""C10 — weekly fees: claimers get their energy share once, never more than collected.

Monitors evaluate the property text on the REAL observations of the fees-collector (claim payments,
views getTotalRewardsForWeek / getTotalEnergyForWeek / getCurrentClaimProgress / getAccumulatedFees /
getLastGlobalUpdateWeek, ESDT balances); the model is only used by the correspondence run.
"""
import concurrent.futures
import sys_feescollector as sf
import coqrun
from framework import Exploration

ASSUMPTIONS = ["A-VM", "A-U64",
               "A-LOCKER: the locking contract for locked-token rewards is configured and whitelists the collector "
               "(as in the repository's own test set-up); locked-token rewards are minted by it, not held by the collector",
               "A-ENERGY-SOURCE: user energy is whatever the energy factory's userEnergy storage holds "
               "(energy-factory-mock sets arbitrary entries, including negative amounts and zero tokens)"]
RULE = ("stateful mostly-valid generator over 4 users, 2 depositors, a claim proxy and the owner across many weeks "
        "(epoch jumps 1..70, EPOCHS_IN_WEEK=7): energy set to long locks / locks expiring within the claim window / exact "
        "multiples of a week of decay / below one epoch of decay / tokens without energy / energy without tokens / negative "
        "amounts; deposits of up to 3 fungible tokens and the locked token (log-uniform 1..1e27, tiny amounts, 0); users "
        "skipping more than 4 weeks, first appearing mid-history, expiring between claims; claims directly, via "
        "claimBoostedRewards and via a whitelisted proxy; pause, known-token/contract changes, locked tokens per block; "
        "a share of unauthorised / malformed / paused calls.  non-trivial = successful claim that pays a positive amount "
        "for at least one (week, token); distinct by (weeks paid, weeks skipped beyond the window, tokens paid, locked "
        "token involved, inexact division, energy expired inside the window, sharers in the week, magnitude classes)")
IMPORTS = "Base.Prelude Gen.Params Model.Weekly Model.FeesCollector Run.FeesCollectorRun"
EXPECTED_CLAIM_ERRORS = ("Cannot claim while paused", "Item not whitelisted", "Cannot claim rewards for this address")


def budgets(tier):
    return (60, 46) if tier == "quick" else (1600, 60)


def strip(o):
    return {k: v for k, v in o.items() if k not in ("pre",)}


def per_token(pairs):
    d = {}
    for t, a in pairs:
        d[t] = d.get(t, 0) + a
    return d


def monitor(cfg, op, o):
    out = []
    pre = o["pre"]
    k = op[0]
    cw = o["week"]
    # ---- a failed transaction changes nothing
    if not o["ok"]:
        if o.get("unchanged") is False:
            out.append(("failed-tx-changed-state", f"{op} failed but the collector's storage/balances changed"))
        if k == "Claim" and not any(o["msg"].startswith(m) for m in EXPECTED_CLAIM_ERRORS):
            # a well-formed claim must always be payable ("the collector always holds enough to pay")
            out.append(("claim-aborted", f"{op} at week {cw} aborted: {o['msg']!r}"))
        return out

    # ---- the denominator: total energy of the last globally updated week = sum of recorded energies decayed to it
    lw = o["last"]
    if lw != 0 and lw in o["energy"]:
        s = sum(sf.decayed(p, lw) for p in o["prog"].values() if p is not None)
        if any(p is not None and p[3] > lw for p in o["prog"].values()):
            out.append(("progress-ahead-of-global-week", f"after {op}: a claim progress is ahead of lastGlobalUpdateWeek {lw}: {o['prog']}"))
        elif o["energy"][lw] != s:
            out.append(("total-energy-vs-sum", f"after {op}: getTotalEnergyForWeek({lw}) = {o['energy'][lw]} but the recorded "
                                               f"energies of all participants decayed to week {lw} add up to {s} ({o['prog']})"))
    # ---- completed weeks are frozen: total energy and (once set) total rewards never change while claimable
    for w, e in pre["energy"].items():
        if w < cw and w in o["energy"] and w >= cw - sf.MAX_CLAIM_WEEKS and o["energy"][w] != e:
            out.append(("past-week-energy-changed", f"{op}: getTotalEnergyForWeek({w}) changed {e} -> {o['energy'][w]} after the week was over"))
    for w, r in pre["rewards"].items():
        if r and w in o["rewards"] and w >= cw - sf.MAX_CLAIM_WEEKS and o["rewards"][w] != r:
            out.append(("total-rewards-changed", f"{op}: getTotalRewardsForWeek({w}) changed {r} -> {o['rewards'][w]}"))
    for w, r in o["rewards"].items():
        if r and w in pre["rewards"] and not pre["rewards"][w]:
            # first set: exactly the week's accumulated deposits of the known tokens, which are thereby consumed
            exp = [[t, pre_acc_for(op, o, pre, w, t)] for t in pre["tokens_known"]]
            exp = [[t, a] for t, a in exp if a > 0]
            if r != exp:
                out.append(("total-rewards-vs-deposits", f"{op}: getTotalRewardsForWeek({w}) set to {r}, accumulated fees of the week were {exp}"))
            if w >= cw:
                out.append(("rewards-frozen-before-week-end", f"{op}: total rewards of week {w} fixed during week {cw}"))
            for t, a in r:
                if o["acc"].get(w, {}).get(t, 0) != 0:
                    out.append(("accumulated-not-consumed", f"{op}: accumulated fees ({w},{t}) still {o['acc'][w][t]} after being moved to the week's total"))

    if k == "Deposit":
        _, c, tok, nonce, amt = op
        for w in o["acc"]:
            for t in o["acc"][w]:
                before = pre["acc"].get(w, {}).get(t)
                if before is None:
                    continue
                exp = before + (amt if (w == cw and t == tok) else 0)
                if o["acc"][w][t] != exp:
                    out.append(("deposit-accounting", f"{op} at week {cw}: accumulated fees ({w},{t}) {before} -> {o['acc'][w][t]}, expected {exp}"))
        for t in o["bal"]:
            exp = pre["bal"][t] + (amt if (t == tok and nonce == 0) else 0)
            if o["bal"][t] != exp:
                out.append(("deposit-balance", f"{op}: collector balance of token {t} {pre['bal'][t]} -> {o['bal'][t]}, expected {exp}"))
    if k == "Claim":
        _, c, orig, boosted = op
        user = orig if orig is not None else c
        exp = o["expected"]
        got = per_token(o["outs"])
        if got != exp["per_token"]:
            out.append(("claim-share", f"{op} at week {cw}: paid {got}, floor(total*energy/total_energy) over the claimable weeks gives "
                                       f"{exp['per_token']} (progress {pre['prog'].get(user)}, weeks {exp['weeks']})"))
        d = {t: v for t, v in o["ddest"].items() if v != 0}
        if d != got:
            out.append(("claim-balance-delta", f"{op}: receiver's balances moved by {d}, endpoint reported {got}"))
        twice = sorted(set(o["paid_weeks"]) & set(o["claimed_before"]))
        if twice:
            out.append(("week-paid-twice", f"{op}: user {user} is paid again for week(s) {twice}"))
        old = [w for w in o["paid_weeks"] if w < cw - sf.MAX_CLAIM_WEEKS or w >= cw]
        if old:
            out.append(("paid-outside-window", f"{op} at week {cw}: paid for weeks {old}"))
        pg = o["prog"].get(user)
        if pg is not None and pg[3] != cw:
            out.append(("progress-not-advanced", f"{op} at week {cw}: claim progress of {user} is {pg}"))
        # collector pays exactly what it reports, from its own balance, for the fungible tokens
        for t in o["bal"]:
            exp_b = pre["bal"][t] - (got.get(t, 0) if t != 8 else 0)
            if o["bal"][t] != exp_b:
                out.append(("claim-collector-balance", f"{op}: collector balance of token {t} {pre['bal'][t]} -> {o['bal'][t]}, expected {exp_b}"))
    elif k == "UpdateEnergy" and o["ok"]:
        # updateEnergyForUser may only replace the energy of a user who has ALREADY claimed up to the current week: accepting
        # it earlier overwrites the claim progress and forfeits the user's share of the completed weeks still in the window
        tgt = op[2]
        pg = pre["prog"].get(tgt)
        if pg is not None and pg[3] != o["week"]:
            out.append(("update-energy-skips-unclaimed-weeks", f"{op} at week {o['week']} accepted although the claim progress of {tgt} was {pg} (week {pg[3]})"))
        if o["bal"] != pre["bal"]:
            out.append(("balance-moved", f"{op}: collector balances changed {pre['bal']} -> {o['bal']}"))
    elif k != "Deposit":
        if o["bal"] != pre["bal"]:
            out.append(("balance-moved", f"{op}: collector balances changed {pre['bal']} -> {o['bal']}"))
    # ---- never more than collected; always enough to pay
    g = o["ghost"]
    for key, v in g["paid"].items():
        if v > g["deposited"].get(key, 0):
            out.append(("paid-more-than-deposited", f"after {op}: week:token {key} paid {v} > deposited {g['deposited'].get(key, 0)}"))
    for t in (1, 2, 3):
        owed = g["tot_dep"][t] - g["tot_paid"][t]
        if o["bal"][t] < owed:
            out.append(("collector-underfunded", f"after {op}: collector holds {o['bal'][t]} of token {t} but deposits minus payments is {owed}"))
    return out


def pre_acc_for(op, o, pre, w, t):
    """accumulated fees (w, t) just before the week's total was collected; the extra locked tokens of the
    previous week are credited by the same claim right before"""
    a = pre["acc"].get(w, {}).get(t, 0)
    if t == 8 and w == o["week"] - 1:
        sh = o["pre_shadow"]
        if sh["lock_week"] != o["week"]:
            a += sh["per_block"] * sf.BLOCKS_IN_WEEK
    return a


def mag(n):
    return min(9, len(str(n)) // 4)


def nontrivial(cfg, op, o):
    if op[0] != "Claim" or not o["ok"] or not o["outs"]:
        return None
    pre = o["pre"]
    cw = o["week"]
    user = op[2] if op[2] is not None else op[1]
    pg = pre["prog"].get(user)
    exp = o["expected"]
    paid_weeks = [w for w, l in exp["weeks"] if l]
    toks = sorted({t for w, l in exp["weeks"] for t, a in l})
    inexact = False
    expired = False
    sharers = 0
    for w, l in exp["weeks"]:
        e = sf.decayed(pg, w)
        E = pre["energy"].get(w, 0)
        if e == 0 and sf.decayed(pg, pg[3]) > 0:
            expired = True
        for t, a in o["rewards"].get(w, []):
            if E and (a * e) % E:
                inexact = True
        if l:
            sharers = max(sharers, 1 if e == E else 2)
    skipped = max(0, cw - pg[3] - sf.MAX_CLAIM_WEEKS)
    via = "boosted" if op[3] else ("proxy" if op[2] is not None else "self")
    return (len(paid_weeks), min(skipped, 3), tuple(toks), inexact, expired, sharers, via,
            mag(max(a for t, a in o["outs"])), mag(pg[0]) if pg[0] > 0 else -1)


def _gen(args):
    seed, nops = args
    cfg, trace = sf.gen_history(seed, nops)
    return seed, cfg, trace


def explore(tier, seed, model_ok=True, focus=False):
    ex = Exploration()
    ex.rule = RULE
    nh, nops = budgets(tier)
    seeds = [seed * 100000 + i for i in range(nh)]
    hist = []
    with concurrent.futures.ProcessPoolExecutor(max_workers=16) as pool:
        for sd, cfg, trace in pool.map(_gen, [(s, nops) for s in seeds], chunksize=2):
            hist.append((sd, cfg, trace))
    terms = []
    for sd, cfg, trace in hist:
        ex.histories += 1
        ex.evaluations += len(trace)
        for i, (op, o) in enumerate(trace):
            ex.count(op[0] + (":ok" if o["ok"] else ":err"))
            ex.count("ops")
            ex.count("ok" if o["ok"] else "err")
            if not o["ok"]:
                ex.count("err:" + o["msg"][:40])
            if op[0] == "Claim" and o["ok"]:
                ex.count("claim:paid" if o["outs"] else "claim:nothing")
            k = nontrivial(cfg, op, o)
            if k is not None:
                ex.nontrivial.add(k)
            for key, what in monitor(cfg, op, o):
                ex.failures.append(dict(key=key, what=what, replay=dict(cfg=cfg, ops=[t[0] for t in trace[:i + 1]], seed=sd,
                                                                          observed=strip(o))))
        terms.append(sf.coq_history(cfg, trace))
        if len(ex.samples) < 3:
            ex.samples.append(dict(seed=sd, cfg=cfg, ops=[[op, "ok" if o["ok"] else o["msg"], o["outs"]] for op, o in trace[:12]]))
    if model_ok:
        res = coqrun.eval_terms(IMPORTS, terms, tag="C10", per_file=max(1, min(25, len(terms) // 16 + 1)))
        ex.traces_validated = len(res)
        for (sd, cfg, trace), r in zip(hist, res):
            if r:
                i = r[0]
                ex.disagreements.append(dict(where="Run.FeesCollectorRun.check_trace", seed=sd, cfg=cfg, index=i, field=r[1],
                                             model=r[2], impl=r[3], op=trace[i][0], observed=strip(trace[i][1]),
                                             ops=[t[0] for t in trace]))
    return ex


def replay(data):
    rp = data["replay"]
    trace = sf.replay_history(rp["cfg"], rp["ops"])
    fails = []
    for op, o in trace:
        for key, what in monitor(rp["cfg"], op, o):
            fails.append(dict(key=key, what=what))
    return fails
