"""C18 — governance-v2: status from time and tallies; one vote per address; exact fee escrow."""
import concurrent.futures
from math import isqrt
import sys_governance as sg
import coqrun
from framework import Exploration

ASSUMPTIONS = ["A-VM", "A-U64"]
IMPORTS = "Base.Prelude Gen.Params Model.Governance Run.GovernanceRun"
FULL = 10000
NONE, PENDING, ACTIVE, DEFEATED, VETO, SUCCEEDED = 0, 1, 2, 3, 4, 5
KIND_COL = {0: "up", 1: "down", 2: "veto", 3: "abstain"}
RULE = ("scenario generator over real governance-v2 + energy-factory-mock + fees-collector: per proposal a crafted vote multiset "
        "(up vs rest at exactly half / half+-1, veto vs rest at exactly a third / +-1, voters' energy vs the collector's total at "
        "the quorum boundary / +-1, random, single, none) with energies at the bottom/interior/top of a square-root interval, block "
        "heights at delay-1/delay and delay+period-1/delay+period, every order of vote / cancel / withdraw attempts by proposer "
        "and others, configuration changes between proposals, ~13 % malformed / unauthorised / out-of-phase calls; "
        "non-trivial = a decided proposal with votes (status computed from tallies), a successful vote, a fee leaving escrow, or a "
        "rejected repeat; distinct by (kind of event, status, which threshold is tight and on which side, refund split inexact, "
        "caller is proposer, magnitude classes)")


# ------------------------------------------------------------------ the documented status function
def documented_status(block, p):
    """the property text, with rational thresholds (no integer division)"""
    if not p["live"]:
        return NONE
    start = p["start"] + p["delay"]
    end = start + p["period"]
    if block < start:
        return PENDING
    if block < end:
        return ACTIVE
    tot = p["up"] + p["down"] + p["veto"] + p["abstain"]
    quorum_ok = p["quorum"] * FULL >= p["minq"] * p["total"]
    if quorum_ok and 2 * p["up"] > tot and 3 * p["veto"] <= tot:
        return SUCCEEDED
    if 3 * p["veto"] > tot:
        return VETO
    return DEFEATED


def monitor(cfg, op, o):
    out = []
    pre = o["pre"]
    k = op[0]
    ok = o["ok"]
    props, pprops = o["props"], pre["props"]
    # ---- clause 1: status is the documented function of block height and tallies (every proposal, after every op)
    for i, p in enumerate(props):
        exp = documented_status(o["block"], p)
        if p["status"] != exp:
            out.append(("status-function", f"after {op}: getProposalStatus({i + 1}) = {p['status']}, documented function of block "
                        f"{o['block']} / start {p['start']} delay {p['delay']} period {p['period']} / tallies up {p['up']} down {p['down']} "
                        f"veto {p['veto']} abstain {p['abstain']} quorum {p['quorum']} of {p['total']} at {p['minq']} gives {exp}"))
    if o["next"] != NONE:
        out.append(("status-unknown-id", f"after {op}: status of unused id {len(props) + 1} is {o['next']}"))
    # ---- clause 2: one vote per address per proposal, only while active, power sqrt(energy), quorum weight energy
    for u, ids in o["voted"].items():
        if len(set(ids)) != len(ids):
            out.append(("vote-twice-recorded", f"after {op}: getUserVotedProposals({u}) = {ids} has a repeated proposal"))
    for i, pp in enumerate(pprops):
        p = props[i]
        if not p["live"]:
            continue
        changed = [c for c in ("up", "down", "veto", "abstain", "quorum") if p[c] != pp[c]]
        mine = ok and k == "Vote" and op[2] == i + 1
        if changed and not mine:
            out.append(("tally-changed-without-vote", f"{op} ({'ok' if ok else 'failed'}): tallies {changed} of proposal {i + 1} changed"))
    if k == "Vote" and ok:
        _, c, pid, kind = op
        if not (1 <= pid <= len(pprops)):
            out.append(("vote-on-missing-proposal", f"{op} succeeded on an id that does not exist"))
        else:
            pp, p = pprops[pid - 1], props[pid - 1]
            if pp["status"] != ACTIVE:
                out.append(("vote-outside-active", f"{op} succeeded while the proposal's status was {pp['status']}"))
            if pid in pre["voted"].get(c, []):
                out.append(("vote-twice", f"{op} succeeded although {c} had already voted on {pid}"))
            if o["voted"].get(c, []).count(pid) != 1:
                out.append(("vote-not-recorded", f"{op}: voter's voted set is {o['voted'].get(c)}"))
            e = pre["energy"].get(c, 0)
            w = p[KIND_COL[kind]] - pp[KIND_COL[kind]] if kind in KIND_COL else None
            if e <= 0:
                out.append(("vote-without-energy", f"{op} succeeded with energy {e}"))
            if w is None or w < 0 or not (w * w <= e < (w + 1) * (w + 1)):
                out.append(("vote-power-not-sqrt", f"{op}: tally moved by {w}, energy {e}, floor sqrt {isqrt(max(e, 0))}"))
            for kk, col in KIND_COL.items():
                if kk != kind and p[col] != pp[col]:
                    out.append(("vote-wrong-tally", f"{op}: tally {col} moved from {pp[col]} to {p[col]}"))
            if p["quorum"] - pp["quorum"] != e:
                out.append(("vote-quorum-weight", f"{op}: quorum moved by {p['quorum'] - pp['quorum']}, energy {e}"))
    # ---- clause 3: the fee leaves escrow at most once, exact amounts
    dgov = o["bal"][0] - pre["bal"][0]
    dburn = o["burned"] - pre["burned"]
    dusers = {u: o["bal"][u] - pre["bal"][u] for u in o["bal"] if u != 0 and o["bal"][u] != pre["bal"][u]}
    if k == "Cancel" and ok:
        _, c, pid = op
        pp = pprops[pid - 1] if 1 <= pid <= len(pprops) else None
        if pp is None or not pp["live"]:
            out.append(("cancel-missing-proposal", f"{op} succeeded on a missing proposal"))
        else:
            if pp["status"] != PENDING:
                out.append(("cancel-outside-pending", f"{op} succeeded while status was {pp['status']}"))
            if c != pp["proposer"]:
                out.append(("cancel-by-other", f"{op} succeeded, proposer is {pp['proposer']}"))
            if dgov != -pp["fee"] or dusers != {pp["proposer"]: pp["fee"]} or dburn != 0:
                out.append(("cancel-refund", f"{op}: fee {pp['fee']}, contract delta {dgov}, account deltas {dusers}, burned {dburn}"))
            if props[pid - 1]["status"] != NONE:
                out.append(("cancel-not-cleared", f"{op}: status afterwards {props[pid - 1]['status']}"))
    elif k == "Withdraw" and ok:
        _, c, pid = op
        pp = pprops[pid - 1] if 1 <= pid <= len(pprops) else None
        if pp is None or not pp["live"]:
            out.append(("withdraw-missing-proposal", f"{op} succeeded on a missing proposal"))
        else:
            st = pp["status"]
            # block unchanged by the call, so the documented status before the call decides the case
            if pp["withdrawn"]:
                out.append(("withdraw-twice", f"{op} succeeded although the fee had been withdrawn"))
            if st in (SUCCEEDED, DEFEATED):
                if c != pp["proposer"]:
                    out.append(("withdraw-by-other", f"{op} succeeded on status {st}, proposer is {pp['proposer']}"))
                if dgov != -pp["fee"] or dusers != {pp["proposer"]: pp["fee"]} or dburn != 0:
                    out.append(("withdraw-full-refund", f"{op}: fee {pp['fee']}, contract delta {dgov}, account deltas {dusers}, burned {dburn}"))
            elif st == VETO:
                refund = pp["wpct"] * pp["fee"] // FULL
                exp_users = {pp["proposer"]: refund} if refund else {}
                if dgov != -pp["fee"] or dusers != exp_users or dburn != pp["fee"] - refund:
                    out.append(("withdraw-veto-split", f"{op}: fee {pp['fee']} at {pp['wpct']}/10000: expected refund {refund} and burn "
                                f"{pp['fee'] - refund}; contract delta {dgov}, account deltas {dusers}, burned {dburn}"))
            else:
                out.append(("withdraw-outside-final", f"{op} succeeded while status was {st}"))
            if not props[pid - 1]["withdrawn"]:
                out.append(("withdraw-not-marked", f"{op}: fee_withdrawn still false"))
    elif k == "Propose" and ok:
        _, c, tok, amt, nact, gas = op
        if dgov != amt or dusers != {c: -amt} or dburn != 0:
            out.append(("propose-escrow", f"{op}: contract delta {dgov}, account deltas {dusers}, burned {dburn}"))
    elif k == "Donate" and ok:
        pass
    else:
        if dgov != 0 or dusers or dburn != 0:
            out.append(("fee-moved-without-cause", f"{op} ({'ok' if ok else 'failed'}): contract delta {dgov}, account deltas {dusers}, burned {dburn}"))
    escrow = sum(p["fee"] for p in props if p["live"] and not p["withdrawn"])
    if o["bal"][0] != escrow + o["donated"]:
        out.append(("escrow-backing", f"after {op}: contract holds {o['bal'][0]}, un-withdrawn fees {escrow} + donations {o['donated']}"))
    if not ok and o.get("unchanged") is False:
        out.append(("failed-tx-changed-state", f"{op} failed but the contract's storage/balances changed"))
    return out


def mag(n):
    return min(9, len(str(n)) // 4)


def nontrivial(cfg, op, o):
    pre = o["pre"]
    k = op[0]
    props, pprops = o["props"], pre["props"]
    if k == "Block" and o["ok"]:
        # a proposal becomes decided: which thresholds are tight
        keys = []
        for i, p in enumerate(props):
            if i < len(pprops) and pprops[i]["status"] in (PENDING, ACTIVE) and p["status"] in (DEFEATED, VETO, SUCCEEDED):
                tot = p["up"] + p["down"] + p["veto"] + p["abstain"]
                if tot == 0:
                    keys.append(("decided", p["status"], "novotes"))
                    continue
                h = 2 * p["up"] - tot
                t = 3 * p["veto"] - tot
                q = p["quorum"] * FULL - p["minq"] * p["total"]
                side = lambda x, unit: 0 if x == 0 else (1 if 0 < x <= unit else (-1 if -unit <= x < 0 else (2 if x > 0 else -2)))
                keys.append(("decided", p["status"], side(h, 2), side(t, 3), side(q, p["minq"] + FULL), tot % 2, tot % 3, mag(tot)))
        return tuple(keys) if keys else None
    if k == "Vote":
        if o["ok"]:
            pid, kind = op[2], op[3]
            e = pre["energy"].get(op[1], 0)
            r = isqrt(e)
            pos = "low" if r * r == e else ("top" if (r + 1) ** 2 - 1 == e else "mid")
            return ("vote", kind, pos, pprops[pid - 1]["quorum"] == 0, mag(e))
        pid = op[2]
        if 1 <= pid <= len(pprops) and op[3] in KIND_COL:
            return ("vote-rejected", pprops[pid - 1]["status"], pid in pre["voted"].get(op[1], []), pre["energy"].get(op[1], 0) == 0)
        return None
    if k in ("Cancel", "Withdraw"):
        pid = op[2]
        if not (1 <= pid <= len(pprops)):
            return None
        pp = pprops[pid - 1]
        inexact = (pp["wpct"] * pp["fee"]) % FULL != 0
        return (k, o["ok"], pp["status"], op[1] == pp["proposer"], bool(pp["withdrawn"]),
                inexact if pp["status"] == VETO else None, pp["wpct"] in (0, FULL) if pp["status"] == VETO else None)
    return None


# the history of Example C18_nonvacuous (coq/Props/C18.v), replayed on the real contracts in every run
C18_FEE = 3000000000000000000000007
CORPUS = [dict(name="C18_nonvacuous",
               cfg=dict(min_energy=0, min_fee=C18_FEE, quorum=1000, delay=5, period=14400, wpct=3333, block0=10,
                        bals={1: 3 * C18_FEE, 2: 3 * C18_FEE, 3: 3 * C18_FEE, 4: 0}),
               ops=[["SetEnergy", 1, 100], ["SetEnergy", 2, 81], ["SetEnergy", 3, 17], ["SetEnergy", 4, 400], ["Sync", 1], ["Sync", 2],
                    ["Propose", 1, 1, C18_FEE, 0, 0], ["Cancel", 2, 1], ["Cancel", 1, 1], ["Cancel", 1, 1],
                    ["Propose", 1, 1, C18_FEE, 1, 1000], ["Propose", 2, 1, C18_FEE, 0, 0], ["Propose", 3, 1, C18_FEE, 0, 0],
                    ["Vote", 1, 2, 0], ["Block", 5], ["Vote", 1, 2, 0], ["Vote", 1, 2, 1], ["Vote", 2, 2, 1],
                    ["Vote", 3, 3, 2], ["Vote", 4, 4, 0], ["SetEnergy", 1, 50], ["Vote", 1, 3, 0],
                    ["SetEnergy", 2, 400], ["Vote", 2, 4, 1], ["Vote", 4, 4, 1],
                    ["Withdraw", 1, 2], ["Block", 14400],
                    ["Withdraw", 2, 2], ["Withdraw", 1, 2], ["Withdraw", 1, 2],
                    ["Withdraw", 4, 3], ["Withdraw", 2, 3],
                    ["Withdraw", 1, 4], ["Withdraw", 3, 4], ["Cancel", 3, 4]])]


def _gen(args):
    seed, nops = args
    cfg, trace = sg.gen_history(seed, nops)
    return seed, cfg, trace


def budgets(tier):
    return (48, 40) if tier == "quick" else (1600, 60)


def strip(o):
    return {k: v for k, v in o.items() if k != "pre"}


def explore(tier, seed, model_ok=True, focus=False):
    ex = Exploration()
    ex.rule = RULE
    nh, nops = budgets(tier)
    seeds = [seed * 100000 + i for i in range(nh)]
    hist = []
    for c in CORPUS:
        hist.append((("corpus", c["name"]), c["cfg"], sg.replay_history(c["cfg"], c["ops"])))
    with concurrent.futures.ProcessPoolExecutor(max_workers=16) as pool:
        for sd, cfg, trace in pool.map(_gen, [(s, nops) for s in seeds], chunksize=4):
            hist.append((sd, cfg, trace))
    terms = []
    for sd, cfg, trace in hist:
        ex.histories += 1
        ex.evaluations += len(trace)
        ops = [t[0] for t in trace]
        for i, (op, o) in enumerate(trace):
            ex.count(op[0] + (":ok" if o["ok"] else ":err"))
            ex.count("ops:ok" if o["ok"] else "ops:err")
            if not o["ok"]:
                ex.count("err:" + o["msg"][:40])
            kk = nontrivial(cfg, op, o)
            if kk is not None:
                ex.nontrivial.add(kk)
                if op[0] == "Block":
                    for dk in kk:
                        ex.count(f"decided:status{dk[1]}" + (":tight" if 0 in dk[2:5] or 1 in dk[2:5] or -1 in dk[2:5] else ""))
                        for nm, v in zip(("half", "third", "quorum"), dk[2:5]):
                            if v in (0, 1, -1):
                                ex.count(f"boundary:{nm}:{'exact' if v == 0 else ('above' if v > 0 else 'below')}")
                elif op[0] in ("Cancel", "Withdraw") and o["ok"]:
                    ex.count(f"{op[0]}:ok:status{kk[2]}" + (":inexact-split" if kk[5] else ""))
            for key, what in monitor(cfg, op, o):
                ex.failures.append(dict(key=key, what=what, replay=dict(cfg=cfg, ops=ops[:i + 1], seed=sd, observed=strip(o))))
        terms.append(sg.coq_history(cfg, trace))
        if len(ex.samples) < 3:
            ex.samples.append(dict(seed=sd, cfg=cfg, ops=[[op, "ok" if o["ok"] else o["msg"], [p["status"] for p in o["props"]]]
                                                          for op, o in trace[:14]]))
    if model_ok:
        res = coqrun.eval_terms(IMPORTS, terms, tag="C18", per_file=max(1, min(25, len(terms) // 16 + 1)))
        ex.traces_validated = len(res)
        for (sd, cfg, trace), r in zip(hist, res):
            if r:
                i = r[0]
                ex.disagreements.append(dict(where="Run.GovernanceRun.check_trace", seed=sd, cfg=cfg, index=i, field=r[1],
                                             model=r[2], impl=r[3], op=trace[i][0], observed=strip(trace[i][1]),
                                             ops=[t[0] for t in trace]))
    return ex


def replay(data):
    rp = data["replay"]
    trace = sg.replay_history(rp["cfg"], rp["ops"])
    fails = []
    for op, o in trace:
        for key, what in monitor(rp["cfg"], op, o):
            fails.append(dict(key=key, what=what))
    return fails
