"""farm-staking as a whole (closed model Model/StakingFull.v, world tools/sys_staking_full.py): exploration driver and
the monitors that only the composition can state, evaluated on REAL observations:

  slink-*                the staking farm's side of the boosted money (cuts taken out of the capacity-/APR-bounded accruals,
                         as the reward-per-share growth, the accumulated rewards and the reserve show them, minus the boosted
                         part of every reward payment as the position's attributes give it) against the boosted module's
                         books (sum over weeks of accumulated + remaining, + undistributed);
  sreserve-covers-*      C05: the reported reserve covers every claimable base reward (floor form and un-floored) plus the
                         ACTUAL weekly pools;
  sbalance-itemised      C12: staking-token balance = directly staked principal + outstanding unbond amounts + un-accrued
                         capacity + claimable-or-unassigned base share + every weekly pool + undistributed (+ donations);
  snegative-counter:*    C05 last clause / C11_staking_no_underflow: no stake / claim / compound / unstake / merge /
                         claimBoosted / unbond fails because a counter (reserve, supply, user total, remaining(week), bucket,
                         total energy, capacity) would go negative;
  sweek-*                per week: payments never exceed the frozen pool, remaining = pool - payments, positions / energies
                         used by a week's settlements plus those still claimable stay within the week's totals.
The model is used by the correspondence run only (Run/StakingFullRun.v check_trace)."""
import concurrent.futures
import sys_staking_pos as sp
import sys_boosted as sb
import sys_staking_full as sx
import coqrun
from framework import Exploration
from props import staking_pos_common as spc

IMPORTS = ("Base.Prelude Gen.Params Model.Weekly Model.Boosted Model.BoostedHosts Model.Staking Model.StakingPos Model.StakingFull "
           "Run.StakingPosRun Run.BoostedRun Run.StakingFullRun")
MAXP = 10000
USER_OPS = sx.USER_OPS
PAY_OPS = spc.PAY_OPS
RULE = ("closed farm-staking: the stateful mostly-valid generator of tools/sys_staking_pos.py (stake with merge, claim, compound with "
        "merge, partial unstake, unbond, merge, claimBoosted, position / unbond-token transfers followed by the receiver using the "
        "position, the whitelisted proxy acting for an original caller with virtual principal / new value / tokens sent along, "
        "top-up / withdraw / APR / rate / start / end / percentage / pause, donations, block / epoch jumps, malformed share) with "
        "boosted yields on, extended by energy entries of every class at the factory, week changes followed by holders (and the "
        "proxy for an original caller) settling, transfers in the new week followed by the receiver using the received position "
        "(optionally after the sender settled), factor changes right after a week change or configured late, "
        "collectUndistributedBoostedRewards by admin / non-admin, updateEnergyForUser; the operation carries only the caller's "
        "arguments and the factory's stored energy entry; DSC in {1,10,1e6,1e12,1e18}, max APR 1..1e18; non-trivial = successful "
        "user operation with a boosted payout, a settlement that books a slice, or a collect that sweeps a non-empty week; "
        "distinct by (op, weeks paid, received position, proxy, magnitudes)")


def _gen(args):
    seed, nops = args
    return (seed,) + tuple(sx.gen_history(seed, nops))


def budgets(tier):
    return (48, 40) if tier == "quick" else (1200, 60)


def strip(o):
    d = {k: v for k, v in o.items() if k not in ("pre", "pos", "ub", "held", "ubheld", "attrs", "ubattrs", "m")}
    if "m" in o:
        d["m"] = {k: v for k, v in o["m"].items() if k not in ("pre", "owner_of", "held")}
    return d


payments_of = spc.payments_of
orig_caller = spc.orig_caller


def module_pools(m):
    return m["und"] + sum(m["acc"].values()) + sum(m["rem"].values())


def boosted_part(cfg, op, o):
    """boosted part of what the staking farm paid in this operation, from the STAKING side: the separately returned boosted
    payment (stake / merge / claimBoosted), or the reward minus the base reward the position's attributes give"""
    k = op[0]
    if k in ("Stake", "StakeProxy", "Merge"):
        return o["outs"][2]
    if k == "ClaimBoosted":
        return o["outs"][0]
    if k in PAY_OPS:
        n, x = payments_of(op)[0]
        a = o["pre"]["attrs"].get(n)
        if not a:
            return None
        base = x * (o["rps"] - a[0]) // cfg["dsc"] if o["rps"] > a[0] else 0
        return o["left"] - base
    return 0


# ------------------------------------------------------------------ monitors
def monitors_link(cfg, op, o):
    out = []
    k = op[0]
    if not o["ok"]:
        return out
    m, pm, pre, pc = o["m"], o["m"]["pre"], o["pre"], o["pre_cfg"]
    cw = m["week"]
    em = o["emission"]
    cut = em * pc["pct"] // MAXP if (pc["pct"] > 0 and pc["factors"]) else 0
    # (1) the module books exactly the slice the staking farm cuts out of this settlement's accrual, in the running week
    if k != "Time" and m["cut"] != cut:
        out.append((f"slink-slice:{k}", f"{op} at week {cw}: accumulated({cw}) grew by {m['cut']}, the settlement's accrual {em} * {pc['pct']} / 10000 = {cut} (factors set: {pc['factors']})"))
    # ... the accrual is what the capacity counter shows, and the farm distributes exactly the rest
    if o["settles"]:
        if o["acc"] - pre["acc"] != em:
            out.append((f"slink-accrual:{k}", f"{op}: accumulated rewards +{o['acc'] - pre['acc']}, accrual of the settlement {em}"))
        inc = (em - m["cut"]) * cfg["dsc"] // pre["supply"] if (pre["supply"] > 0 and em > 0) else 0
        if o["rps"] - pre["rps"] != inc:
            out.append((f"slink-base-share:{k}", f"{op}: reward per share +{o['rps'] - pre['rps']}, (accrual {em} - booked slice {m['cut']}) * DSC / supply {pre['supply']} = {inc}"))
    # (2) staking-side pool movement = module-side pool movement
    bp = boosted_part(cfg, op, o)
    if bp is not None:
        d_mod = module_pools(m) - module_pools(pm)
        if d_mod != cut - bp:
            out.append((f"slink-pool-delta:{k}", f"{op}: weekly pools + undistributed moved by {d_mod}, staking side: slice {cut} - boosted part of the payment {bp}"))
        if bp != m["b"]:
            out.append((f"slink-boosted-payment:{k}", f"{op}: boosted part of the staking farm's payment {bp} != decrease of the completed weeks' pools {m['b']}"))
        if bp < 0:
            out.append((f"slink-negative-boosted:{k}", f"{op}: boosted part {bp}"))
    # (3) reserve movement: + accrual - everything paid (compounded rewards leave the reserve too)
    if o["reserve"] - pre["reserve"] != em - o.get("left", 0):
        out.append((f"slink-reserve-delta:{k}", f"{op}: reserve {pre['reserve']} -> {o['reserve']}, accrual {em}, paid {o.get('left', 0)}"))
    return out


def monitors_c05(cfg, op, o):
    out = []
    k = op[0]
    if not o["ok"]:
        msg = o["msg"].lower()
        if k in USER_OPS + ("Unbond",) and ("cannot subtract because result would be negative" in msg or "panic" in msg or "overflow" in msg or "division" in msg):
            out.append((f"snegative-counter:{k}", f"{op} (week {o['m']['week']}) failed with '{o['msg']}'"))
        return out
    m = o["m"]
    pools = module_pools(m)
    dsc = cfg["dsc"]
    if pools > o["reserve"]:
        out.append(("sreserve-covers-pools", f"after {op}: weekly pools + undistributed {pools} > reserve {o['reserve']}"))
    unfl, fl = 0, 0
    for (n, h), v in o["held"].items():
        a = o["attrs"].get(n)
        if v and a:
            unfl += v * max(0, o["rps"] - a[0])
            fl += v * max(0, o["rps"] - a[0]) // dsc
    if unfl > dsc * (o["reserve"] - pools):
        out.append(("sreserve-covers-claims", f"after {op}: claimable {unfl} > DSC * (reserve {o['reserve']} - weekly pools {pools})"))
    if fl + pools > o["reserve"]:
        out.append(("sreserve-covers-claims-floor", f"after {op}: claimable base rewards {fl} + weekly pools {pools} > reserve {o['reserve']}"))
    if o["reserve"] != o["acc"] - o["paid"]:
        out.append(("sreserve-vs-accrued-minus-paid", f"after {op}: reserve {o['reserve']} != accrued {o['acc']} - paid {o['paid']}"))
    return out


def monitors_c12(cfg, op, o):
    """C12's balance identity with the boosted pools itemised week by week"""
    out = []
    if not o["ok"]:
        return out
    m = o["m"]
    pools = module_pools(m)
    base_share = o["reserve"] - pools
    ident = (o["supply"] - o["virt"]) + o["ubtot"] + (o["cap"] - o["acc"]) + base_share + pools + o["donated"]
    if o["bal"] != ident or base_share < 0:
        out.append(("sbalance-itemised", f"after {op}: balance {o['bal']} != principal {o['supply'] - o['virt']} + unbond {o['ubtot']} + unaccrued {o['cap'] - o['acc']} "
                                         f"+ base share {base_share} + weekly pools and undistributed {pools} + donated {o['donated']}"))
    if o["acc"] > o["cap"]:
        out.append(("saccrued-exceeds-capacity", f"after {op}: accumulated {o['acc']} > capacity {o['cap']}"))
    if o["settles"]:
        sh, pre = o["pre_cfg"], o["pre"]
        d = o["blk"] - sh["last"]
        if d > 0 and o["emission"] > (pre["supply"] * sh["apr"] // MAXP // sx.BLOCKS_IN_YEAR) * d:
            out.append(("saccrual-exceeds-apr", f"{op}: accrual {o['emission']} over {d} blocks > APR bound of supply {pre['supply']}"))
    return out


def monitors_c11(cfg, op, o):
    out = []
    if not o["ok"]:
        return out
    m = o["m"]
    led = o["ledger"]
    swept_to = m["lastcol"]
    for w, R in led["frozen"].items():
        p = led["paid"].get(w, 0)
        if p > R:
            out.append(("sweek-overpaid", f"after {op}: week {w} paid {p} in total > frozen pool {R}"))
        if w > swept_to and m["rem"].get(w, 0) != R - p:
            out.append(("sweek-remaining", f"after {op}: remaining({w}) = {m['rem'].get(w, 0)}, pool {R} - paid {p} = {R - p}"))
    for w, p in led["paid"].items():
        if p and w not in led["frozen"]:
            out.append(("sweek-paid-unfrozen", f"after {op}: week {w} paid {p}, its pool was never frozen"))
    # C11_staking_no_underflow (Proofs/StakingFullProofs.v gn_FI / FarmFullProofs.v e_EI on real observations): for every week of the claim
    # window that has a pool, the positions / energies its settlements were computed with so far, plus those of the recorded
    # users who can still claim it (claim progress at or before the week), stay within the week's farm supply / total energy
    cw = m["week"]
    for w in range(max(1, cw - sb.MAX_CLAIM_WEEKS), cw):
        rw = m["rewards"].get(w)
        R = rw[0] if rw else m["acc"].get(w, 0)
        F, E = m["sup"].get(w, 0), m["energy"].get(w, 0)
        if not R:
            continue
        pend = [(u, pg) for u, pg in m["prog"].items() if pg and pg[3] <= w]
        if F:
            tot = led["used_f"].get(w, 0) + sum(o["utot"].get(u, 0) for u, _ in pend)
            if tot > F:
                out.append(("sweek-oversubscribed:position", f"after {op} (week {cw}): week {w} pool {R}: positions used {led['used_f'].get(w, 0)} + still claimable {tot - led['used_f'].get(w, 0)} > farm supply of the week {F}"))
        if E:
            tot = led["used_e"].get(w, 0) + sum(sb.decayed(pg, w) for _, pg in pend)
            if tot > E:
                out.append(("sweek-oversubscribed:energy", f"after {op} (week {cw}): week {w}: energies used {led['used_e'].get(w, 0)} + still claimable {tot - led['used_e'].get(w, 0)} > total energy of the week {E}"))
    return out


def monitors_all(cfg, op, o):
    return monitors_link(cfg, op, o) + monitors_c05(cfg, op, o) + monitors_c12(cfg, op, o) + monitors_c11(cfg, op, o)


def monitors_for_c05(cfg, op, o):
    """what C05 adds from the closed staking farm: link of the staking farm's money to the module's books, reserve covers
    claims + the actual weekly pools, no legitimate user operation fails on a negative counter"""
    return monitors_link(cfg, op, o) + monitors_c05(cfg, op, o)


def monitors_for_c11(cfg, op, o):
    """what C11 adds from the closed staking farm: per-week payments within the pool, positions / energies of a week's
    settlements within the week's totals (C11_staking_no_underflow), no user operation aborts on remaining(week), the
    module books exactly the staking farm's slice and pays exactly what the staking farm hands out"""
    return (monitors_c11(cfg, op, o) + [x for x in monitors_c05(cfg, op, o) if x[0].startswith("snegative-counter")]
            + [x for x in monitors_link(cfg, op, o) if x[0].startswith(("slink-slice", "slink-boosted-payment", "slink-pool-delta"))])


def monitors_for_c12(cfg, op, o):
    """what C12 adds from the closed staking farm: the balance identity with the weekly pools itemised, accrual within
    capacity and the APR bound, the accrual split exactly into base share and booked slice"""
    return (monitors_c12(cfg, op, o)
            + [x for x in monitors_link(cfg, op, o) if x[0].startswith(("slink-accrual", "slink-base-share", "slink-slice", "slink-reserve-delta"))]
            + [x for x in monitors_c05(cfg, op, o) if x[0].startswith(("snegative-counter", "sreserve-covers-pools"))])


def nontrivial_all(cfg, op, o):
    if not o["ok"]:
        return None
    k = op[0]
    m = o["m"]
    mag = len(str(max(1, o["supply"]))) // 5
    if k in USER_OPS and m["b"] > 0:
        pre_at = o["pre"]["attrs"]
        u = orig_caller(op)
        foreign = any(pre_at.get(n) and pre_at[n][3] != u for n, _ in payments_of(op))
        return ("sfull", k, len(m["paid"]), foreign, op[1] == sx.PROXY, cfg["dsc"], mag)
    if k == "Collect" and m["und"] > m["pre"]["und"]:
        return ("sfull", k, m["lastcol"] - m["pre"]["lastcol"])
    if m["cut"] > 0:
        return ("sfull-slice", k, cfg["dsc"], mag, o["emission"] == o["pre"]["cap"] - o["pre"]["acc"])
    return None


# ------------------------------------------------------------------ exploration
def explore_staking_full(pid, tier, seed, monitor=monitors_all, nontrivial=nontrivial_all, rule=RULE, model_ok=True, focus=False, scale=1.0,
                         gen=None, nh=None, nops=None):
    ex = Exploration()
    ex.rule = rule
    bh, bo = budgets(tier)
    nh = nh or max(8, int(bh * scale))
    nops = nops or bo
    seeds = [seed * 100000 + 80000 + i for i in range(nh)]
    hist = []
    with concurrent.futures.ProcessPoolExecutor(max_workers=16) as pool:
        for sd, cfg, trace in pool.map(gen or _gen, [(s, nops) for s in seeds], chunksize=4):
            hist.append((sd, cfg, trace))
    terms = []
    for sd, cfg, trace in hist:
        tr = [(op, o) for op, o in trace if o is not None]
        ex.histories += 1
        ex.evaluations += len(tr)
        ops_all = [t[0] for t in trace]
        for idx, (op, o) in enumerate(trace):
            if o is None:
                continue
            ex.count("sfull:" + op[0] + (":ok" if o["ok"] else ":err"))
            ex.count("sfull:ops-ok" if o["ok"] else "sfull:ops-err")
            if not o["ok"]:
                ex.count("sfull-err:" + o["msg"][:40])
            else:
                m = o["m"]
                if m["b"] > 0:
                    ex.count("sfull:boosted-payout>0")
                    if len(m["paid"]) > 1:
                        ex.count("sfull:boosted-payout-several-weeks")
                    pre_at = o["pre"]["attrs"]
                    if any(pre_at.get(n) and pre_at[n][3] != orig_caller(op) for n, _ in payments_of(op)):
                        ex.count("sfull:boosted-payout-with-received-position")
                    if op[1] == sx.PROXY:
                        ex.count("sfull:boosted-payout-through-proxy")
                if m["cut"] > 0:
                    ex.count("sfull:slice-booked")
                    if o["emission"] == o["pre"]["cap"] - o["pre"]["acc"]:
                        ex.count("sfull:slice-of-capacity-bounded-accrual")
                if o.get("left", 0) > o.get("b", 0):
                    ex.count("sfull:base-reward>0")
                if op[0] == "Collect" and m["und"] > m["pre"]["und"]:
                    ex.count("sfull:collect-swept>0")
                if any(r and not m["pre"]["rewards"].get(w) for w, r in m["rewards"].items()):
                    ex.count("sfull:week-frozen")
            k = nontrivial(cfg, op, o)
            if k is not None:
                ex.nontrivial.add(k)
            for key, what in monitor(cfg, op, o):
                ex.failures.append(dict(key=key, what=what, replay=dict(system="staking-full", cfg=cfg, ops=ops_all[:idx + 1], seed=sd, observed=strip(o))))
        terms.append(sx.coq_history(cfg, tr))
        if len(ex.samples) < 3:
            ex.samples.append(dict(seed=sd, cfg=cfg, ops=[[op, "ok" if o["ok"] else o["msg"], o["outs"]] for op, o in tr[:12]]))
    if model_ok:
        res = coqrun.eval_terms(IMPORTS, terms, tag=pid + "sf", per_file=max(1, min(8, len(terms) // 16 + 1)))
        ex.traces_validated = len(res)
        for (sd, cfg, trace), r in zip(hist, res):
            if r:
                tr = [(op, o) for op, o in trace if o is not None]
                i = r[0]
                ex.disagreements.append(dict(where="Run.StakingFullRun.check_trace", seed=sd, cfg=cfg, index=i, field=r[1],
                                             model=r[2], impl=r[3], op=tr[i][0], observed=strip(tr[i][1]),
                                             ops=[t[0] for t in trace]))
    return ex


def replay_staking_full(data, monitor=monitors_all):
    rp = data["replay"]
    trace = sx.replay_history(rp["cfg"], rp["ops"])
    fails = []
    for op, o in trace:
        if o is None:
            continue
        for key, what in monitor(rp["cfg"], op, o):
            fails.append(dict(key=key, what=what))
    return fails


def merge_exploration(ex, ex2):
    """fold a closed-staking exploration into a property's main exploration"""
    ex.evaluations += ex2.evaluations
    ex.histories += ex2.histories
    ex.nontrivial |= ex2.nontrivial
    ex.failures += ex2.failures
    ex.disagreements += ex2.disagreements
    ex.traces_validated += ex2.traces_validated
    ex.samples += ex2.samples[:1]
    for k, v in ex2.counters.items():
        ex.counters[k] = ex.counters.get(k, 0) + v
    return ex
